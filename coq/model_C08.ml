
(** val negb : bool -> bool **)

let negb = function
| true -> false
| false -> true

type nat =
| O
| S of nat

(** val fst : ('a1 * 'a2) -> 'a1 **)

let fst = function
| (x, _) -> x

(** val snd : ('a1 * 'a2) -> 'a2 **)

let snd = function
| (_, y) -> y

(** val length : 'a1 list -> nat **)

let rec length = function
| [] -> O
| _ :: l' -> S (length l')

(** val app : 'a1 list -> 'a1 list -> 'a1 list **)

let rec app l m =
  match l with
  | [] -> m
  | a :: l1 -> a :: (app l1 m)

type comparison =
| Eq
| Lt
| Gt

module Coq__1 = struct
 (** val add : nat -> nat -> nat **)
 let rec add n0 m =
   match n0 with
   | O -> m
   | S p -> S (add p m)
end
include Coq__1

(** val eqb : nat -> nat -> bool **)

let rec eqb n0 m =
  match n0 with
  | O -> (match m with
          | O -> true
          | S _ -> false)
  | S n' -> (match m with
             | O -> false
             | S m' -> eqb n' m')

type positive =
| XI of positive
| XO of positive
| XH

type n =
| N0
| Npos of positive

module Pos =
 struct
  type mask =
  | IsNul
  | IsPos of positive
  | IsNeg
 end

module Coq_Pos =
 struct
  (** val succ : positive -> positive **)

  let rec succ = function
  | XI p -> XO (succ p)
  | XO p -> XI p
  | XH -> XO XH

  (** val add : positive -> positive -> positive **)

  let rec add x y =
    match x with
    | XI p ->
      (match y with
       | XI q -> XO (add_carry p q)
       | XO q -> XI (add p q)
       | XH -> XO (succ p))
    | XO p ->
      (match y with
       | XI q -> XI (add p q)
       | XO q -> XO (add p q)
       | XH -> XI p)
    | XH -> (match y with
             | XI q -> XO (succ q)
             | XO q -> XI q
             | XH -> XO XH)

  (** val add_carry : positive -> positive -> positive **)

  and add_carry x y =
    match x with
    | XI p ->
      (match y with
       | XI q -> XI (add_carry p q)
       | XO q -> XO (add_carry p q)
       | XH -> XI (succ p))
    | XO p ->
      (match y with
       | XI q -> XO (add_carry p q)
       | XO q -> XI (add p q)
       | XH -> XO (succ p))
    | XH ->
      (match y with
       | XI q -> XI (succ q)
       | XO q -> XO (succ q)
       | XH -> XI XH)

  (** val pred_double : positive -> positive **)

  let rec pred_double = function
  | XI p -> XI (XO p)
  | XO p -> XI (pred_double p)
  | XH -> XH

  type mask = Pos.mask =
  | IsNul
  | IsPos of positive
  | IsNeg

  (** val succ_double_mask : mask -> mask **)

  let succ_double_mask = function
  | IsNul -> IsPos XH
  | IsPos p -> IsPos (XI p)
  | IsNeg -> IsNeg

  (** val double_mask : mask -> mask **)

  let double_mask = function
  | IsPos p -> IsPos (XO p)
  | x0 -> x0

  (** val double_pred_mask : positive -> mask **)

  let double_pred_mask = function
  | XI p -> IsPos (XO (XO p))
  | XO p -> IsPos (XO (pred_double p))
  | XH -> IsNul

  (** val sub_mask : positive -> positive -> mask **)

  let rec sub_mask x y =
    match x with
    | XI p ->
      (match y with
       | XI q -> double_mask (sub_mask p q)
       | XO q -> succ_double_mask (sub_mask p q)
       | XH -> IsPos (XO p))
    | XO p ->
      (match y with
       | XI q -> succ_double_mask (sub_mask_carry p q)
       | XO q -> double_mask (sub_mask p q)
       | XH -> IsPos (pred_double p))
    | XH -> (match y with
             | XH -> IsNul
             | _ -> IsNeg)

  (** val sub_mask_carry : positive -> positive -> mask **)

  and sub_mask_carry x y =
    match x with
    | XI p ->
      (match y with
       | XI q -> succ_double_mask (sub_mask_carry p q)
       | XO q -> double_mask (sub_mask p q)
       | XH -> IsPos (pred_double p))
    | XO p ->
      (match y with
       | XI q -> double_mask (sub_mask_carry p q)
       | XO q -> succ_double_mask (sub_mask_carry p q)
       | XH -> double_pred_mask p)
    | XH -> IsNeg

  (** val mul : positive -> positive -> positive **)

  let rec mul x y =
    match x with
    | XI p -> add y (XO (mul p y))
    | XO p -> XO (mul p y)
    | XH -> y

  (** val iter : ('a1 -> 'a1) -> 'a1 -> positive -> 'a1 **)

  let rec iter f x = function
  | XI n' -> f (iter f (iter f x n') n')
  | XO n' -> iter f (iter f x n') n'
  | XH -> f x

  (** val pow : positive -> positive -> positive **)

  let pow x =
    iter (mul x) XH

  (** val compare_cont : comparison -> positive -> positive -> comparison **)

  let rec compare_cont r x y =
    match x with
    | XI p ->
      (match y with
       | XI q -> compare_cont r p q
       | XO q -> compare_cont Gt p q
       | XH -> Gt)
    | XO p ->
      (match y with
       | XI q -> compare_cont Lt p q
       | XO q -> compare_cont r p q
       | XH -> Gt)
    | XH -> (match y with
             | XH -> r
             | _ -> Lt)

  (** val compare : positive -> positive -> comparison **)

  let compare =
    compare_cont Eq

  (** val eqb : positive -> positive -> bool **)

  let rec eqb p q =
    match p with
    | XI p0 -> (match q with
                | XI q0 -> eqb p0 q0
                | _ -> false)
    | XO p0 -> (match q with
                | XO q0 -> eqb p0 q0
                | _ -> false)
    | XH -> (match q with
             | XH -> true
             | _ -> false)

  (** val iter_op : ('a1 -> 'a1 -> 'a1) -> positive -> 'a1 -> 'a1 **)

  let rec iter_op op p a =
    match p with
    | XI p0 -> op a (iter_op op p0 (op a a))
    | XO p0 -> iter_op op p0 (op a a)
    | XH -> a

  (** val to_nat : positive -> nat **)

  let to_nat x =
    iter_op Coq__1.add x (S O)

  (** val of_succ_nat : nat -> positive **)

  let rec of_succ_nat = function
  | O -> XH
  | S x -> succ (of_succ_nat x)
 end

module N =
 struct
  (** val succ_double : n -> n **)

  let succ_double = function
  | N0 -> Npos XH
  | Npos p -> Npos (XI p)

  (** val double : n -> n **)

  let double = function
  | N0 -> N0
  | Npos p -> Npos (XO p)

  (** val add : n -> n -> n **)

  let add n0 m =
    match n0 with
    | N0 -> m
    | Npos p -> (match m with
                 | N0 -> n0
                 | Npos q -> Npos (Coq_Pos.add p q))

  (** val sub : n -> n -> n **)

  let sub n0 m =
    match n0 with
    | N0 -> N0
    | Npos n' ->
      (match m with
       | N0 -> n0
       | Npos m' ->
         (match Coq_Pos.sub_mask n' m' with
          | Coq_Pos.IsPos p -> Npos p
          | _ -> N0))

  (** val mul : n -> n -> n **)

  let mul n0 m =
    match n0 with
    | N0 -> N0
    | Npos p -> (match m with
                 | N0 -> N0
                 | Npos q -> Npos (Coq_Pos.mul p q))

  (** val compare : n -> n -> comparison **)

  let compare n0 m =
    match n0 with
    | N0 -> (match m with
             | N0 -> Eq
             | Npos _ -> Lt)
    | Npos n' -> (match m with
                  | N0 -> Gt
                  | Npos m' -> Coq_Pos.compare n' m')

  (** val eqb : n -> n -> bool **)

  let eqb n0 m =
    match n0 with
    | N0 -> (match m with
             | N0 -> true
             | Npos _ -> false)
    | Npos p -> (match m with
                 | N0 -> false
                 | Npos q -> Coq_Pos.eqb p q)

  (** val leb : n -> n -> bool **)

  let leb x y =
    match compare x y with
    | Gt -> false
    | _ -> true

  (** val ltb : n -> n -> bool **)

  let ltb x y =
    match compare x y with
    | Lt -> true
    | _ -> false

  (** val pow : n -> n -> n **)

  let pow n0 = function
  | N0 -> Npos XH
  | Npos p0 -> (match n0 with
                | N0 -> N0
                | Npos q -> Npos (Coq_Pos.pow q p0))

  (** val pos_div_eucl : positive -> n -> n * n **)

  let rec pos_div_eucl a b =
    match a with
    | XI a' ->
      let (q, r) = pos_div_eucl a' b in
      let r' = succ_double r in
      if leb b r' then ((succ_double q), (sub r' b)) else ((double q), r')
    | XO a' ->
      let (q, r) = pos_div_eucl a' b in
      let r' = double r in
      if leb b r' then ((succ_double q), (sub r' b)) else ((double q), r')
    | XH ->
      (match b with
       | N0 -> (N0, (Npos XH))
       | Npos p -> (match p with
                    | XH -> ((Npos XH), N0)
                    | _ -> (N0, (Npos XH))))

  (** val div_eucl : n -> n -> n * n **)

  let div_eucl a b =
    match a with
    | N0 -> (N0, N0)
    | Npos na -> (match b with
                  | N0 -> (N0, a)
                  | Npos _ -> pos_div_eucl na b)

  (** val div : n -> n -> n **)

  let div a b =
    fst (div_eucl a b)

  (** val modulo : n -> n -> n **)

  let modulo a b =
    snd (div_eucl a b)

  (** val to_nat : n -> nat **)

  let to_nat = function
  | N0 -> O
  | Npos p -> Coq_Pos.to_nat p

  (** val of_nat : nat -> n **)

  let of_nat = function
  | O -> N0
  | S n' -> Npos (Coq_Pos.of_succ_nat n')
 end

(** val rev : 'a1 list -> 'a1 list **)

let rec rev = function
| [] -> []
| x :: l' -> app (rev l') (x :: [])

(** val map : ('a1 -> 'a2) -> 'a1 list -> 'a2 list **)

let rec map f = function
| [] -> []
| a :: t -> (f a) :: (map f t)

(** val existsb : ('a1 -> bool) -> 'a1 list -> bool **)

let rec existsb f = function
| [] -> false
| a :: l0 -> (||) (f a) (existsb f l0)

(** val firstn : nat -> 'a1 list -> 'a1 list **)

let rec firstn n0 l =
  match n0 with
  | O -> []
  | S n1 -> (match l with
             | [] -> []
             | a :: l0 -> a :: (firstn n1 l0))

(** val skipn : nat -> 'a1 list -> 'a1 list **)

let rec skipn n0 l =
  match n0 with
  | O -> l
  | S n1 -> (match l with
             | [] -> []
             | _ :: l0 -> skipn n1 l0)

type err =
| StructError
| UnicodeError
| IndexError
| KeyError
| ValueError
| AssertionError
| NotImplementedErr
| FileExists
| FileNotFound
| OsError
| TypeError
| ImportErr
| OutOfFuel

type 'a result =
| Ok of 'a
| Raise of err

(** val bind : 'a1 result -> ('a1 -> 'a2 result) -> 'a2 result **)

let bind r f =
  match r with
  | Ok a -> f a
  | Raise e -> Raise e

(** val mapM : ('a1 -> 'a2 result) -> 'a1 list -> 'a2 list result **)

let rec mapM f = function
| [] -> Ok []
| x :: xs -> bind (f x) (fun y -> bind (mapM f xs) (fun ys -> Ok (y :: ys)))

type bytes = n list

(** val le_encode : nat -> n -> bytes **)

let rec le_encode w n0 =
  match w with
  | O -> []
  | S w' ->
    (N.modulo n0 (Npos (XO (XO (XO (XO (XO (XO (XO (XO XH)))))))))) :: 
      (le_encode w'
        (N.div n0 (Npos (XO (XO (XO (XO (XO (XO (XO (XO XH)))))))))))

(** val pow256 : nat -> n **)

let pow256 w =
  N.pow (Npos (XO (XO (XO (XO (XO (XO (XO (XO XH))))))))) (N.of_nat w)

(** val pack : nat -> n -> bytes result **)

let pack w v =
  if N.ltb v (pow256 w) then Ok (le_encode w v) else Raise StructError

type tree =
| I of n
| L of tree list

(** val t_list : ('a1 -> tree) -> 'a1 list -> tree **)

let t_list f l =
  L (map f l)

(** val t_bytes : n list -> tree **)

let t_bytes l =
  L (map (fun x -> I x) l)

(** val t_err : err -> tree **)

let t_err e =
  I
    (match e with
     | StructError -> Npos XH
     | UnicodeError -> Npos (XO XH)
     | IndexError -> Npos (XI XH)
     | KeyError -> Npos (XO (XO XH))
     | ValueError -> Npos (XI (XO XH))
     | AssertionError -> Npos (XO (XI XH))
     | NotImplementedErr -> Npos (XI (XI XH))
     | FileExists -> Npos (XO (XO (XO XH)))
     | FileNotFound -> Npos (XI (XO (XO XH)))
     | OsError -> Npos (XO (XI (XO XH)))
     | TypeError -> Npos (XI (XI (XO XH)))
     | ImportErr -> Npos (XO (XO (XI XH)))
     | OutOfFuel -> Npos (XI (XI (XO (XO (XO (XI XH)))))))

(** val t_result : ('a1 -> tree) -> 'a1 result -> tree **)

let t_result f = function
| Ok a -> L ((I (Npos XH)) :: ((f a) :: []))
| Raise e -> L ((I N0) :: ((t_err e) :: []))

(** val p_N : tree -> n option **)

let p_N = function
| I n0 -> Some n0
| L _ -> None

(** val p_all : 'a1 option list -> 'a1 list option **)

let rec p_all = function
| [] -> Some []
| o :: r ->
  (match o with
   | Some a -> (match p_all r with
                | Some r' -> Some (a :: r')
                | None -> None)
   | None -> None)

(** val p_list : (tree -> 'a1 option) -> tree -> 'a1 list option **)

let p_list f = function
| I _ -> None
| L l -> p_all (map f l)

(** val p_bytes : tree -> n list option **)

let p_bytes =
  p_list p_N

(** val t_bad : tree **)

let t_bad =
  L ((I N0) :: ((I (Npos (XO (XI (XO (XO (XO (XI XH)))))))) :: []))

(** val utf8_encode_cp : n -> n list result **)

let utf8_encode_cp c =
  if N.ltb c (Npos (XO (XO (XO (XO (XO (XO (XO XH))))))))
  then Ok (c :: [])
  else if N.ltb c (Npos (XO (XO (XO (XO (XO (XO (XO (XO (XO (XO (XO
            XH))))))))))))
       then Ok
              ((N.add (Npos (XO (XO (XO (XO (XO (XO (XI XH))))))))
                 (N.div c (Npos (XO (XO (XO (XO (XO (XO XH))))))))) :: (
              (N.add (Npos (XO (XO (XO (XO (XO (XO (XO XH))))))))
                (N.modulo c (Npos (XO (XO (XO (XO (XO (XO XH))))))))) :: []))
       else if N.ltb c (Npos (XO (XO (XO (XO (XO (XO (XO (XO (XO (XO (XO (XO
                 (XO (XO (XO (XO XH)))))))))))))))))
            then if (&&)
                      (N.leb (Npos (XO (XO (XO (XO (XO (XO (XO (XO (XO (XO
                        (XO (XI (XI (XO (XI XH)))))))))))))))) c)
                      (N.ltb c (Npos (XO (XO (XO (XO (XO (XO (XO (XO (XO (XO
                        (XO (XO (XO (XI (XI XH)))))))))))))))))
                 then Raise UnicodeError
                 else Ok
                        ((N.add (Npos (XO (XO (XO (XO (XO (XI (XI XH))))))))
                           (N.div c (Npos (XO (XO (XO (XO (XO (XO (XO (XO (XO
                             (XO (XO (XO XH))))))))))))))) :: ((N.add (Npos
                                                                 (XO (XO (XO
                                                                 (XO (XO (XO
                                                                 (XO
                                                                 XH))))))))
                                                                 (N.modulo
                                                                   (N.div c
                                                                    (Npos (XO
                                                                    (XO (XO
                                                                    (XO (XO
                                                                    (XO
                                                                    XH))))))))
                                                                   (Npos (XO
                                                                   (XO (XO
                                                                   (XO (XO
                                                                   (XO
                                                                   XH))))))))) :: (
                        (N.add (Npos (XO (XO (XO (XO (XO (XO (XO XH))))))))
                          (N.modulo c (Npos (XO (XO (XO (XO (XO (XO XH))))))))) :: [])))
            else if N.ltb c (Npos (XO (XO (XO (XO (XO (XO (XO (XO (XO (XO (XO
                      (XO (XO (XO (XO (XO (XI (XO (XO (XO
                      XH)))))))))))))))))))))
                 then Ok
                        ((N.add (Npos (XO (XO (XO (XO (XI (XI (XI XH))))))))
                           (N.div c (Npos (XO (XO (XO (XO (XO (XO (XO (XO (XO
                             (XO (XO (XO (XO (XO (XO (XO (XO (XO
                             XH))))))))))))))))))))) :: ((N.add (Npos (XO (XO
                                                           (XO (XO (XO (XO
                                                           (XO XH))))))))
                                                           (N.modulo
                                                             (N.div c (Npos
                                                               (XO (XO (XO
                                                               (XO (XO (XO
                                                               (XO (XO (XO
                                                               (XO (XO (XO
                                                               XH))))))))))))))
                                                             (Npos (XO (XO
                                                             (XO (XO (XO (XO
                                                             XH))))))))) :: (
                        (N.add (Npos (XO (XO (XO (XO (XO (XO (XO XH))))))))
                          (N.modulo
                            (N.div c (Npos (XO (XO (XO (XO (XO (XO XH))))))))
                            (Npos (XO (XO (XO (XO (XO (XO XH))))))))) :: (
                        (N.add (Npos (XO (XO (XO (XO (XO (XO (XO XH))))))))
                          (N.modulo c (Npos (XO (XO (XO (XO (XO (XO XH))))))))) :: []))))
                 else Raise ValueError

(** val utf8_encode : n list -> n list result **)

let rec utf8_encode = function
| [] -> Ok []
| c :: r ->
  bind (utf8_encode_cp c) (fun a ->
    bind (utf8_encode r) (fun b -> Ok (app a b)))

type str_section = { ss_num : n; ss_offsets : n list; ss_strings : n list list }

(** val enc_offsets : nat -> n -> n list -> bytes result **)

let rec enc_offsets w remaining offs =
  if N.eqb remaining N0
  then Ok []
  else (match offs with
        | [] -> Raise IndexError
        | o :: r ->
          bind (pack w o) (fun a ->
            bind (enc_offsets w (N.sub remaining (Npos XH)) r) (fun b -> Ok
              (app a b))))

(** val enc_string : n list -> bytes result **)

let enc_string s =
  bind (utf8_encode s) (fun u ->
    if (||) (negb (eqb (length u) (length s))) (existsb (N.eqb N0) u)
    then Raise ValueError
    else Ok (app (firstn (length s) u) (N0 :: [])))

(** val enc_strings : n list list -> bytes result **)

let rec enc_strings = function
| [] -> Ok []
| s :: r ->
  bind (enc_string s) (fun a -> bind (enc_strings r) (fun b -> Ok (app a b)))

(** val str_encode : nat -> str_section -> bytes result **)

let str_encode w m =
  bind (pack w m.ss_num) (fun h ->
    bind (enc_offsets w m.ss_num m.ss_offsets) (fun o ->
      bind (enc_strings m.ss_strings) (fun s -> Ok (app h (app o s)))))

(** val read_cstr : bytes -> n list result **)

let rec read_cstr = function
| [] -> Raise IndexError
| b :: r ->
  if N.leb (Npos (XO (XO (XO (XO (XO (XO (XO XH)))))))) b
  then Raise UnicodeError
  else if N.eqb b N0 then Ok [] else bind (read_cstr r) (fun t -> Ok (b :: t))

(** val resolve : bytes -> n -> n list result **)

let resolve bin off =
  if N.leb (N.of_nat (length bin)) off
  then Raise IndexError
  else read_cstr (skipn (N.to_nat off) bin)

(** val list_N_eqb : n list -> n list -> bool **)

let rec list_N_eqb a b =
  match a with
  | [] -> (match b with
           | [] -> true
           | _ :: _ -> false)
  | x :: a' ->
    (match b with
     | [] -> false
     | y :: b' -> (&&) (N.eqb x y) (list_N_eqb a' b'))

(** val mem_str : n list -> n list list -> bool **)

let mem_str s l =
  existsb (list_N_eqb s) l

(** val make_unique :
    n list list -> n list list -> n list list -> n list list **)

let rec make_unique req existing acc =
  match req with
  | [] -> rev acc
  | s :: r ->
    if (||) (mem_str s existing) (mem_str s acc)
    then make_unique r existing acc
    else make_unique r existing (s :: acc)

(** val new_offsets : n -> n list list -> n list **)

let rec new_offsets start = function
| [] -> []
| s :: r ->
  start :: (new_offsets (N.add (N.add start (N.of_nat (length s))) (Npos XH))
             r)

(** val add_strings :
    nat -> n list list -> str_section -> str_section result **)

let add_strings w req t =
  bind (str_encode w t) (fun bin ->
    bind (mapM (resolve bin) t.ss_offsets) (fun existing ->
      let uniq = make_unique req existing [] in
      (match uniq with
       | [] -> Ok t
       | _ :: _ ->
         let k = N.of_nat (length uniq) in
         let inc = N.mul (N.of_nat w) k in
         Ok { ss_num = (N.add t.ss_num k); ss_offsets =
         (app (map (fun o -> N.add o inc) t.ss_offsets)
           (new_offsets (N.add (N.of_nat (length bin)) inc) uniq));
         ss_strings = (app t.ss_strings uniq) })))

(** val generate_strx : str_section -> str_section **)

let generate_strx t =
  let shift =
    N.add (Npos (XO XH))
      (N.mul (N.of_nat (length t.ss_offsets)) (Npos (XO XH)))
  in
  { ss_num = t.ss_num; ss_offsets =
  (map (fun o -> N.add o shift) t.ss_offsets); ss_strings = t.ss_strings }

(** val build_lookup : nat -> str_section -> n list list result **)

let build_lookup w t =
  bind (str_encode w t) (fun bin -> mapM (resolve bin) t.ss_offsets)

(** val t_str : str_section -> tree **)

let t_str m =
  L ((I m.ss_num) :: ((L (map (fun x -> I x) m.ss_offsets)) :: ((L
    (map t_bytes m.ss_strings)) :: [])))

(** val p_str : tree -> str_section option **)

let p_str = function
| I _ -> None
| L l ->
  (match l with
   | [] -> None
   | t0 :: l0 ->
     (match t0 with
      | I n0 ->
        (match l0 with
         | [] -> None
         | offs :: l1 ->
           (match l1 with
            | [] -> None
            | strs :: l2 ->
              (match l2 with
               | [] ->
                 (match p_bytes offs with
                  | Some o ->
                    (match p_list p_bytes strs with
                     | Some s ->
                       Some { ss_num = n0; ss_offsets = o; ss_strings = s }
                     | None -> None)
                  | None -> None)
               | _ :: _ -> None)))
      | L _ -> None))

(** val p_width : tree -> nat option **)

let p_width = function
| I n0 ->
  (match n0 with
   | N0 -> None
   | Npos p ->
     (match p with
      | XO p0 ->
        (match p0 with
         | XI _ -> None
         | XO p1 -> (match p1 with
                     | XH -> Some (S (S (S (S O))))
                     | _ -> None)
         | XH -> Some (S (S O)))
      | _ -> None))
| L _ -> None

(** val run : tree -> tree **)

let run = function
| I _ -> t_bad
| L l ->
  (match l with
   | [] -> t_bad
   | t0 :: l0 ->
     (match t0 with
      | I n0 ->
        (match n0 with
         | N0 -> t_bad
         | Npos p ->
           (match p with
            | XI p0 ->
              (match p0 with
               | XH ->
                 (match l0 with
                  | [] -> t_bad
                  | w :: l1 ->
                    (match l1 with
                     | [] -> t_bad
                     | sec :: l2 ->
                       (match l2 with
                        | [] ->
                          (match p_width w with
                           | Some w' ->
                             (match p_str sec with
                              | Some s ->
                                t_result (t_list t_bytes) (build_lookup w' s)
                              | None -> t_bad)
                           | None -> t_bad)
                        | _ :: _ -> t_bad)))
               | _ -> t_bad)
            | XO p0 ->
              (match p0 with
               | XI _ -> t_bad
               | XO p1 ->
                 (match p1 with
                  | XH ->
                    (match l0 with
                     | [] -> t_bad
                     | w :: l1 ->
                       (match l1 with
                        | [] -> t_bad
                        | sec :: l2 ->
                          (match l2 with
                           | [] ->
                             (match p_width w with
                              | Some w' ->
                                (match p_str sec with
                                 | Some s ->
                                   t_result t_bytes (str_encode w' s)
                                 | None -> t_bad)
                              | None -> t_bad)
                           | _ :: _ -> t_bad)))
                  | _ -> t_bad)
               | XH ->
                 (match l0 with
                  | [] -> t_bad
                  | sec :: l1 ->
                    (match l1 with
                     | [] ->
                       (match p_str sec with
                        | Some s -> t_str (generate_strx s)
                        | None -> t_bad)
                     | _ :: _ -> t_bad)))
            | XH ->
              (match l0 with
               | [] -> t_bad
               | w :: l1 ->
                 (match l1 with
                  | [] -> t_bad
                  | req :: l2 ->
                    (match l2 with
                     | [] -> t_bad
                     | sec :: l3 ->
                       (match l3 with
                        | [] ->
                          (match p_width w with
                           | Some w' ->
                             (match p_list p_bytes req with
                              | Some r ->
                                (match p_str sec with
                                 | Some s ->
                                   t_result t_str (add_strings w' r s)
                                 | None -> t_bad)
                              | None -> t_bad)
                           | None -> t_bad)
                        | _ :: _ -> t_bad))))))
      | L _ -> t_bad))
