(* Hand transcription of the Scenario.chk section formats (as quoted in the repository's
   own module docstrings and on staredit.net), keyed by the library's dataclass field names.
   NEVER generated.  gen/GenLayouts.v (read from the code) is compared with this file. *)
From Coq Require Import String List.
From RC Require Import model.Layout.
Import ListNotations.
Local Open Scope string_scope.

Definition rec (fs : list (string * layout)) : layout :=
  fold_right (fun fl acc => Seq (Named (fst fl) (snd fl)) acc) Unit fs.
Definition u8 := Prim 1.
Definition u16 := Prim 2.
Definition u32 := Prim 4.
Definition arr (n : nat) (l : layout) := Arr n false l.

(* MRGN: 20-byte location records to the end of the section (64 or 255 of them) *)
Definition spec_location : layout :=
  rec [("_left_x1", u32); ("_top_y1", u32); ("_right_x2", u32); ("_bottom_y2", u32);
       ("_string_id", u16); ("_elevation_flags", u16)].
Definition spec_MRGN : layout := rec [("_locations", Many spec_location)].

(* TRIG: 2400-byte triggers = 16 conditions (20 bytes) + 64 actions (32 bytes) + execution (32 bytes) *)
Definition spec_condition : layout :=
  rec [("_location_id", u32); ("_group", u32); ("_quantity", u32); ("_unit_id", u16);
       ("_numeric_comparison_operation", u8); ("_condition_id", u8); ("_numeric_comparand_type", u8);
       ("_flags", u8); ("_mask_flag", u16)].
Definition spec_action : layout :=
  rec [("_location_id", u32); ("_text_string_id", u32); ("_wav_string_id", u32); ("_time", u32);
       ("_first_group", u32); ("_second_group", u32); ("_action_argument_type", u16); ("_action_id", u8);
       ("_quantifier_or_switch_or_order", u8); ("_flags", u8); ("_padding", u8); ("_mask_flag", u16)].
Definition spec_execution : layout :=
  rec [("_execution_flags", u32); ("_player_flags", arr 27 u8); ("_current_action_index", u8)].
Definition spec_trigger : layout :=
  rec [("_conditions", arr 16 spec_condition); ("_actions", arr 64 spec_action);
       ("_player_execution", spec_execution)].
Definition spec_TRIG : layout := rec [("_triggers", Many (Chunk 2400 spec_trigger))].

(* UNIS / UNIx: parallel arrays over 228 units and 100 / 130 weapons *)
Definition spec_unit_settings (weapons : nat) : layout :=
  rec [("_unit_default_settings_flags", arr 228 u8); ("_unit_hitpoints", arr 228 u32);
       ("_unit_shieldpoints", arr 228 u16); ("_unit_armorpoints", arr 228 u8);
       ("_unit_build_times", arr 228 u16); ("_unit_mineral_costs", arr 228 u16);
       ("_unit_gas_costs", arr 228 u16); ("_unit_string_ids", arr 228 u16);
       ("_unit_base_weapon_damages", arr weapons u16); ("_unit_upgrade_weapon_damages", arr weapons u16)].
Definition spec_UNIS : layout := spec_unit_settings 100.
Definition spec_UNIx : layout := spec_unit_settings 130.

(* UPRP: 64 create-unit-with-properties slots of 20 bytes *)
Definition spec_cuwp : layout :=
  rec [("_valid_special_properties_flags", u16); ("_valid_unit_properties_flags", u16);
       ("_owner_player", u8); ("_hitpoints_percentage", u8); ("_shieldpoints_percentage", u8);
       ("_energypoints_percentage", u8); ("_resource_amount", u32); ("_units_in_hangar", u16);
       ("_flags", u16); ("_padding", u32)].
Definition spec_UPRP : layout := rec [("_cuwp_slots", arr 64 spec_cuwp)].

Definition spec_UPUS : layout := rec [("_cuwp_slots_used", arr 64 u8)].
Definition spec_SWNM : layout := rec [("_switch_string_ids", arr 256 u32)].
Definition spec_WAV : layout := rec [("_wav_string_ids", arr 512 u32)].

Definition spec_layouts : list (string * layout) :=
  [("MRGN", spec_MRGN); ("TRIG", spec_TRIG); ("UNIS", spec_UNIS); ("UNIx", spec_UNIx);
   ("UPRP", spec_UPRP); ("UPUS", spec_UPUS); ("SWNM", spec_SWNM); ("WAV ", spec_WAV)].

(* the sizes the format mandates (None: a whole number of records) *)
Example spec_sizes :
  map (fun e => size_l (snd e)) spec_layouts =
  [None; None; Some 4048; Some 4168; Some 1280; Some 64; Some 1024; Some 2048].
Proof. reflexivity. Qed.

(* spot checks of absolute offsets quoted from the format description *)
Example unis_hitpoints_of_unit_0 :
  locate spec_UNIS [SField "_unit_hitpoints"; SIndex 0] = Some (228, Prim 4).
Proof. reflexivity. Qed.
Example unix_weapon_bonus_of_weapon_129 :
  locate spec_UNIx [SField "_unit_upgrade_weapon_damages"; SIndex 129] = Some (4166, Prim 2).
Proof. reflexivity. Qed.
Example trig_action_byte_of_trigger_2_action_5 :
  locate spec_TRIG [SField "_triggers"; SIndex 2; SField "_actions"; SIndex 5; SField "_action_id"]
  = Some (2 * 2400 + 320 + 5 * 32 + 26, Prim 1).
Proof. reflexivity. Qed.
Example trig_execution_player_flag_26 :
  locate spec_TRIG [SField "_triggers"; SIndex 0; SField "_player_execution"; SField "_player_flags"; SIndex 26]
  = Some (320 + 2048 + 4 + 26, Prim 1).
Proof. reflexivity. Qed.
Example mrgn_location_63_string :
  locate spec_MRGN [SField "_locations"; SIndex 63; SField "_string_id"] = Some (63 * 20 + 16, Prim 2).
Proof. reflexivity. Qed.
Example uprp_slot_10_resource :
  locate spec_UPRP [SField "_cuwp_slots"; SIndex 10; SField "_resource_amount"] = Some (208, Prim 4).
Proof. reflexivity. Qed.
