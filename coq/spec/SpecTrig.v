(* Hand transcription of the Scenario.chk trigger appendix ("which items are used for what
   conditions / actions", staredit.net wiki, the table also quoted in trigger_condition_id.py):
   for every supported type, the record field each argument lives in.  NEVER generated.
   Argument names are the library's rich-model field names; record fields are the library's
   decoded-record field names, whose byte positions are fixed by spec/SpecLayouts.v:
     action:    _location_id u32 | _text_string_id u32 | _wav_string_id u32 | _time u32 | _first_group u32
                | _second_group u32 | _action_argument_type u16 | _action_id u8
                | _quantifier_or_switch_or_order u8 | _flags u8 | _padding u8 | _mask_flag u16
     condition: _location_id u32 | _group u32 | _quantity u32 | _unit_id u16 | _numeric_comparison_operation u8
                | _condition_id u8 | _numeric_comparand_type u8 | _flags u8 | _mask_flag u16 *)
From Coq Require Import String NArith List.
From RC Require Import model.TrigTable.
Import ListNotations.
Local Open Scope string_scope.
Local Open Scope N_scope.

(* ---- actions: the recurring arguments ---------------------------------------------------------- *)
Definition player := ("_group", CEnum "PlayerId", "_first_group").          (* first (or only) group affected *)
Definition unit_t := ("_unit", CEnum "UnitId", "_action_argument_type").    (* unit type *)
Definition count := ("_amount", CRaw, "_quantifier_or_switch_or_order").    (* number of units, 0 = all *)
Definition at_loc := ("_location", CLoc, "_location_id").                   (* location *)
Definition text := ("_text", CStr, "_text_string_id").                      (* string number *)
Definition goal := ("_goal", CRaw, "_second_group").                        (* number in the second group field *)
Definition number2 := ("_amount", CRaw, "_second_group").
Definition modifier := ("_amount_modifier", CEnum "AmountModifier", "_quantifier_or_switch_or_order").
Definition score_t := ("_score_type", CEnum "ScoreType", "_action_argument_type").
Definition resource_t := ("_resource", CEnum "ResourceType", "_action_argument_type").
Definition script := ("_ai_script", CAiScript, "_second_group").

Definition act (id : N) (model : string) (args : list (string * codec * string)) : spec_entry :=
  {| se_id := id; se_model := model; se_args := args; se_special := [("_action_id", EOwnId)] |}.

Definition spec_action_table : list spec_entry := [
  act 1 "VictoryAction" [];
  act 2 "DefeatAction" [];
  act 3 "PreserveTrigger" [];
  act 4 "WaitAction" [("_milliseconds", CRaw, "_time")];
  act 5 "PauseGameAction" [];
  act 6 "UnpauseGameAction" [];
  (* 7 Transmission: not supported by the library *)
  {| se_id := 8; se_model := "PlayWavAction";
     se_args := [("_path_to_wav_in_mpq", CStrValue, "_wav_string_id"); ("_duration_ms", CRaw, "_time")];
     se_special := [("_action_id", EOwnId); ("_time", EWavDuration)] |};
  act 9 "DisplayTextMessageAction" [text];
  act 10 "CenterViewAction" [at_loc];
  act 11 "CreateUnitWithPropertiesAction"
      [player; unit_t; count; at_loc; ("_properties", CCuwp, "_second_group")];
  act 12 "SetMissionObjectivesAction" [text];
  act 13 "SetSwitchAction"
      [("_switch", CSwitch, "_second_group");
       ("_switch_action", CEnum "SwitchAction", "_quantifier_or_switch_or_order")];
  act 14 "SetCountdownTimerAction" [("_seconds", CRaw, "_time"); modifier];
  act 15 "RunAiScriptAction" [script];
  act 16 "RunAiScriptAtLocationAction" [script; at_loc];
  act 17 "LeaderboardShowControlUnitAction" [text; unit_t];
  act 18 "LeaderboardShowControlUnitAtLocationAction" [text; unit_t; at_loc];
  act 19 "LeaderboardShowResourcesAction" [text; resource_t];
  act 20 "LeaderboardShowKillsAction" [text; unit_t];
  act 21 "LeaderboardShowScoreAction" [text; score_t];
  act 22 "KillUnitAction" [player; unit_t];
  act 23 "KillUnitAtLocationAction" [player; unit_t; count; at_loc];
  act 24 "RemoveUnitAction" [player; unit_t];
  act 25 "RemoveUnitAtLocationAction" [player; unit_t; count; at_loc];
  act 26 "SetResourcesAction" [player; number2; modifier; resource_t];
  act 27 "SetScoreAction" [player; number2; modifier; score_t];
  act 28 "MinimapPingAction" [at_loc];
  (* 29 Talking Portrait, 30 Mute, 31 Unmute: not supported *)
  act 32 "LeaderboardToggleComputersAction"
      [("_action_state", CEnum "ComputerLeaderboardAction", "_quantifier_or_switch_or_order")];
  act 33 "LeaderboardGoalControlUnitAction" [text; unit_t; goal];
  act 34 "LeaderboardGoalControlUnitAtLocationAction" [text; unit_t; goal; at_loc];
  act 35 "LeaderboardGoalResourcesAction" [text; goal; resource_t];
  act 36 "LeaderboardGoalKillsAction" [text; unit_t; goal];
  act 37 "LeaderboardGoalScoreAction" [text; score_t; goal];
  (* Move Location: the location that is moved is kept in the second group field,
     the area searched for the unit in the location field *)
  act 38 "MoveLocationAction"
      [player; unit_t; ("_source_location", CLoc, "_second_group"); ("_destination_location", CLoc, "_location_id")];
  (* Move Unit / Order: source location in the location field, destination in the second group field *)
  act 39 "MoveUnitAction"
      [player; unit_t; count; ("_source_location", CLoc, "_location_id");
       ("_destination_location", CLoc, "_second_group")];
  act 40 "LeaderboardGoalGreedAction" [goal];
  (* 41 Set Next Scenario: not supported *)
  act 42 "SetDoodadStateAction"
      [player; unit_t; at_loc; ("_doodad_action", CEnum "DoodadAction", "_quantifier_or_switch_or_order")];
  act 43 "SetInvincibilityAction"
      [player; unit_t; at_loc; ("_invincibility", CEnum "Invincibility", "_quantifier_or_switch_or_order")];
  act 44 "CreateUnitAction" [player; unit_t; count; at_loc];
  act 45 "SetDeathsAction" [player; unit_t; number2; modifier];
  act 46 "OrderAction"
      [player; unit_t; ("_source_location", CLoc, "_location_id"); ("_destination_location", CLoc, "_second_group");
       ("_order", CEnum "UnitOrder", "_quantifier_or_switch_or_order")];
  (* 47 Comment: not supported *)
  act 48 "GiveUnitAction"
      [("_from_group", CEnum "PlayerId", "_first_group"); ("_to_group", CEnum "PlayerId", "_second_group");
       unit_t; count; at_loc];
  act 49 "ModifyUnitHitpointsAction" [player; unit_t; count; ("_percent", CRaw, "_second_group"); at_loc];
  act 50 "ModifyUnitEnergyAction" [player; unit_t; count; ("_percent", CRaw, "_second_group"); at_loc];
  act 51 "ModifyUnitShieldsAction" [player; unit_t; count; ("_percent", CRaw, "_second_group"); at_loc];
  act 52 "ModifyUnitResourcesAction" [player; unit_t; count; ("_resource_amount", CRaw, "_second_group"); at_loc];
  act 53 "ModifyUnitHangerAction" [player; unit_t; count; ("_hanger_amount", CRaw, "_second_group"); at_loc];
  act 54 "PauseCountdownTimerAction" [];
  act 55 "UnpauseCountdownTimerAction" [];
  act 56 "DrawAction" [];
  act 57 "SetAllianceStatusAction" [player; ("_alliance_status", CEnum "AllianceStatus", "_action_argument_type")]
  (* 58 Disable / 59 Enable debug mode: not supported *)
].

(* ---- conditions ------------------------------------------------------------------------------------- *)
Definition c_player := ("_group", CEnum "PlayerId", "_group").
Definition c_cmp := ("_comparator", CEnum "NumericComparator", "_numeric_comparison_operation").
Definition c_amount := ("_amount", CRaw, "_quantity").
Definition c_unit := ("_unit", CEnum "UnitId", "_unit_id").
Definition c_loc := ("_location", CLocThrow, "_location_id").
Definition c_score := ("_score_type", CEnum "ScoreType", "_numeric_comparand_type").
Definition c_resource := ("_resource", CEnum "ResourceType", "_numeric_comparand_type").

Definition cond (id : N) (model : string) (args : list (string * codec * string)) : spec_entry :=
  {| se_id := id; se_model := model; se_args := args; se_special := [("_condition_id", EOwnId)] |}.

Definition spec_condition_table : list spec_entry := [
  cond 1 "CountdownTimerCondition" [c_cmp; ("_seconds", CRaw, "_quantity")];
  cond 2 "CommandCondition" [c_player; c_cmp; c_amount; c_unit];
  cond 3 "BringCondition" [c_player; c_cmp; c_amount; c_unit; c_loc];
  cond 4 "AccumulateResourcesCondition" [c_player; c_cmp; c_amount; c_resource];
  cond 5 "KillCondition" [c_player; c_cmp; c_amount; c_unit];
  cond 6 "CommandMostCondition" [c_unit];
  cond 7 "CommandMostAtCondition" [c_unit; c_loc];
  cond 8 "MostKillsCondition" [c_unit];
  cond 9 "HighestScoreCondition" [c_score];
  cond 10 "MostResourcesCondition" [c_resource];
  (* Switch: the switch number sits in the resource-type byte, its state in the comparison byte *)
  cond 11 "SwitchCondition"
       [("_switch", CSwitch, "_numeric_comparand_type");
        ("_switch_state", CEnum "SwitchState", "_numeric_comparison_operation")];
  cond 12 "ElapsedTimeCondition" [c_cmp; ("_seconds", CRaw, "_quantity")];
  (* 13: mission-briefing only *)
  cond 14 "OpponentsRemainingCondition" [c_player; c_cmp; c_amount];
  cond 15 "DeathsCondition" [c_player; c_cmp; c_amount; c_unit];
  cond 16 "CommandLeastCondition" [c_unit];
  cond 17 "CommandLeastAtCondition" [c_unit; c_loc];
  cond 18 "LeastKillsCondition" [c_unit];
  cond 19 "LowestScoreCondition" [c_score];
  cond 20 "LeastResourcesCondition" [c_resource];
  cond 21 "ScoreCondition" [c_player; c_cmp; c_amount; c_score];
  cond 22 "AlwaysCondition" [];
  cond 23 "NeverCondition" []
].
