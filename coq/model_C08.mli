
val negb : bool -> bool

type nat =
| O
| S of nat

val fst : ('a1 * 'a2) -> 'a1

val snd : ('a1 * 'a2) -> 'a2

val length : 'a1 list -> nat

val app : 'a1 list -> 'a1 list -> 'a1 list

type comparison =
| Eq
| Lt
| Gt

val add : nat -> nat -> nat

val eqb : nat -> nat -> bool

type positive =
| XI of positive
| XO of positive
| XH

type n =
| N0
| Npos of positive

module Pos :
 sig
  type mask =
  | IsNul
  | IsPos of positive
  | IsNeg
 end

module Coq_Pos :
 sig
  val succ : positive -> positive

  val add : positive -> positive -> positive

  val add_carry : positive -> positive -> positive

  val pred_double : positive -> positive

  type mask = Pos.mask =
  | IsNul
  | IsPos of positive
  | IsNeg

  val succ_double_mask : mask -> mask

  val double_mask : mask -> mask

  val double_pred_mask : positive -> mask

  val sub_mask : positive -> positive -> mask

  val sub_mask_carry : positive -> positive -> mask

  val mul : positive -> positive -> positive

  val iter : ('a1 -> 'a1) -> 'a1 -> positive -> 'a1

  val pow : positive -> positive -> positive

  val compare_cont : comparison -> positive -> positive -> comparison

  val compare : positive -> positive -> comparison

  val eqb : positive -> positive -> bool

  val iter_op : ('a1 -> 'a1 -> 'a1) -> positive -> 'a1 -> 'a1

  val to_nat : positive -> nat

  val of_succ_nat : nat -> positive
 end

module N :
 sig
  val succ_double : n -> n

  val double : n -> n

  val add : n -> n -> n

  val sub : n -> n -> n

  val mul : n -> n -> n

  val compare : n -> n -> comparison

  val eqb : n -> n -> bool

  val leb : n -> n -> bool

  val ltb : n -> n -> bool

  val pow : n -> n -> n

  val pos_div_eucl : positive -> n -> n * n

  val div_eucl : n -> n -> n * n

  val div : n -> n -> n

  val modulo : n -> n -> n

  val to_nat : n -> nat

  val of_nat : nat -> n
 end

val rev : 'a1 list -> 'a1 list

val map : ('a1 -> 'a2) -> 'a1 list -> 'a2 list

val existsb : ('a1 -> bool) -> 'a1 list -> bool

val firstn : nat -> 'a1 list -> 'a1 list

val skipn : nat -> 'a1 list -> 'a1 list

type err =
| StructError
| UnicodeError
| IndexError
| KeyError
| ValueError
| AssertionError
| NotImplementedErr
| FileExists
| FileNotFound
| OsError
| TypeError
| ImportErr
| OutOfFuel

type 'a result =
| Ok of 'a
| Raise of err

val bind : 'a1 result -> ('a1 -> 'a2 result) -> 'a2 result

val mapM : ('a1 -> 'a2 result) -> 'a1 list -> 'a2 list result

type bytes = n list

val le_encode : nat -> n -> bytes

val pow256 : nat -> n

val pack : nat -> n -> bytes result

type tree =
| I of n
| L of tree list

val t_list : ('a1 -> tree) -> 'a1 list -> tree

val t_bytes : n list -> tree

val t_err : err -> tree

val t_result : ('a1 -> tree) -> 'a1 result -> tree

val p_N : tree -> n option

val p_all : 'a1 option list -> 'a1 list option

val p_list : (tree -> 'a1 option) -> tree -> 'a1 list option

val p_bytes : tree -> n list option

val t_bad : tree

val utf8_encode_cp : n -> n list result

val utf8_encode : n list -> n list result

type str_section = { ss_num : n; ss_offsets : n list; ss_strings : n list list }

val enc_offsets : nat -> n -> n list -> bytes result

val enc_string : n list -> bytes result

val enc_strings : n list list -> bytes result

val str_encode : nat -> str_section -> bytes result

val read_cstr : bytes -> n list result

val resolve : bytes -> n -> n list result

val list_N_eqb : n list -> n list -> bool

val mem_str : n list -> n list list -> bool

val make_unique : n list list -> n list list -> n list list -> n list list

val new_offsets : n -> n list list -> n list

val add_strings : nat -> n list list -> str_section -> str_section result

val generate_strx : str_section -> str_section

val build_lookup : nat -> str_section -> n list list result

val t_str : str_section -> tree

val p_str : tree -> str_section option

val p_width : tree -> nat option

val run : tree -> tree
