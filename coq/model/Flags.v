(* Executable model of the bit-string flag codecs
     "{:0Wb}".format(x)[-k]   and   int(f"{b_n}...{b_1}", base=2)
   interpreted literally over the tables that tools/translate_flags.py reads from the
   source (coq/gen/GenFlags.v).  No proofs here. *)
From Coq Require Import NArith List Bool String.
From RC Require Import lib.Result.
Import ListNotations.
Local Open Scope N_scope.

Record flag_codec := {
  fc_width : N;                               (* W of the format string *)
  fc_dec : list (string * N * bool);          (* rich field, index k of S[-k], negated? *)
  fc_enc : list (string * bool);              (* f-string order, most significant first; negated? *)
}.

Definition rich_flags := list (string * bool).

(* length of "{:0Wb}".format(x) *)
Definition bitstring_len (w x : N) : N := N.max w (N.max 1 (N.size x)).

(* int(S[-k]) where S is the W-padded binary rendering of x *)
Definition bit_from_right (w x k : N) : result bool :=
  if (k =? 0) || (bitstring_len w x <? k) then Raise IndexError
  else Ok (N.testbit x (k - 1)).

Definition fdecode (c : flag_codec) (x : N) : result rich_flags :=
  mapM (fun e => let '(f, k, neg) := e in
                 do b <- bit_from_right (fc_width c) x k; Ok (f, xorb neg b)) (fc_dec c).

Fixpoint flag_lookup (f : string) (r : rich_flags) : result bool :=
  match r with
  | [] => Raise TypeError
  | (g, b) :: r' => if String.eqb f g then Ok b else flag_lookup f r'
  end.

Definition fencode (c : flag_codec) (r : rich_flags) : result N :=
  fold_left (fun acc e => let '(f, neg) := e in
                          do a <- acc; do b <- flag_lookup f r;
                          Ok (2 * a + (if xorb neg b then 1 else 0)))
            (fc_enc c) (Ok 0).

Definition rich_of_bools (c : flag_codec) (bs : list bool) : rich_flags :=
  combine (map (fun e => fst (fst e)) (fc_dec c)) bs.

Definition result_N_eqb (r : result N) (v : N) : bool :=
  match r with Ok a => a =? v | Raise _ => false end.

Fixpoint rich_eqb (a b : rich_flags) : bool :=
  match a, b with
  | [], [] => true
  | (f, x) :: a', (g, y) :: b' => String.eqb f g && Bool.eqb x y && rich_eqb a' b'
  | _, _ => false
  end.

(* number -> rich -> number gives x mod 2^nbits *)
Definition num_roundtrip_ok (c : flag_codec) (nbits : N) (x : N) : bool :=
  match fdecode c x with
  | Ok r => result_N_eqb (fencode c r) (x mod 2 ^ nbits)
  | Raise _ => false
  end.

(* rich -> number -> rich is the identity, and the number uses only the low nbits *)
Definition rich_roundtrip_ok (c : flag_codec) (nbits : N) (bs : list bool) : bool :=
  let r := rich_of_bools c bs in
  match fencode c r with
  | Ok x => (x <? 2 ^ nbits) &&
            match fdecode c x with Ok r' => rich_eqb r' r | Raise _ => false end
  | Raise _ => false
  end.
