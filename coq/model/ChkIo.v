(* Hand model of ChkIo.decode_chk_binary_data / encode_chk_to_bytes: the chunk loop, the
   dispatch on the 4-byte name through the transcoder registry, unknown-section framing.
   Section names are raw bytes (the code decodes/encodes them with surrogateescape, which is
   byte-transparent; that equivalence is a platform fact exercised by the correspondence). *)
From Coq Require Import String NArith List Bool.
From RC Require Import lib.Result lib.Bytes lib.Tree model.Layout model.Str gen.GenLayouts.
Import ListNotations.
Local Open Scope N_scope.

Inductive dsection : Type :=
| DStr (name : string) (w : nat) (m : str_section)
| DTab (name : string) (v : val)
| DUnknown (name : bytes) (payload : bytes).

Inductive kind : Type :=
| KStr (w : nat)
| KTab (dec enc : layout).

Fixpoint bytes_eqb (a b : bytes) : bool :=
  match a, b with
  | [], [] => true
  | x :: a', y :: b' => (x =? y) && bytes_eqb a' b'
  | _, _ => false
  end.

Definition section_table : list (string * kind) :=
  map (fun e => (fst e, KStr (snd e))) gen_string_sections ++
  map (fun e => (fst e, KTab (fst (snd e)) (snd (snd e)))) gen_layouts.

Fixpoint lookup_name (name : bytes) (t : list (string * kind)) : option (string * kind) :=
  match t with
  | [] => None
  | (s, k) :: r => if bytes_eqb name (codes_of_string s) then Some (s, k) else lookup_name name r
  end.

Fixpoint lookup_str (name : string) (t : list (string * kind)) : option kind :=
  match t with
  | [] => None
  | (s, k) :: r => if String.eqb name s then Some k else lookup_str name r
  end.

Definition decode_one (name payload : bytes) : result dsection :=
  match lookup_name name section_table with
  | Some (s, KStr w) => do m <- str_decode w payload; Ok (DStr s w m)
  | Some (s, KTab dec _) => do v <- decode_section dec payload; Ok (DTab s v)
  | None => Ok (DUnknown name payload)
  end.

(* stream.read(n) for a u32 n without ever building a huge nat *)
Definition read_n (n : N) (bs : bytes) : bytes * bytes :=
  let k := N.to_nat (N.min n (N.of_nat (length bs))) in (firstn k bs, skipn k bs).

Fixpoint chk_decode_fuel (fuel : nat) (bs : bytes) : result (list dsection) :=
  match bs with
  | [] => Ok []
  | _ :: _ =>
      match fuel with
      | O => Raise OutOfFuel
      | S fuel' =>
          if Nat.ltb (length bs) 4 then Raise StructError      (* struct.unpack("4s", <4 bytes) *)
          else
            let name := firstn 4 bs in
            do sz <- unpack 4 (skipn 4 bs);
            let pr := read_n (fst sz) (snd sz) in
            do sec <- decode_one name (fst pr);
            do secs <- chk_decode_fuel fuel' (snd pr);
            Ok (sec :: secs)
      end
  end.

Definition chk_decode (bs : bytes) : result (list dsection) := chk_decode_fuel (S (length bs)) bs.

Definition header (name : bytes) (size : nat) : result bytes :=
  do s <- pack 4 (N.of_nat size); Ok (name ++ s).

Definition encode_one (s : dsection) : result bytes :=
  match s with
  | DUnknown name payload => do h <- header name (length payload); Ok (h ++ payload)
  | DStr name w m =>
      do d <- str_encode w m; do h <- header (codes_of_string name) (length d); Ok (h ++ d)
  | DTab name v =>
      match lookup_str name section_table with
      | Some (KTab _ enc) =>
          do d <- encode_l enc v; do h <- header (codes_of_string name) (length d); Ok (h ++ d)
      | _ => Raise NotImplementedErr
      end
  end.

Fixpoint chk_encode (secs : list dsection) : result bytes :=
  match secs with
  | [] => Ok []
  | s :: r => do a <- encode_one s; do b <- chk_encode r; Ok (a ++ b)
  end.

(* name + u32 size + payload *)
Definition frame (name payload : bytes) : bytes :=
  name ++ le_encode 4 (N.of_nat (length payload)) ++ payload.

Fixpoint frame_all (chunks : list (bytes * bytes)) : bytes :=
  match chunks with
  | [] => []
  | (n, p) :: r => frame n p ++ frame_all r
  end.
