(* Correspondence entry points for the binary layer (C01, C06, C19, C10 byte level). *)
From Coq Require Import String NArith List Bool.
From RC Require Import lib.Result lib.Bytes lib.Tree model.Layout model.Str model.ChkIo gen.GenLayouts.
Import ListNotations.
Local Open Scope N_scope.

Fixpoint t_val (v : val) : tree :=
  match v with
  | VInt n => I n
  | VList l => L (map t_val l)
  | VPair a b => match t_val b with L r => L (t_val a :: r) | x => L [t_val a; x] end
  | VNamed _ x => t_val x
  | VUnit => L []
  end.

(* parse a positional tree back into a value of the given layout *)
Fixpoint p_val (l : layout) (t : tree) {struct l} : option val :=
  match l with
  | Prim _ => match t with I n => Some (VInt n) | _ => None end
  | Arr _ _ l' | Many l' =>
      match t with
      | L ts => match p_all (map (p_val l') ts) with Some vs => Some (VList vs) | None => None end
      | _ => None
      end
  | Seq a b =>
      match t with
      | L (x :: r) =>
          match p_val a x, p_val b (L r) with
          | Some va, Some vb => Some (VPair va vb)
          | _, _ => None
          end
      | _ => None
      end
  | Named f l' => match p_val l' t with Some v => Some (VNamed f v) | None => None end
  | Unit => match t with L [] => Some VUnit | _ => None end
  | Chunk _ l' => p_val l' t
  end.

Definition t_str (m : str_section) : tree :=
  L [I (ss_num m); L (map I (ss_offsets m)); L (map t_bytes (ss_strings m))].

Definition p_str (t : tree) : option str_section :=
  match t with
  | L [I n; offs; strs] =>
      match p_bytes offs, p_list p_bytes strs with
      | Some o, Some s => Some {| ss_num := n; ss_offsets := o; ss_strings := s |}
      | _, _ => None
      end
  | _ => None
  end.

Definition t_section (s : dsection) : tree :=
  match s with
  | DStr name w m => L [I 1; t_bytes (codes_of_string name); t_str m]
  | DTab name v => L [I 2; t_bytes (codes_of_string name); t_val v]
  | DUnknown name payload => L [I 3; t_bytes name; t_bytes payload]
  end.

Definition p_section (t : tree) : option dsection :=
  match t with
  | L [I 1; name; m] =>
      match p_bytes name, p_str m with
      | Some n, Some m' =>
          match lookup_name n section_table with
          | Some (s, KStr w) => Some (DStr s w m')
          | _ => None
          end
      | _, _ => None
      end
  | L [I 2; name; v] =>
      match p_bytes name with
      | Some n =>
          match lookup_name n section_table with
          | Some (s, KTab _ enc) => match p_val enc v with Some v' => Some (DTab s v') | None => None end
          | _ => None
          end
      | None => None
      end
  | L [I 3; name; payload] =>
      match p_bytes name, p_bytes payload with
      | Some n, Some p => Some (DUnknown n p)
      | _, _ => None
      end
  | _ => None
  end.

Definition run (t : tree) : tree :=
  match t with
  | L [I 1; bs] =>          (* decode a whole CHK *)
      match p_bytes bs with
      | Some b => t_result (t_list t_section) (chk_decode b)
      | None => t_bad
      end
  | L [I 2; bs] =>          (* decode then encode *)
      match p_bytes bs with
      | Some b => t_result t_bytes (do s <- chk_decode b; chk_encode s)
      | None => t_bad
      end
  | L [I 3; name; payload] =>   (* decode one section *)
      match p_bytes name, p_bytes payload with
      | Some n, Some p => t_result t_section (decode_one n p)
      | _, _ => t_bad
      end
  | L [I 4; secs] =>        (* encode a list of decoded sections *)
      match p_list p_section secs with
      | Some ss => t_result t_bytes (chk_encode ss)
      | None => t_bad
      end
  | _ => t_bad
  end.
