(* Correspondence entry points for the rich pipeline (C02, C03, C04, C07, C10, C11). *)
From Coq Require Import String NArith List Bool.
From RC Require Import lib.Result lib.Bytes lib.Tree model.ChkIo model.RichCodec model.RichIo.
Import ListNotations.
Local Open Scope N_scope.

Definition p_str (t : tree) : option string :=
  match p_bytes t with Some cs => Some (string_of_codes cs) | None => None end.

Definition p_optN (t : tree) : option (option N) := p_option p_N t.

Definition p_rstr (t : tree) : option rstr :=
  match t with
  | L [] => Some RNull
  | L [x] => match p_bytes x with Some s => Some (RText s) | None => None end
  | _ => None
  end.

Definition p_loc (oid : N) (t : tree) : option rloc :=
  match t with
  | L [I x1; I y1; I x2; I y2; nm; ix; el] =>
      match p_rstr nm, p_optN ix, p_list p_bool el with
      | Some n, Some i, Some e =>
          Some {| l_x1 := x1; l_y1 := y1; l_x2 := x2; l_y2 := y2; l_name := n; l_idx := i; l_elev := e; l_oid := oid |}
      | _, _, _ => None
      end
  | _ => None
  end.

Definition p_cuwp (t : tree) : option rcuwp :=
  match t with
  | L [I hp; I sh; I en; I res; I hang; fl; vs; vu; unk; I pad; ix] =>
      match p_list p_bool fl, p_list p_bool vs, p_list p_bool vu, p_bool unk, p_optN ix with
      | Some f, Some a, Some b, Some u, Some i =>
          Some {| c_hp := hp; c_sh := sh; c_en := en; c_res := res; c_hang := hang; c_flags := f; c_vs := a; c_vu := b;
                  c_unk := u; c_pad := pad; c_idx := i |}
      | _, _, _, _, _ => None
      end
  | _ => None
  end.

Definition p_switch (oid : N) (t : tree) : option rswitch :=
  match t with
  | L [nm; ix] =>
      match p_rstr nm, p_optN ix with
      | Some n, Some i => Some {| s_name := n; s_idx := i; s_oid := oid |}
      | _, _ => None
      end
  | _ => None
  end.

Fixpoint p_indexed {A} (f : N -> tree -> option A) (ts : list tree) (k : N) : option (list A) :=
  match ts with
  | [] => Some []
  | t :: r => match f k t, p_indexed f r (k + 1) with
              | Some a, Some l => Some (a :: l)
              | _, _ => None
              end
  end.

Definition p_aval (t : tree) : option aval :=
  match t with
  | L [I 0; I n] => Some (VNum n)
  | L [I 1; I n] => Some (VEnum n)
  | L [I 2; I k] => Some (VNewLoc (N.to_nat k))
  | L [I 3; I id] => Some (VOldLoc id)
  | L [I 4; s] => option_map VText (p_bytes s)
  | L [I 5] => Some VNullStr
  | L [I 6; I k] => Some (VNewCuwp (N.to_nat k))
  | L [I 7; I id] => Some (VOldCuwp id)
  | L [I 8; I k] => Some (VNewSwitch (N.to_nat k))
  | L [I 9; I id] => Some (VOldSwitch id)
  | L [I 10; s] => option_map VAi (p_bytes s)
  | L [I 11] => Some VNothing
  | L [I 12; s] => option_map VTextValue (p_bytes s)
  | _ => None
  end.

Definition p_aentry (t : tree) : option aentry :=
  match t with
  | L [I 0; I key; L args; fl] =>
      match p_all (map (fun a => match a with
                                 | L [nm; v] => match p_str nm, p_aval v with
                                                | Some n, Some x => Some (n, x) | _, _ => None end
                                 | _ => None end) args), p_list p_bool fl with
      | Some a, Some f => Some (ARich key a f)
      | _, _ => None
      end
  | L [I 1; vals] => option_map ARawE (p_bytes vals)
  | _ => None
  end.

Definition p_atrigger (t : tree) : option atrigger :=
  match t with
  | L [cs; acts; pl] =>
      match p_list p_aentry cs, p_list p_aentry acts, p_bytes pl with
      | Some c, Some a, Some p => Some {| at_conds := c; at_acts := a; at_players := p |}
      | _, _, _ => None
      end
  | _ => None
  end.

Definition p_weapon (t : tree) : option rweapon :=
  match t with L [I w; I b; I u] => Some {| w_id := w; w_base := b; w_upg := u |} | _ => None end.

Definition p_unit (t : tree) : option runit :=
  match t with
  | L [I id; I hp; I sh; I ar; I bt; I mi; I ga; nm; ws; df] =>
      match p_rstr nm, p_list p_weapon ws, p_bool df with
      | Some n, Some w, Some d =>
          Some {| u_id := id; u_hp := hp; u_sh := sh; u_ar := ar; u_bt := bt; u_mi := mi; u_ga := ga; u_name := n;
                  u_weapons := w; u_default := d |}
      | _, _, _ => None
      end
  | _ => None
  end.

Definition p_aop (t : tree) : option aop :=
  match t with
  | L [I 1; ts] => option_map OpAddTriggers (p_list p_atrigger ts)
  | L [I 2] => Some OpSaveReload
  | L [I 3; nm; us] => match p_str nm, p_list p_unit us with
                       | Some n, Some u => Some (OpUpsertUnits n u) | _, _ => None end
  | _ => None
  end.

Definition p_wavmeta (t : tree) : option (list N * N) :=
  match t with
  | L [path; I d] => match p_bytes path with Some p => Some (p, d) | None => None end
  | _ => None
  end.

Definition run (t : tree) : tree :=
  match t with
  | L [I 1; bs] =>          (* unedited load + save, bytes to bytes *)
      match p_bytes bs with
      | Some b => t_result t_bytes (load_save b)
      | None => t_bad
      end
  | L [I 2; bs] =>          (* two cycles *)
      match p_bytes bs with
      | Some b => t_result t_bytes (do b1 <- load_save b; load_save b1)
      | None => t_bad
      end
  | L [I 3; bs; L [L locs; cuwps; L sws]; ops] =>      (* an authored scenario *)
      match p_bytes bs, p_indexed (fun k => p_loc (k + 1)) locs 0, p_list p_cuwp cuwps,
            p_indexed (fun k => p_switch (k + 1)) sws 0, p_list p_aop ops with
      | Some b, Some ls, Some cs, Some ss, Some os =>
          t_result t_bytes (run_scenario b {| p_locs := ls; p_cuwps := cs; p_switches := ss |} os)
      | _, _, _, _, _ => t_bad
      end
  | L [I 4; bs; L [L locs; cuwps; L sws]; ops; wm] =>  (* an authored scenario saved with WAV metadata *)
      match p_bytes bs, p_indexed (fun k => p_loc (k + 1)) locs 0, p_list p_cuwp cuwps,
            p_indexed (fun k => p_switch (k + 1)) sws 0, p_list p_aop ops, p_list p_wavmeta wm with
      | Some b, Some ls, Some cs, Some ss, Some os, Some w =>
          t_result t_bytes (run_scenario_w w b {| p_locs := ls; p_cuwps := cs; p_switches := ss |} os)
      | _, _, _, _, _, _ => t_bad
      end
  | L [I 5; bs; wm] =>      (* unedited load + save with WAV metadata *)
      match p_bytes bs, p_list p_wavmeta wm with
      | Some b, Some w => t_result t_bytes (load_save_w w b)
      | _, _ => t_bad
      end
  | _ => t_bad
  end.
