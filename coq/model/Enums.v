(* Executable model of RichChkEnumTranscoder over the generated member tables.
   _ENUM_ID_MAP[type][member.id] = member is filled in iteration order: later wins. *)
From Coq Require Import NArith List Bool String.
From RC Require Import lib.Result.
Import ListNotations.
Local Open Scope N_scope.

Definition enum_table := list (N * string).

(* dict built by successive assignment: the last entry with the id wins *)
Fixpoint enum_map_get (E : enum_table) (n : N) : option string :=
  match E with
  | [] => None
  | (i, m) :: r =>
      match enum_map_get r n with
      | Some m' => Some m'
      | None => if i =? n then Some m else None
      end
  end.

Definition enum_decode (E : enum_table) (n : N) : result string :=
  match enum_map_get E n with Some m => Ok m | None => Raise KeyError end.

(* rich_enum.id : members are distinct Python objects found by their member name *)
Fixpoint enum_encode (E : enum_table) (m : string) : result N :=
  match E with
  | [] => Raise TypeError
  | (i, m') :: r => if String.eqb m m' then Ok i else enum_encode r m
  end.

Definition contains_enum_by_id (E : enum_table) (n : N) : bool :=
  match enum_map_get E n with Some _ => true | None => false end.

Fixpoint nodup_N (l : list N) : bool :=
  match l with
  | [] => true
  | x :: r => negb (existsb (N.eqb x) r) && nodup_N r
  end.

Fixpoint nodup_str (l : list string) : bool :=
  match l with
  | [] => true
  | x :: r => negb (existsb (String.eqb x) r) && nodup_str r
  end.

Definition enum_wf (E : enum_table) : bool :=
  nodup_N (map fst E) && nodup_str (map snd E).
