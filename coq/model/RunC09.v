(* Correspondence entry points for the slot allocators (C09, C14). *)
From Coq Require Import String NArith List Bool.
From RC Require Import lib.Result lib.Tree model.Alloc.
Import ListNotations.
Local Open Scope N_scope.

Definition p_request (t : tree) : option request :=
  match t with
  | L [I 0] => Some RFresh
  | L [I 1; I k] => Some (RCarry k)
  | L [I 2] => Some RSkip
  | _ => None
  end.

Definition t_outcome (o : outcome) : tree :=
  match o with Placed i => L [I 1; I i] | _ => L [I 0] end.

Definition run (t : tree) : tree :=
  match t with
  | L [I which; existing; reqs] =>
      match p_bytes existing, p_list p_request reqs with
      | Some ex, Some rs =>
          t_result (t_list t_outcome)
            (match which with
             | 1 => add_locations ex rs
             | 2 => add_cuwp_slots ex rs
             | 3 => add_wav_files ex rs
             | 4 => add_switches ex rs
             | _ => rebuild_swnm rs
             end)
      | _, _ => t_bad
      end
  | _ => t_bad
  end.
