From Coq Require Import String NArith List Bool.
From RC Require Import lib.Result lib.Bytes lib.Tree model.Str model.StrEditor model.RunC01.
Import ListNotations.
Local Open Scope N_scope.

Definition p_width (t : tree) : option nat :=
  match t with I 2 => Some 2%nat | I 4 => Some 4%nat | _ => None end.

Definition run (t : tree) : tree :=
  match t with
  | L [I 1; w; req; sec] =>      (* add strings *)
      match p_width w, p_list p_bytes req, p_str sec with
      | Some w', Some r, Some s => t_result t_str (add_strings w' r s)
      | _, _, _ => t_bad
      end
  | L [I 2; sec] =>              (* STR -> STRx *)
      match p_str sec with Some s => t_str (generate_strx s) | None => t_bad end
  | L [I 3; w; sec] =>           (* id -> text lookup *)
      match p_width w, p_str sec with
      | Some w', Some s => t_result (t_list t_bytes) (build_lookup w' s)
      | _, _ => t_bad
      end
  | L [I 4; w; sec] =>           (* encode *)
      match p_width w, p_str sec with
      | Some w', Some s => t_result t_bytes (str_encode w' s)
      | _, _ => t_bad
      end
  | _ => t_bad
  end.
