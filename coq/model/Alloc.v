(* Hand model of the slot allocators:
     RichMrgnEditor.add_locations, RichUprpEditor.add_cuwp_slots, RichWavEditor.add_wav_files,
     RichSwnmEditor.add_switches, RichSwnmRebuilder.rebuild_rich_swnm_from_rich_chk.
   All of them walk a collection of requests and hand out the smallest free id.  The collection's
   iteration order (a Python set's) is an explicit argument: the list of requests as iterated. *)
From Coq Require Import String NArith List Bool.
From RC Require Import lib.Result gen.GenConsts.
Import ListNotations.
Local Open Scope N_scope.

(* what one object asks for *)
Inductive request : Set :=
| RCarry (k : N)      (* carries an index *)
| RFresh              (* needs a new slot *)
| RSkip.              (* equal to something that already has a slot (CUWP contents, WAV path) *)

Inductive outcome : Set :=
| Placed (i : N)      (* stored in slot i *)
| Dropped             (* carried index already taken: not replaced, a warning is logged *)
| Reused              (* nothing to do *)
| Unplaced.           (* MRGN only: the loop broke because no index is left *)

Definition memN (k : N) (l : list N) : bool := existsb (N.eqb k) l.
Definition removeN (k : N) (l : list N) : list N := filter (fun x => negb (x =? k)) l.

(* lo, lo+1, ..., lo+n-1 : recursion on a small nat (<= 512) *)
Fixpoint range_from (lo : N) (n : nat) : list N :=
  match n with O => [] | S n' => lo :: range_from (lo + 1) n' end.

Definition free_ids (lo : N) (count : N) (reserved used : list N) : list N :=
  filter (fun i => negb (memN i used) && negb (memN i reserved)) (range_from lo (N.to_nat count)).

(* sorted(xs, key=lambda x: x.index is None): carried first, stable *)
Definition carried_first (reqs : list request) : list request :=
  filter (fun r => match r with RCarry _ => true | _ => false end) reqs ++
  filter (fun r => match r with RCarry _ => false | _ => true end) reqs.

Section Engine.
  Variable break_when_empty : bool.   (* MRGN: `if not allocable: break` when an index-less location finds no index left *)
  Variable carry_checks_used : bool.  (* editors: a carried index is placed only when still unused *)
  Variable carry_range : option (N * N).  (* MRGN: a carried index outside [lo, hi] raises ValueError *)

  Fixpoint engine (reqs : list request) (used free : list N) : result (list outcome) :=
    match reqs with
    | [] => Ok []
    | r :: rest =>
          match r with
          | RCarry k =>
              if match carry_range with Some (lo, hi) => (k <? lo) || (hi <? k) | None => false end
              then Raise ValueError
              else
              if carry_checks_used && memN k used
              then do o <- engine rest used free; Ok (Dropped :: o)
              else do o <- engine rest (k :: used) (removeN k free); Ok (Placed k :: o)
          | RSkip => do o <- engine rest used free; Ok (Reused :: o)
          | RFresh =>
              match free with
              | [] => if break_when_empty then Ok (map (fun _ => Unplaced) reqs) else Raise ValueError
              | i :: free' => do o <- engine rest (i :: used) free'; Ok (Placed i :: o)
              end
          end
    end.
End Engine.

(* ---- the four tables ------------------------------------------------------------------------------ *)

(* ids not carried by any used switch *)
Definition carried_ids (reqs : list request) : list N :=
  flat_map (fun r => match r with RCarry k => [k] | _ => [] end) reqs.

(* RichMrgnEditor.add_locations: every index - of the locations already in the section and of those to add -
   is range-checked up front; then ids 1..MAX_LOCATIONS except Anywhere; break when full; carried first *)
Definition add_locations (existing : list N) (reqs : list request) : result (list outcome) :=
  if existsb (fun k => (k <? 1) || (MAX_LOCATIONS <? k)) (existing ++ carried_ids reqs) then Raise ValueError
  else engine true true (Some (1, MAX_LOCATIONS)) (carried_first reqs) existing
              (free_ids 1 MAX_LOCATIONS [ANYWHERE_LOCATION_ID] existing).

(* RichUprpEditor.add_cuwp_slots: ids 1..MAX_CUWP_SLOTS; raise when full; carried first *)
Definition add_cuwp_slots (existing : list N) (reqs : list request) : result (list outcome) :=
  engine false true None (carried_first reqs) existing (free_ids 1 MAX_CUWP_SLOTS [] existing).

(* RichWavEditor.add_wav_files: ids 0..MAX_WAV_FILES-1; request order is the caller's list *)
Definition add_wav_files (existing : list N) (reqs : list request) : result (list outcome) :=
  engine false true None reqs existing (free_ids 0 MAX_WAV_FILES [] existing).

(* RichSwnmEditor.add_switches: ids 0..MAX_SWITCHES-1; carried first, otherwise the set's iteration order as given *)
Definition add_switches (existing : list N) (reqs : list request) : result (list outcome) :=
  engine false true None (carried_first reqs) existing (free_ids 0 MAX_SWITCHES [] existing).

(* RichSwnmRebuilder: ids not carried by any used switch; a carried index always takes its slot;
   an index >= MAX_SWITCHES is an IndexError on the 256-element list *)
Definition rebuild_swnm (reqs : list request) : result (list outcome) :=
  if existsb (fun k => MAX_SWITCHES <=? k) (carried_ids reqs) then
    (* IndexError at the first out-of-range carried index, or ValueError earlier if ids run out first;
       only the class "raises" is compared *)
    Raise IndexError
  else engine false false None reqs [] (free_ids 0 MAX_SWITCHES [] (carried_ids reqs)).

(* ids handed to fresh requests, in request order *)
Fixpoint fresh_ids (reqs : list request) (outs : list outcome) : list N :=
  match reqs, outs with
  | RFresh :: r, Placed i :: o => i :: fresh_ids r o
  | _ :: r, _ :: o => fresh_ids r o
  | _, _ => []
  end.

Definition placed_ids (outs : list outcome) : list N :=
  flat_map (fun o => match o with Placed i => [i] | _ => [] end) outs.
