(* Hand models of the two scalar codecs of C12 (tied by tools/translate_scalars.py: exact shape of the Python
   + constants and tag table read from the source, and by the correspondence run of tools/c12.py).

   UnitHitpointsTranscoder:  decode  Decimal(raw) / Decimal(HP_DIVISOR)        (default context: 28 digits)
                             encode  int(Decimal(d) * Decimal(HP_RATE))         (truncation)
     A Decimal with at most 8 fractional digits is represented exactly by its number of 10^-8 units.
   AiScriptTranscoder:       decode  struct.pack("I", n).decode("utf-8"), looked up in the table of known tags
                             encode  struct.unpack("I", name.encode("utf-8"))  *)
From Coq Require Import NArith List Bool.
From RC Require Import lib.Result lib.Bytes lib.Utf8 gen.GenScalars.
Import ListNotations.
Local Open Scope N_scope.

Definition hp_scale : N := 100000000.
Definition hp_decode (raw : N) : N := raw * (hp_scale / HP_DIVISOR).
Definition hp_encode (d : N) : N := d * HP_RATE / hp_scale.

Inductive ai_script : Set := AiKnown (i : nat) | AiUnknown (name : list N).

Fixpoint list_N_eqb (a b : list N) : bool :=
  match a, b with
  | [], [] => true
  | x :: a', y :: b' => (x =? y) && list_N_eqb a' b'
  | _, _ => false
  end.

Fixpoint index_of (x : list N) (t : list (list N)) : option nat :=
  match t with
  | [] => None
  | y :: r => if list_N_eqb x y then Some O else option_map S (index_of x r)
  end.

Definition ai_decode (n : N) : result ai_script :=
  if n <? 2 ^ 32 then
    let bs := le_encode 4 n in
    do s <- utf8_decode bs;
    match index_of bs gen_ai_tags with Some i => Ok (AiKnown i) | None => Ok (AiUnknown s) end
  else Raise StructError.

Definition ai_name_of (a : ai_script) : result (list N) :=
  match a with
  | AiKnown i => match nth_error gen_ai_tags i with Some t => utf8_decode t | None => Raise KeyError end
  | AiUnknown s => Ok s
  end.

Definition ai_encode (a : ai_script) : result N :=
  do s <- ai_name_of a;
  do bs <- utf8_encode s;
  if Nat.eqb (length bs) 4 then Ok (le_decode bs) else Raise StructError.
