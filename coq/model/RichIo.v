(* The rich layer, part 2: RichChkIo.decode_chk / encode_chk with the five rebuilders, and the editors.
   Sets are iterated in first-occurrence order (the harness forces the same order on the implementation; that the
   result does not depend on the order beyond slot numbering is C14's subject). Hand model. *)
From Coq Require Import String NArith List Bool.
From RC Require Import lib.Result lib.Bytes model.Layout model.Str model.StrEditor model.ChkIo model.Alloc
  model.TrigTable model.RichCodec gen.GenLayouts gen.GenConsts gen.GenTrig gen.GenRichTables.
Import ListNotations.
Local Open Scope string_scope.
Local Open Scope list_scope.
Local Open Scope N_scope.

Definition is_rich_name (n : string) : bool := existsb (String.eqb n) registered_rich_sections.

(* ---- load ------------------------------------------------------------------------------------------------- *)

Definition tabs_named (n : string) (d : list dsection) : list val :=
  flat_map (fun s => match s with DTab m v => if String.eqb m n then [v] else [] | _ => [] end) d.

Definition strs_named (n : string) (d : list dsection) : list str_section :=
  flat_map (fun s => match s with DStr m _ x => if String.eqb m n then [x] else [] | _ => [] end) d.

Definition only {A} (l : list A) : result A := match l with [x] => Ok x | _ => Raise ValueError end.

Definition build_str_lookup (w : nat) (m : str_section) : result str_lookup :=
  do texts <- build_lookup w m; Ok {| sl_by_id := texts |}.

Definition empty_cx (L : str_lookup) : context :=
  {| cx_str := L; cx_locs := []; cx_loc_ids := []; cx_switch_by_id := []; cx_switch_ids := []; cx_cuwps := [];
     cx_wav_dur := [] |}.

Definition decode_context (d : list dsection) : result context :=
  do str <- only (strs_named "STR " d);
  do L <- build_str_lookup 2 str;
  do mv <- only (tabs_named "MRGN" d);
  do locs <- mrgn_decode L mv;
  let sw := match tabs_named "SWNM" d with [v] => swnm_lookup L v | _ => [] end in
  do cw <- match tabs_named "UPRP" d with [v] => uprp_decode v | _ => Ok [] end;
  Ok {| cx_str := L; cx_locs := locs; cx_loc_ids := []; cx_switch_by_id := sw; cx_switch_ids := []; cx_cuwps := cw;
        cx_wav_dur := [] |}.

Definition load_section (cx : context) (s : dsection) : result rsection :=
  match s with
  | DUnknown n p => Ok (RUnknown n p)
  | DStr n w m => Ok (RDecodedStr n w m)
  | DTab n v =>
      if negb (is_rich_name n) then Ok (RDecodedTab n v)
      else if String.eqb n "MRGN" then do ls <- mrgn_decode (cx_str cx) v; Ok (RMrgn ls)
      else if String.eqb n "TRIG" then do ts <- trig_decode cx v; Ok (RTrig ts)
      else if String.eqb n "UNIS" then Ok (RUnis 100 n (unis_decode (cx_str cx) v))
      else if String.eqb n "UNIx" then Ok (RUnis 130 n (unis_decode (cx_str cx) v))
      else if String.eqb n "UPRP" then do cs <- uprp_decode v; Ok (RUprp cs)
      else if String.eqb n "SWNM" then do ss <- swnm_decode (cx_switch_by_id cx) v; Ok (RSwnm ss)
      else if String.eqb n "WAV " then Ok (RWav (wav_decode (cx_str cx) v))
      else Raise NotImplementedErr
  end.

Definition load (d : list dsection) : result (list rsection) :=
  do cx <- decode_context d; mapM (load_section cx) d.

(* ---- walking the rich sections (dataclass field order) -------------------------------------------------------- *)

Definition field_order (table : list (N * list string)) (key : N) : list string :=
  match assocN key table with Some fs => fs | None => [] end.

Definition ordered_args (table : list (N * list string)) (e : rentry) : list rarg :=
  match e with
  | ERaw _ => []
  | ERich key args _ =>
      flat_map (fun f => match arg_get rarg f args with Ok a => [a] | Raise _ => [] end) (field_order table key)
  end.

Definition trigger_args (t : rtrigger) : list rarg :=
  flat_map (ordered_args gen_condition_field_order) (t_conds t) ++
  flat_map (ordered_args gen_action_field_order) (t_acts t).

Definition rstr_texts (s : rstr) : list (list N) := match s with RText t => [t] | RNull => [] end.

Definition arg_strings (a : rarg) : list (list N) :=
  match a with
  | AStr s => rstr_texts s
  | ALoc l => rstr_texts (l_name l)
  | ASwitch s => rstr_texts (s_name s)
  | _ => []
  end.

Definition section_strings (s : rsection) : list (list N) :=
  match s with
  | RMrgn ls => flat_map (fun l => rstr_texts (l_name l)) ls
  | RTrig ts => flat_map (fun t => flat_map arg_strings (trigger_args t)) ts
  | RUnis _ _ us => flat_map (fun u => rstr_texts (u_name u)) us
  | RSwnm ss => flat_map (fun x => rstr_texts (s_name x)) ss
  | RWav ws => flat_map (fun w => rstr_texts (fst w)) ws
  | _ => []
  end.

Definition section_locs (s : rsection) : list rloc :=
  match s with
  | RTrig ts => flat_map (fun t => flat_map (fun a => match a with ALoc l => [l] | _ => [] end) (trigger_args t)) ts
  | _ => []
  end.

Definition section_cuwps (s : rsection) : list rcuwp :=
  match s with
  | RTrig ts => flat_map (fun t => flat_map (fun a => match a with ACuwp c => [c] | _ => [] end) (trigger_args t)) ts
  | _ => []
  end.

Definition section_switches (s : rsection) : list rswitch :=
  match s with
  | RTrig ts => flat_map (fun t => flat_map (fun a => match a with ASwitch x => [x] | _ => [] end) (trigger_args t)) ts
  | _ => []
  end.

(* first-occurrence de-duplication by the given equality *)
Fixpoint dedupe {A} (eqb : A -> A -> bool) (l acc : list A) : list A :=
  match l with
  | [] => rev acc
  | x :: r => if existsb (eqb x) acc then dedupe eqb r acc else dedupe eqb r (x :: acc)
  end.

(* ---- the rebuilders ------------------------------------------------------------------------------------------------ *)

Definition decoded_strs (r : list rsection) : list str_section :=
  flat_map (fun s => match s with RDecodedStr n _ m => if String.eqb n "STR " then [m] else [] | _ => [] end) r.

Definition named (n : string) (s : rsection) : bool :=
  match s with
  | RMrgn _ => String.eqb n "MRGN" | RTrig _ => String.eqb n "TRIG" | RUnis _ m _ => String.eqb n m
  | RUprp _ => String.eqb n "UPRP" | RSwnm _ => String.eqb n "SWNM" | RWav _ => String.eqb n "WAV "
  | RDecodedStr m _ _ => String.eqb n m | RDecodedTab m _ => String.eqb n m | RUnknown _ _ => false
  end.

Definition rebuild_str (r : list rsection) : result str_section :=
  do str <- only (filter (named "STR ") r);
  match str with
  | RDecodedStr _ _ m => add_strings 2 (flat_map section_strings r) m
  | _ => Raise ValueError
  end.

Definition set_idx (l : rloc) (i : N) : rloc :=
  {| l_x1 := l_x1 l; l_y1 := l_y1 l; l_x2 := l_x2 l; l_y2 := l_y2 l; l_name := l_name l; l_idx := Some i;
     l_elev := l_elev l; l_oid := l_oid l |}.

(* RichMrgnEditor.add_locations through the allocation engine *)
Definition rebuild_mrgn (r : list rsection) : result (list rloc * list (rloc * N)) :=
  do m <- only (filter (named "MRGN") r);
  match m with
  | RMrgn ls =>
      if existsb (fun l => match l_idx l with None => true | Some _ => false end) ls then Raise ValueError
      else
        let wanted := dedupe rloc_eqb (flat_map section_locs r) [] in
        let order := filter (fun l => match l_idx l with Some _ => true | None => false end) wanted ++
                     filter (fun l => match l_idx l with Some _ => false | None => true end) wanted in
        let reqs := map (fun l => match l_idx l with Some k => RCarry k | None => RFresh end) order in
        let existing := flat_map (fun l => match l_idx l with Some i => [i] | None => [] end) ls in
        do outs <- add_locations existing reqs;
        let placed := flat_map (fun p => match snd p with Placed i => [(fst p, i)] | _ => [] end) (combine order outs) in
        Ok (ls ++ map (fun p => set_idx (fst p) (snd p)) placed,
            map (fun l => (l, match l_idx l with Some i => i | None => 0 end)) ls ++
            flat_map (fun p => [(set_idx (fst p) (snd p), snd p); (fst p, snd p)]) placed)
  | _ => Raise ValueError
  end.

Definition set_cidx (c : rcuwp) (i : N) : rcuwp :=
  {| c_hp := c_hp c; c_sh := c_sh c; c_en := c_en c; c_res := c_res c; c_hang := c_hang c; c_flags := c_flags c;
     c_vs := c_vs c; c_vu := c_vu c; c_unk := c_unk c; c_pad := c_pad c; c_idx := Some i |}.

Definition rebuild_uprp (r : list rsection) : result (list rcuwp) :=
  do existing <- match filter (named "UPRP") r with
                 | [] => Ok []
                 | [RUprp cs] => Ok cs
                 | _ => Raise ValueError
                 end;
  if existsb (fun c => match c_idx c with None => true | Some _ => false end) existing then Raise AssertionError
  else
    let wanted := dedupe rcuwp_eqb (flat_map section_cuwps r) [] in
    let order := filter (fun c => match c_idx c with Some _ => true | None => false end) wanted ++
                 filter (fun c => match c_idx c with Some _ => false | None => true end) wanted in
    let reqs := map (fun c => match c_idx c with
                              | Some k => RCarry k
                              | None => if existsb (rcuwp_eqb c) existing then RSkip else RFresh
                              end) order in
    do outs <- add_cuwp_slots (flat_map (fun c => match c_idx c with Some i => [i] | None => [] end) existing) reqs;
    Ok (existing ++ flat_map (fun p => match snd p with Placed i => [set_cidx (fst p) i] | _ => [] end) (combine order outs)).

Definition default_switches : list rswitch :=
  map (fun i => {| s_name := RNull; s_idx := Some (N.of_nat i); s_oid := 0 |}) (seq 0 (N.to_nat MAX_SWITCHES)).

(* python `x == y` on RichSwitch (used by set de-duplication together with the hash, see rswitch_key_eqb) *)
Definition rebuild_swnm (r : list rsection) : result (list rswitch * list (rswitch * N)) :=
  let swnm := match filter (named "SWNM") r with [RSwnm ss] => ss | _ => default_switches end in
  let used := dedupe rswitch_key_eqb (flat_map section_switches r) [] in
  let named_sw := filter (fun s => negb (rstr_empty (s_name s))) swnm in
  let all := dedupe rswitch_key_eqb (used ++ named_sw) [] in
  let reqs := map (fun s => match s_idx s with Some k => RCarry k | None => RFresh end) all in
  do outs <- Alloc.rebuild_swnm reqs;
  let assigned := flat_map (fun p => match snd p with Placed i => [(fst p, i)] | _ => [] end) (combine all outs) in
  (* slot i takes the LAST switch assigned to i that has a name; a reference by number alone (no name) takes the slot only
     when no named switch claims it: it never erases a name *)
  let by_slot := map (fun p => (snd p, fst p)) assigned in
  let named_by_slot := filter (fun p => negb (rstr_empty (s_name (snd p)))) by_slot in
  Ok (map (fun i => match assocN_last i named_by_slot with
                    | Some s => {| s_name := s_name s; s_idx := Some i; s_oid := s_oid s |}
                    | None => match assocN_last i by_slot with
                              | Some s => {| s_name := s_name s; s_idx := Some i; s_oid := s_oid s |}
                              | None => {| s_name := RNull; s_idx := Some i; s_oid := 0 |}
                              end
                    end) (map N.of_nat (seq 0 (N.to_nat MAX_SWITCHES))),
      assigned).

(* ---- save ----------------------------------------------------------------------------------------------------------- *)

Definition save (wav_dur : list (list N * N)) (r : list rsection) : result (list dsection) :=
  do new_str <- rebuild_str r;
  do mr <- rebuild_mrgn r;
  do sw <- rebuild_swnm r;
  do new_uprp <- rebuild_uprp r;
  do new_upus <- upus_rebuild new_uprp;
  do L <- build_str_lookup 2 new_str;
  let cx := {| cx_str := L; cx_locs := fst mr; cx_loc_ids := snd mr; cx_switch_by_id := []; cx_switch_ids := snd sw;
               cx_cuwps := new_uprp; cx_wav_dur := wav_dur |} in
  do new_cx_check <- (if existsb (fun c => match c_idx c with None => true | Some _ => false end) new_uprp
                      then Raise AssertionError else Ok tt);
  do secs <- mapM (fun s =>
                     match s with
                     | RUnknown n p => Ok (DUnknown n p)
                     | RDecodedStr n w m => if String.eqb n "STR " then Ok (DStr n w new_str) else Ok (DStr n w m)
                     | RDecodedTab n v => if String.eqb n "UPUS" then Ok (DTab n new_upus) else Ok (DTab n v)
                     | RMrgn _ => do v <- mrgn_encode L (fst mr); Ok (DTab "MRGN" v)
                     | RSwnm _ => do v <- swnm_encode L (fst sw); Ok (DTab "SWNM" v)
                     | RUprp _ => do v <- uprp_encode new_uprp; Ok (DTab "UPRP" v)
                     | RTrig ts => do v <- trig_encode cx ts; Ok (DTab "TRIG" v)
                     | RUnis nw n us => do v <- unis_encode L nw us; Ok (DTab n v)
                     | RWav ws => do v <- wav_encode L ws; Ok (DTab "WAV " v)
                     end) r;
  let has n := existsb (fun s => match s with
                                 | RSwnm _ => String.eqb n "SWNM" | RUprp _ => String.eqb n "UPRP"
                                 | RDecodedTab m _ => String.eqb n m && String.eqb n "UPUS" | _ => false end) r in
  do extra1 <- (if has "SWNM" then Ok [] else do v <- swnm_encode L (fst sw); Ok [DTab "SWNM" v]);
  do extra2 <- (if has "UPRP" then Ok [] else do v <- uprp_encode new_uprp; Ok [DTab "UPRP" v]);
  let extra3 := if has "UPUS" then [] else [DTab "UPUS" new_upus] in
  Ok (secs ++ extra1 ++ extra2 ++ extra3).

(* bytes -> bytes: the whole unedited cycle *)
Definition load_save_w (wav_dur : list (list N * N)) (bs : bytes) : result bytes :=
  do d <- chk_decode bs; do r <- load d; do d' <- save wav_dur r; chk_encode d'.

Definition load_save (bs : bytes) : result bytes := load_save_w [] bs.

(* ---- editors ---------------------------------------------------------------------------------------------------------- *)

(* RichTrigEditor.add_triggers on the first TRIG section + RichChkEditor.replace_chk_section (replaces EVERY
   rich section of that name) *)
Definition add_triggers (new : list rtrigger) (r : list rsection) : result (list rsection) :=
  match flat_map (fun s => match s with RTrig ts => [ts] | _ => [] end) r with
  | [] => Raise ValueError
  | ts :: _ => Ok (map (fun s => match s with RTrig _ => RTrig (ts ++ new) | x => x end) r)
  end.

(* RichUnisEditor / RichUnixEditor.upsert_all_unit_settings: replace the setting of the same unit id (every
   occurrence), else append; applied to the first section of that name, which then replaces every such section *)
Definition upsert_unit (x : runit) (us : list runit) : list runit :=
  if existsb (fun u => u_id u =? u_id x) us then map (fun u => if u_id u =? u_id x then x else u) us
  else us ++ [x].

Definition upsert_units (name : string) (new : list runit) (r : list rsection) : result (list rsection) :=
  match flat_map (fun s => match s with RUnis nw n us => if String.eqb n name then [(nw, us)] else [] | _ => [] end) r with
  | [] => Raise ValueError
  | (nw, us) :: _ =>
      let us' := fold_left (fun acc x => upsert_unit x acc) new us in
      Ok (map (fun s => match s with
                        | RUnis nw' n _ => if String.eqb n name then RUnis nw' n us' else s
                        | x => x end) r)
  end.

(* ---- authored scenarios: a pool of new objects, and operations referring to them ----------------------------- *)

Inductive aval : Set :=
| VNum (n : N) | VEnum (n : N) | VNewLoc (k : nat) | VOldLoc (id : N) | VText (t : list N) | VNullStr
| VNewCuwp (k : nat) | VOldCuwp (id : N) | VNewSwitch (k : nat) | VOldSwitch (id : N) | VAi (t : list N) | VNothing
| VTextValue (t : list N).

Inductive aentry : Type :=
| ARich (key : N) (args : list (string * aval)) (flags : list bool)
| ARawE (vals : list N).

Record atrigger := { at_conds : list aentry; at_acts : list aentry; at_players : list N }.

Inductive aop : Type :=
| OpAddTriggers (ts : list atrigger)
| OpUpsertUnits (name : string) (us : list runit)
| OpSaveReload.

Record pool := { p_locs : list rloc; p_cuwps : list rcuwp; p_switches : list rswitch }.

Definition rich_mrgn_locs (r : list rsection) : list rloc :=
  flat_map (fun s => match s with RMrgn ls => ls | _ => [] end) r.
Definition rich_uprp_slots (r : list rsection) : list rcuwp :=
  flat_map (fun s => match s with RUprp cs => cs | _ => [] end) r.
Definition rich_swnm_switches (r : list rsection) : list rswitch :=
  flat_map (fun s => match s with RSwnm ss => ss | _ => [] end) r.

Definition resolve_aval (p : pool) (r : list rsection) (a : aval) : result rarg :=
  match a with
  | VNum n => Ok (AInt n)
  | VEnum n => Ok (AEnum n)
  | VNewLoc k => of_option IndexError (option_map ALoc (nth_error (p_locs p) k))
  | VOldLoc id => of_option KeyError (option_map ALoc (find (fun l => optN_eqb (l_idx l) (Some id)) (rich_mrgn_locs r)))
  | VText t => Ok (AStr (RText t))
  | VNullStr => Ok (AStr RNull)
  | VNewCuwp k => of_option IndexError (option_map ACuwp (nth_error (p_cuwps p) k))
  | VOldCuwp id => of_option KeyError (option_map ACuwp (find (fun c => optN_eqb (c_idx c) (Some id)) (rich_uprp_slots r)))
  | VNewSwitch k => of_option IndexError (option_map ASwitch (nth_error (p_switches p) k))
  | VOldSwitch id =>
      Ok (ASwitch (match find (fun s => optN_eqb (s_idx s) (Some id)) (rich_swnm_switches r) with
                   | Some s => s
                   | None => {| s_name := RNull; s_idx := Some id; s_oid := 0 |}
                   end))
  | VAi t => Ok (AAi t)
  | VNothing => Ok ANone
  | VTextValue t => Ok (AStrV t)
  end.

Definition resolve_entry (fields : list string) (p : pool) (r : list rsection) (e : aentry) : result rentry :=
  match e with
  | ARich key args fl =>
      do args' <- mapM (fun na => do a <- resolve_aval p r (snd na); Ok (fst na, a)) args;
      Ok (ERich key args' fl)
  | ARawE vals => Ok (ERaw (combine fields vals))
  end.

Definition resolve_trigger (p : pool) (r : list rsection) (t : atrigger) : result rtrigger :=
  do cs <- mapM (resolve_entry condition_record_fields p r) (at_conds t);
  do acts <- mapM (resolve_entry action_record_fields p r) (at_acts t);
  Ok {| t_conds := cs; t_acts := acts; t_players := at_players t |}.

Definition encode_decode_cycle (r : list rsection) : result (list rsection) :=
  do d <- save [] r; do bs <- chk_encode d; do d' <- chk_decode bs; load d'.

Definition apply_op (p : pool) (r : list rsection) (o : aop) : result (list rsection) :=
  match o with
  | OpAddTriggers ts => do ts' <- mapM (resolve_trigger p r) ts; add_triggers ts' r
  | OpUpsertUnits name us => upsert_units name us r
  | OpSaveReload => encode_decode_cycle r
  end.

(* the final save may be given WAV metadata (RichChkIo.encode_chk's optional wav_metadata_lookup, which
   StarCraftMpqIo.save_chk_to_mpq always passes): path -> duration *)
Definition run_scenario_w (wav_dur : list (list N * N)) (bs : bytes) (p : pool) (ops : list aop) : result bytes :=
  do d <- chk_decode bs;
  do r0 <- load d;
  do r <- fold_left (fun acc o => do r <- acc; apply_op p r o) ops (Ok r0);
  do d' <- save wav_dur r;
  chk_encode d'.

Definition run_scenario (bs : bytes) (p : pool) (ops : list aop) : result bytes := run_scenario_w [] bs p ops.
