(* Correspondence entry points for C12 (tree -> tree), extracted to OCaml. *)
From Coq Require Import NArith List Bool String.
From RC Require Import lib.Result lib.Tree model.Flags model.Enums model.Scalars gen.GenFlags gen.GenEnums.
Import ListNotations.
Local Open Scope N_scope.

Fixpoint assoc_str {A} (k : string) (l : list (string * A)) : option A :=
  match l with
  | [] => None
  | (k', v) :: r => if String.eqb k k' then Some v else assoc_str k r
  end.

Definition t_rich (r : rich_flags) : tree := L (map (fun e => t_bool (snd e)) r).

Definition run (t : tree) : tree :=
  match t with
  | L [I 1; name; I x] =>            (* flag decode *)
      match p_bytes name with
      | Some cs =>
          match assoc_str (string_of_codes cs) all_flag_codecs with
          | Some c => t_result t_rich (fdecode c x)
          | None => t_bad
          end
      | None => t_bad
      end
  | L [I 2; name; bits] =>           (* flag encode; bits in fc_dec order *)
      match p_bytes name, p_list p_bool bits with
      | Some cs, Some bs =>
          match assoc_str (string_of_codes cs) all_flag_codecs with
          | Some c => t_result I (fencode c (rich_of_bools c bs))
          | None => t_bad
          end
      | _, _ => t_bad
      end
  | L [I 3; name; I n] =>            (* enum decode -> member name *)
      match p_bytes name with
      | Some cs =>
          match assoc_str (string_of_codes cs) all_enums with
          | Some E => t_result (fun m => t_bytes (codes_of_string m)) (enum_decode E n)
          | None => t_bad
          end
      | None => t_bad
      end
  | L [I 4; name; mem] =>            (* enum encode member -> id *)
      match p_bytes name, p_bytes mem with
      | Some cs, Some ms =>
          match assoc_str (string_of_codes cs) all_enums with
          | Some E => t_result I (enum_encode E (string_of_codes ms))
          | None => t_bad
          end
      | _, _ => t_bad
      end
  | L [I 5; I raw] => I (hp_decode raw)      (* hit points: raw -> number of 10^-8 units *)
  | L [I 6; I d] => I (hp_encode d)          (* hit points: 10^-8 units -> raw (truncation) *)
  | L [I 7; I n] =>                           (* AI script: u32 -> known index | unknown name *)
      t_result (fun a => match a with
                         | AiKnown i => L [I 0; I (N.of_nat i)]
                         | AiUnknown s => L [I 1; L (map I s)]
                         end) (ai_decode n)
  | L [I 8; I k; name] =>                     (* AI script: (0 index) | (1 name) -> u32 *)
      match p_bytes name with
      | Some cs => t_result I (ai_encode (if k =? 0 then AiKnown (N.to_nat (match cs with x :: _ => x | [] => 0 end)) else AiUnknown cs))
      | None => t_bad
      end
  | _ => t_bad
  end.
