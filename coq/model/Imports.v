(* Python's import machinery, as far as registration at import time depends on it:
   sys.modules (a module being initialised is already visible, with the names defined so far),
   parent packages first, `from m import n` fails when n is not defined yet, classes register
   themselves when their class statement runs, import_all_modules_in_subpackage imports a sorted
   non-recursive listing.  The per-module event lists are generated (gen/GenImports.v). *)
From Coq Require Import NArith List Bool.
From RC Require Import lib.Result.
Import ListNotations.
Local Open Scope N_scope.

Inductive event : Set :=
| EImport (m : N) (names : list N)
| EDef (n : N)
| ERegister (r k n : N)          (* registry, key, class name *)
| EImportAll (ms : list N).

Record state := {
  started : list N;                 (* sys.modules *)
  defined : list (N * N);           (* (module, name) bound so far *)
  regs : list (N * N * N);          (* (registry, key, class) in registration order *)
}.

Definition empty_state : state := {| started := []; defined := []; regs := [] |}.

Definition memN (k : N) (l : list N) : bool := existsb (N.eqb k) l.
Definition mem2 (a b : N) (l : list (N * N)) : bool := existsb (fun p => (fst p =? a) && (snd p =? b)) l.

Section Load.
  Variable mods : list (list N * list event).

  Fixpoint load (fuel : nat) (m : N) (st : state) {struct fuel} : result state :=
    match fuel with
    | O => Raise OutOfFuel
    | S f =>
        if memN m (started st) then Ok st
        else
          match nth_error mods (N.to_nat m) with
          | None => Raise ImportErr
          | Some (parents, evs) =>
              do st1 <- (fix go (ps : list N) (st : state) : result state :=
                           match ps with [] => Ok st | p :: r => do st' <- load f p st; go r st' end) parents st;
              if memN m (started st1) then Ok st1
              else
                let st2 := {| started := m :: started st1; defined := defined st1; regs := regs st1 |} in
                (fix run (evs : list event) (st : state) : result state :=
                   match evs with
                   | [] => Ok st
                   | e :: r =>
                       do st' <-
                         match e with
                         | EImport m' names =>
                             do s1 <- load f m' st;
                             if forallb (fun n => mem2 m' n (defined s1)) names then Ok s1 else Raise ImportErr
                         | EDef n =>
                             Ok {| started := started st; defined := (m, n) :: defined st; regs := regs st |}
                         | ERegister rg k n =>
                             Ok {| started := started st; defined := defined st; regs := regs st ++ [(rg, k, n)] |}
                         | EImportAll ms =>
                             (fix all (ms : list N) (st : state) : result state :=
                                match ms with [] => Ok st | x :: r' => do s1 <- load f x st; all r' s1 end) ms st
                         end;
                       run r st'
                   end) evs st2
          end
    end.

  Definition load_top (m : N) : result state := load (S (S (length mods))) m empty_state.
End Load.

Fixpoint nodupN (l : list N) : bool :=
  match l with [] => true | x :: r => negb (memN x r) && nodupN r end.

Definition keys_of (r : N) (st : state) : list N :=
  map (fun e => snd (fst e)) (filter (fun e => fst (fst e) =? r) (regs st)).

Definition same_set (a b : list N) : bool :=
  forallb (fun x => memN x b) a && forallb (fun x => memN x a) b.

(* a registry is "loaded" once the module defining its factory has started *)
Definition registry_ok (factories : list (N * N)) (expected : list (N * list N)) (st : state) (r : N) : bool :=
  match find (fun p => fst p =? r) factories, find (fun p => fst p =? r) expected with
  | Some (_, fm), Some (_, exp) =>
      if memN fm (started st) then nodupN (keys_of r st) && same_set (keys_of r st) exp
      else match keys_of r st with [] => true | _ => false end
  | _, _ => false
  end.

Definition entry_ok (mods : list (list N * list event)) (factories : list (N * N)) (expected : list (N * list N)) (m : N) : bool :=
  match load_top mods m with
  | Ok st => forallb (registry_ok factories expected st) [0; 1; 2; 3]
  | Raise _ => false
  end.
