(* A small heap language for the question "does this operation ever write to an object that existed
   before it was called?", its executable semantics, and an ownership checker.

   The translator (tools/translate_heap.py) turns every function of src/richchk (outside mpq/ and the
   logger) into a [func]: Python expressions are flattened to three-address statements over numbered
   variables; what a statement computes is abstracted to what matters for mutation:

     values   an immutable atom (int, str, bytes, enum member, None, ...) or a reference to a mutable
              cell (list, dict, set, dataclass instance, BytesIO, ...);
     a cell   the list of the values it holds (elements, dict keys and values, attribute values).

   Every choice the abstraction cannot see (which branch, how many iterations, which element a
   subscript / attribute / iteration step yields, what an unknown value is) is read from an oracle,
   so one Python execution corresponds to one oracle; theorems quantify over all oracles.
   Running out of fuel halts the run where it is: a prefix of a run is what an exception leaves. *)
From Coq Require Import NArith List Bool Arith.
Import ListNotations.

Definition var := nat.

Inductive val : Set := VAtom | VLoc (l : nat).

Inductive stmt : Set :=
| SAtom (x : var)                          (* x = <immutable value> *)
| SAny (x : var)                           (* x = <some value the abstraction knows nothing about> *)
| SNew (x : var) (ys : list var)           (* x = [..ys..] / {..} / Class(..ys..) : a new cell holding ys *)
| SCopy (x y : var)                        (* x = list(y) / y.copy() / y[a:b] / sorted(y) : a new cell, same elements *)
| SDeep (x y : var)                        (* x = copy.deepcopy(y) : a new object graph *)
| SMove (x y : var)                        (* x = y *)
| SRead (x y : var)                        (* x = y.attr / y[k] / next(iter(y)) : y itself or something it holds *)
| SWrite (x : var) (ys : list var)         (* x.append(y) / x[k] = y / x.attr = y / x.pop() / x.reverse() / del x[k] ... *)
| SRet (y : var)                           (* return y *)
| SRaise                                   (* raise: the run stops here unless an enclosing STry resumes it *)
| STry (a b : list stmt)                   (* try: a  except: b   (b runs when a was cut short) *)
| SIf (a b : list stmt)
| SLoop (b : list stmt)
| SCall (x : var) (g : nat) (ys : list var). (* x = g(ys) *)

Record func : Set := mkfunc {
  f_nvars : nat;
  f_pfresh : list bool;     (* per parameter: must the caller pass an object it created itself? *)
  f_body : list stmt }.

Definition heap := list (list val).

Record state : Set := mkst {
  hp : heap;
  env : list val;
  orc : list nat;
  halt : nat;               (* 0 running, 1 returned, 2 aborted (exception / out of fuel) *)
  ret : val }.

Definition getv (e : list val) (x : var) : val := nth x e VAtom.

Fixpoint setnth {A} (l : list A) (n : nat) (a : A) : list A :=
  match l, n with
  | [], _ => []
  | _ :: t, O => a :: t
  | h :: t, S n' => h :: setnth t n' a
  end.

Definition setv (s : state) (x : var) (v : val) : state :=
  mkst (hp s) (setnth (env s) x v) (orc s) (halt s) (ret s).

Definition choice (s : state) : nat * state :=
  match orc s with
  | [] => (O, s)
  | c :: o => (c, mkst (hp s) (env s) o (halt s) (ret s))
  end.

Definition alloc (s : state) (c : list val) : nat * state :=
  (length (hp s), mkst (hp s ++ [c]) (env s) (orc s) (halt s) (ret s)).

Definition cell (h : heap) (v : val) : list val :=
  match v with VAtom => [] | VLoc l => nth l h [] end.

(* the contents after a mutation: the old ones kept, reversed, without the first, without the last, or
   none of them (oracle), plus the written values *)
Definition rearrange (c : nat) (old : list val) : list val :=
  match c with
  | 0 => old | 1 => rev old | 2 => tl old | 3 => removelast old | _ => []
  end.

Definition write (s : state) (v : val) (c : nat) (vs : list val) : state :=
  match v with
  | VAtom => s
  | VLoc l => mkst (setnth (hp s) l (rearrange c (nth l (hp s) []) ++ vs)) (env s) (orc s) (halt s) (ret s)
  end.

(* a fresh object graph: k+1 new cells whose elements are atoms or references among the new cells *)
Fixpoint gen_cell (m : nat) (base k : nat) (o : list nat) : list val * list nat :=
  match m with
  | O => ([], o)
  | S m' =>
      match o with
      | [] => ([], [])
      | e :: o' =>
          let '(r, o'') := gen_cell m' base k o' in
          ((match e with O => VAtom | S j => VLoc (base + Nat.modulo j (S k)) end) :: r, o'')
      end
  end.

Fixpoint gen_cells (n : nat) (base k : nat) (o : list nat) : list (list val) * list nat :=
  match n with
  | O => ([], o)
  | S n' =>
      match o with
      | [] => (repeat [] n, [])
      | m :: o' =>
          let '(c, o1) := gen_cell m base k o' in
          let '(cs, o2) := gen_cells n' base k o1 in
          (c :: cs, o2)
      end
  end.

Definition deep (s : state) (x : var) : state :=
  let '(k, s1) := choice s in
  let base := length (hp s1) in
  let '(cs, o) := gen_cells (S k) base k (orc s1) in
  mkst (hp s1 ++ cs) (setnth (env s1) x (VLoc base)) o (halt s1) (ret s1).

Definition abort (s : state) : state := mkst (hp s) (env s) (orc s) 2 (ret s).

Section Exec.
  Variable tab : list func.

  Definition enter (s : state) (fn : func) (args : list val) : state :=
    mkst (hp s) (firstn (f_nvars fn) (args ++ repeat VAtom (f_nvars fn))) (orc s) 0 VAtom.

  Definition leave (caller callee : state) (x : var) : state :=
    mkst (hp callee) (setnth (env caller) x (if Nat.eqb (halt callee) 1 then ret callee else VAtom))
         (orc callee) (if Nat.eqb (halt callee) 2 then 2 else 0) (ret caller).

  Fixpoint exec (fuel : nat) (p : list stmt) (s : state) : state :=
    match fuel with
    | O => abort s
    | S f =>
        match p with
        | [] => s
        | i :: rest =>
            if negb (Nat.eqb (halt s) 0) then s else
            let s1 :=
              match i with
              | SAtom x => setv s x VAtom
              | SAny x => let '(c, s') := choice s in
                          setv s' x (match c with O => VAtom | S l => VLoc l end)
              | SNew x ys => let '(l, s') := alloc s (map (getv (env s)) ys) in setv s' x (VLoc l)
              | SCopy x y => let '(l, s') := alloc s (cell (hp s) (getv (env s) y)) in setv s' x (VLoc l)
              | SDeep x _ => deep s x
              | SMove x y => setv s x (getv (env s) y)
              | SRead x y => let '(c, s') := choice s in
                             setv s' x (match c with
                                        | O => getv (env s) y
                                        | S k => nth k (cell (hp s) (getv (env s) y)) VAtom
                                        end)
              | SWrite x ys => let '(c, s') := choice s in
                               write s' (getv (env s) x) c (map (getv (env s)) ys)
              | SRet y => mkst (hp s) (env s) (orc s) 1 (getv (env s) y)
              | SRaise => abort s
              | STry a b => let s1 := exec f a s in
                            if Nat.eqb (halt s1) 2
                            then exec f b (mkst (hp s1) (env s1) (orc s1) 0 (ret s1))
                            else s1
              | SIf a b => let '(c, s') := choice s in exec f (match c with O => b | _ => a end) s'
              | SLoop b => let '(c, s') := choice s in Nat.iter c (exec f b) s'
              | SCall x g ys =>
                  match nth_error tab g with
                  | None => abort s
                  | Some fn => leave s (exec f (f_body fn) (enter s fn (map (getv (env s)) ys))) x
                  end
              end in
            exec f rest s1
        end
    end.

  (* a call of function g from outside: any heap, any arguments, any oracle *)
  Definition run (fuel : nat) (g : nat) (h : heap) (args : list val) (o : list nat) : state :=
    match nth_error tab g with
    | None => mkst h [] o 2 VAtom
    | Some fn => exec fuel (f_body fn) (enter (mkst h [] o 0 VAtom) fn args)
    end.
End Exec.

(* a history: calls from outside, one after the other, on any values at all (atoms, results of earlier
   calls, objects reachable from them, arguments of earlier calls) *)
Record call : Set := mkcall { c_fn : nat; c_args : list val; c_orc : list nat; c_fuel : nat }.

Definition after (tab : list func) (h : heap) (c : call) : heap :=
  hp (run tab (c_fuel c) (c_fn c) h (c_args c) (c_orc c)).

(* callable from outside: no parameter is reserved for objects the caller has just created *)
Definition public_fn (tab : list func) (g : nat) : Prop :=
  forall fn, nth_error tab g = Some fn -> forallb negb (f_pfresh fn) = true.

(* ---- what the property says ---------------------------------------------------------------------- *)
(* every cell of h0 is still there, with the same contents, in h *)
Definition frame (h0 h : heap) : Prop := forall l, l < length h0 -> nth_error h l = nth_error h0 l.
(* v is an immutable value or an object that did not exist in a heap of n0 cells *)
Definition vfresh (n0 : nat) (v : val) : Prop := match v with VAtom => True | VLoc l => n0 <= l end.

(* ---- the ownership checker ------------------------------------------------------------------------ *)
(* the abstract environment: for each variable, "certainly an atom or a cell created during this call" *)
Record aenv : Set := mkae { fresh : list bool; rfresh : bool }.

Definition isf (g : aenv) (x : var) : bool := nth x (fresh g) false.
Definition setf (g : aenv) (x : var) (b : bool) : aenv := mkae (setnth (fresh g) x b) (rfresh g).

Fixpoint meetl (a b : list bool) : list bool :=
  match a, b with
  | x :: a', y :: b' => (x && y) :: meetl a' b'
  | _, _ => []
  end.
Definition meet (a b : aenv) : aenv := mkae (meetl (fresh a) (fresh b)) (rfresh a && rfresh b).

Fixpoint eqbl (a b : list bool) : bool :=
  match a, b with
  | [], [] => true
  | x :: a', y :: b' => Bool.eqb x y && eqbl a' b'
  | _, _ => false
  end.
Definition aenv_eqb (a b : aenv) : bool := eqbl (fresh a) (fresh b) && Bool.eqb (rfresh a) (rfresh b).

(* one function's interface as seen by its callers *)
Record fsum : Set := mksum { s_pfresh : list bool; s_ret : bool }.

(* argument i must be fresh in the caller when the callee's parameter i is marked fresh *)
Fixpoint args_ok (g : aenv) (pf : list bool) (ys : list var) : bool :=
  match pf, ys with
  | [], _ => true
  | b :: pf', y :: ys' => (implb b (isf g y)) && args_ok g pf' ys'
  | b :: pf', [] => negb b && args_ok g pf' []
  end.

Section Check.
  Variable sums : list fsum.

  Fixpoint loop_inv (k : nat) (body : aenv -> option aenv) (g : aenv) : option aenv :=
    match k with
    | O => None
    | S k' =>
        match body g with
        | None => None
        | Some g1 => let g' := meet g g1 in
                     if aenv_eqb g' g then Some g else loop_inv k' body g'
        end
    end.

  Fixpoint check (fuel : nat) (p : list stmt) (g : aenv) : option aenv :=
    match fuel with
    | O => None
    | S f =>
        match p with
        | [] => Some g
        | i :: rest =>
            let r :=
              match i with
              | SAtom x => Some (setf g x true)
              | SAny x => Some (setf g x false)
              | SNew x _ => Some (setf g x true)
              | SCopy x _ => Some (setf g x true)
              | SDeep x _ => Some (setf g x true)
              | SMove x y => Some (setf g x (isf g y))
              | SRead x _ => Some (setf g x false)
              | SWrite x _ => if isf g x then Some g else None
              | SRet y => Some (mkae (fresh g) (rfresh g && isf g y))
              | SRaise => Some g
              | STry a b =>
                  match check f a g with
                  | None => None
                  | Some ga =>
                      (* the handler starts wherever a stopped: nothing is known about any variable *)
                      match check f b (mkae (map (fun _ => false) (fresh ga)) (rfresh ga)) with
                      | None => None
                      | Some gh => Some (meet ga gh)
                      end
                  end
              | SIf a b =>
                  match check f a g, check f b g with
                  | Some ga, Some gb => Some (meet ga gb)
                  | _, _ => None
                  end
              | SLoop b => loop_inv (S (S (length (fresh g)))) (check f b) g
              | SCall x h ys =>
                  match nth_error sums h with
                  | None => None
                  | Some sm => if args_ok g (s_pfresh sm) ys then Some (setf g x (s_ret sm)) else None
                  end
              end in
            match r with None => None | Some g1 => check f rest g1 end
        end
    end.
End Check.

Definition init_aenv (fn : func) : aenv :=
  mkae (firstn (f_nvars fn) (f_pfresh fn ++ repeat false (f_nvars fn))) true.

(* the whole table against a proposed list of summaries *)
Definition func_ok (sums : list fsum) (fuel : nat) (fn : func) (sm : fsum) : bool :=
  eqbl (s_pfresh sm) (f_pfresh fn) &&
  match check sums fuel (f_body fn) (init_aenv fn) with
  | None => false
  | Some g => implb (s_ret sm) (rfresh g)
  end.

Fixpoint forallb2 {A B} (f : A -> B -> bool) (a : list A) (b : list B) : bool :=
  match a, b with
  | [], [] => true
  | x :: a', y :: b' => f x y && forallb2 f a' b'
  | _, _ => false
  end.

Definition table_ok (fuel : nat) (tab : list func) (sums : list fsum) : bool :=
  forallb2 (func_ok sums fuel) tab sums.

(* the summaries are computed, not supplied: start from "every function returns a fresh object" and
   lower until consistent *)
Definition summarise_once (fuel : nat) (tab : list func) (sums : list fsum) : list fsum :=
  map (fun fn => mksum (f_pfresh fn)
                   match check sums fuel (f_body fn) (init_aenv fn) with
                   | None => false
                   | Some g => rfresh g
                   end) tab.

Fixpoint summarise (k : nat) (fuel : nat) (tab : list func) (sums : list fsum) : list fsum :=
  match k with
  | O => sums
  | S k' => summarise k' fuel tab (summarise_once fuel tab sums)
  end.

(* which functions fail the check under the given summaries (for diagnostics and evidence) *)
Fixpoint failing (sums : list fsum) (fuel : nat) (tab : list func) (all : list fsum) (i : nat) : list nat :=
  match tab, all with
  | fn :: t, sm :: a => (if func_ok sums fuel fn sm then [] else [i]) ++ failing sums fuel t a (S i)
  | _, _ => []
  end.
