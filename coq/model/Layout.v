(* A small layout language for the table-like binary sections and its two interpreters.
   The layouts themselves are generated from the Python transcoders (gen/GenLayouts.v)
   and, independently, transcribed from the format specification (spec/SpecLayouts.v).

     Prim w        struct.unpack(<code of width w>, stream.read(w))[0]   /  struct.pack(code, v)
     Arr n s l     n repetitions; on encode  s = true : struct.pack("{n}<code>", *xs) (exactly n)
                                             s = false: for x in xs: ...            (any number)
     Seq a b       a then b
     Named f l     the dataclass field f
     Unit          nothing
     Many l        while stream.tell() != len(data): l      (to the end of the payload)
     Chunk sz l    sub = stream.read(sz); decode l from sub (what l leaves of sub is dropped)
*)
From Coq Require Import NArith List Bool String.
From RC Require Import lib.Result lib.Bytes.
Import ListNotations.

Inductive layout : Set :=
| Prim (w : nat)
| Arr (n : nat) (strict : bool) (l : layout)
| Seq (a b : layout)
| Named (f : string) (l : layout)
| Unit
| Many (l : layout)
| Chunk (sz : nat) (l : layout).

Inductive val : Set :=
| VInt (n : N)
| VList (l : list val)
| VPair (a b : val)
| VNamed (f : string) (v : val)
| VUnit.

(* exact size of a fixed-size layout (None when it contains Many) *)
Fixpoint size_l (l : layout) : option nat :=
  match l with
  | Prim w => Some w
  | Arr n _ l' => match size_l l' with Some s => Some (n * s) | None => None end
  | Seq a b => match size_l a, size_l b with Some x, Some y => Some (x + y) | _, _ => None end
  | Named _ l' => size_l l'
  | Unit => Some 0
  | Many _ => None
  | Chunk sz l' => Some sz
  end.

(* well-formedness: Many bodies and chunks are fixed-size and non-empty, chunk size = body size *)
Fixpoint wf_l (l : layout) : bool :=
  match l with
  | Prim w => true
  | Arr _ _ l' => wf_l l'
  | Seq a b => wf_l a && wf_l b
  | Named _ l' => wf_l l'
  | Unit => true
  | Many l' => wf_l l' && match size_l l' with Some (S _) => true | _ => false end
  | Chunk sz l' => wf_l l' && match size_l l' with Some s => Nat.eqb s sz && negb (Nat.eqb s 0) | None => false end
  end.

Fixpoint rep_dec (d : bytes -> result (val * bytes)) (k : nat) (bs : bytes) : result (list val * bytes) :=
  match k with
  | O => Ok ([], bs)
  | S k' => do vr <- d bs; do vs <- rep_dec d k' (snd vr); Ok (fst vr :: fst vs, snd vs)
  end.

Fixpoint many_dec (d : bytes -> result (val * bytes)) (fu : nat) (bs : bytes) : result (list val) :=
  match bs with
  | [] => Ok []
  | _ :: _ =>
      match fu with
      | O => Raise OutOfFuel
      | S fu' => do vr <- d bs; do vs <- many_dec d fu' (snd vr); Ok (fst vr :: vs)
      end
  end.

Fixpoint enc_list (e : val -> result bytes) (vs : list val) : result bytes :=
  match vs with
  | [] => Ok []
  | x :: r => do a <- e x; do b <- enc_list e r; Ok (a ++ b)
  end.

Fixpoint decode_l (fuel : nat) (l : layout) (bs : bytes) {struct l} : result (val * bytes) :=
  match l with
  | Prim w => do vr <- unpack w bs; Ok (VInt (fst vr), snd vr)
  | Arr n _ l' => do vs <- rep_dec (decode_l fuel l') n bs; Ok (VList (fst vs), snd vs)
  | Seq a b => do va <- decode_l fuel a bs;
               do vb <- decode_l fuel b (snd va);
               Ok (VPair (fst va) (fst vb), snd vb)
  | Named f l' => do v <- decode_l fuel l' bs; Ok (VNamed f (fst v), snd v)
  | Unit => Ok (VUnit, bs)
  | Many l' => do vs <- many_dec (decode_l fuel l') fuel bs; Ok (VList vs, [])
  | Chunk sz l' => do v <- decode_l fuel l' (firstn sz bs); Ok (fst v, skipn sz bs)
  end.

Fixpoint encode_l (l : layout) (v : val) {struct l} : result bytes :=
  match l, v with
  | Prim w, VInt n => pack w n
  | Arr n strict l', VList vs =>
      if strict && negb (Nat.eqb (List.length vs) n) then Raise StructError
      else enc_list (encode_l l') vs
  | Seq a b, VPair x y => do p <- encode_l a x; do q <- encode_l b y; Ok (p ++ q)
  | Named f l', VNamed g x => if String.eqb f g then encode_l l' x else Raise TypeError
  | Unit, VUnit => Ok []
  | Many l', VList vs => enc_list (encode_l l') vs
  | Chunk _ l', x => encode_l l' x
  | _, _ => Raise TypeError
  end.

(* forget the encode-side strictness flag: what the decoder sees *)
Fixpoint erase (l : layout) : layout :=
  match l with
  | Prim w => Prim w
  | Arr n _ l' => Arr n false (erase l')
  | Seq a b => Seq (erase a) (erase b)
  | Named f l' => Named f (erase l')
  | Unit => Unit
  | Many l' => Many (erase l')
  | Chunk sz l' => Chunk sz (erase l')
  end.

Fixpoint layout_eqb (a b : layout) : bool :=
  match a, b with
  | Prim x, Prim y => Nat.eqb x y
  | Arr n s l, Arr m t k => Nat.eqb n m && Bool.eqb s t && layout_eqb l k
  | Seq a1 a2, Seq b1 b2 => layout_eqb a1 b1 && layout_eqb a2 b2
  | Named f l, Named g k => String.eqb f g && layout_eqb l k
  | Unit, Unit => true
  | Many l, Many k => layout_eqb l k
  | Chunk s l, Chunk t k => Nat.eqb s t && layout_eqb l k
  | _, _ => false
  end.

(* a whole-section decode: the payload must be consumed or (fixed layouts) the rest is dropped,
   exactly as the Python decoders do (they never look at what is left) *)
Definition decode_section (l : layout) (payload : bytes) : result val :=
  do vr <- decode_l (S (List.length payload)) l payload; Ok (fst vr).

(* ---------------------------------------------------------------------------------- *)
(* paths into layouts/values: used to state "field f is the integer at offset o" *)

Inductive step : Set := SField (f : string) | SIndex (i : nat).
Definition path := list step.

Fixpoint has_field (f : string) (l : layout) : bool :=
  match l with
  | Named g _ => String.eqb f g
  | Seq a b => has_field f a || has_field f b
  | Chunk _ l' => has_field f l'
  | _ => false
  end.

(* offset and sub-layout reached by a path (fixed-size prefixes only) *)
Fixpoint locate (l : layout) (p : path) {struct l} : option (nat * layout) :=
  match p with
  | [] => Some (O, l)
  | s :: p' =>
      match l, s with
      | Named g l', SField f => if String.eqb f g then locate l' p' else None
      | Seq a b, SField f =>
          if has_field f a then locate a p
          else match size_l a, locate b p with
               | Some sa, Some (o, r) => Some (sa + o, r)
               | _, _ => None
               end
      | Arr n _ l', SIndex i =>
          if Nat.ltb i n then
            match size_l l', locate l' p' with
            | Some sz, Some (o, r) => Some (i * sz + o, r)
            | _, _ => None
            end
          else None
      | Many l', SIndex i =>
          match size_l l', locate l' p' with
          | Some sz, Some (o, r) => Some (i * sz + o, r)
          | _, _ => None
          end
      | Chunk _ l', _ => locate l' p
      | _, _ => None
      end
  end.

Fixpoint get (l : layout) (v : val) (p : path) {struct l} : option val :=
  match p with
  | [] => Some v
  | s :: p' =>
      match l, v, s with
      | Named g l', VNamed _ x, SField f => if String.eqb f g then get l' x p' else None
      | Seq a b, VPair x y, SField f => if has_field f a then get a x p else get b y p
      | Arr n _ l', VList vs, SIndex i =>
          if Nat.ltb i n then match nth_error vs i with Some x => get l' x p' | None => None end else None
      | Many l', VList vs, SIndex i =>
          match nth_error vs i with Some x => get l' x p' | None => None end
      | Chunk _ l', x, _ => get l' x p
      | _, _, _ => None
      end
  end.

Definition slice (bs : bytes) (o w : nat) : bytes := firstn w (skipn o bs).
