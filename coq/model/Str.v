(* Hand model of ChkStrTranscoder (w = 2) and ChkStrxTranscoder (w = 4): decode and _encode.
   Strings are lists of code points; decoding accepts only 7-bit bytes (one byte is decoded as
   UTF-8 at a time), encoding refuses anything but NUL-free 7-bit text (since fix cee72c9; before, it wrote the
   first len(str) bytes of the UTF-8 form). *)
From Coq Require Import String NArith List Bool.
From RC Require Import lib.Result lib.Bytes lib.Utf8.
Import ListNotations.
Local Open Scope N_scope.

Record str_section := {
  ss_num : N;                    (* _number_of_strings *)
  ss_offsets : list N;           (* _string_offsets *)
  ss_strings : list (list N);    (* _strings, NUL terminators not stored *)
}.

(* for _ in range(num): offsets.append(unpack(read(w))) — fuel is the byte count, never the count field *)
Fixpoint read_offsets (fuel : nat) (w : nat) (remaining : N) (bs : bytes) : result (list N * bytes) :=
  if remaining =? 0 then Ok ([], bs)
  else match fuel with
       | O => Raise StructError   (* no bytes left to read: the next unpack fails *)
       | S fuel' =>
           do vr <- unpack w bs;
           do rest <- read_offsets fuel' w (remaining - 1) (snd vr);
           Ok (fst vr :: fst rest, snd rest)
       end.

(* the two nested while loops over the string data *)
Fixpoint split_nul (cur : list N) (bs : bytes) : result (list (list N)) :=
  match bs with
  | [] => match cur with [] => Ok [] | _ => Raise StructError end
  | b :: r =>
      if 128 <=? b then Raise UnicodeError
      else if b =? 0 then do rest <- split_nul [] r; Ok (rev cur :: rest)
      else split_nul (b :: cur) r
  end.

Definition str_decode (w : nat) (bs : bytes) : result str_section :=
  do nr <- unpack w bs;
  do offs <- read_offsets (length (snd nr)) w (fst nr) (snd nr);
  do strs <- split_nul [] (snd offs);
  Ok {| ss_num := fst nr; ss_offsets := fst offs; ss_strings := strs |}.

(* for i in range(num): pack(offsets[i]) *)
Fixpoint enc_offsets (w : nat) (remaining : N) (offs : list N) : result bytes :=
  if remaining =? 0 then Ok []
  else match offs with
       | [] => Raise IndexError
       | o :: r => do a <- pack w o; do b <- enc_offsets w (remaining - 1) r; Ok (a ++ b)
       end.

(* encoded = bytes(s, "utf-8"); anything but NUL-free 7-bit text is refused (ValueError);
   struct.pack("{}s".format(len(s)), encoded) + b"\0" *)
Definition enc_string (s : list N) : result bytes :=
  do u <- utf8_encode s;
  if negb (Nat.eqb (length u) (length s)) || existsb (N.eqb 0) u then Raise ValueError
  else Ok (firstn (length s) u ++ [0]).

Fixpoint enc_strings (ss : list (list N)) : result bytes :=
  match ss with
  | [] => Ok []
  | s :: r => do a <- enc_string s; do b <- enc_strings r; Ok (a ++ b)
  end.

Definition str_encode (w : nat) (m : str_section) : result bytes :=
  do h <- pack w (ss_num m);
  do o <- enc_offsets w (ss_num m) (ss_offsets m);
  do s <- enc_strings (ss_strings m);
  Ok (h ++ o ++ s).
