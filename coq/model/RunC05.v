(* Correspondence entry points for C05 over the generated tables (0/1) and the spec tables (2/3). *)
From Coq Require Import String NArith List Bool.
From RC Require Import lib.Result lib.Tree model.TrigTable model.RunC05S gen.GenTrig.
Import ListNotations.
Local Open Scope N_scope.

Definition pick_table (which : N) : list trig_entry :=
  match which with
  | 0 => gen_action_table
  | 1 => gen_condition_table
  | w => pick_spec_table w
  end.

Definition run (t : tree) : tree := run_with pick_table t.
