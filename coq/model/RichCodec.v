(* The rich layer, part 1: rich values, lookups, and the per-section rich transcoders
   (RichChkMrgnTranscoder, RichChkUprpTranscoder, RichChkSwnmTranscoder, RichChkWavTranscoder,
    RichChkUnisTranscoder / Unix, RichChkTrigTranscoder over the generated trigger tables). Hand model. *)
From Coq Require Import String NArith List Bool.
From RC Require Import lib.Result lib.Bytes lib.Utf8 model.Layout model.Str model.StrEditor model.Flags model.Enums
  model.TrigTable gen.GenFlags gen.GenEnums gen.GenTrig gen.GenConsts gen.GenRichTables.
Import ListNotations.
Local Open Scope N_scope.

(* ---- rich values ------------------------------------------------------------------------------------ *)

Inductive rstr : Set := RNull | RText (s : list N).     (* RichNullString | RichString(value) *)

Record rloc := {
  l_x1 : N; l_y1 : N; l_x2 : N; l_y2 : N; l_name : rstr; l_idx : option N;
  l_elev : list bool;          (* low, medium, high, low air, medium air, high air *)
  l_oid : N;                   (* identity of an authored, index-less object (0 for decoded ones) *)
}.

Record rcuwp := {
  c_hp : N; c_sh : N; c_en : N; c_res : N; c_hang : N;
  c_flags : list bool;         (* cloaked, burrowed, in transit, hallucinated, invincible *)
  c_vs : list bool;            (* ValidSpecialPropertyFlags (6) *)
  c_vu : list bool;            (* ValidUnitPropertyFlags (7) *)
  c_unk : bool; c_pad : N; c_idx : option N;
}.

Record rswitch := { s_name : rstr; s_idx : option N; s_oid : N }.

Inductive rarg : Set :=
| AInt (n : N) | AEnum (id : N) | ALoc (l : rloc) | AStr (s : rstr) | AStrV (s : list N)
| ACuwp (c : rcuwp) | ASwitch (s : rswitch) | AAi (name : list N) | ANone.

Inductive rentry : Type :=
| ERaw (r : record)                                        (* a DecodedTriggerAction/Condition kept as is *)
| ERich (key : N) (args : list (string * rarg)) (flags : list bool).

Record rtrigger := { t_conds : list rentry; t_acts : list rentry; t_players : list N }.

Record rweapon := { w_id : N; w_base : N; w_upg : N }.
Record runit := {
  u_id : N; u_hp : N (* raw = hit points * 256 *); u_sh : N; u_ar : N; u_bt : N; u_mi : N; u_ga : N;
  u_name : rstr; u_weapons : list rweapon; u_default : bool;
}.

Inductive rsection : Type :=
| RMrgn (ls : list rloc)
| RTrig (ts : list rtrigger)
| RUnis (nw : N) (name : string) (us : list runit)        (* UNIS (100 weapons) / UNIx (130) *)
| RUprp (cs : list rcuwp)
| RSwnm (ss : list rswitch)
| RWav (ws : list (rstr * N))
| RDecodedStr (name : string) (w : nat) (m : str_section)
| RDecodedTab (name : string) (v : val)
| RUnknown (name : bytes) (payload : bytes).

(* ---- equality as the Python classes define it ----------------------------------------------------------- *)

Definition rstr_eqb (a b : rstr) : bool :=
  match a, b with
  | RNull, RNull => true
  | RText x, RText y => list_N_eqb x y
  | _, _ => false
  end.

Fixpoint bools_eqb (a b : list bool) : bool :=
  match a, b with
  | [], [] => true
  | x :: a', y :: b' => Bool.eqb x y && bools_eqb a' b'
  | _, _ => false
  end.

Definition optN_eqb (a b : option N) : bool :=
  match a, b with Some x, Some y => x =? y | None, None => true | _, _ => false end.

Definition rloc_fields_eqb (a b : rloc) : bool :=
  (l_x1 a =? l_x1 b) && (l_y1 a =? l_y1 b) && (l_x2 a =? l_x2 b) && (l_y2 a =? l_y2 b)
  && rstr_eqb (l_name a) (l_name b) && optN_eqb (l_idx a) (l_idx b) && bools_eqb (l_elev a) (l_elev b).

(* RichLocation.__eq__: both indexed -> all fields; otherwise identity *)
Definition rloc_eqb (a b : rloc) : bool :=
  match l_idx a, l_idx b with
  | Some _, Some _ => rloc_fields_eqb a b
  | None, None => (l_oid a =? l_oid b) && negb (l_oid a =? 0)
  | _, _ => false
  end.

(* RichCuwpSlot.__eq__: every field but the index *)
Definition rcuwp_eqb (a b : rcuwp) : bool :=
  (c_hp a =? c_hp b) && (c_sh a =? c_sh b) && (c_en a =? c_en b) && (c_res a =? c_res b) && (c_hang a =? c_hang b)
  && bools_eqb (c_flags a) (c_flags b) && bools_eqb (c_vs a) (c_vs b) && bools_eqb (c_vu a) (c_vu b)
  && Bool.eqb (c_unk a) (c_unk b) && (c_pad a =? c_pad b).

Definition rstr_empty (s : rstr) : bool :=
  match s with RNull => true | RText [] => true | RText _ => false end.

(* dict key of a RichSwitch: hash (name value, index), or identity when both are absent *)
Definition rswitch_key_eqb (a b : rswitch) : bool :=
  match s_idx a, s_idx b with
  | None, None =>
      if rstr_empty (s_name a) && rstr_empty (s_name b) then (s_oid a =? s_oid b) && negb (s_oid a =? 0)
      else rstr_eqb (s_name a) (s_name b) || (rstr_empty (s_name a) && rstr_empty (s_name b))
  | Some i, Some j => (i =? j) && (match s_name a, s_name b with
                                   | RNull, RNull => true | RText x, RText y => list_N_eqb x y
                                   | RNull, RText [] | RText [], RNull => true | _, _ => false end)
  | _, _ => false
  end.

(* ---- lookups --------------------------------------------------------------------------------------------- *)

Record str_lookup := { sl_by_id : list (list N) (* id k+1 -> text *) }.

Definition str_by_id (L : str_lookup) (id : N) : rstr :=
  if id =? 0 then RNull
  else match nth_error (sl_by_id L) (N.to_nat (N.min (id - 1) 1000000)) with
       | Some t => RText t
       | None => RNull
       end.

(* get_id_by_string: RichNullString -> 0; otherwise the LAST id holding the text, KeyError when none *)
Definition id_by_str (L : str_lookup) (s : rstr) : result N :=
  match s with
  | RNull => Ok 0
  | RText t => match id_by_string (sl_by_id L) t with Some i => Ok i | None => Raise KeyError end
  end.

Fixpoint assocN {A} (k : N) (l : list (N * A)) : option A :=
  match l with [] => None | (k', v) :: r => if k =? k' then Some v else assocN k r end.

(* dicts built by successive assignment: the LAST entry for a key wins *)
Fixpoint assocN_last {A} (k : N) (l : list (N * A)) : option A :=
  match l with
  | [] => None
  | (k', v) :: r => match assocN_last k r with Some x => Some x | None => if k =? k' then Some v else None end
  end.

Record context := {
  cx_str : str_lookup;
  cx_locs : list rloc;                    (* location_by_id: indexed locations of the MRGN, later wins *)
  cx_loc_ids : list (rloc * N);           (* id_by_location *)
  cx_switch_by_id : list (N * rswitch);
  cx_switch_ids : list (rswitch * N);
  cx_cuwps : list rcuwp;                  (* the UPRP slots, list order *)
  cx_wav_dur : list (list N * N);         (* wav metadata: path -> duration *)
}.

Definition loc_by_id (cx : context) (id : N) : option rloc :=
  if id =? 0 then None
  else assocN_last id (flat_map (fun l => match l_idx l with Some i => [(i, l)] | None => [] end) (cx_locs cx)).

Fixpoint find_loc_id (l : rloc) (t : list (rloc * N)) (acc : option N) : option N :=
  match t with
  | [] => acc
  | (k, i) :: r => find_loc_id l r (if rloc_eqb l k then Some i else acc)
  end.
Definition id_by_loc (cx : context) (l : rloc) : option N := find_loc_id l (cx_loc_ids cx) None.

Definition cuwp_by_id (cx : context) (id : N) : option rcuwp :=
  assocN_last id (flat_map (fun c => match c_idx c with Some i => [(i, c)] | None => [] end) (cx_cuwps cx)).

Fixpoint find_cuwp_id (c : rcuwp) (t : list rcuwp) (acc : option N) : option N :=
  match t with
  | [] => acc
  | k :: r => find_cuwp_id c r (if rcuwp_eqb c k then c_idx k else acc)
  end.
(* RichCuwpLookup.get_id_by_cuwp: a slot that still sits at the index it carries keeps that index; otherwise
   the last slot holding equal properties (equality ignores the index) *)
Definition id_by_cuwp (cx : context) (c : rcuwp) : result N :=
  match c_idx c with
  | Some i =>
      match cuwp_by_id cx i with
      | Some k => if rcuwp_eqb c k then Ok i else of_option KeyError (find_cuwp_id c (cx_cuwps cx) None)
      | None => of_option KeyError (find_cuwp_id c (cx_cuwps cx) None)
      end
  | None => of_option KeyError (find_cuwp_id c (cx_cuwps cx) None)
  end.

Fixpoint find_switch_id (s : rswitch) (t : list (rswitch * N)) (acc : option N) : option N :=
  match t with
  | [] => acc
  | (k, i) :: r => find_switch_id s r (if rswitch_key_eqb s k then Some i else acc)
  end.
Definition id_by_switch (cx : context) (s : rswitch) : result N :=
  of_option KeyError (find_switch_id s (cx_switch_ids cx) None).

(* ---- val accessors ------------------------------------------------------------------------------------------ *)

Fixpoint vfield (f : string) (v : val) : option val :=
  match v with
  | VPair (VNamed g x) rest => if String.eqb f g then Some x else vfield f rest
  | VNamed g x => if String.eqb f g then Some x else None
  | _ => None
  end.

Definition vint (f : string) (v : val) : N :=
  match vfield f v with Some (VInt n) => n | _ => 0 end.

Definition vlist (f : string) (v : val) : list val :=
  match vfield f v with Some (VList l) => l | _ => [] end.

Definition vints (f : string) (v : val) : list N :=
  flat_map (fun x => match x with VInt n => [n] | _ => [] end) (vlist f v).

Fixpoint mk_struct (fs : list (string * val)) : val :=
  match fs with
  | [] => VUnit
  | (f, x) :: r => VPair (VNamed f x) (mk_struct r)
  end.

(* ---- flags through the generated codecs --------------------------------------------------------------------- *)

Definition flags_of (c : flag_codec) (x : N) : result (list bool) :=
  do r <- fdecode c x; Ok (map snd r).
Definition flags_to (c : flag_codec) (bs : list bool) : result N := fencode c (rich_of_bools c bs).

(* ---- MRGN ------------------------------------------------------------------------------------------------- *)

Definition loc_is_unused (v : val) : bool :=
  (vint "_left_x1" v =? 0) && (vint "_top_y1" v =? 0) && (vint "_right_x2" v =? 0) && (vint "_bottom_y2" v =? 0)
  && (vint "_string_id" v =? 0) && (vint "_elevation_flags" v =? 0).

Fixpoint mrgn_decode_locs (L : str_lookup) (vs : list val) (i : N) : result (list rloc) :=
  match vs with
  | [] => Ok []
  | v :: r =>
      do rest <- mrgn_decode_locs L r (i + 1);
      if loc_is_unused v then Ok rest
      else do el <- flags_of elevation_flags_codec (vint "_elevation_flags" v);
           Ok ({| l_x1 := vint "_left_x1" v; l_y1 := vint "_top_y1" v; l_x2 := vint "_right_x2" v;
                  l_y2 := vint "_bottom_y2" v; l_name := str_by_id L (vint "_string_id" v);
                  l_idx := Some (i + 1); l_elev := el; l_oid := 0 |} :: rest)
  end.

Definition mrgn_decode (L : str_lookup) (v : val) : result (list rloc) :=
  mrgn_decode_locs L (vlist "_locations" v) 0.

Definition empty_loc_val : val :=
  mk_struct [("_left_x1", VInt 0); ("_top_y1", VInt 0); ("_right_x2", VInt 0); ("_bottom_y2", VInt 0);
             ("_string_id", VInt 0); ("_elevation_flags", VInt 0)]%string.

Definition loc_encode (L : str_lookup) (l : rloc) : result val :=
  do sid <- id_by_str L (l_name l);
  do fl <- flags_to elevation_flags_codec (l_elev l);
  Ok (mk_struct [("_left_x1", VInt (l_x1 l)); ("_top_y1", VInt (l_y1 l)); ("_right_x2", VInt (l_x2 l));
                 ("_bottom_y2", VInt (l_y2 l)); ("_string_id", VInt sid); ("_elevation_flags", VInt fl)]%string).

(* location_by_index = {x.index - 1: x}; for i in range(0, 255) *)
Definition mrgn_encode (L : str_lookup) (ls : list rloc) : result val :=
  let by_idx := flat_map (fun l => match l_idx l with Some i => [(i, l)] | None => [] end) ls in
  do slots <- mapM (fun i => match assocN_last (i + 1) by_idx with
                             | Some l => loc_encode L l
                             | None => Ok empty_loc_val
                             end)
                   (map N.of_nat (seq 0 (N.to_nat MRGN_TRANSCODER_MAX_LOCATIONS)));
  Ok (mk_struct [("_locations", VList slots)]%string).

(* ---- UPRP / UPUS ---------------------------------------------------------------------------------------------- *)

Definition cuwp_fields : list string :=
  ["_valid_special_properties_flags"; "_valid_unit_properties_flags"; "_owner_player"; "_hitpoints_percentage";
   "_shieldpoints_percentage"; "_energypoints_percentage"; "_resource_amount"; "_units_in_hangar"; "_flags"; "_padding"]%string.

Definition cuwp_is_unused (v : val) : bool := forallb (fun f => vint f v =? 0) cuwp_fields.

Fixpoint uprp_decode_slots (vs : list val) (i : N) : result (list rcuwp) :=
  match vs with
  | [] => Ok []
  | v :: r =>
      do rest <- uprp_decode_slots r (i + 1);
      if cuwp_is_unused v then Ok rest
      else do vs' <- flags_of cuwp_valid_special_flags_codec (vint "_valid_special_properties_flags" v);
           do vu <- flags_of cuwp_valid_unit_flags_codec (vint "_valid_unit_properties_flags" v);
           do fl <- flags_of cuwp_unit_property_flags_codec (vint "_flags" v);
           Ok ({| c_hp := vint "_hitpoints_percentage" v; c_sh := vint "_shieldpoints_percentage" v;
                  c_en := vint "_energypoints_percentage" v; c_res := vint "_resource_amount" v;
                  c_hang := vint "_units_in_hangar" v; c_flags := firstn 5 fl; c_vs := vs'; c_vu := vu;
                  c_unk := nth 5 fl false; c_pad := vint "_padding" v; c_idx := Some (i + 1) |} :: rest)
  end.

Definition uprp_decode (v : val) : result (list rcuwp) := uprp_decode_slots (vlist "_cuwp_slots" v) 0.

Definition empty_cuwp_val : val := mk_struct (map (fun f => (f, VInt 0)) cuwp_fields).

Definition cuwp_encode (c : rcuwp) : result val :=
  do a <- flags_to cuwp_valid_special_flags_codec (c_vs c);
  do b <- flags_to cuwp_valid_unit_flags_codec (c_vu c);
  do f <- flags_to cuwp_unit_property_flags_codec (c_flags c ++ [c_unk c]);
  Ok (mk_struct [("_valid_special_properties_flags", VInt a); ("_valid_unit_properties_flags", VInt b);
                 ("_owner_player", VInt 0); ("_hitpoints_percentage", VInt (c_hp c));
                 ("_shieldpoints_percentage", VInt (c_sh c)); ("_energypoints_percentage", VInt (c_en c));
                 ("_resource_amount", VInt (c_res c)); ("_units_in_hangar", VInt (c_hang c));
                 ("_flags", VInt f); ("_padding", VInt (c_pad c))]%string).

Definition uprp_encode (cs : list rcuwp) : result val :=
  if existsb (fun c => match c_idx c with None => true | Some _ => false end) cs then Raise AssertionError
  else
    let by_idx := flat_map (fun c => match c_idx c with Some i => [(i, c)] | None => [] end) cs in
    do slots <- mapM (fun i => match assocN_last (i + 1) by_idx with
                               | Some c => cuwp_encode c
                               | None => Ok empty_cuwp_val
                               end)
                     (map N.of_nat (seq 0 (N.to_nat MAX_CUWP_SLOTS)));
    Ok (mk_struct [("_cuwp_slots", VList slots)]%string).

(* DecodedUpusRebuilder: cuwp_used[index - 1] = 1 *)
Definition upus_rebuild (cs : list rcuwp) : result val :=
  if existsb (fun c => match c_idx c with None | Some 0 => true | Some _ => false end) cs then Raise AssertionError
  else if existsb (fun c => match c_idx c with Some i => MAX_CUWP_SLOTS <? i | None => false end) cs then Raise IndexError
  else
    let used := flat_map (fun c => match c_idx c with Some i => [i] | None => [] end) cs in
    Ok (mk_struct [("_cuwp_slots_used",
                    VList (map (fun i => VInt (if existsb (N.eqb (i + 1)) used then 1 else 0))
                               (map N.of_nat (seq 0 (N.to_nat MAX_CUWP_SLOTS)))))]%string).

(* ---- SWNM ------------------------------------------------------------------------------------------------------ *)

(* RichSwnmLookupBuilder: switch_by_id[k] = RichSwitch(get_string_by_id(sid), k) *)
Definition swnm_lookup (L : str_lookup) (v : val) : list (N * rswitch) :=
  (fix go (ids : list N) (k : N) : list (N * rswitch) :=
     match ids with
     | [] => []
     | sid :: r => (k, {| s_name := str_by_id L sid; s_idx := Some k; s_oid := 0 |}) :: go r (k + 1)
     end) (vints "_switch_string_ids" v) 0.

(* RichChkSwnmTranscoder.decode: every position must be in the lookup *)
Definition swnm_decode (by_id : list (N * rswitch)) (v : val) : result (list rswitch) :=
  mapM (fun k => of_option KeyError (assocN_last k by_id))
       (map N.of_nat (seq 0 (length (vints "_switch_string_ids" v)))).

Definition swnm_encode (L : str_lookup) (ss : list rswitch) : result val :=
  do ids <- mapM (fun s => id_by_str L (s_name s)) ss;
  Ok (mk_struct [("_switch_string_ids", VList (map VInt ids))]%string).

(* ---- WAV -------------------------------------------------------------------------------------------------------- *)

Definition wav_decode (L : str_lookup) (v : val) : list (rstr * N) :=
  (fix go (ids : list N) (k : N) : list (rstr * N) :=
     match ids with
     | [] => []
     | sid :: r => if sid =? UNUSED_WAV_STRING_ID then go r (k + 1) else (str_by_id L sid, k) :: go r (k + 1)
     end) (vints "_wav_string_ids" v) 0.

Definition wav_encode (L : str_lookup) (ws : list (rstr * N)) : result val :=
  let by_idx := map (fun w => (snd w, fst w)) ws in
  do ids <- mapM (fun i => match assocN_last i by_idx with
                           | Some p => id_by_str L p
                           | None => Ok UNUSED_WAV_STRING_ID
                           end)
                 (map N.of_nat (seq 0 (N.to_nat MAX_WAV_FILES)));
  Ok (mk_struct [("_wav_string_ids", VList (map VInt ids))]%string).

(* ---- UNIS / UNIx -------------------------------------------------------------------------------------------------- *)

Definition nthN (l : list N) (i : N) : N := nth (N.to_nat i) l 0.

Definition weapons_of_unit (u : N) : list N := match assocN u gen_unit_weapons with Some ws => ws | None => [] end.

Definition unit_decode (L : str_lookup) (v : val) (u : N) : runit :=
  let wd := vints "_unit_base_weapon_damages" v in
  let wu := vints "_unit_upgrade_weapon_damages" v in
  {| u_id := u;
     u_hp := nthN (vints "_unit_hitpoints" v) u;
     u_sh := nthN (vints "_unit_shieldpoints" v) u;
     u_ar := nthN (vints "_unit_armorpoints" v) u;
     u_bt := nthN (vints "_unit_build_times" v) u;
     u_mi := nthN (vints "_unit_mineral_costs" v) u;
     u_ga := nthN (vints "_unit_gas_costs" v) u;
     u_name := str_by_id L (nthN (vints "_unit_string_ids" v) u);
     u_weapons := flat_map (fun w => if N.of_nat (length wd) <=? w then []
                                     else [{| w_id := w; w_base := nthN wd w; w_upg := nthN wu w |}])
                           (weapons_of_unit u);
     u_default := negb (nthN (vints "_unit_default_settings_flags" v) u =? 0) |}.

Definition unit_unmodified (x : runit) : bool :=
  u_default x && (u_hp x =? 0) && (u_sh x =? 0) && (u_ar x =? 0) && (u_mi x =? 0) && (u_ga x =? 0) && (u_bt x =? 0)
  && (match u_name x with RNull => true | RText _ => false end)
  && forallb (fun w => (w_base w =? 0) && (w_upg w =? 0)) (u_weapons x).

Definition unis_decode (L : str_lookup) (v : val) : list runit :=
  filter (fun x => negb (unit_unmodified x))
         (map (unit_decode L v) (map N.of_nat (seq 0 (length (vints "_unit_default_settings_flags" v))))).

(* successive assignment into arrays of zeros: later settings overwrite earlier ones; an id outside the array
   is an IndexError *)
Fixpoint set_nth (l : list N) (i : nat) (x : N) : option (list N) :=
  match l, i with
  | [], _ => None
  | _ :: r, O => Some (x :: r)
  | a :: r, S i' => match set_nth r i' x with Some r' => Some (a :: r') | None => None end
  end.

Definition set_at (l : list N) (i x : N) : result (list N) :=
  if N.of_nat (length l) <=? i then Raise IndexError else of_option IndexError (set_nth l (N.to_nat i) x).

Record unis_arrays := {
  a_flags : list N; a_hp : list N; a_sh : list N; a_ar : list N; a_bt : list N; a_mi : list N; a_ga : list N;
  a_nm : list N; a_wd : list N; a_wu : list N }.

Definition unis_encode (L : str_lookup) (nw : N) (us : list runit) : result val :=
  let z := repeat 0 (N.to_nat NUM_UNITS) in
  let zw := repeat 0 (N.to_nat nw) in
  do a <- fold_left
       (fun acc x =>
          do a <- acc;
          do f <- set_at (a_flags a) (u_id x) (if u_default x then 1 else 0);
          do hp <- set_at (a_hp a) (u_id x) (u_hp x);
          do sh <- set_at (a_sh a) (u_id x) (u_sh x);
          do ar <- set_at (a_ar a) (u_id x) (u_ar x);
          do bt <- set_at (a_bt a) (u_id x) (u_bt x);
          do mi <- set_at (a_mi a) (u_id x) (u_mi x);
          do ga <- set_at (a_ga a) (u_id x) (u_ga x);
          do sid <- id_by_str L (u_name x);
          do nm <- set_at (a_nm a) (u_id x) sid;
          do wdu <- fold_left (fun acc2 w => do p <- acc2;
                                             do d <- set_at (fst p) (w_id w) (w_base w);
                                             do g <- set_at (snd p) (w_id w) (w_upg w); Ok (d, g))
                              (u_weapons x) (Ok (a_wd a, a_wu a));
          Ok {| a_flags := f; a_hp := hp; a_sh := sh; a_ar := ar; a_bt := bt; a_mi := mi; a_ga := ga; a_nm := nm;
                a_wd := fst wdu; a_wu := snd wdu |})
       us
       (Ok {| a_flags := repeat 1 (N.to_nat NUM_UNITS); a_hp := z; a_sh := z; a_ar := z; a_bt := z; a_mi := z;
              a_ga := z; a_nm := z; a_wd := zw; a_wu := zw |});
  Ok (mk_struct [("_unit_default_settings_flags", VList (map VInt (a_flags a)));
                 ("_unit_hitpoints", VList (map VInt (a_hp a))); ("_unit_shieldpoints", VList (map VInt (a_sh a)));
                 ("_unit_armorpoints", VList (map VInt (a_ar a))); ("_unit_build_times", VList (map VInt (a_bt a)));
                 ("_unit_mineral_costs", VList (map VInt (a_mi a))); ("_unit_gas_costs", VList (map VInt (a_ga a)));
                 ("_unit_string_ids", VList (map VInt (a_nm a)));
                 ("_unit_base_weapon_damages", VList (map VInt (a_wd a)));
                 ("_unit_upgrade_weapon_damages", VList (map VInt (a_wu a)))]%string).

(* ---- TRIG ----------------------------------------------------------------------------------------------------------- *)

Definition enum_has (E : string) (v : N) : bool :=
  match (fix go (l : list (string * enum_table)) := match l with
         | [] => None | (k, t) :: r => if String.eqb E k then Some t else go r end) all_enums with
  | Some t => contains_enum_by_id t v
  | None => false
  end.

Definition ai_name (v : N) : result (list N) :=
  if v <? 2 ^ 32 then utf8_decode (le_encode 4 v) else Raise StructError.

Definition dec_arg (cx : context) (c : codec) (v : N) : result rarg :=
  match c with
  | CRaw => Ok (AInt v)
  | CEnum E => if enum_has E v then Ok (AEnum v) else Raise KeyError
  | CLoc => match loc_by_id cx v with Some l => Ok (ALoc l) | None => Raise AssertionError end
  | CLocThrow => match loc_by_id cx v with Some l => Ok (ALoc l) | None => Raise ValueError end
  | CStr => Ok (AStr (str_by_id (cx_str cx) v))
  | CStrValue => Ok (AStrV (match str_by_id (cx_str cx) v with RText t => t | RNull => [] end))
  | CCuwp => match cuwp_by_id cx v with Some c => Ok (ACuwp c) | None => Raise AssertionError end
  | CSwitch => match assocN_last v (cx_switch_by_id cx) with
               | Some s => Ok (ASwitch s)
               | None => Ok (ASwitch {| s_name := RNull; s_idx := Some v; s_oid := 0 |})
               end
  | CAiScript => do n <- ai_name v; Ok (AAi n)
  end.

Definition enc_arg (cx : context) (c : codec) (a : rarg) : result N :=
  match c, a with
  | CRaw, AInt n => Ok n
  | CEnum _, AEnum n => Ok n
  | CLoc, ALoc l => match id_by_loc cx l with Some i => Ok i | None => Raise AssertionError end
  | CLocThrow, ALoc l => match id_by_loc cx l with Some i => Ok i | None => Raise ValueError end
  | CStr, AStr s => id_by_str (cx_str cx) s
  | CStrValue, AStrV t => id_by_str (cx_str cx) (RText t)
  | CCuwp, ACuwp cw => id_by_cuwp cx cw
  | CSwitch, ASwitch s => id_by_switch cx s
  | CAiScript, AAi n =>
      do bs <- utf8_encode n;
      if Nat.eqb (length bs) 4 then Ok (le_decode bs) else Raise StructError
  | _, _ => Raise TypeError
  end.

Definition wav_duration (cx : context) (args : list (string * rarg)) : result N :=
  match arg_get rarg "_duration_ms" args with
  | Ok (AInt n) => Ok n
  | Ok ANone =>
      match cx_wav_dur cx with
      | [] => Raise ValueError
      | _ => match arg_get rarg "_path_to_wav_in_mpq" args with
             | Ok (AStrV p) =>
                 match find (fun e => list_N_eqb p (fst e)) (cx_wav_dur cx) with
                 | Some e => Ok (snd e)
                 | None => Raise ValueError
                 end
             | _ => Raise TypeError
             end
      end
  | _ => Raise TypeError
  end.

Definition rec_val (fields : list string) (r : record) : val :=
  mk_struct (map (fun f => (f, VInt (match rec_get f r with Ok n => n | Raise _ => 0 end))) fields).

Definition val_rec (fields : list string) (v : val) : record := map (fun f => (f, vint f v)) fields.

Definition NO_ENTRY : N := 0.    (* NO_ACTION / NO_CONDITION *)

(* one decoded entry -> rich entry (None: dropped) *)
Definition decode_entry_of (cx : context) (table : list trig_entry) (enum : string) (idf : string)
           (flagc : flag_codec) (fields : list string) (v : val) : result (option rentry) :=
  let r := val_rec fields v in
  let id := vint idf v in
  if negb (enum_has enum id) then Ok (Some (ERaw r))
  else if id =? NO_ENTRY then Ok None
  else match find_entry id table with
       | None => Ok (Some (ERaw r))
       | Some e =>
           (* the transcoders assert that they were given their own type *)
           do args <- decode_entry rarg (dec_arg cx) e r;
           do fl <- flags_of flagc (vint "_flags" v);
           Ok (Some (ERich id args fl))
       end.

Definition encode_entry_of (cx : context) (table : list trig_entry) (flagc : flag_codec) (fields : list string)
           (e : rentry) : result val :=
  match e with
  | ERaw r => Ok (rec_val fields r)
  | ERich key args fl =>
      match find_entry key table with
      | None => Raise ValueError
      | Some te =>
          do r <- encode_entry rarg (enc_arg cx) (wav_duration cx) te args;
          do f <- flags_to flagc fl;
          Ok (rec_val fields (map (fun p => if String.eqb (fst p) "_flags" then (fst p, f) else p) r))
      end
  end.

Definition empty_entry (fields : list string) : val := mk_struct (map (fun f => (f, VInt 0)) fields).

Fixpoint somes {A} (l : list (option A)) : list A :=
  match l with [] => [] | Some x :: r => x :: somes r | None :: r => somes r end.

Definition trigger_decode (cx : context) (v : val) : result rtrigger :=
  do cs <- mapM (decode_entry_of cx gen_condition_table "TriggerConditionId" "_condition_id" condition_flags_codec
                                 condition_record_fields) (vlist "_conditions" v);
  do acts <- mapM (decode_entry_of cx gen_action_table "TriggerActionId" "_action_id" action_flags_codec
                                   action_record_fields) (vlist "_actions" v);
  match vfield "_player_execution" v with
  | Some pe =>
      if negb (vint "_execution_flags" pe =? 0) then Raise ValueError
      else if negb (vint "_current_action_index" pe =? 0) then Raise ValueError
      else
        let flags := vints "_player_flags" pe in
        if existsb (fun k => negb (enum_has "PlayerId" k)) (map N.of_nat (seq 0 (length flags))) then Raise ValueError
        else Ok {| t_conds := somes cs; t_acts := somes acts;
                   t_players := flat_map (fun p => if snd p =? 0 then [] else [fst p])
                                         (combine (map N.of_nat (seq 0 (length flags))) flags) |}
  | None => Raise TypeError
  end.

Definition pad_to {A} (n : nat) (x : A) (l : list A) : list A := l ++ repeat x (n - length l).

Definition player_ids : list N := map fst enum_PlayerId.

Definition trigger_encode (cx : context) (t : rtrigger) : result val :=
  do cs <- mapM (encode_entry_of cx gen_condition_table condition_flags_codec condition_record_fields) (t_conds t);
  do acts <- mapM (encode_entry_of cx gen_action_table action_flags_codec action_record_fields) (t_acts t);
  if Nat.ltb (N.to_nat NUM_CONDITIONS_PER_TRIGGER) (length cs) then Raise ValueError
  else if Nat.ltb (N.to_nat NUM_ACTIONS_PER_TRIGGER) (length acts) then Raise ValueError
  else
  Ok (mk_struct
        [("_conditions", VList (pad_to (N.to_nat NUM_CONDITIONS_PER_TRIGGER) (empty_entry condition_record_fields) cs));
         ("_actions", VList (pad_to (N.to_nat NUM_ACTIONS_PER_TRIGGER) (empty_entry action_record_fields) acts));
         ("_player_execution",
          mk_struct [("_execution_flags", VInt 0);
                     ("_player_flags", VList (map (fun p => VInt (if existsb (N.eqb p) (t_players t) then 1 else 0)) player_ids));
                     ("_current_action_index", VInt 0)])]%string).

Definition trig_decode (cx : context) (v : val) : result (list rtrigger) :=
  mapM (trigger_decode cx) (vlist "_triggers" v).

Definition trig_encode (cx : context) (ts : list rtrigger) : result val :=
  do vs <- mapM (trigger_encode cx) ts; Ok (mk_struct [("_triggers", VList vs)]%string).
