(* Abstract archives (member name -> content) and the map-saving / audio-import pipelines over them.
   What the bundled StormLib binary does is a HYPOTHESIS of the section (StormLibSpec: open/extract/add/compact
   behave as map read / update / identity); the correspondence check runs the real library to test exactly it. *)
From Coq Require Import String NArith List Bool.
From RC Require Import lib.Result.
Import ListNotations.

Lemma append_inj_l (p a b : string) : (p ++ a)%string = (p ++ b)%string -> a = b.
Proof. induction p as [|ch p IH]; simpl; intros H; [assumption | inversion H; auto]. Qed.

Section Archive.
  Variable content : Type.
  Definition archive := string -> option content.

  Definition chk_member : string := "staredit\scenario.chk".
  Definition wav_member (basename : string) : string := ("staredit\wav\" ++ basename)%string.

  (* the library's operations, as far as the library's callers can observe them *)
  Variable sl_extract : archive -> string -> option content.
  Variable sl_add : archive -> string -> content -> archive.          (* MPQ_FILE_REPLACEEXISTING *)
  Variable sl_compact : archive -> archive.

  Hypothesis StormLibSpec_extract : forall a m, sl_extract a m = a m.
  Hypothesis StormLibSpec_add : forall a m c m', sl_add a m c m' = if String.eqb m' m then Some c else a m'.
  Hypothesis StormLibSpec_compact : forall a m, sl_compact a m = a m.

  (* save_chk_to_mpq: copy the base, replace the scenario, compact *)
  Definition save_chk (base : archive) (chk : content) : archive :=
    sl_compact (sl_add base chk_member chk).

  Definition read_chk (a : archive) : option content := sl_extract a chk_member.

  (* add_audio_files_to_mpq: every file under the canonical sound path, then the updated scenario *)
  Definition add_audio (base : archive) (files : list (string * content)) (new_chk : content) : archive :=
    save_chk (sl_compact (fold_left (fun a f => sl_add a (wav_member (fst f)) (snd f)) files base)) new_chk.

  Lemma save_chk_scenario base chk : save_chk base chk chk_member = Some chk.
  Proof. unfold save_chk. rewrite StormLibSpec_compact, StormLibSpec_add, String.eqb_refl. reflexivity. Qed.

  Lemma save_chk_other base chk m : m <> chk_member -> save_chk base chk m = base m.
  Proof.
    intros H. unfold save_chk. rewrite StormLibSpec_compact, StormLibSpec_add.
    destruct (String.eqb_spec m chk_member); [contradiction | reflexivity].
  Qed.

  Lemma read_after_save base chk : read_chk (save_chk base chk) = Some chk.
  Proof. unfold read_chk. rewrite StormLibSpec_extract. apply save_chk_scenario. Qed.

  Lemma fold_add_other files : forall a m,
    (forall f, In f files -> wav_member (fst f) <> m) ->
    fold_left (fun a f => sl_add a (wav_member (fst f)) (snd f)) files a m = a m.
  Proof.
    induction files as [|f r IH]; intros a m H; simpl; [reflexivity|].
    rewrite IH by (intros g Hg; apply H; right; assumption).
    rewrite StormLibSpec_add. destruct (String.eqb_spec m (wav_member (fst f))) as [->|]; [|reflexivity].
    exfalso. apply (H f); [left; reflexivity | reflexivity].
  Qed.

  Lemma fold_add_last files : forall a name c,
    In (name, c) files ->
    (forall c', In (name, c') files -> c' = c) ->     (* one file per basename *)
    fold_left (fun a f => sl_add a (wav_member (fst f)) (snd f)) files a (wav_member name) = Some c.
  Proof.
    induction files as [|f r IH]; intros a name c Hin Huniq; [destruct Hin|].
    simpl. destruct (in_dec string_dec name (map fst r)) as [Hr|Hr].
    - apply in_map_iff in Hr as ([n' c'] & Hn & Hr). simpl in Hn. subst n'.
      assert (c' = c) by (apply Huniq; right; assumption). subst c'.
      apply IH; [assumption | intros c'' H''; apply Huniq; right; assumption].
    - destruct Hin as [->|Hin]; [|exfalso; apply Hr; apply in_map_iff; exists (name, c); auto].
      rewrite fold_add_other.
      + rewrite StormLibSpec_add. simpl. rewrite String.eqb_refl. reflexivity.
      + intros g Hg Heq. apply Hr. apply in_map_iff. exists g. split; [|assumption].
        unfold wav_member in Heq. exact (append_inj_l _ _ _ Heq).
  Qed.
End Archive.
