(* Specification-side entry points for C05 (no dependency on the generated table): the table interpreter under the "probe" context, in which
   locations 1..255, unit-property sets 1..64, switches 0..255 and strings 1..300 exist and every rich
   argument is observed as the number it stands for. *)
From Coq Require Import String NArith List Bool.
From RC Require Import lib.Result lib.Bytes lib.Utf8 lib.Tree model.TrigTable model.Enums
  gen.GenEnums spec.SpecTrig.
Import ListNotations.
Local Open Scope N_scope.

Definition n_strings : N := 300.

Fixpoint assoc_enum (k : string) (l : list (string * enum_table)) : option enum_table :=
  match l with
  | [] => None
  | (k', v) :: r => if String.eqb k k' then Some v else assoc_enum k r
  end.

Definition in_enum (E : string) (v : N) : bool :=
  match assoc_enum E all_enums with
  | Some t => contains_enum_by_id t v
  | None => false
  end.

Definition valid_ai_tag (v : N) : bool :=
  (v <? 2 ^ 32) && is_ok (utf8_decode (le_encode 4 v)).

Definition probe_dec (c : codec) (v : N) : result N :=
  match c with
  | CRaw => Ok v
  | CEnum E => if in_enum E v then Ok v else Raise KeyError
  | CLoc => if (1 <=? v) && (v <=? 255) then Ok v else Raise AssertionError
  | CLocThrow => if (1 <=? v) && (v <=? 255) then Ok v else Raise ValueError
  | CStr | CStrValue => if (1 <=? v) && (v <=? n_strings) then Ok v else Ok 0
  | CCuwp => if (1 <=? v) && (v <=? 64) then Ok v else Raise AssertionError
  | CSwitch => Ok v
  | CAiScript => if valid_ai_tag v then Ok v else Raise UnicodeError
  end.

Definition probe_enc (c : codec) (x : N) : result N :=
  match c with
  | CRaw => Ok x
  | CEnum E => if in_enum E x then Ok x else Raise TypeError
  | CLoc => if (1 <=? x) && (x <=? 255) then Ok x else Raise AssertionError
  | CLocThrow => if (1 <=? x) && (x <=? 255) then Ok x else Raise ValueError
  | CStr => if x =? 0 then Ok 0 else if x <=? n_strings then Ok x else Raise KeyError
  | CStrValue => if (1 <=? x) && (x <=? n_strings) then Ok x else Raise KeyError
  | CCuwp => if (1 <=? x) && (x <=? 64) then Ok x else Raise KeyError
  | CSwitch => if x <=? 255 then Ok x else Raise KeyError
  | CAiScript => if valid_ai_tag x then Ok x else Raise StructError
  end.

Definition probe_wav (args : list (string * N)) : result N := arg_get N "_duration_ms" args.

Definition p_pair (t : tree) : option (string * N) :=
  match t with
  | L [name; I v] => match p_bytes name with Some cs => Some (string_of_codes cs, v) | None => None end
  | _ => None
  end.

Definition t_pairs (l : list (string * N)) : tree :=
  L (map (fun e => L [t_bytes (codes_of_string (fst e)); I (snd e)]) l).

(* spec entries seen as generated entries: dec = the spec's argument list, enc = expected source per field *)
Definition entry_of_spec (fields : list string) (s : spec_entry) : trig_entry :=
  {| te_key := se_id s; te_model := se_model s; te_own_id := se_id s;
     te_dec := se_args s;
     te_enc := map (fun f => (f, expected_src s f)) fields |}.

Definition spec_as_action_table := map (entry_of_spec action_record_fields) spec_action_table.
Definition spec_as_condition_table := map (entry_of_spec condition_record_fields) spec_condition_table.

Definition pick_spec_table (which : N) : list trig_entry :=
  match which with
  | 2 => spec_as_action_table
  | _ => spec_as_condition_table
  end.

Definition run_with (pick : N -> list trig_entry) (t : tree) : tree :=
  match t with
  | L [I 1; I which; I key; L fields] =>        (* decode a record through entry `key` *)
      match find_entry key (pick which), p_all (map p_pair fields) with
      | Some e, Some r => t_result t_pairs (decode_entry N probe_dec e r)
      | _, _ => t_bad
      end
  | L [I 2; I which; I key; L args] =>          (* encode rich arguments through entry `key` *)
      match find_entry key (pick which), p_all (map p_pair args) with
      | Some e, Some a => t_result t_pairs (encode_entry N probe_enc probe_wav e a)
      | _, _ => t_bad
      end
  | _ => t_bad
  end.

(* the specification tables themselves, for the Python-side independent reader *)
Definition t_codec (c : codec) : tree :=
  match c with
  | CRaw => L [I 0] | CEnum E => L [I 1; t_bytes (codes_of_string E)] | CLoc => L [I 2] | CLocThrow => L [I 3]
  | CStr => L [I 4] | CStrValue => L [I 5] | CCuwp => L [I 6] | CSwitch => L [I 7] | CAiScript => L [I 8]
  end.

Definition t_spec_entry (s : spec_entry) : tree :=
  L [I (se_id s); t_bytes (codes_of_string (se_model s));
     L (map (fun a => L [t_bytes (codes_of_string (fst (fst a))); t_codec (snd (fst a));
                         t_bytes (codes_of_string (snd a))]) (se_args s))].

Definition run (t : tree) : tree :=
  match t with
  | L [I 9; I 0] => L (map t_spec_entry spec_action_table)
  | L [I 9; I 1] => L (map t_spec_entry spec_condition_table)
  | _ => run_with pick_spec_table t
  end.
