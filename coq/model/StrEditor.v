(* Hand model of DecodedStrSectionEditor / DecodedStrxSectionEditor.add_strings_to_str(x)_section,
   DecodedStrxSectionGenerator.generate_strx_from_str and RichStrLookupBuilder (w = 2 | 4). *)
From Coq Require Import String NArith List Bool.
From RC Require Import lib.Result lib.Bytes lib.Utf8 model.Str.
Import ListNotations.
Local Open Scope N_scope.

(* get_rich_string_by_offset: read from the offset up to the NUL; IndexError past the end *)
Fixpoint read_cstr (bs : bytes) : result (list N) :=
  match bs with
  | [] => Raise IndexError
  | b :: r =>
      if 128 <=? b then Raise UnicodeError
      else if b =? 0 then Ok []
      else do t <- read_cstr r; Ok (b :: t)
  end.

Definition resolve (bin : bytes) (off : N) : result (list N) :=
  if N.of_nat (length bin) <=? off then Raise IndexError
  else read_cstr (skipn (N.to_nat off) bin).

Fixpoint list_N_eqb (a b : list N) : bool :=
  match a, b with
  | [], [] => true
  | x :: a', y :: b' => (x =? y) && list_N_eqb a' b'
  | _, _ => false
  end.

Definition mem_str (s : list N) (l : list (list N)) : bool := existsb (list_N_eqb s) l.

(* OrderedDict of the requested strings that no string id resolves to, first occurrences kept *)
Fixpoint make_unique (req existing acc : list (list N)) : list (list N) :=
  match req with
  | [] => rev acc
  | s :: r =>
      if mem_str s existing || mem_str s acc then make_unique r existing acc
      else make_unique r existing (s :: acc)
  end.

Fixpoint new_offsets (start : N) (ss : list (list N)) : list N :=
  match ss with
  | [] => []
  | s :: r => start :: new_offsets (start + N.of_nat (length s) + 1) r
  end.

Definition add_strings (w : nat) (req : list (list N)) (t : str_section) : result str_section :=
  do bin <- str_encode w t;
  do existing <- mapM (resolve bin) (ss_offsets t);
  let uniq := make_unique req existing [] in
  match uniq with
  | [] => Ok t
  | _ :: _ =>
      let k := N.of_nat (length uniq) in
      let inc := N.of_nat w * k in
      Ok {| ss_num := ss_num t + k;
            ss_offsets := map (fun o => o + inc) (ss_offsets t)
                          ++ new_offsets (N.of_nat (length bin) + inc) uniq;
            ss_strings := ss_strings t ++ uniq |}
  end.

Definition generate_strx (t : str_section) : str_section :=
  let shift := 2 + N.of_nat (length (ss_offsets t)) * 2 in
  {| ss_num := ss_num t;
     ss_offsets := map (fun o => o + shift) (ss_offsets t);
     ss_strings := ss_strings t |}.

(* RichStrLookupBuilder.build_lookup: id -> text for ids 1..len(offsets) *)
Definition build_lookup (w : nat) (t : str_section) : result (list (list N)) :=
  do bin <- str_encode w t; mapM (resolve bin) (ss_offsets t).

(* id_by_string: later ids overwrite earlier ones *)
Fixpoint last_id_of (s : list N) (texts : list (list N)) (next : N) (found : option N) : option N :=
  match texts with
  | [] => found
  | t :: r => last_id_of s r (next + 1) (if list_N_eqb s t then Some next else found)
  end.
Definition id_by_string (texts : list (list N)) (s : list N) : option N := last_id_of s texts 1 None.
