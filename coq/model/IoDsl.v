(* A small IO language with faults, and hand models of the file-writing entry points:
     ChkIo.encode_chk_to_file, StormLibWrapper.extract_file, StarCraftMpqIo.extract_chk_from_mpq,
     StarCraftMpqIo.read_chk_from_mpq, StarCraftMpqIo.save_chk_to_mpq,
     StarCraftAudioFilesIo.add_audio_files_to_mpq.
   File contents are symbolic (never inspected), so one run stands for every actual content.
   The semantics is NON-DETERMINISTIC in the faults: [all_runs] returns every execution in which any subset of
   the primitive calls fails before taking effect, after taking effect, or (copies, extractions, archive
   edits, the CHK write) part-way.  Cleanup calls (removing a temp file in __exit__/finally) do not fail:
   no program can clean up after a failing cleanup. *)
From Coq Require Import String NArith List Bool.
From RC Require Import lib.Result.
Import ListNotations.

Inductive path : Set :=
| Base            (* the map / archive that is read *)
| Dst             (* the destination the caller named *)
| Audio           (* an audio file to import *)
| Tmp (k : nat)   (* CrossPlatformSafeTemporaryNamedFile #k *)
| Part.           (* the sibling "<dst>.<random>.part" *)

Definition path_eqb (a b : path) : bool :=
  match a, b with
  | Base, Base | Dst, Dst | Audio, Audio | Part, Part => true
  | Tmp i, Tmp j => Nat.eqb i j
  | _, _ => false
  end.

Inductive content : Set :=
| Init (p : path)              (* what p held when the call started *)
| Empty                        (* created / truncated *)
| Chk                          (* the encoded CHK *)
| Member (a : content)         (* a member extracted from archive a *)
| Edited (a : content)         (* archive a after add / compact *)
| Broken (c : content).        (* a partial / torn version of c *)

Fixpoint content_eqb (a b : content) : bool :=
  match a, b with
  | Init p, Init q => path_eqb p q
  | Empty, Empty | Chk, Chk => true
  | Member x, Member y | Edited x, Edited y | Broken x, Broken y => content_eqb x y
  | _, _ => false
  end.

Definition fs := path -> option content.
Definition upd (f : fs) (p : path) (c : option content) : fs := fun q => if path_eqb q p then c else f q.

Inductive fault : Set := FBefore | FAfter | FPartway.

Inductive prim : Set :=
| PCreate (p : path)                 (* open(p, "w").close() *)
| PCopy (s d : path)                 (* shutil.copyfile *)
| PWriteChk (d : path)               (* open(d,"wb") then encode then write *)
| PArchOpen (a : path)
| PArchEdit (a : path)               (* add_file / compact: rewrites the archive file *)
| PArchExtract (a d : path)          (* SFileExtractFile *)
| PArchClose (a : path)
| PReplace (s d : path)              (* os.replace *)
| PPure.                             (* a computation that touches no file but may raise (encode, decode, durations) *)

Inductive cmd : Set :=
| Do (p : prim)
| RaiseIf (c : fs -> bool) (e : err)
| Cleanup (p : path)                               (* os.remove(p) if it exists — never faulted *)
| WithTemp (k : nat) (body : list cmd)             (* with CrossPlatformSafeTemporaryNamedFile() as t *)
| TryFinally (body fin : list cmd).

(* effect of a primitive: None when the call itself must fail (source missing) *)
Definition effect (p : prim) (f : fs) : option fs :=
  match p with
  | PCreate d => Some (upd f d (Some Empty))
  | PCopy s d => match f s with Some c => Some (upd f d (Some c)) | None => None end
  | PWriteChk d => Some (upd f d (Some Chk))
  | PArchOpen a => match f a with Some _ => Some f | None => None end
  | PArchEdit a => match f a with Some c => Some (upd f a (Some (Edited c))) | None => None end
  | PArchExtract a d => match f a with Some c => Some (upd f d (Some (Member c))) | None => None end
  | PArchClose a => Some f
  | PReplace s d => match f s with Some c => Some (upd (upd f d (Some c)) s None) | None => None end
  | PPure => Some f
  end.

(* what a part-way failure leaves behind *)
Definition partial (p : prim) (f : fs) : option fs :=
  match p with
  | PCopy s d => match f s with Some c => Some (upd f d (Some (Broken c))) | None => None end
  | PWriteChk d => Some (upd f d (Some Empty))          (* opened for writing, encoding failed *)
  | PArchEdit a => match f a with Some c => Some (upd f a (Some (Broken c))) | None => None end
  | PArchExtract a d => match f a with Some c => Some (upd f d (Some (Broken (Member c)))) | None => None end
  | _ => None
  end.

Inductive outcome : Set := Done | Failed (e : err).

(* an execution: the faults taken (step number, kind), the outcome, the final file system *)
Definition run_result := (list (nat * fault) * outcome * fs)%type.

Section Runs.
  (* state threaded through: step counter and trace of faults *)
  Definition st := (nat * list (nat * fault) * fs)%type.

  Definition step_prim (p : prim) (s : st) : list (st * outcome) :=
    let '(n, tr, f) := s in
    let ok := match effect p f with
              | Some f' => [((S n, tr, f'), Done)]
              | None => [((S n, tr, f), Failed OsError)]
              end in
    let before := [((S n, tr ++ [(n, FBefore)], f), Failed OsError)] in
    let after := match p, effect p f with
                 | PCreate _, _ =>        (* creating the work file fails after having taken effect (close() reports an
                                             error): __enter__ removes the file again before re-raising (fix f9613d2) *)
                     [((S n, tr ++ [(n, FAfter)], f), Failed OsError)]
                 | _, Some f' => [((S n, tr ++ [(n, FAfter)], f'), Failed OsError)]
                 | _, None => []
                 end in
    let part := match partial p f with
                | Some f' => [((S n, tr ++ [(n, FPartway)], f'), Failed OsError)]
                | None => []
                end in
    ok ++ before ++ after ++ part.

  (* cleanup commands run without faults *)
  Fixpoint run_cleanup (cs : list cmd) (f : fs) : fs :=
    match cs with
    | [] => f
    | Cleanup p :: r => run_cleanup r (upd f p None)
    | _ :: r => run_cleanup r f
    end.

  Fixpoint run_cmds (fuel : nat) (cs : list cmd) (s : st) : list (st * outcome) :=
    match fuel with
    | O => []
    | S fu =>
        match cs with
        | [] => [(s, Done)]
        | c :: rest =>
            let results :=
              match c with
              | Do p => step_prim p s
              | RaiseIf cond e => let '(n, tr, f) := s in if cond f then [(s, Failed e)] else [(s, Done)]
              | Cleanup p => let '(n, tr, f) := s in [((n, tr, upd f p None), Done)]
              | WithTemp k body =>
                  (* __enter__ creates the file; __exit__ removes it whatever happened *)
                  flat_map (fun so =>
                              match snd so with
                              | Failed e => [so]       (* creation failed: nothing to remove *)
                              | Done =>
                                  map (fun r => let '((n, tr, f), o) := r in ((n, tr, upd f (Tmp k) None), o))
                                      (run_cmds fu body (fst so))
                              end)
                           (step_prim (PCreate (Tmp k)) s)
              | TryFinally body fin =>
                  map (fun r => let '((n, tr, f), o) := r in ((n, tr, run_cleanup fin f), o)) (run_cmds fu body s)
              end in
            flat_map (fun so => match snd so with
                                | Done => run_cmds fu rest (fst so)
                                | Failed e => [so]
                                end) results
        end
    end.

  Definition all_runs (prog : list cmd) (f : fs) : list run_result :=
    map (fun r => let '((n, tr, f'), o) := r in (tr, o, f')) (run_cmds 200 prog (O, [], f)).
End Runs.

(* ---- the entry points --------------------------------------------------------------------------------------- *)

Definition exists_p (p : path) (f : fs) : bool := match f p with Some _ => true | None => false end.

(* ChkIo.encode_chk_to_file(decoded, Dst, force_create) *)
Definition prog_encode_chk_to_file (force_create : bool) : list cmd :=
  [RaiseIf (fun f => negb force_create && exists_p Dst f) FileExists;
   Do (PWriteChk Dst)].

(* StormLibWrapper.extract_file(handle of Base, member, Dst, overwrite_existing) *)
Definition prog_extract_file (overwrite : bool) : list cmd :=
  [RaiseIf (fun f => exists_p Dst f && negb overwrite) FileExists;
   Do (PArchExtract Base Dst)].

(* StarCraftMpqIo.extract_chk_from_mpq(Base, Dst, overwrite_existing) *)
Definition prog_extract_chk_from_mpq (overwrite : bool) : list cmd :=
  [RaiseIf (fun f => negb (exists_p Base f)) FileNotFound;
   Do (PArchOpen Base)] ++ prog_extract_file overwrite ++ [Do (PArchClose Base)].

(* StarCraftMpqIo.read_chk_from_mpq(Base) *)
Definition prog_read_chk_from_mpq (src : path) (k : nat) : list cmd :=
  [RaiseIf (fun f => negb (exists_p src f)) FileNotFound;
   WithTemp k [Do (PArchOpen src); Do (PArchExtract src (Tmp k)); Do PPure; Do (PArchClose src)]].

(* _build_wav_metadata_lookup(base): opens the base map, extracts each of its [ns] sounds to a temp file and
   computes its duration *)
Definition prog_wav_metadata (base : path) (k : nat) (ns : nat) : list cmd :=
  [Do (PArchOpen base)] ++
  flat_map (fun _ => [WithTemp k [Do (PArchExtract base (Tmp k)); Do PPure]]) (seq 0 ns) ++
  [Do (PArchClose base)].

(* StarCraftMpqIo.save_chk_to_mpq(chk, base, Dst, overwrite_existing) with the base map at [base] holding ns sounds *)
Definition prog_save_chk_to_mpq_from (base : path) (k : nat) (overwrite : bool) (ns : nat) : list cmd :=
  [RaiseIf (fun f => negb (exists_p base f)) FileNotFound;
   RaiseIf (fun f => exists_p Dst f && negb overwrite) FileExists;
   WithTemp k [WithTemp (S k)
     (prog_wav_metadata base (S (S k)) ns ++
      [Do PPure;                                   (* RichChkIo().encode_chk *)
       Do (PWriteChk (Tmp k));                     (* encode_chk_to_file(temp_chk, force_create=True) *)
       Do (PCopy base (Tmp (S k)));                (* shutil.copyfile(base, temp_mpq) *)
       Do (PArchOpen (Tmp (S k)));
       Do (PArchEdit (Tmp (S k)));                 (* add_file scenario.chk *)
       Do (PArchEdit (Tmp (S k)));                 (* compact *)
       Do (PArchClose (Tmp (S k)));
       TryFinally [Do (PCopy (Tmp (S k)) Part); Do (PReplace Part Dst)] [Cleanup Part] ])]].

Definition prog_save_chk_to_mpq (overwrite : bool) (ns : nat) : list cmd :=
  prog_save_chk_to_mpq_from Base 0 overwrite ns.

(* the save as it was before the repair: the destination written by a plain copy *)
Definition prog_save_chk_to_mpq_unrepaired (overwrite : bool) (ns : nat) : list cmd :=
  [RaiseIf (fun f => negb (exists_p Base f)) FileNotFound;
   RaiseIf (fun f => exists_p Dst f && negb overwrite) FileExists;
   WithTemp 0 [WithTemp 1
     (prog_wav_metadata Base 2 ns ++
      [Do PPure; Do (PWriteChk (Tmp 0)); Do (PCopy Base (Tmp 1)); Do (PArchOpen (Tmp 1));
       Do (PArchEdit (Tmp 1)); Do (PArchEdit (Tmp 1)); Do (PArchClose (Tmp 1));
       Do (PCopy (Tmp 1) Dst)])]].

(* StarCraftAudioFilesIo.add_audio_files_to_mpq(na audio files, Base with ns sounds, Dst, overwrite_existing) *)
Definition prog_add_audio_files_to_mpq (overwrite : bool) (ns na : nat) : list cmd :=
  [RaiseIf (fun f => negb (exists_p Audio f)) FileNotFound;
   RaiseIf (fun f => negb (exists_p Base f)) FileNotFound;
   RaiseIf (fun f => exists_p Dst f && negb overwrite) FileExists;
   WithTemp 10
     ([Do (PCopy Base (Tmp 10)); Do (PArchOpen (Tmp 10))]
      ++ map (fun _ => Do (PArchEdit (Tmp 10))) (seq 0 na)       (* add_file per audio file *)
      ++ [Do (PArchEdit (Tmp 10)); Do (PArchClose (Tmp 10))]     (* compact, close *)
      ++ prog_read_chk_from_mpq (Tmp 10) 11
      ++ [Do PPure]                                (* WAV editor + replace section *)
      ++ prog_save_chk_to_mpq_from (Tmp 10) 20 true (ns + na))].

(* ---- the properties, as decidable checks on one execution --------------------------------------------------- *)

Definition opt_content_eqb (a b : option content) : bool :=
  match a, b with
  | None, None => true
  | Some x, Some y => content_eqb x y
  | _, _ => false
  end.

Definition temp_paths : list path := Part :: map Tmp (seq 0 40).

Definition no_temp_left (f : fs) : bool := forallb (fun p => negb (exists_p p f)) temp_paths.

Definition unchanged (p : path) (f0 f : fs) : bool := opt_content_eqb (f p) (f0 p).

(* the complete new map: base copied, CHK replaced, compacted *)
Definition new_map (base0 : content) : content := Edited (Edited base0).

Definition is_complete_new_map (c : content) : bool :=
  match c with Edited (Edited _) => true | _ => false end.

(* C16: base untouched; destination absent-as-before, its previous content, or a complete new map; no temp files *)
Definition atomic_ok (f0 : fs) (r : run_result) : bool :=
  let '(tr, o, f) := r in
  unchanged Base f0 f && unchanged Audio f0 f && no_temp_left f &&
  (unchanged Dst f0 f ||
   match f Dst with Some c => is_complete_new_map c | None => false end) &&
  match o with
  | Done => match f Dst with Some c => is_complete_new_map c | None => false end
  | Failed _ => true
  end.

(* C15: refusing leaves everything as it was *)
Definition refused_ok (f0 : fs) (r : run_result) : bool :=
  let '(tr, o, f) := r in
  match o with
  | Failed FileExists => forallb (fun p => unchanged p f0 f) (Base :: Dst :: Audio :: temp_paths)
  | _ => false
  end.

(* C15 with opt-in: only the destination (and no other named file) changes *)
Definition only_dst_changes (f0 : fs) (r : run_result) : bool :=
  let '(tr, o, f) := r in unchanged Base f0 f && unchanged Audio f0 f && no_temp_left f.

Definition fs_of (base dst audio : bool) : fs :=
  fun p => match p with
           | Base => if base then Some (Init Base) else None
           | Dst => if dst then Some (Init Dst) else None
           | Audio => if audio then Some (Init Audio) else None
           | _ => None
           end.
