From Coq Require Import NArith List Bool.
From RC Require Import lib.Result lib.Tree model.Imports gen.GenImports.
Import ListNotations.
Local Open Scope N_scope.

Definition t_state (st : state) : tree :=
  L [t_bytes (started st);
     L (map (fun r => t_bytes (keys_of r st)) [0; 1; 2; 3])].

Definition run (t : tree) : tree :=
  match t with
  | L [I 1; I m] => t_result t_state (load_top gen_modules m)
  | _ => t_bad
  end.
