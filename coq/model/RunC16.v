(* Correspondence entry point for the IO models (C15, C16): all executions of an entry point, projected. *)
From Coq Require Import String NArith List Bool.
From RC Require Import lib.Result lib.Tree model.IoDsl.
Import ListNotations.
Local Open Scope N_scope.

Definition t_fault (k : fault) : tree := I (match k with FBefore => 0 | FAfter => 1 | FPartway => 2 end).

Definition dst_class (f0 f : fs) : N :=
  match f Dst with
  | None => 0
  | Some c => if opt_content_eqb (Some c) (f0 Dst) then 1
              else match c with Broken _ | Empty => 3 | _ => 2 end
  end.

Definition t_run (f0 : fs) (r : run_result) : tree :=
  let '(tr, o, f) := r in
  L [L (map (fun e => L [I (N.of_nat (fst e)); t_fault (snd e)]) tr);
     I (match o with Done => 0 | Failed FileExists => 8 | Failed FileNotFound => 9 | Failed _ => 10 end);
     t_bool (unchanged Base f0 f); I (dst_class f0 f); t_bool (negb (no_temp_left f)); t_bool (unchanged Audio f0 f)].

Definition run (t : tree) : tree :=
  match t with
  | L [I ep; ow; I ns; I na; b; d; a] =>
      match p_bool ow, p_bool b, p_bool d, p_bool a with
      | Some ow', Some b', Some d', Some a' =>
          let f0 := fs_of b' d' a' in
          let prog := match ep with
                      | 0 => prog_encode_chk_to_file ow'
                      | 1 => prog_extract_file ow'
                      | 2 => prog_extract_chk_from_mpq ow'
                      | 3 => prog_save_chk_to_mpq ow' (N.to_nat ns)
                      | 4 => prog_add_audio_files_to_mpq ow' (N.to_nat ns) (N.to_nat na)
                      | _ => prog_read_chk_from_mpq Base 0
                      end in
          L (map (t_run f0) (all_runs prog f0))
      | _, _, _, _ => t_bad
      end
  | _ => t_bad
  end.
