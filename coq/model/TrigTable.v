(* Table-driven model of the 51 action / 22 condition transcoders: each entry says which rich argument
   goes through which codec into which field of the 32-byte action / 20-byte condition record.
   The tables are generated from the source (gen/GenTrig.v) and transcribed from the format (spec/SpecTrig.v);
   this file holds their type and the interpreter. *)
From Coq Require Import String NArith List Bool.
From RC Require Import lib.Result.
Import ListNotations.
Local Open Scope N_scope.

Inductive codec : Set :=
| CRaw | CEnum (E : string) | CLoc | CLocThrow | CStr | CStrValue | CCuwp | CSwitch | CAiScript.

Inductive enc_src : Set :=
| EZero | EOwnId | EWavDuration | EArg (c : codec) (a : string).

Record trig_entry := {
  te_key : N;                                   (* the registry key *)
  te_model : string;                            (* rich model class *)
  te_own_id : N;                                (* model_class.action_id().id *)
  te_dec : list (string * codec * string);      (* rich field, codec, record field it is read from *)
  te_enc : list (string * enc_src);             (* record field, what is written there *)
}.

Definition codec_eqb (a b : codec) : bool :=
  match a, b with
  | CRaw, CRaw | CLoc, CLoc | CLocThrow, CLocThrow | CStr, CStr | CStrValue, CStrValue
  | CCuwp, CCuwp | CSwitch, CSwitch | CAiScript, CAiScript => true
  | CEnum x, CEnum y => String.eqb x y
  | _, _ => false
  end.

Definition arg_eqb (x y : string * codec * string) : bool :=
  String.eqb (fst (fst x)) (fst (fst y)) && codec_eqb (snd (fst x)) (snd (fst y)) && String.eqb (snd x) (snd y).

Definition src_eqb (a b : enc_src) : bool :=
  match a, b with
  | EZero, EZero | EOwnId, EOwnId | EWavDuration, EWavDuration => true
  | EArg c x, EArg d y => codec_eqb c d && String.eqb x y
  | _, _ => false
  end.

(* ---- interpreter, parameterised by the codecs' behaviour (the lookups live in the context) ------- *)

Section Interp.
  Variable rval : Type.                                   (* rich argument values *)
  Variable dec_codec : codec -> N -> result rval.
  Variable enc_codec : codec -> rval -> result N.
  Variable wav_duration : list (string * rval) -> result N.

  Definition record := list (string * N).                 (* record field -> number *)

  Fixpoint rec_get (f : string) (r : record) : result N :=
    match r with
    | [] => Raise TypeError
    | (g, v) :: r' => if String.eqb f g then Ok v else rec_get f r'
    end.

  Fixpoint arg_get (a : string) (args : list (string * rval)) : result rval :=
    match args with
    | [] => Raise TypeError
    | (b, v) :: r => if String.eqb a b then Ok v else arg_get a r
    end.

  Definition decode_entry (e : trig_entry) (r : record) : result (list (string * rval)) :=
    mapM (fun row => let '(a, c, f) := row in
                     do v <- rec_get f r; do x <- dec_codec c v; Ok (a, x)) (te_dec e).

  Definition encode_entry (e : trig_entry) (args : list (string * rval)) : result record :=
    mapM (fun row => let '(f, src) := row in
                     match src with
                     | EZero => Ok (f, 0)
                     | EOwnId => Ok (f, te_own_id e)
                     | EWavDuration => do d <- wav_duration args; Ok (f, d)
                     | EArg c a => do x <- arg_get a args; do v <- enc_codec c x; Ok (f, v)
                     end) (te_enc e).
End Interp.

(* ---- comparison of a generated entry with a specification entry -------------------------------------- *)

Record spec_entry := {
  se_id : N;
  se_model : string;
  se_args : list (string * codec * string);     (* argument, codec, record field — order irrelevant *)
  se_special : list (string * enc_src);         (* record fields written by something else than an argument *)
}.

Fixpoint find_arg_for_field (f : string) (args : list (string * codec * string)) : option (string * codec) :=
  match args with
  | [] => None
  | (a, c, g) :: r => if String.eqb f g then Some (a, c) else find_arg_for_field f r
  end.

Fixpoint find_special (f : string) (l : list (string * enc_src)) : option enc_src :=
  match l with
  | [] => None
  | (g, s) :: r => if String.eqb f g then Some s else find_special f r
  end.

Fixpoint nodup_strs (l : list string) : bool :=
  match l with
  | [] => true
  | x :: r => negb (existsb (String.eqb x) r) && nodup_strs r
  end.

Definition subset_args (a b : list (string * codec * string)) : bool :=
  forallb (fun x => existsb (arg_eqb x) b) a.

(* the expected source of record field f under the spec *)
Definition expected_src (s : spec_entry) (f : string) : enc_src :=
  match find_special f (se_special s) with
  | Some x => x
  | None => match find_arg_for_field f (se_args s) with
            | Some (a, c) => EArg c a
            | None => EZero
            end
  end.

Definition entry_matches (record_fields : list string) (g : trig_entry) (s : spec_entry) : bool :=
  (te_key g =? se_id s) && (te_own_id g =? se_id s) && String.eqb (te_model g) (se_model s)
  && subset_args (te_dec g) (se_args s) && subset_args (se_args s) (te_dec g)
  && Nat.eqb (length (te_dec g)) (length (se_args s))
  && nodup_strs (map (fun x => fst (fst x)) (se_args s))          (* no argument twice *)
  && nodup_strs (map snd (se_args s))                             (* no two arguments share a field *)
  && nodup_strs (map fst (te_enc g))
  && forallb (fun f => existsb (String.eqb f) (map fst (te_enc g))) record_fields   (* every field written *)
  && forallb (fun row => existsb (String.eqb (fst row)) record_fields
                         && src_eqb (snd row) (expected_src s (fst row))) (te_enc g).

Fixpoint tables_match (fields : list string) (g : list trig_entry) (s : list spec_entry) : bool :=
  match g, s with
  | [], [] => true
  | x :: g', y :: s' => entry_matches fields x y && tables_match fields g' s'
  | _, _ => false
  end.

Definition action_record_fields : list string :=
  ["_location_id"; "_text_string_id"; "_wav_string_id"; "_time"; "_first_group"; "_second_group";
   "_action_argument_type"; "_action_id"; "_quantifier_or_switch_or_order"; "_flags"; "_padding"; "_mask_flag"]%string.

Definition condition_record_fields : list string :=
  ["_location_id"; "_group"; "_quantity"; "_unit_id"; "_numeric_comparison_operation"; "_condition_id";
   "_numeric_comparand_type"; "_flags"; "_mask_flag"]%string.

Fixpoint find_entry (k : N) (t : list trig_entry) : option trig_entry :=
  match t with
  | [] => None
  | e :: r => if te_key e =? k then Some e else find_entry k r
  end.
