(* C12 — flag, enum and fixed-point codecs are exact on their whole domain.
   Only statements, each closed by [exact <lemma>] with Print Assumptions beneath. *)
From Coq Require Import NArith List Bool String.
From RC Require Import lib.Result lib.Utf8 proofs.Utf8_inverse model.Flags model.Enums proofs.Flags_proofs
  gen.GenFlags gen.GenEnums proofs.C12_proofs
  lib.Bytes model.Scalars gen.GenScalars proofs.C12_scalars.
Local Open Scope N_scope.

Theorem C12_action_flags_number_to_rich_and_back :
  forall x, x < 256 -> exists r, fdecode action_flags_codec x = Ok r /\ fencode action_flags_codec r = Ok (x mod 2 ^ 5).
Proof. exact action_flags_num. Qed.
Print Assumptions C12_action_flags_number_to_rich_and_back.

Theorem C12_action_flags_rich_to_number_and_back :
  forall bs : list bool, List.length bs = 5%nat -> rich_roundtrip action_flags_codec 5 bs.
Proof. exact action_flags_rich. Qed.
Print Assumptions C12_action_flags_rich_to_number_and_back.

Theorem C12_condition_flags_number_to_rich_and_back :
  forall x, x < 256 -> exists r, fdecode condition_flags_codec x = Ok r /\ fencode condition_flags_codec r = Ok (x mod 2 ^ 5).
Proof. exact condition_flags_num. Qed.
Print Assumptions C12_condition_flags_number_to_rich_and_back.

Theorem C12_condition_flags_rich_to_number_and_back :
  forall bs : list bool, List.length bs = 5%nat -> rich_roundtrip condition_flags_codec 5 bs.
Proof. exact condition_flags_rich. Qed.
Print Assumptions C12_condition_flags_rich_to_number_and_back.

Theorem C12_elevation_flags_number_to_rich_and_back :
  forall x, x < 65536 -> exists r, fdecode elevation_flags_codec x = Ok r /\ fencode elevation_flags_codec r = Ok (x mod 2 ^ 6).
Proof. exact elevation_flags_num. Qed.
Print Assumptions C12_elevation_flags_number_to_rich_and_back.

Theorem C12_elevation_flags_rich_to_number_and_back :
  forall bs : list bool, List.length bs = 6%nat -> rich_roundtrip elevation_flags_codec 6 bs.
Proof. exact elevation_flags_rich. Qed.
Print Assumptions C12_elevation_flags_rich_to_number_and_back.

Theorem C12_cuwp_unit_property_flags_number_to_rich_and_back :
  forall x, x < 65536 -> exists r, fdecode cuwp_unit_property_flags_codec x = Ok r /\ fencode cuwp_unit_property_flags_codec r = Ok (x mod 2 ^ 6).
Proof. exact cuwp_unit_property_flags_num. Qed.
Print Assumptions C12_cuwp_unit_property_flags_number_to_rich_and_back.

Theorem C12_cuwp_unit_property_flags_rich_to_number_and_back :
  forall bs : list bool, List.length bs = 6%nat -> rich_roundtrip cuwp_unit_property_flags_codec 6 bs.
Proof. exact cuwp_unit_property_flags_rich. Qed.
Print Assumptions C12_cuwp_unit_property_flags_rich_to_number_and_back.

Theorem C12_cuwp_valid_special_flags_number_to_rich_and_back :
  forall x, x < 65536 -> exists r, fdecode cuwp_valid_special_flags_codec x = Ok r /\ fencode cuwp_valid_special_flags_codec r = Ok (x mod 2 ^ 6).
Proof. exact cuwp_valid_special_flags_num. Qed.
Print Assumptions C12_cuwp_valid_special_flags_number_to_rich_and_back.

Theorem C12_cuwp_valid_special_flags_rich_to_number_and_back :
  forall bs : list bool, List.length bs = 6%nat -> rich_roundtrip cuwp_valid_special_flags_codec 6 bs.
Proof. exact cuwp_valid_special_flags_rich. Qed.
Print Assumptions C12_cuwp_valid_special_flags_rich_to_number_and_back.

Theorem C12_cuwp_valid_unit_flags_number_to_rich_and_back :
  forall x, x < 65536 -> exists r, fdecode cuwp_valid_unit_flags_codec x = Ok r /\ fencode cuwp_valid_unit_flags_codec r = Ok (x mod 2 ^ 7).
Proof. exact cuwp_valid_unit_flags_num. Qed.
Print Assumptions C12_cuwp_valid_unit_flags_number_to_rich_and_back.

Theorem C12_cuwp_valid_unit_flags_rich_to_number_and_back :
  forall bs : list bool, List.length bs = 7%nat -> rich_roundtrip cuwp_valid_unit_flags_codec 7 bs.
Proof. exact cuwp_valid_unit_flags_rich. Qed.
Print Assumptions C12_cuwp_valid_unit_flags_rich_to_number_and_back.

(* every enumeration: members round-trip, non-members (any n : N, unbounded) raise KeyError,
   decode never returns a member whose id differs, ids and members are in bijection *)
Theorem C12_every_enum_is_exact :
  forall name E, In (name, E) all_enums ->
    (forall i m, In (i, m) E -> enum_decode E i = Ok m /\ enum_encode E m = Ok i) /\
    (forall n, ~ In n (map fst E) -> enum_decode E n = Raise KeyError) /\
    (forall n m, enum_decode E n = Ok m -> In (n, m) E /\ enum_encode E m = Ok n) /\
    (forall i m1 m2, In (i, m1) E -> In (i, m2) E -> m1 = m2) /\
    (forall i1 i2 m, In (i1, m) E -> In (i2, m) E -> i1 = i2).
Proof. exact all_enums_exact. Qed.
Print Assumptions C12_every_enum_is_exact.

(* ---- hit points: Decimal(raw) / Decimal(256), as an exact count of 10^-8 units --------------------------- *)
Theorem C12_hit_points_number_to_rich_and_back : forall raw, hp_encode (hp_decode raw) = raw.
Proof. exact hp_number_to_rich_and_back. Qed.
Print Assumptions C12_hit_points_number_to_rich_and_back.

Theorem C12_hit_points_rich_to_number_and_back :
  forall d, (hp_scale / HP_DIVISOR | d) -> hp_decode (hp_encode d) = d.
Proof. exact hp_rich_to_number_and_back. Qed.
Print Assumptions C12_hit_points_rich_to_number_and_back.

Theorem C12_hit_points_quotient_is_exact_and_within_decimal_precision :
  hp_scale mod HP_DIVISOR = 0 /\ forall raw, raw < 2 ^ 32 -> hp_decode raw < 10 ^ 28.
Proof. split; [exact (proj1 hp_quotient_exact) | exact hp_within_decimal_precision]. Qed.
Print Assumptions C12_hit_points_quotient_is_exact_and_within_decimal_precision.

(* ---- AI scripts: every u32 whose four bytes are valid UTF-8 ------------------------------------------- *)
Theorem C12_ai_script_number_to_rich_and_back : forall n a, ai_decode n = Ok a -> ai_encode a = Ok n.
Proof. exact ai_number_to_rich_and_back. Qed.
Print Assumptions C12_ai_script_number_to_rich_and_back.

Theorem C12_ai_script_member_iff_exact_tag :
  forall n i, ai_decode n = Ok (AiKnown i) -> nth_error gen_ai_tags i = Some (le_encode 4 n).
Proof. exact ai_known_iff_exact_tag. Qed.
Print Assumptions C12_ai_script_member_iff_exact_tag.

Theorem C12_ai_script_distinct_numbers_distinct_values :
  forall n m a, ai_decode n = Ok a -> ai_decode m = Ok a -> n = m.
Proof. exact ai_decode_injective. Qed.
Print Assumptions C12_ai_script_distinct_numbers_distinct_values.

(* the rich -> number -> rich direction for AI scripts: whatever number a script is written as decodes again, to a script of
   the same name (a known member when the four bytes are a member's tag).  It rests on the encode-then-decode direction of the
   UTF-8 round trip for ALL code points (proofs/Utf8_inverse.v), the other direction being proofs/Utf8_proofs.v *)
Theorem C12_ai_script_rich_to_number_and_back :
  forall a n, ai_encode a = Ok n -> exists a', ai_decode n = Ok a' /\ ai_name_of a' = ai_name_of a.
Proof. exact ai_rich_to_number_and_back. Qed.
Print Assumptions C12_ai_script_rich_to_number_and_back.

Theorem C12_utf8_encode_then_decode_is_the_identity :
  forall s bs, Utf8.utf8_encode s = Ok bs -> Utf8.utf8_decode bs = Ok s.
Proof. exact Utf8_inverse.utf8_encode_decode. Qed.
Print Assumptions C12_utf8_encode_then_decode_is_the_identity.
