(* C03 — unedited maps are rewritten byte-identically; saving is idempotent.  Statements only.

   FULL STATEMENT (over the pipeline model; not proved as one theorem):
     forall bs, EditorForm bs -> load_save bs = Ok bs        and
     forall bs b1, load_save bs = Ok b1 -> load_save b1 = Ok b1.
   It is FALSE of the unchanged code outside the guards recorded as known findings (64-slot MRGN, recomputed UPUS,
   weapons no unit carries).  What is proved below are its section-level parts (_partial): the slot codecs of MRGN and
   UPRP, the flag words, and the positional pass-through; the whole-map claim is carried by the byte-for-byte
   correspondence of the pipeline model with the implementation plus the oracle run of tools/c03.py. *)
From Coq Require Import String NArith List Bool.
From RC Require Import lib.Result lib.Bytes model.Layout model.ChkIo model.RichCodec model.RichIo
  proofs.C03_proofs proofs.C10_proofs proofs.C03_refuted proofs.C08_proofs proofs.C03_strings proofs.C03_sections proofs.C03_entries model.TrigTable model.Str model.StrEditor gen.GenConsts gen.GenTrig spec.SpecTrig gen.GenFlags.
Import ListNotations.
Local Open Scope string_scope.
Local Open Scope list_scope.
Local Open Scope N_scope.

Definition C03_full_statement : Prop :=
  forall bs b1, load_save bs = Ok b1 -> load_save b1 = Ok b1.

(* a location slot in editor form (reserved elevation bits clear, name referenced by the last id of its text)
   is decoded with its 1-based index and encoded back to the identical record *)
Theorem C03_location_slot_roundtrip_partial :
  forall L x1 y1 x2 y2 sid fl i,
    fl < 64 -> last_id_guard L sid -> loc_is_unused (loc_val x1 y1 x2 y2 sid fl) = false ->
    exists l, mrgn_decode_locs L [loc_val x1 y1 x2 y2 sid fl] i = Ok [l] /\
              l_idx l = Some (i + 1) /\ loc_encode L l = Ok (loc_val x1 y1 x2 y2 sid fl).
Proof. exact location_slot_roundtrip. Qed.
Print Assumptions C03_location_slot_roundtrip_partial.

(* a unit-property slot with reserved bits clear and owner byte 0 likewise (editor-prefilled slots included:
   nothing is assumed about the percentages or amounts) *)
Theorem C03_unit_property_slot_roundtrip_partial :
  forall vs vu hp sh en res hang fl pad i,
    vs < 64 -> vu < 128 -> fl < 64 ->
    cuwp_is_unused (cuwp_val vs vu 0 hp sh en res hang fl pad) = false ->
    exists c, uprp_decode_slots [cuwp_val vs vu 0 hp sh en res hang fl pad] i = Ok [c] /\
              c_idx c = Some (i + 1) /\ cuwp_encode c = Ok (cuwp_val vs vu 0 hp sh en res hang fl pad).
Proof. exact cuwp_slot_roundtrip. Qed.
Print Assumptions C03_unit_property_slot_roundtrip_partial.

(* sections without a rich model come back identical and in place *)
Theorem C03_unmodelled_sections_identical_partial :
  forall d r wd d' i s,
    load d = Ok r -> nth_error d i = Some s -> unmodelled s = true -> save wd r = Ok d' -> nth_error d' i = Some s.
Proof. intros d r wd d' i s Hl Hn Hu Hs. exact (unmodelled_section_survives d r r wd d' i s Hl Hn Hu eq_refl Hs). Qed.
Print Assumptions C03_unmodelled_sections_identical_partial.

(* The idempotence clause, stated at full strength above as C03_full_statement, is FALSE of the pipeline model (and, the
   model being tied to the implementation byte for byte, of the code): recorded finding uprp-slot-dropped-fields-only.
   The witness is replayed on the implementation by tools/c03.py on every run. *)
Theorem C03_idempotence_refuted :
  exists bs b1 b2, load_save bs = Ok b1 /\ load_save b1 = Ok b2 /\ b1 <> b2.
Proof. exact idempotence_refuted. Qed.
Print Assumptions C03_idempotence_refuted.

Theorem C03_full_statement_is_false : ~ C03_full_statement.
Proof.
  intros H. destruct idempotence_refuted as (bs & b1 & b2 & H1 & H2 & Hne).
  specialize (H bs b1 H1). rewrite H in H2. inversion H2. contradiction.
Qed.
Print Assumptions C03_full_statement_is_false.

(* THE STRING TABLE OF AN UNEDITED MAP.  Everything decode_chk puts into the rich map mentions only texts the map's own
   string table resolves (induction over sections, triggers, entries, arguments); so the rebuild before a save has nothing
   to add, and the STR section is emitted exactly as it was loaded, at its position: every string number keeps its text. *)
Theorem C03_unedited_save_emits_the_loaded_string_table :
  forall d r wd d' m bin i,
    load d = Ok r -> strs_named "STR " d = [m] ->
    filter (named "STR ") r = [RDecodedStr "STR " 2 m] -> wf_table 2 m bin ->
    save wd r = Ok d' -> nth_error d i = Some (DStr "STR " 2 m) ->
    nth_error d' i = Some (DStr "STR " 2 m).
Proof. exact unedited_save_emits_the_loaded_str. Qed.
Print Assumptions C03_unedited_save_emits_the_loaded_string_table.

(* WHOLE SECTIONS IN EDITOR FORM (induction over the slot list).  A location table of 255 slots, each the all-zero record
   or a used record with reserved elevation bits clear and its name referred to by the last id of its text, decodes to
   rich locations that encode back to exactly that table; likewise the 64-slot unit-property table (reserved bits clear,
   owner byte 0; editor-prefilled slots included). *)
Theorem C03_location_table_roundtrip_in_editor_form :
  forall L slots ls,
    length slots = N.to_nat MRGN_TRANSCODER_MAX_LOCATIONS -> Forall (editor_slot L) slots ->
    mrgn_decode L (mk_struct [("_locations"%string, VList slots)]) = Ok ls ->
    mrgn_encode L ls = Ok (mk_struct [("_locations"%string, VList slots)]).
Proof. exact mrgn_section_roundtrip_in_editor_form. Qed.
Print Assumptions C03_location_table_roundtrip_in_editor_form.

Theorem C03_unit_property_table_roundtrip_in_editor_form :
  forall slots cs,
    length slots = N.to_nat MAX_CUWP_SLOTS -> Forall editor_cuwp_slot slots ->
    uprp_decode (mk_struct [("_cuwp_slots"%string, VList slots)]) = Ok cs ->
    uprp_encode cs = Ok (mk_struct [("_cuwp_slots"%string, VList slots)]).
Proof. exact uprp_section_roundtrip_in_editor_form. Qed.
Print Assumptions C03_unit_property_table_roundtrip_in_editor_form.

(* byte identity of ONE trigger entry in editor form, any of the 51 action types: unused fields zero, only the five defined
   flag bits, every reference written with the number the save's lookup gives back for what it denotes - then the record
   written back IS the record that was read *)
Theorem C03_an_action_in_editor_form_is_rewritten_identically :
  forall cx cx' vals key args fl v',
    length vals = length action_record_fields ->
    let v := entry_val action_record_fields vals in
    decode_entry_of cx gen_action_table "TriggerActionId" "_action_id" action_flags_codec action_record_fields v
      = Ok (Some (ERich key args fl)) ->
    encode_entry_of cx' gen_action_table action_flags_codec action_record_fields (ERich key args fl) = Ok v' ->
    vint "_flags" v < 32 ->
    (forall s f, In s spec_action_table -> se_id s = key -> In f action_record_fields -> f <> "_flags" ->
                 expected_src s f = EZero -> vint f v = 0) ->
    (forall te a c f x n', find_entry key gen_action_table = Some te -> In (a, c, f) (te_dec te) ->
       dec_arg cx c (vint f v) = Ok x -> enc_arg cx' c x = Ok n' -> n' = vint f v) ->
    v' = v.
Proof. exact action_entry_identity. Qed.
Print Assumptions C03_an_action_in_editor_form_is_rewritten_identically.

(* ... and any of the 22 condition types *)
Theorem C03_a_condition_in_editor_form_is_rewritten_identically :
  forall cx cx' vals key args fl v',
    length vals = length condition_record_fields ->
    let v := entry_val condition_record_fields vals in
    decode_entry_of cx gen_condition_table "TriggerConditionId" "_condition_id" condition_flags_codec condition_record_fields v
      = Ok (Some (ERich key args fl)) ->
    encode_entry_of cx' gen_condition_table condition_flags_codec condition_record_fields (ERich key args fl) = Ok v' ->
    vint "_flags" v < 32 ->
    (forall s f, In s spec_condition_table -> se_id s = key -> In f condition_record_fields -> f <> "_flags" ->
                 expected_src s f = EZero -> vint f v = 0) ->
    (forall te a c f x n', find_entry key gen_condition_table = Some te -> In (a, c, f) (te_dec te) ->
       dec_arg cx c (vint f v) = Ok x -> enc_arg cx' c x = Ok n' -> n' = vint f v) ->
    v' = v.
Proof. exact condition_entry_identity. Qed.
Print Assumptions C03_a_condition_in_editor_form_is_rewritten_identically.
