(* C14 — saving is deterministic up to the numbering of new slots.  Statements only. *)
From Coq Require Import String NArith List Bool Permutation.
From RC Require Import lib.Result model.Alloc proofs.Alloc_proofs proofs.C09_proofs.
Import ListNotations.
Local Open Scope N_scope.

(* the allocation engine (raise mode, as used for unit-property slots): two iteration orders of the same set of
   objects — distinct unused carried indices in any order, n index-less objects in any order — both succeed or
   both raise; carried indices are kept in both; the ids handed to the index-less objects are the same list of
   ids (only their distribution over the objects follows the iteration order); the sets of occupied slots are equal *)
Theorem C14_allocation_is_order_independent_up_to_renaming :
  forall ks ks' n rest rest' used free,
    Permutation ks ks' -> NoDup ks -> (forall k, In k ks -> ~ In k used) ->
    rest = repeat RFresh n -> rest' = repeat RFresh n ->
    match engine false true None (map RCarry ks ++ rest) used free,
          engine false true None (map RCarry ks' ++ rest') used free with
    | Ok o, Ok o' =>
        fresh_ids (map RCarry ks ++ rest) o = fresh_ids (map RCarry ks' ++ rest') o' /\
        Permutation (placed_ids o) (placed_ids o')
    | Raise _, Raise _ => True
    | _, _ => False
    end.
Proof. exact raise_mode_order_independent. Qed.
Print Assumptions C14_allocation_is_order_independent_up_to_renaming.

Theorem C14_unit_property_slots_order_independent :
  forall existing ks ks' n,
    Permutation ks ks' -> NoDup ks -> (forall k, In k ks -> ~ In k existing) ->
    match add_cuwp_slots existing (map RCarry ks ++ repeat RFresh n),
          add_cuwp_slots existing (map RCarry ks' ++ repeat RFresh n) with
    | Ok o, Ok o' =>
        fresh_ids (map RCarry ks ++ repeat RFresh n) o = fresh_ids (map RCarry ks' ++ repeat RFresh n) o' /\
        Permutation (placed_ids o) (placed_ids o')
    | Raise _, Raise _ => True
    | _, _ => False
    end.
Proof. exact cuwp_order_independent. Qed.
Print Assumptions C14_unit_property_slots_order_independent.

(* requests without carried indices are served from the free list front to back, in every mode *)
Theorem C14_fresh_ids_are_a_prefix_of_the_free_list :
  forall b c rg reqs used free outs,
    forallb (fun r => negb (is_carry r)) reqs = true -> engine b c rg reqs used free = Ok outs ->
    exists n, fresh_ids reqs outs = firstn n free.
Proof. exact engine_no_carry_fresh. Qed.
Print Assumptions C14_fresh_ids_are_a_prefix_of_the_free_list.

(* the location table (which leaves the surplus unplaced when full) and the switch editor, same statement: both orders
   give the same verdict, the same list of new ids, the same occupied slots and the same outcomes for the index-less
   objects (in particular the same number left unplaced).  Before the fixes 620b222 / 7e75338 this was false: with one
   ordinary slot left, a batch claiming that slot and slot 64 kept both or only one depending on the order; a switch
   without an ID could take the ID another switch of the batch carried. *)
Theorem C14_location_slots_order_independent :
  forall existing ks ks' n,
    Permutation ks ks' -> NoDup ks -> (forall k, In k ks -> ~ In k existing) ->
    match add_locations existing (map RCarry ks ++ repeat RFresh n),
          add_locations existing (map RCarry ks' ++ repeat RFresh n) with
    | Ok o, Ok o' =>
        fresh_ids (map RCarry ks ++ repeat RFresh n) o = fresh_ids (map RCarry ks' ++ repeat RFresh n) o' /\
        Permutation (placed_ids o) (placed_ids o') /\
        skipn (length ks) o = skipn (length ks') o'
    | Raise _, Raise _ => True
    | _, _ => False
    end.
Proof. exact locations_order_independent. Qed.
Print Assumptions C14_location_slots_order_independent.

Theorem C14_switch_editor_order_independent :
  forall existing ks ks' n,
    Permutation ks ks' -> NoDup ks -> (forall k, In k ks -> ~ In k existing) ->
    match add_switches existing (map RCarry ks ++ repeat RFresh n),
          add_switches existing (map RCarry ks' ++ repeat RFresh n) with
    | Ok o, Ok o' =>
        fresh_ids (map RCarry ks ++ repeat RFresh n) o = fresh_ids (map RCarry ks' ++ repeat RFresh n) o' /\
        Permutation (placed_ids o) (placed_ids o') /\
        skipn (length ks) o = skipn (length ks') o'
    | Raise _, Raise _ => True
    | _, _ => False
    end.
Proof. exact switches_order_independent. Qed.
Print Assumptions C14_switch_editor_order_independent.
