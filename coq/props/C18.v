(* C18 — dispatch registries are complete from any entry point.  Statements only. *)
From Coq Require Import NArith List Bool.
From RC Require Import lib.Result model.Imports gen.GenImports proofs.C18_proofs.
Import ListNotations.
Local Open Scope N_scope.

(* finite and complete: EVERY module of the package as the first import of a fresh interpreter.  The import
   succeeds, and every registry whose factory module was loaded holds exactly the expected keys (the model
   classes' own ids), each registered once; a registry whose factory was not loaded holds nothing. *)
Theorem C18_registries_complete_from_any_entry_point :
  forall m, m < n_modules ->
    exists st, load_top gen_modules m = Ok st /\
               forall r, In r [0; 1; 2; 3] -> registry_complete st r.
Proof. exact registries_complete_from_any_entry_point. Qed.
Print Assumptions C18_registries_complete_from_any_entry_point.

Theorem C18_expected_registry_sizes :
  map (fun e => length (snd e)) gen_expected_keys = [10; 7; 51; 22]%nat.
Proof. exact expected_sizes. Qed.
Print Assumptions C18_expected_registry_sizes.
