(* C07 — edits never disturb what already exists in the map.  Statements only.

   FULL STATEMENT: forall ops r0, save (fold apply_op ops r0) = Ok d -> Frozen (save r0) d.
   Proved here (_partial): the one-step facts it is an induction over — triggers are appended, every string id keeps its
   text, slots handed to new objects were empty, sections without a rich model keep place and bytes — and a refutation
   on the model of the recorded finding (split TRIG sections). *)
From Coq Require Import String NArith List Bool.
From RC Require Import lib.Result lib.Bytes model.Layout model.Str model.StrEditor model.Alloc model.ChkIo model.RichCodec
  model.RichIo proofs.C07_proofs proofs.C08_proofs proofs.C10_proofs proofs.Save_strings proofs.Save_sizes proofs.C07_untouched proofs.C07_ops proofs.C07_slots proofs.C07_triggers proofs.C07_example.
Import ListNotations.
Local Open Scope N_scope.

Theorem C07_existing_triggers_keep_content_and_position_partial :
  forall new r r' i ts,
    add_triggers new r = Ok r' -> nth_error r i = Some (RTrig ts) ->
    (forall j ts', nth_error r j = Some (RTrig ts') -> j = i) ->
    nth_error r' i = Some (RTrig (ts ++ new)) /\
    forall k t, nth_error ts k = Some t -> nth_error (ts ++ new) k = Some t.
Proof. exact add_triggers_keeps_existing_triggers. Qed.
Print Assumptions C07_existing_triggers_keep_content_and_position_partial.

Theorem C07_every_string_id_keeps_its_text_partial :
  forall r m m' bin bin',
    filter (named "STR ") r = [RDecodedStr "STR " 2 m] ->
    wf_table 2 m bin -> Forall clean (flat_map section_strings r) ->
    rebuild_str r = Ok m' -> str_encode 2 m' = Ok bin' ->
    forall i o s, nth_error (ss_offsets m) i = Some o -> resolve bin o = Ok s ->
      exists o', nth_error (ss_offsets m') i = Some o' /\ resolve bin' o' = Ok s.
Proof. exact rebuild_str_keeps_every_string_id. Qed.
Print Assumptions C07_every_string_id_keeps_its_text_partial.

Theorem C07_new_slots_were_empty_partial :
  (forall existing reqs outs, add_locations existing reqs = Ok outs -> forall i, In i (placed_ids outs) -> ~ In i existing) /\
  (forall existing reqs outs, add_cuwp_slots existing reqs = Ok outs -> forall i, In i (placed_ids outs) -> ~ In i existing).
Proof. exact (conj new_location_slots_were_empty new_unit_property_slots_were_empty). Qed.
Print Assumptions C07_new_slots_were_empty_partial.

Theorem C07_untouched_sections_keep_place_and_bytes_partial :
  forall d r r' wd d' i s,
    load d = Ok r -> nth_error d i = Some s -> unmodelled s = true ->
    nth_error r' i = nth_error r i -> save wd r' = Ok d' -> nth_error d' i = Some s.
Proof. exact unmodelled_section_survives. Qed.
Print Assumptions C07_untouched_sections_keep_place_and_bytes_partial.

(* recorded finding, on the model: replacing "the" trigger section replaces every trigger section *)
Theorem C07_split_trig_sections_refuted :
  let t := {| t_conds := []; t_acts := []; t_players := [] |} in
  let t2 := {| t_conds := []; t_acts := []; t_players := [1] |} in
  add_triggers [t] [RTrig [t]; RTrig [t2]] = Ok [RTrig [t; t]; RTrig [t; t]].
Proof. exact split_trig_refuted. Qed.
Print Assumptions C07_split_trig_sections_refuted.

(* SECTIONS THE EDITS GIVE NO REASON TO CHANGE.  The base map r0 and ANY edited map r' that still holds the same decoded
   STR section and the same sound table / unit settings at position i are saved - each with its own new strings, locations,
   switches and unit-property sets, with or without sound metadata.  Position i of the two outputs is the same section,
   byte for byte (whatever else differs).  Reason (Save_strings): both string tables are growths of the base table, and a
   growth never renumbers a text the base table knew. *)
Theorem C07_untouched_sound_table_and_unit_settings_are_identical :
  forall r0 r' wd0 wd' d0 d' m bin T i s,
    filter (named "STR ") r0 = [RDecodedStr "STR " 2 m] ->
    filter (named "STR ") r' = [RDecodedStr "STR " 2 m] ->
    wf_table 2 m bin -> build_lookup 2 m = Ok T ->
    Forall clean (flat_map section_strings r0) -> Forall clean (flat_map section_strings r') ->
    nth_error r0 i = Some s -> nth_error r' i = Some s -> names_known T s ->
    save wd0 r0 = Ok d0 -> save wd' r' = Ok d' ->
    nth_error d' i = nth_error d0 i.
Proof. exact untouched_string_section_is_identical. Qed.
Print Assumptions C07_untouched_sound_table_and_unit_settings_are_identical.

(* every string id keeps its number: the id -> text lookup of the grown table is the old lookup followed by the new texts,
   none of which the old lookup held *)
Theorem C07_string_ids_are_never_renumbered :
  forall w req t bin t' T T',
    wf_table w t bin -> Forall clean req -> add_strings w req t = Ok t' ->
    build_lookup w t = Ok T -> build_lookup w t' = Ok T' ->
    exists U, T' = T ++ U /\ NoDup U /\ (forall s, In s U -> In s req /\ ~ In s T) /\ (forall s, In s req -> In s (T ++ U)).
Proof. exact add_strings_lookup. Qed.
Print Assumptions C07_string_ids_are_never_renumbered.

(* EVERY EDIT HISTORY (induction over the sequence of operations).  Any sequence of editor operations - adding triggers built
   from any pool of new locations / switches / unit-property sets / texts, upserting unit settings - leaves every section it
   does not address where and as it was in the rich map ... *)
Theorem C07_edit_histories_keep_unaddressed_sections :
  forall p ops r0 r,
    forallb edit_only ops = true ->
    fold_left (fun acc o => do r <- acc; apply_op p r o) ops (Ok r0) = Ok r ->
    forall i s, nth_error r0 i = Some s -> untouched_by ops s = true -> nth_error r i = Some s.
Proof. exact edits_keep_untouched_sections. Qed.
Print Assumptions C07_edit_histories_keep_unaddressed_sections.

(* ... and therefore: load-level map r0, ANY such history, both maps saved (each with its own new strings, slots, sound
   metadata): the sound table is emitted byte for byte as the unedited save emits it. *)
Theorem C07_sound_table_survives_any_edit_history :
  forall p ops r0 r wd0 wd d0 d m bin T i ws,
    forallb rich_form_sec r0 = true -> forallb edit_only ops = true ->
    fold_left (fun acc o => do r <- acc; apply_op p r o) ops (Ok r0) = Ok r ->
    filter (named "STR ") r0 = [RDecodedStr "STR " 2 m] ->
    wf_table 2 m bin -> build_lookup 2 m = Ok T ->
    Forall clean (flat_map section_strings r0) -> Forall clean (flat_map section_strings r) ->
    nth_error r0 i = Some (RWav ws) -> names_known T (RWav ws) ->
    save wd0 r0 = Ok d0 -> save wd r = Ok d ->
    nth_error d i = nth_error d0 i.
Proof. exact sound_table_survives_any_edit_history. Qed.
Print Assumptions C07_sound_table_survives_any_edit_history.

(* LOCATION SLOTS.  Whatever new locations a save has to place: the rebuilt location list is the old list followed by the
   newly placed ones, and the slot of every index that was occupied still resolves to the location it resolved to. *)
Theorem C07_existing_location_slots_are_kept :
  forall r ls mr,
    filter (named "MRGN") r = [RMrgn ls] -> rebuild_mrgn r = Ok mr ->
    exists new, fst mr = ls ++ new /\
      forall i, In i (map fst (by_idx ls)) -> assocN_last i (by_idx (fst mr)) = assocN_last i (by_idx ls).
Proof. exact existing_location_slots_are_kept. Qed.
Print Assumptions C07_existing_location_slots_are_kept.

(* EVERY PRE-EXISTING TRIGGER IS UNCHANGED, BYTE FOR BYTE.  The unedited map r0 and ANY edited map r' that still holds the
   same decoded STR section, location table and unit-property table, and whose trigger section at position i is the old
   trigger list followed by new triggers, are saved (same sound metadata).  Then position i of both outputs is a TRIG
   section, and every trigger record of the unedited output is, at the same index, a record of the edited output -
   whatever new strings, locations, switches and unit-property sets the edits made the save place.
   trigger_ok says what "pre-existing" means: every argument of the trigger denotes something that sits in the loaded
   map's tables (a text the string table resolves, a location / unit-property set occupying a slot, a numbered switch). *)
Theorem C07_preexisting_triggers_are_unchanged_byte_for_byte :
  forall r0 r' wd d0 d' m bin T ls cs i ts new,
    filter (named "STR ") r0 = [RDecodedStr "STR " 2 m] -> filter (named "STR ") r' = [RDecodedStr "STR " 2 m] ->
    wf_table 2 m bin -> build_lookup 2 m = Ok T ->
    Forall clean (flat_map section_strings r0) -> Forall clean (flat_map section_strings r') ->
    filter (named "MRGN") r0 = [RMrgn ls] -> filter (named "MRGN") r' = [RMrgn ls] ->
    filter (named "UPRP") r0 = [RUprp cs] -> filter (named "UPRP") r' = [RUprp cs] ->
    nth_error r0 i = Some (RTrig ts) -> nth_error r' i = Some (RTrig (ts ++ new)) ->
    Forall (trigger_ok T ls cs r0 r') ts ->
    save wd r0 = Ok d0 -> save wd r' = Ok d' ->
    exists v0 v', nth_error d0 i = Some (DTab "TRIG" v0) /\ nth_error d' i = Some (DTab "TRIG" v') /\
      forall k tv, nth_error (vlist "_triggers" v0) k = Some tv -> nth_error (vlist "_triggers" v') k = Some tv.
Proof. exact preexisting_triggers_survive_edits_bytewise. Qed.
Print Assumptions C07_preexisting_triggers_are_unchanged_byte_for_byte.

(* the three facts it rests on: numbers of objects that sit in a slot do not depend on what else has to be placed *)
Theorem C07_numbers_of_slotted_objects_are_stable :
  (forall r ls mr l i,
     filter (named "MRGN") r = [RMrgn ls] -> rebuild_mrgn r = Ok mr -> l_idx l = Some i -> In i (map fst (by_idx ls)) ->
     find_loc_id l (snd mr) None =
     find_loc_id l (map (fun l => (l, match l_idx l with Some i => i | None => 0%N end)) ls) None) /\
  (forall r cs up cx c c' i,
     filter (named "UPRP") r = [RUprp cs] -> rebuild_uprp r = Ok up -> cx_cuwps cx = up ->
     c_idx c = Some i -> assocN_last i (cby_idx cs) = Some c' -> rcuwp_eqb c c' = true -> id_by_cuwp cx c = Ok i) /\
  (forall r sw s k,
     RichIo.rebuild_swnm r = Ok sw -> s_idx s = Some k -> In s (flat_map section_switches r) ->
     find_switch_id s (snd sw) None = Some k).
Proof. exact (conj old_location_number_is_stable (conj old_cuwp_number_is_stable used_switch_number_is_stable)). Qed.
Print Assumptions C07_numbers_of_slotted_objects_are_stable.

(* non-vacuity: a concrete map (one text shown, one location centred on, units created with a property slot, switch 5 set)
   and a concrete edit (a new trigger with a NEW text, a NEW index-less location, a NEW nameless switch) meet every premise
   - computed in the kernel from the map's bytes - and the old trigger's record is where it was *)
Theorem C07_the_byte_identity_theorem_applies_to_a_concrete_edit :
  exists v0 v', nth_error w_d0 3 = Some (DTab "TRIG" v0) /\ nth_error w_d' 3 = Some (DTab "TRIG" v') /\
    forall k tv, nth_error (vlist "_triggers" v0) k = Some tv -> nth_error (vlist "_triggers" v') k = Some tv.
Proof. exact the_old_trigger_is_unchanged. Qed.
Print Assumptions C07_the_byte_identity_theorem_applies_to_a_concrete_edit.
