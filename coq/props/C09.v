(* C09 — slot allocation is sound and fails loudly when full.  Statements only. *)
From Coq Require Import String NArith List Bool Permutation.
From RC Require Import lib.Result model.Alloc proofs.Alloc_proofs proofs.C09_proofs gen.GenConsts.
Import ListNotations.
Local Open Scope N_scope.

(* For EVERY occupancy (any list of used ids) and EVERY batch in EVERY iteration order (the request list is the
   set's iteration order): objects that carry an index keep it or are not placed; no slot goes to two objects;
   every slot used was empty; every newly chosen id lies in the table's range and is not reserved. *)
Theorem C09_locations_sound :
  forall existing reqs outs, add_locations existing reqs = Ok outs ->
    table_sound 1 255 [64] existing (carried_first reqs) outs.
Proof. exact add_locations_sound. Qed.
Print Assumptions C09_locations_sound.

Theorem C09_unit_property_slots_sound :
  forall existing reqs outs, add_cuwp_slots existing reqs = Ok outs ->
    table_sound 1 64 [] existing (carried_first reqs) outs.
Proof. exact add_cuwp_slots_sound. Qed.
Print Assumptions C09_unit_property_slots_sound.

Theorem C09_wav_slots_sound :
  forall existing reqs outs, add_wav_files existing reqs = Ok outs -> table_sound 0 511 [] existing reqs outs.
Proof. exact add_wav_files_sound. Qed.
Print Assumptions C09_wav_slots_sound.

Theorem C09_switch_slots_sound :
  forall existing reqs outs, add_switches existing reqs = Ok outs -> table_sound 0 255 [] existing (carried_first reqs) outs.
Proof. exact add_switches_sound. Qed.
Print Assumptions C09_switch_slots_sound.

Theorem C09_switch_rebuild_sound :
  forall reqs outs, rebuild_swnm reqs = Ok outs ->
    NoDup (fresh_ids reqs outs) /\
    forall i, In i (fresh_ids reqs outs) -> i <= 255 /\ ~ In i (carried_ids reqs).
Proof. exact rebuild_swnm_sound. Qed.
Print Assumptions C09_switch_rebuild_sound.

(* when more new slots are needed than are free the call raises ... *)
Theorem C09_exhaustion_raises :
  (forall existing reqs, (length (free_ids 1 MAX_CUWP_SLOTS [] existing) < count_fresh (carried_first reqs))%nat ->
     exists e, add_cuwp_slots existing reqs = Raise e) /\
  (forall existing reqs, (length (free_ids 0 MAX_WAV_FILES [] existing) < count_fresh reqs)%nat ->
     exists e, add_wav_files existing reqs = Raise e) /\
  (forall existing reqs, (length (free_ids 0 MAX_SWITCHES [] existing) < count_fresh reqs)%nat ->
     exists e, add_switches existing reqs = Raise e).
Proof. exact (conj cuwp_exhaustion_raises (conj wav_exhaustion_raises switches_exhaustion_raises)). Qed.
Print Assumptions C09_exhaustion_raises.

(* ... the location table leaves the surplus unplaced instead (the save raises when a trigger needs the id) ... *)
Theorem C09_location_surplus_is_unplaced_not_misplaced :
  forall existing reqs outs, add_locations existing reqs = Ok outs ->
    forall r o, In (r, o) (combine (carried_first reqs) outs) -> r = RFresh ->
      (exists i, o = Placed i) \/ o = Unplaced.
Proof. exact mrgn_full_leaves_unplaced. Qed.
Print Assumptions C09_location_surplus_is_unplaced_not_misplaced.

(* ... and a full table never blocks a call that needs no new slot *)
Theorem C09_full_table_never_blocks_a_noop :
  forall existing reqs, count_fresh reqs = 0%nat ->
    ((forall k, In (RCarry k) reqs -> 1 <= k <= 255) -> (forall k, In k existing -> 1 <= k <= 255) ->
     exists o, add_locations existing reqs = Ok o) /\
    (exists o, add_cuwp_slots existing reqs = Ok o) /\
    (exists o, add_wav_files existing reqs = Ok o) /\ (exists o, add_switches existing reqs = Ok o).
Proof. exact full_table_never_blocks_a_noop. Qed.
Print Assumptions C09_full_table_never_blocks_a_noop.

(* a location index outside [1, 255] is refused up front - full table or not, in the section or only in a trigger *)
Theorem C09_out_of_range_location_is_refused :
  forall existing reqs k, In k (existing ++ carried_ids reqs) -> k < 1 \/ 255 < k ->
    add_locations existing reqs = Raise ValueError.
Proof. exact out_of_range_location_is_refused. Qed.
Print Assumptions C09_out_of_range_location_is_refused.

Theorem C09_anchors :
  add_locations (range_from 1 62) (repeat RFresh 3) = Ok [Placed 63; Placed 65; Placed 66] /\
  add_locations [] [RFresh; RCarry 1; RCarry 1] = Ok [Placed 1; Dropped; Placed 2].
Proof. exact (conj anywhere_is_never_allocated carried_index_is_respected). Qed.
Print Assumptions C09_anchors.

(* objects that carry a free index keep it however full the table is: a location carrying a free in-range index
   (slot 64 included) is placed there even when no ordinary index is left (fix 620b222) *)
Theorem C09_carried_free_location_is_placed_even_when_full :
  forall existing ks rest outs,
    NoDup ks -> (forall k, In k ks -> ~ In k existing) ->
    add_locations existing (map RCarry ks ++ rest) = Ok outs ->
    forallb (fun r => match r with RCarry _ => false | _ => true end) rest = true ->
    firstn (length ks) outs = map Placed ks.
Proof. exact carried_free_location_is_placed_even_when_full. Qed.
Print Assumptions C09_carried_free_location_is_placed_even_when_full.
