(* C04 — authored rich content reaches the file unchanged.  Statements only.

   FULL STATEMENT: for every base map and every authored entry with in-range arguments, the saved bytes, read by an
   independent decoder, hold each argument in the spec's field, every new reference resolves to the authored object, and
   loading the result gives back objects equal to the authored ones up to the assigned slot numbers.
   Proved here (_partial): the field-level half, for every supported type and ANY lookups; the reference-resolution half
   is the composition of C08 (a requested string gets an id resolving to it), C09 (a new object gets a free slot of its own)
   and C05; it is exercised end to end by tools/c04.py on the implementation, whose saved bytes the pipeline model
   reproduces byte for byte. *)
From Coq Require Import String NArith List Bool.
From RC Require Import lib.Result model.Layout model.TrigTable model.RichCodec model.Str model.StrEditor model.Alloc
  proofs.C04_proofs proofs.C04_readback proofs.C04_locations proofs.C04_cuwps proofs.C04_reload proofs.C04_reload_locs proofs.C04_reload_cuwps proofs.C04_reload_switches proofs.C04_capstone proofs.C04_capstone2 proofs.C04_switches proofs.C04_wavs model.ChkIo gen.GenConsts proofs.C07_triggers proofs.C07_slots model.RichIo proofs.C08_proofs proofs.C09_proofs proofs.Save_strings proofs.Save_refs gen.GenTrig spec.SpecTrig gen.GenFlags gen.GenConsts.
Import ListNotations.
Local Open Scope N_scope.

Theorem C04_authored_action_reaches_the_spec_fields_partial :
  forall cx key args fl v,
    encode_entry_of cx gen_action_table action_flags_codec action_record_fields (ERich key args fl) = Ok v ->
    exists s, In s spec_action_table /\ se_id s = key /\
      forall f, In f action_record_fields -> f <> "_flags"%string ->
        match expected_src s f with
        | EZero => vint f v = 0
        | EOwnId => vint f v = key
        | EWavDuration => exists d, wav_duration cx args = Ok d /\ vint f v = d
        | EArg c a => exists x n, arg_get rarg a args = Ok x /\ enc_arg cx c x = Ok n /\ vint f v = n
        end.
Proof. exact authored_action_reaches_the_spec_fields. Qed.
Print Assumptions C04_authored_action_reaches_the_spec_fields_partial.

(* every authored text gets an id that resolves to exactly that text in the rebuilt string table *)
Theorem C04_authored_strings_resolve_partial :
  forall w req t bin t' bin',
    wf_table w t bin -> Forall clean req -> add_strings w req t = Ok t' -> str_encode w t' = Ok bin' ->
    forall s, In s req -> resolvable t' bin' s.
Proof.
  intros w req t bin t' bin' Hwf Hc Ha He. destruct (add_strings_correct w req t bin t' bin' Hwf Hc Ha He) as (_ & _ & H & _).
  exact H.
Qed.
Print Assumptions C04_authored_strings_resolve_partial.

(* every new location / unit-property set gets a slot of its own that was empty *)
Theorem C04_new_objects_get_their_own_free_slot_partial :
  forall existing reqs outs, add_locations existing reqs = Ok outs ->
    NoDup (placed_ids outs) /\ forall i, In i (placed_ids outs) -> ~ In i existing.
Proof.
  intros existing reqs outs H. destruct (add_locations_sound _ _ _ H) as (_ & Hn & Hf & _). split; assumption.
Qed.
Print Assumptions C04_new_objects_get_their_own_free_slot_partial.

(* every reference resolves to the authored object - strings: the number the save writes for a rich string reads back,
   through the emitted table's own lookup, as exactly that string (0 for "no string") *)
Theorem C04_a_written_string_number_reads_back_as_the_authored_text :
  forall L s i, (N.of_nat (length (sl_by_id L)) <= 1000000)%N -> id_by_str L s = Ok i ->
    str_by_id L i = s /\ (i = 0 \/ (1 <= i /\ i <= N.of_nat (length (sl_by_id L))))%N.
Proof. exact id_by_str_resolves. Qed.
Print Assumptions C04_a_written_string_number_reads_back_as_the_authored_text.

(* ... locations: the slot the emitted location table holds for a location reads back with that location's own name *)
Theorem C04_an_emitted_location_slot_carries_the_location_s_name :
  forall L ls v k l slot,
    (N.of_nat (length (sl_by_id L)) <= 1000000)%N -> mrgn_encode L ls = Ok v ->
    (k < N.to_nat MRGN_TRANSCODER_MAX_LOCATIONS)%nat ->
    assocN_last (N.of_nat k + 1)%N (flat_map (fun l => match l_idx l with Some i => [(i, l)] | None => [] end) ls) = Some l ->
    nth_error (vlist "_locations" v) k = Some slot ->
    str_by_id L (vint "_string_id" slot) = l_name l.
Proof. exact mrgn_slot_name_resolves. Qed.
Print Assumptions C04_an_emitted_location_slot_carries_the_location_s_name.

(* "Loading the saved map returns rich objects equal to the authored ones", one trigger entry of ANY of the 51 action types:
   the record written for an authored action is read back, by the registered transcoder of that same type, as an action of
   the same type with the same flags, each argument being the image of the authored one under decode-after-encode of its
   codec (R is whatever relation the caller can establish for the codecs in play; the one computed field, the play time of
   a sound, reads back as the computed time) *)
Theorem C04_an_authored_action_is_read_back_as_itself :
  forall cx (R : rarg -> rarg -> Prop) key args fl v,
    encode_entry_of cx gen_action_table action_flags_codec action_record_fields (ERich key args fl) = Ok v ->
    length fl = 5%nat ->
    (forall te a c f x n, find_entry key gen_action_table = Some te -> In (a, c, f) (te_dec te) -> arg_get rarg a args = Ok x ->
       enc_arg cx c x = Ok n -> exists x', dec_arg cx c n = Ok x' /\ R x x') ->
    exists te args',
      find_entry key gen_action_table = Some te /\
      decode_entry_of cx gen_action_table "TriggerActionId" "_action_id" action_flags_codec action_record_fields v
        = Ok (Some (ERich key args' fl)) /\
      forall a c f, In (a, c, f) (te_dec te) ->
        exists x', arg_get rarg a args' = Ok x' /\
          ((exists x, arg_get rarg a args = Ok x /\ R x x') \/ (exists d, wav_duration cx args = Ok d /\ x' = AInt d)).
Proof. exact authored_action_reads_back. Qed.
Print Assumptions C04_an_authored_action_is_read_back_as_itself.

(* ... and of any of the 22 condition types *)
Theorem C04_an_authored_condition_is_read_back_as_itself :
  forall cx (R : rarg -> rarg -> Prop) key args fl v,
    encode_entry_of cx gen_condition_table condition_flags_codec condition_record_fields (ERich key args fl) = Ok v ->
    length fl = 5%nat ->
    (forall te a c f x n, find_entry key gen_condition_table = Some te -> In (a, c, f) (te_dec te) -> arg_get rarg a args = Ok x ->
       enc_arg cx c x = Ok n -> exists x', dec_arg cx c n = Ok x' /\ R x x') ->
    exists te args',
      find_entry key gen_condition_table = Some te /\
      decode_entry_of cx gen_condition_table "TriggerConditionId" "_condition_id" condition_flags_codec condition_record_fields v
        = Ok (Some (ERich key args' fl)) /\
      forall a c f, In (a, c, f) (te_dec te) ->
        exists x', arg_get rarg a args' = Ok x' /\
          ((exists x, arg_get rarg a args = Ok x /\ R x x') \/ (exists d, wav_duration cx args = Ok d /\ x' = AInt d)).
Proof. exact authored_condition_reads_back. Qed.
Print Assumptions C04_an_authored_condition_is_read_back_as_itself.

(* ... with R equality whenever the arguments are plain numbers, enumeration members and strings: such an action is read
   back with exactly the authored arguments *)
Theorem C04_plain_actions_read_back_identically :
  forall cx key args fl v,
    encode_entry_of cx gen_action_table action_flags_codec action_record_fields (ERich key args fl) = Ok v ->
    length fl = 5%nat -> (N.of_nat (length (sl_by_id (cx_str cx))) <= 1000000)%N ->
    (forall te a c f x, find_entry key gen_action_table = Some te -> In (a, c, f) (te_dec te) -> arg_get rarg a args = Ok x ->
       plain_codec c = true /\ arg_member c x) ->
    exists te args',
      find_entry key gen_action_table = Some te /\
      decode_entry_of cx gen_action_table "TriggerActionId" "_action_id" action_flags_codec action_record_fields v
        = Ok (Some (ERich key args' fl)) /\
      forall a c f, In (a, c, f) (te_dec te) ->
        arg_get rarg a args' = arg_get rarg a args \/
        (exists d, wav_duration cx args = Ok d /\ arg_get rarg a args' = Ok (AInt d)).
Proof. exact authored_plain_action_reads_back_identically. Qed.
Print Assumptions C04_plain_actions_read_back_identically.

(* "every new reference resolving to the authored object", locations, through the save's own rebuild: the number the save hands
   to the trigger encoders for a location l names a slot of the REBUILT table holding a location that Python considers equal to
   l and that carries exactly that number - for the table's own locations and for authored ones placed by the allocator *)
Theorem C04_the_number_written_for_a_location_names_that_location :
  forall r ls mr l i,
    filter (named "MRGN") r = [RMrgn ls] -> rebuild_mrgn r = Ok mr ->
    NoDup (map fst (by_idx ls)) ->
    find_loc_id l (snd mr) None = Some i ->
    exists k0, rloc_eqb l k0 = true /\ assocN_last i (by_idx (fst mr)) = Some (set_idx k0 i).
Proof. exact saved_location_number_names_the_location. Qed.
Print Assumptions C04_the_number_written_for_a_location_names_that_location.

(* ... whose premise every decoded location table meets *)
Theorem C04_a_loaded_location_table_has_one_location_per_number :
  forall L v ls, mrgn_decode L v = Ok ls -> NoDup (map fst (by_idx ls)).
Proof. exact loaded_location_table_has_one_location_per_number. Qed.
Print Assumptions C04_a_loaded_location_table_has_one_location_per_number.

(* ... unit-property sets: the number written into a Create-Unit-with-Properties action for a set c names a slot of the REBUILT
   table holding properties equal to c's (carried index still sitting there, an equal slot reused, or a newly placed one) *)
Theorem C04_the_number_written_for_a_unit_property_set_names_equal_properties :
  forall r cs up cx c i,
    filter (named "UPRP") r = [RUprp cs] -> rebuild_uprp r = Ok up -> cx_cuwps cx = up ->
    NoDup (map fst (cby_idx cs)) ->
    id_by_cuwp cx c = Ok i ->
    exists k, assocN_last i (cby_idx up) = Some k /\ rcuwp_eqb c k = true.
Proof. exact saved_cuwp_number_names_the_set. Qed.
Print Assumptions C04_the_number_written_for_a_unit_property_set_names_equal_properties.

Theorem C04_a_loaded_unit_property_table_has_one_set_per_number :
  forall v cs, uprp_decode v = Ok cs -> NoDup (map fst (cby_idx cs)).
Proof. exact loaded_uprp_table_has_one_set_per_number. Qed.
Print Assumptions C04_a_loaded_unit_property_table_has_one_set_per_number.

(* "Loading the saved map returns rich objects equal to the authored ones", end to end for plain arguments (numbers, enumeration
   members, strings, AI scripts): the load of the SAVED map builds its string lookup from the very table the save encoded
   against, so the action is read back by that load with exactly the authored arguments *)
Theorem C04_the_reload_reads_strings_through_the_saved_table :
  forall wd r d' cx', save wd r = Ok d' -> decode_context d' = Ok cx' ->
    exists new_str L, rebuild_str r = Ok new_str /\ build_str_lookup 2 new_str = Ok L /\ cx_str cx' = L.
Proof. exact load_after_save_uses_the_saved_string_table. Qed.
Print Assumptions C04_the_reload_reads_strings_through_the_saved_table.

Theorem C04_a_plain_action_survives_save_and_reload :
  forall wd r d' cx' cx new_str L key args fl v,
    save wd r = Ok d' -> decode_context d' = Ok cx' ->
    rebuild_str r = Ok new_str -> build_str_lookup 2 new_str = Ok L -> cx_str cx = L ->
    (N.of_nat (length (sl_by_id L)) <= 1000000)%N ->
    encode_entry_of cx gen_action_table action_flags_codec action_record_fields (ERich key args fl) = Ok v ->
    length fl = 5%nat ->
    (forall te a c f, find_entry key gen_action_table = Some te -> In (a, c, f) (te_dec te) -> plain_codec c = true) ->
    (forall te a c f x, find_entry key gen_action_table = Some te -> In (a, c, f) (te_dec te) -> arg_get rarg a args = Ok x ->
       arg_member c x) ->
    exists te args',
      find_entry key gen_action_table = Some te /\
      decode_entry_of cx' gen_action_table "TriggerActionId" "_action_id" action_flags_codec action_record_fields v
        = Ok (Some (ERich key args' fl)) /\
      forall a c f, In (a, c, f) (te_dec te) ->
        arg_get rarg a args' = arg_get rarg a args \/
        (exists d, wav_duration cx args = Ok d /\ arg_get rarg a args' = Ok (AInt d)).
Proof. exact plain_action_survives_save_and_reload. Qed.
Print Assumptions C04_a_plain_action_survives_save_and_reload.

(* ... switches: the number written for a NAMED switch names a slot of the rebuilt switch table carrying that number and the
   switch's name - provided no switch with another name claims the same number (the recorded finding two-switches-one-index is
   exactly that case; the premise states what it excludes) *)
Theorem C04_the_number_written_for_a_named_switch_names_that_switch :
  forall r sw s k,
    RichIo.rebuild_swnm r = Ok sw -> find_switch_id s (snd sw) None = Some k -> (N.to_nat k < N.to_nat MAX_SWITCHES)%nat ->
    rstr_empty (s_name s) = false ->
    (forall u, In (u, k) (snd sw) -> rstr_empty (s_name u) = false -> sw_norm u = sw_norm s) ->
    exists slot, nth_error (fst sw) (N.to_nat k) = Some slot /\ sw_norm slot = sw_norm s /\ s_idx slot = Some k.
Proof. exact saved_switch_number_names_the_switch. Qed.
Print Assumptions C04_the_number_written_for_a_named_switch_names_that_switch.

(* ... and the slot itself, read back by a later load: the location with the authored rectangle, name and elevation flags,
   carrying the slot's number (content equal to an empty slot being the recorded C11 finding) *)
Theorem C04_an_emitted_location_slot_is_read_back_as_the_location :
  forall L l slot i0,
    loc_encode L l = Ok slot -> length (l_elev l) = 6%nat -> (N.of_nat (length (sl_by_id L)) <= 1000000)%N ->
    loc_is_unused slot = false ->
    mrgn_decode_locs L [slot] i0 =
      Ok [{| l_x1 := l_x1 l; l_y1 := l_y1 l; l_x2 := l_x2 l; l_y2 := l_y2 l; l_name := l_name l; l_idx := Some (i0 + 1)%N;
             l_elev := l_elev l; l_oid := 0%N |}].
Proof. exact an_emitted_location_slot_reads_back. Qed.
Print Assumptions C04_an_emitted_location_slot_is_read_back_as_the_location.

(* ... likewise the slot written for a unit-property set *)
Theorem C04_an_emitted_unit_property_slot_is_read_back_as_the_set :
  forall c slot i0,
    cuwp_encode c = Ok slot ->
    length (c_vs c) = 6%nat -> length (c_vu c) = 7%nat -> length (c_flags c) = 5%nat ->
    cuwp_is_unused slot = false ->
    uprp_decode_slots [slot] i0 =
      Ok [{| c_hp := c_hp c; c_sh := c_sh c; c_en := c_en c; c_res := c_res c; c_hang := c_hang c; c_flags := c_flags c;
             c_vs := c_vs c; c_vu := c_vu c; c_unk := c_unk c; c_pad := c_pad c; c_idx := Some (i0 + 1)%N |}].
Proof. exact an_emitted_cuwp_slot_reads_back. Qed.
Print Assumptions C04_an_emitted_unit_property_slot_is_read_back_as_the_set.

(* ... and the switch table: entry k of the lookup a later load builds is switch k with the name that was written for it *)
Theorem C04_the_emitted_switch_table_is_read_back_name_by_name :
  forall L ss v j s,
    (N.of_nat (length (sl_by_id L)) <= 1000000)%N -> swnm_encode L ss = Ok v -> nth_error ss j = Some s ->
    nth_error (swnm_lookup L v) j = Some (N.of_nat j, {| s_name := s_name s; s_idx := Some (N.of_nat j); s_oid := 0%N |}).
Proof. exact an_emitted_switch_table_reads_back. Qed.
Print Assumptions C04_the_emitted_switch_table_is_read_back_name_by_name.

(* ... and the sound table: a sound the save wrote into slot k is found by a later load at slot k under the same path *)
Theorem C04_the_emitted_sound_table_is_read_back :
  forall L ws v k p,
    (N.of_nat (length (sl_by_id L)) <= 1000000)%N -> wav_encode L ws = Ok v ->
    (k < N.to_nat MAX_WAV_FILES)%nat ->
    assocN_last (N.of_nat k) (map (fun w : rstr * N => (snd w, fst w)) ws) = Some p ->
    p <> RNull ->
    In (p, N.of_nat k) (wav_decode L v).
Proof. exact an_emitted_sound_table_reads_back. Qed.
Print Assumptions C04_the_emitted_sound_table_is_read_back.

(* ... and the WHOLE emitted location table, decoded again by a later load: it decodes, and at every number whose slot is not all
   zero that load finds the location that was written there - rectangle, name, elevation flags - carrying that number *)
Theorem C04_the_saved_location_table_is_read_back :
  forall L ls v,
    (N.of_nat (length (sl_by_id L)) <= 1000000)%N -> mrgn_encode L ls = Ok v ->
    (forall l, In l ls -> length (l_elev l) = 6%nat) ->
    exists ls', mrgn_decode L v = Ok ls' /\
      forall k l slot, assocN_last (N.of_nat k + 1)%N (by_idx ls) = Some l ->
        nth_error (vlist "_locations" v) k = Some slot -> loc_is_unused slot = false ->
        assocN_last (N.of_nat k + 1)%N (by_idx ls') =
          Some {| l_x1 := l_x1 l; l_y1 := l_y1 l; l_x2 := l_x2 l; l_y2 := l_y2 l; l_name := l_name l;
                  l_idx := Some (N.of_nat k + 1)%N; l_elev := l_elev l; l_oid := 0%N |}.
Proof. exact saved_location_table_reads_back. Qed.
Print Assumptions C04_the_saved_location_table_is_read_back.

(* ... likewise the WHOLE emitted unit-property table *)
Theorem C04_the_saved_unit_property_table_is_read_back :
  forall cs v,
    uprp_encode cs = Ok v ->
    (forall c, In c cs -> length (c_vs c) = 6%nat /\ length (c_vu c) = 7%nat /\ length (c_flags c) = 5%nat) ->
    exists cs', uprp_decode v = Ok cs' /\
      forall k c slot, assocN_last (N.of_nat k + 1)%N (cby_idx cs) = Some c ->
        nth_error (vlist "_cuwp_slots" v) k = Some slot -> cuwp_is_unused slot = false ->
        assocN_last (N.of_nat k + 1)%N (cby_idx cs') =
          Some {| c_hp := c_hp c; c_sh := c_sh c; c_en := c_en c; c_res := c_res c; c_hang := c_hang c; c_flags := c_flags c;
                  c_vs := c_vs c; c_vu := c_vu c; c_unk := c_unk c; c_pad := c_pad c; c_idx := Some (N.of_nat k + 1)%N |}.
Proof. exact saved_cuwp_table_reads_back. Qed.
Print Assumptions C04_the_saved_unit_property_table_is_read_back.

(* END TO END for a location argument: the number a save writes for a location l is resolved, by the context a later load of the
   saved map builds, to a location that Python considers equal to l - rectangle, name, elevation flags - carrying that number *)
Theorem C04_a_location_number_resolves_to_the_authored_location_after_reload :
  forall wd r d' cx' ls mr new_str SL l i v slot,
    save wd r = Ok d' -> decode_context d' = Ok cx' ->
    filter (named "MRGN") r = [RMrgn ls] -> rebuild_mrgn r = Ok mr ->
    rebuild_str r = Ok new_str -> build_str_lookup 2 new_str = Ok SL ->
    (N.of_nat (length (sl_by_id SL)) <= 1000000)%N ->
    NoDup (map fst (by_idx ls)) -> (forall x, In x (fst mr) -> length (l_elev x) = 6%nat) ->
    find_loc_id l (snd mr) None = Some i -> (1 <= i)%N ->
    mrgn_encode SL (fst mr) = Ok v -> nth_error (vlist "_locations" v) (N.to_nat (i - 1)) = Some slot -> loc_is_unused slot = false ->
    exists k0,
      rloc_eqb l k0 = true /\
      loc_by_id cx' i = Some {| l_x1 := l_x1 k0; l_y1 := l_y1 k0; l_x2 := l_x2 k0; l_y2 := l_y2 k0; l_name := l_name k0;
                               l_idx := Some i; l_elev := l_elev k0; l_oid := 0%N |}.
Proof. exact location_number_resolves_after_reload. Qed.
Print Assumptions C04_a_location_number_resolves_to_the_authored_location_after_reload.

(* END TO END for a unit-property argument: the number a save writes for a set c is resolved, by the context a later load of the
   saved map builds, to a set with properties equal to c's, carrying that number *)
Theorem C04_a_unit_property_number_resolves_to_equal_properties_after_reload :
  forall wd r d' cx' cs up cx c i v slot,
    save wd r = Ok d' -> decode_context d' = Ok cx' ->
    filter (named "UPRP") r = [RUprp cs] -> rebuild_uprp r = Ok up -> cx_cuwps cx = up ->
    NoDup (map fst (cby_idx cs)) ->
    (forall s, In s r -> named "UPRP" s = true -> exists cs0, s = RUprp cs0) ->
    (forall x, In x up -> length (c_vs x) = 6%nat /\ length (c_vu x) = 7%nat /\ length (c_flags x) = 5%nat) ->
    id_by_cuwp cx c = Ok i -> (1 <= i)%N ->
    uprp_encode up = Ok v -> nth_error (vlist "_cuwp_slots" v) (N.to_nat (i - 1)) = Some slot -> cuwp_is_unused slot = false ->
    exists k,
      rcuwp_eqb c k = true /\
      cuwp_by_id cx' i = Some {| c_hp := c_hp k; c_sh := c_sh k; c_en := c_en k; c_res := c_res k; c_hang := c_hang k;
                                 c_flags := c_flags k; c_vs := c_vs k; c_vu := c_vu k; c_unk := c_unk k; c_pad := c_pad k;
                                 c_idx := Some i |}.
Proof. exact cuwp_number_resolves_after_reload. Qed.
Print Assumptions C04_a_unit_property_number_resolves_to_equal_properties_after_reload.

(* the general form of the read-back theorem: an authored action written under the SAVE's context cx is read, under ANY later
   context cx' (in particular the one a load of the saved map builds), as the same type with the same flags, every argument being
   related by R to the authored one whenever the caller shows that for the codecs in play - which the END-TO-END theorems above
   do for strings (C04_the_reload_reads_strings_through_the_saved_table), locations and unit-property sets *)
Theorem C04_an_authored_action_is_read_back_by_a_later_context :
  forall cx cx' (R : rarg -> rarg -> Prop) key args fl v,
    encode_entry_of cx gen_action_table action_flags_codec action_record_fields (ERich key args fl) = Ok v ->
    length fl = 5%nat ->
    (forall te a c f x n, find_entry key gen_action_table = Some te -> In (a, c, f) (te_dec te) -> arg_get rarg a args = Ok x ->
       enc_arg cx c x = Ok n -> exists x', dec_arg cx' c n = Ok x' /\ R x x') ->
    exists te args',
      find_entry key gen_action_table = Some te /\
      decode_entry_of cx' gen_action_table "TriggerActionId" "_action_id" action_flags_codec action_record_fields v
        = Ok (Some (ERich key args' fl)) /\
      forall a c f, In (a, c, f) (te_dec te) ->
        exists x', arg_get rarg a args' = Ok x' /\
          ((exists x, arg_get rarg a args = Ok x /\ R x x') \/ (exists d, wav_duration cx args = Ok d /\ x' = AInt d)).
Proof. exact authored_action_reads_back_later. Qed.
Print Assumptions C04_an_authored_action_is_read_back_by_a_later_context.

Theorem C04_an_authored_condition_is_read_back_by_a_later_context :
  forall cx cx' (R : rarg -> rarg -> Prop) key args fl v,
    encode_entry_of cx gen_condition_table condition_flags_codec condition_record_fields (ERich key args fl) = Ok v ->
    length fl = 5%nat ->
    (forall te a c f x n, find_entry key gen_condition_table = Some te -> In (a, c, f) (te_dec te) -> arg_get rarg a args = Ok x ->
       enc_arg cx c x = Ok n -> exists x', dec_arg cx' c n = Ok x' /\ R x x') ->
    exists te args',
      find_entry key gen_condition_table = Some te /\
      decode_entry_of cx' gen_condition_table "TriggerConditionId" "_condition_id" condition_flags_codec condition_record_fields v
        = Ok (Some (ERich key args' fl)) /\
      forall a c f, In (a, c, f) (te_dec te) ->
        exists x', arg_get rarg a args' = Ok x' /\
          ((exists x, arg_get rarg a args = Ok x /\ R x x') \/ (exists d, wav_duration cx args = Ok d /\ x' = AInt d)).
Proof. exact authored_condition_reads_back_later. Qed.
Print Assumptions C04_an_authored_condition_is_read_back_by_a_later_context.

(* END TO END for a switch argument: the number a save writes for a named switch is resolved, by the switch lookup a later load of
   the saved map builds, to the switch of that number carrying the authored name (under the complement of the recorded
   two-names-one-number finding) *)
Theorem C04_a_switch_number_resolves_to_the_named_switch_after_reload :
  forall wd r d' cx' sw new_str SL s k,
    save wd r = Ok d' -> decode_context d' = Ok cx' ->
    RichIo.rebuild_swnm r = Ok sw -> rebuild_str r = Ok new_str -> build_str_lookup 2 new_str = Ok SL ->
    (N.of_nat (length (sl_by_id SL)) <= 1000000)%N ->
    (forall x, In x r -> named "SWNM" x = true -> exists ss, x = RSwnm ss) -> (length (filter (named "SWNM") r) <= 1)%nat ->
    find_switch_id s (snd sw) None = Some k -> (N.to_nat k < N.to_nat MAX_SWITCHES)%nat ->
    rstr_empty (s_name s) = false ->
    (forall u, In (u, k) (snd sw) -> rstr_empty (s_name u) = false -> sw_norm u = sw_norm s) ->
    exists entry, assocN_last k (cx_switch_by_id cx') = Some entry /\ sw_norm entry = sw_norm s /\ s_idx entry = Some k.
Proof. exact switch_number_resolves_after_reload. Qed.
Print Assumptions C04_a_switch_number_resolves_to_the_named_switch_after_reload.

(* A CAPSTONE INSTANCE, all links composed: one authored Center View action (type 10, one location argument) through `save` and
   the load of the saved map - the record the save writes is read back by that load as a Center View action with the same
   flags, whose location is the authored one (rectangle, name, elevation flags), carrying the number the save gave it *)
Theorem C04_a_center_view_action_survives_save_and_reload :
  forall wd r d' cx' ls mr sw up new_str SL l fl v i mv slot,
    save wd r = Ok d' -> decode_context d' = Ok cx' ->
    filter (named "MRGN") r = [RMrgn ls] -> rebuild_mrgn r = Ok mr ->
    rebuild_str r = Ok new_str -> build_str_lookup 2 new_str = Ok SL -> (N.of_nat (length (sl_by_id SL)) <= 1000000)%N ->
    NoDup (map fst (by_idx ls)) -> (forall x, In x (fst mr) -> length (l_elev x) = 6%nat) ->
    let cx := save_context wd SL mr sw up in
    encode_entry_of cx gen_action_table action_flags_codec action_record_fields (ERich 10 [("_location"%string, ALoc l)] fl) = Ok v ->
    length fl = 5%nat ->
    find_loc_id l (snd mr) None = Some i -> (1 <= i)%N ->
    mrgn_encode SL (fst mr) = Ok mv -> nth_error (vlist "_locations" mv) (N.to_nat (i - 1)) = Some slot -> loc_is_unused slot = false ->
    exists k0 args',
      rloc_eqb l k0 = true /\
      decode_entry_of cx' gen_action_table "TriggerActionId" "_action_id" action_flags_codec action_record_fields v
        = Ok (Some (ERich 10 args' fl)) /\
      arg_get rarg "_location" args' =
        Ok (ALoc {| l_x1 := l_x1 k0; l_y1 := l_y1 k0; l_x2 := l_x2 k0; l_y2 := l_y2 k0; l_name := l_name k0;
                    l_idx := Some i; l_elev := l_elev k0; l_oid := 0%N |}).
Proof. exact center_view_survives_save_and_reload. Qed.
Print Assumptions C04_a_center_view_action_survives_save_and_reload.

(* A SECOND CAPSTONE, every kind of argument at once: one authored Create-Units-with-Properties action (type 11: player and unit
   type - enumeration members -, amount - a plain number -, a location and a unit-property set) through `save` and the load of the
   saved map: read back as the same action type with the same flags, the same player, amount and unit type, the authored location
   and a unit-property set with the authored properties, under the numbers the save gave them *)
Theorem C04_a_create_units_with_properties_action_survives_save_and_reload :
  forall wd r d' cx' ls mr sw cs up new_str SL g n u l c fl v i mv slot j uv cslot,
    save wd r = Ok d' -> decode_context d' = Ok cx' ->
    rebuild_str r = Ok new_str -> build_str_lookup 2 new_str = Ok SL -> (N.of_nat (length (sl_by_id SL)) <= 1000000)%N ->
    filter (named "MRGN") r = [RMrgn ls] -> rebuild_mrgn r = Ok mr ->
    NoDup (map fst (by_idx ls)) -> (forall x, In x (fst mr) -> length (l_elev x) = 6%nat) ->
    filter (named "UPRP") r = [RUprp cs] -> rebuild_uprp r = Ok up -> NoDup (map fst (cby_idx cs)) ->
    (forall s, In s r -> named "UPRP" s = true -> exists cs0, s = RUprp cs0) ->
    (forall x, In x up -> length (c_vs x) = 6%nat /\ length (c_vu x) = 7%nat /\ length (c_flags x) = 5%nat) ->
    let cx := save_context wd SL mr sw up in
    enum_has "PlayerId" g = true -> enum_has "UnitId" u = true ->
    encode_entry_of cx gen_action_table action_flags_codec action_record_fields
      (ERich 11 [("_group"%string, AEnum g); ("_amount"%string, AInt n); ("_unit"%string, AEnum u); ("_location"%string, ALoc l);
                 ("_properties"%string, ACuwp c)] fl) = Ok v ->
    length fl = 5%nat ->
    find_loc_id l (snd mr) None = Some i -> (1 <= i)%N ->
    mrgn_encode SL (fst mr) = Ok mv -> nth_error (vlist "_locations" mv) (N.to_nat (i - 1)) = Some slot -> loc_is_unused slot = false ->
    id_by_cuwp cx c = Ok j -> (1 <= j)%N ->
    uprp_encode up = Ok uv -> nth_error (vlist "_cuwp_slots" uv) (N.to_nat (j - 1)) = Some cslot -> cuwp_is_unused cslot = false ->
    exists k0 k args',
      rloc_eqb l k0 = true /\ rcuwp_eqb c k = true /\
      decode_entry_of cx' gen_action_table "TriggerActionId" "_action_id" action_flags_codec action_record_fields v
        = Ok (Some (ERich 11 args' fl)) /\
      arg_get rarg "_group" args' = Ok (AEnum g) /\ arg_get rarg "_amount" args' = Ok (AInt n) /\
      arg_get rarg "_unit" args' = Ok (AEnum u) /\
      arg_get rarg "_location" args' = Ok (ALoc (fields_of_loc k0 i)) /\
      arg_get rarg "_properties" args' = Ok (ACuwp (fields_of_cuwp k j)).
Proof. exact create_units_survives_save_and_reload. Qed.
Print Assumptions C04_a_create_units_with_properties_action_survives_save_and_reload.
