(* C04 — authored rich content reaches the file unchanged.  Statements only.

   FULL STATEMENT: for every base map and every authored entry with in-range arguments, the saved bytes, read by an
   independent decoder, hold each argument in the spec's field, every new reference resolves to the authored object, and
   loading the result gives back objects equal to the authored ones up to the assigned slot numbers.
   Proved here (_partial): the field-level half, for every supported type and ANY lookups; the reference-resolution half
   is the composition of C08 (a requested string gets an id resolving to it), C09 (a new object gets a free slot of its own)
   and C05; it is exercised end to end by tools/c04.py on the implementation, whose saved bytes the pipeline model
   reproduces byte for byte. *)
From Coq Require Import String NArith List Bool.
From RC Require Import lib.Result model.Layout model.TrigTable model.RichCodec model.Str model.StrEditor model.Alloc
  proofs.C04_proofs proofs.C08_proofs proofs.C09_proofs gen.GenTrig spec.SpecTrig gen.GenFlags.
Import ListNotations.
Local Open Scope N_scope.

Theorem C04_authored_action_reaches_the_spec_fields_partial :
  forall cx key args fl v,
    encode_entry_of cx gen_action_table action_flags_codec action_record_fields (ERich key args fl) = Ok v ->
    exists s, In s spec_action_table /\ se_id s = key /\
      forall f, In f action_record_fields -> f <> "_flags"%string ->
        match expected_src s f with
        | EZero => vint f v = 0
        | EOwnId => vint f v = key
        | EWavDuration => exists d, wav_duration cx args = Ok d /\ vint f v = d
        | EArg c a => exists x n, arg_get rarg a args = Ok x /\ enc_arg cx c x = Ok n /\ vint f v = n
        end.
Proof. exact authored_action_reaches_the_spec_fields. Qed.
Print Assumptions C04_authored_action_reaches_the_spec_fields_partial.

(* every authored text gets an id that resolves to exactly that text in the rebuilt string table *)
Theorem C04_authored_strings_resolve_partial :
  forall w req t bin t' bin',
    wf_table w t bin -> Forall clean req -> add_strings w req t = Ok t' -> str_encode w t' = Ok bin' ->
    forall s, In s req -> resolvable t' bin' s.
Proof.
  intros w req t bin t' bin' Hwf Hc Ha He. destruct (add_strings_correct w req t bin t' bin' Hwf Hc Ha He) as (_ & _ & H & _).
  exact H.
Qed.
Print Assumptions C04_authored_strings_resolve_partial.

(* every new location / unit-property set gets a slot of its own that was empty *)
Theorem C04_new_objects_get_their_own_free_slot_partial :
  forall existing reqs outs, add_locations existing reqs = Ok outs ->
    NoDup (placed_ids outs) /\ forall i, In i (placed_ids outs) -> ~ In i existing.
Proof.
  intros existing reqs outs H. destruct (add_locations_sound _ _ _ H) as (_ & Hn & Hf & _). split; assumption.
Qed.
Print Assumptions C04_new_objects_get_their_own_free_slot_partial.
