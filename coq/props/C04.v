(* C04 — authored rich content reaches the file unchanged.  Statements only.

   FULL STATEMENT: for every base map and every authored entry with in-range arguments, the saved bytes, read by an
   independent decoder, hold each argument in the spec's field, every new reference resolves to the authored object, and
   loading the result gives back objects equal to the authored ones up to the assigned slot numbers.
   Proved here (_partial): the field-level half, for every supported type and ANY lookups; the reference-resolution half
   is the composition of C08 (a requested string gets an id resolving to it), C09 (a new object gets a free slot of its own)
   and C05; it is exercised end to end by tools/c04.py on the implementation, whose saved bytes the pipeline model
   reproduces byte for byte. *)
From Coq Require Import String NArith List Bool.
From RC Require Import lib.Result model.Layout model.TrigTable model.RichCodec model.Str model.StrEditor model.Alloc
  proofs.C04_proofs proofs.C08_proofs proofs.C09_proofs proofs.Save_strings proofs.Save_refs gen.GenTrig spec.SpecTrig gen.GenFlags gen.GenConsts.
Import ListNotations.
Local Open Scope N_scope.

Theorem C04_authored_action_reaches_the_spec_fields_partial :
  forall cx key args fl v,
    encode_entry_of cx gen_action_table action_flags_codec action_record_fields (ERich key args fl) = Ok v ->
    exists s, In s spec_action_table /\ se_id s = key /\
      forall f, In f action_record_fields -> f <> "_flags"%string ->
        match expected_src s f with
        | EZero => vint f v = 0
        | EOwnId => vint f v = key
        | EWavDuration => exists d, wav_duration cx args = Ok d /\ vint f v = d
        | EArg c a => exists x n, arg_get rarg a args = Ok x /\ enc_arg cx c x = Ok n /\ vint f v = n
        end.
Proof. exact authored_action_reaches_the_spec_fields. Qed.
Print Assumptions C04_authored_action_reaches_the_spec_fields_partial.

(* every authored text gets an id that resolves to exactly that text in the rebuilt string table *)
Theorem C04_authored_strings_resolve_partial :
  forall w req t bin t' bin',
    wf_table w t bin -> Forall clean req -> add_strings w req t = Ok t' -> str_encode w t' = Ok bin' ->
    forall s, In s req -> resolvable t' bin' s.
Proof.
  intros w req t bin t' bin' Hwf Hc Ha He. destruct (add_strings_correct w req t bin t' bin' Hwf Hc Ha He) as (_ & _ & H & _).
  exact H.
Qed.
Print Assumptions C04_authored_strings_resolve_partial.

(* every new location / unit-property set gets a slot of its own that was empty *)
Theorem C04_new_objects_get_their_own_free_slot_partial :
  forall existing reqs outs, add_locations existing reqs = Ok outs ->
    NoDup (placed_ids outs) /\ forall i, In i (placed_ids outs) -> ~ In i existing.
Proof.
  intros existing reqs outs H. destruct (add_locations_sound _ _ _ H) as (_ & Hn & Hf & _). split; assumption.
Qed.
Print Assumptions C04_new_objects_get_their_own_free_slot_partial.

(* every reference resolves to the authored object - strings: the number the save writes for a rich string reads back,
   through the emitted table's own lookup, as exactly that string (0 for "no string") *)
Theorem C04_a_written_string_number_reads_back_as_the_authored_text :
  forall L s i, (N.of_nat (length (sl_by_id L)) <= 1000000)%N -> id_by_str L s = Ok i ->
    str_by_id L i = s /\ (i = 0 \/ (1 <= i /\ i <= N.of_nat (length (sl_by_id L))))%N.
Proof. exact id_by_str_resolves. Qed.
Print Assumptions C04_a_written_string_number_reads_back_as_the_authored_text.

(* ... locations: the slot the emitted location table holds for a location reads back with that location's own name *)
Theorem C04_an_emitted_location_slot_carries_the_location_s_name :
  forall L ls v k l slot,
    (N.of_nat (length (sl_by_id L)) <= 1000000)%N -> mrgn_encode L ls = Ok v ->
    (k < N.to_nat MRGN_TRANSCODER_MAX_LOCATIONS)%nat ->
    assocN_last (N.of_nat k + 1)%N (flat_map (fun l => match l_idx l with Some i => [(i, l)] | None => [] end) ls) = Some l ->
    nth_error (vlist "_locations" v) k = Some slot ->
    str_by_id L (vint "_string_id" slot) = l_name l.
Proof. exact mrgn_slot_name_resolves. Qed.
Print Assumptions C04_an_emitted_location_slot_carries_the_location_s_name.
