(* C11 — every emitted CHK is structurally valid, or the call raises.  Statements only.
   Proved for every rich content whatsoever (arbitrary list lengths, integers, indices): the size rules.  The reference
   rules (every id written refers to an existing non-empty entry) are judged by tools/c11.py's independent validator on
   the implementation's output, which the pipeline model reproduces byte for byte. *)
From Coq Require Import String NArith List Bool.
From RC Require Import lib.Result lib.Bytes model.Layout model.ChkIo model.RichCodec model.RichIo proofs.C11_proofs proofs.Save_sizes proofs.Save_refs proofs.C11_upus proofs.C07_triggers proofs.Str_proofs model.Str
  gen.GenLayouts gen.GenConsts.
Import ListNotations.

(* TRIG: whatever triggers are encoded (0..n conditions / actions, any arguments), if the section is emitted at all it is
   a whole number of 2400-byte triggers, each with 16 conditions, 64 actions and 27 player flags; otherwise the call raised *)
Theorem C11_trigger_section_is_whole_triggers :
  forall cx ts v bs, trig_encode cx ts = Ok v -> encode_l enc_TRIG v = Ok bs -> length bs = length ts * 2400.
Proof. exact trig_section_is_whole_triggers. Qed.
Print Assumptions C11_trigger_section_is_whole_triggers.

Theorem C11_every_trigger_fits_the_2400_byte_layout :
  forall cx t v, trigger_encode cx t = Ok v -> fits trigger_layout v = true.
Proof. exact trigger_encode_fits. Qed.
Print Assumptions C11_every_trigger_fits_the_2400_byte_layout.

(* fixed tables: the rich encoders always lay out exactly 255 / 64 / 64 / 512 slots *)
Theorem C11_fixed_tables_have_their_slot_counts :
  (forall L ls v, mrgn_encode L ls = Ok v -> length (vlist "_locations" v) = N.to_nat MRGN_TRANSCODER_MAX_LOCATIONS) /\
  (forall cs v, uprp_encode cs = Ok v -> length (vlist "_cuwp_slots" v) = N.to_nat MAX_CUWP_SLOTS) /\
  (forall cs v, upus_rebuild cs = Ok v -> length (vlist "_cuwp_slots_used" v) = N.to_nat MAX_CUWP_SLOTS) /\
  (forall L ws v, wav_encode L ws = Ok v -> length (vlist "_wav_string_ids" v) = N.to_nat MAX_WAV_FILES).
Proof. exact slot_counts. Qed.
Print Assumptions C11_fixed_tables_have_their_slot_counts.

(* generic: a value of the layout's shape encodes to exactly the layout's size; a to-the-end section to a whole number
   of records; a strict array of the wrong length raises *)
Theorem C11_encoded_size_is_the_layout_size :
  forall l v bs s, wf_l l = true -> size_l l = Some s -> fits l v = true -> encode_l l v = Ok bs -> length bs = s.
Proof. exact encode_size. Qed.
Print Assumptions C11_encoded_size_is_the_layout_size.

Theorem C11_wrong_count_raises :
  forall n l vs, length vs <> n -> encode_l (Arr n true l) (VList vs) = Raise StructError.
Proof. exact strict_array_refuses_wrong_count. Qed.
Print Assumptions C11_wrong_count_raises.

(* THE WHOLE MAP.  Whatever rich content is saved (any triggers, any numbers, any indices; sound metadata or not): if
   RichChkIo.encode_chk returns at all, EVERY table section in its output - the re-encoded MRGN, TRIG, UNIS, UNIx, UPRP,
   SWNM, WAV, the recomputed UPUS, and the SWNM / UPRP / UPUS appended when the map had none - encodes to exactly the size
   the format mandates (5100, k*2400, 4048, 4168, 1280, 1024, 2048, 64), or its binary encoder raises.  "Rich form" = every
   section that has a rich model is held as that model (what decode_chk returns and the editors keep). *)
Theorem C11_every_saved_table_section_has_its_mandated_size :
  forall wd r d, forallb rich_form_sec r = true -> save wd r = Ok d -> Forall payload_ok d.
Proof. exact save_emits_mandated_sizes. Qed.
Print Assumptions C11_every_saved_table_section_has_its_mandated_size.

(* the premise holds for whatever decode_chk returns, and the trigger editor keeps it *)
Theorem C11_loaded_maps_are_in_rich_form :
  forall d r, load d = Ok r -> forallb rich_form_sec r = true.
Proof. exact loaded_maps_are_in_rich_form. Qed.
Print Assumptions C11_loaded_maps_are_in_rich_form.

(* generic: a layout written by whole-array struct.pack calls only (UNIS, UNIx, UPUS, SWNM, WAV) has its size for ANY value *)
Theorem C11_strict_layouts_have_their_size_for_any_value :
  forall l v bs s, all_strict l = true -> size_l l = Some s -> encode_l l v = Ok bs -> length bs = s.
Proof. exact strict_encode_size. Qed.
Print Assumptions C11_strict_layouts_have_their_size_for_any_value.

(* content that cannot be laid out raises: a string table (STR or STRx) holding a string that is not NUL-free 7-bit text
   is never written (fix cee72c9; before it the first len(s) bytes of the UTF-8 form were written and the table could no
   longer be decoded) *)
Theorem C11_a_string_that_cannot_be_stored_is_refused :
  forall w m s, In s (ss_strings m) -> (exists c, In c s /\ (c = 0 \/ 128 <= c)%N) -> exists e, str_encode w m = Raise e.
Proof. exact str_encode_refuses. Qed.
Print Assumptions C11_a_string_that_cannot_be_stored_is_refused.

(* THE WHOLE MAP, string references.  If RichChkIo.encode_chk returns at all: the STR section it emits is the rebuilt
   table; the id -> text lookup L of that table has one entry per string number; and EVERY string number written into the
   location table, the switch-name table and the sound table (re-encoded or appended) is 0 or a number of that table. *)
Theorem C11_every_string_number_written_refers_to_the_emitted_table :
  forall wd r d,
    forallb rich_form_sec r = true -> save wd r = Ok d ->
    exists new_str L,
      rebuild_str r = Ok new_str /\ build_str_lookup 2 new_str = Ok L /\
      length (sl_by_id L) = length (ss_offsets new_str) /\
      (forall i n w m, nth_error r i = Some (RDecodedStr n w m) -> n = "STR "%string -> nth_error d i = Some (DStr n w new_str)) /\
      (N.of_nat (length (sl_by_id L)) <= 1000000 -> Forall (refs_ok L) d)%N.
Proof. exact saved_string_references_are_valid. Qed.
Print Assumptions C11_every_string_number_written_refers_to_the_emitted_table.

(* the slot-usage table agrees with the slots in use: byte k of UPUS is 1 exactly when slot k of UPRP was written from a
   unit-property set carrying index k+1, and 0 exactly when that slot is the all-zero record *)
Theorem C11_usage_table_agrees_with_the_unit_property_slots :
  forall cs us uv k,
    upus_rebuild cs = Ok us -> uprp_encode cs = Ok uv -> (k < N.to_nat MAX_CUWP_SLOTS)%nat ->
    (nth_error (vlist "_cuwp_slots_used" us) k = Some (VInt 1) /\
     exists c slot, assocN_last (N.of_nat k + 1) (cby_idx cs) = Some c /\
                    nth_error (vlist "_cuwp_slots" uv) k = Some slot /\ cuwp_encode c = Ok slot)
    \/
    (nth_error (vlist "_cuwp_slots_used" us) k = Some (VInt 0) /\
     assocN_last (N.of_nat k + 1) (cby_idx cs) = None /\
     nth_error (vlist "_cuwp_slots" uv) k = Some empty_cuwp_val).
Proof. exact upus_agrees_with_uprp. Qed.
Print Assumptions C11_usage_table_agrees_with_the_unit_property_slots.
