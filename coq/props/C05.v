(* C05 — every trigger action and condition uses the CHK-spec fields.  Statements only. *)
From Coq Require Import String NArith List Bool.
From RC Require Import lib.Result model.TrigTable gen.GenTrig spec.SpecTrig proofs.C05_proofs.
Import ListNotations.
Local Open Scope N_scope.

(* the tables read from the 51 + 22 transcoders' source are the specification tables: same type numbers,
   same model classes, same (argument, codec, record field) triples, every other field zero *)
Theorem C05_generated_tables_are_the_spec_tables :
  tables_match action_record_fields gen_action_table spec_action_table = true /\
  tables_match condition_record_fields gen_condition_table spec_condition_table = true.
Proof. exact (conj action_table_matches condition_table_matches). Qed.
Print Assumptions C05_generated_tables_are_the_spec_tables.

Theorem C05_registered_types_are_exactly_the_spec_types :
  map te_key gen_action_table = map se_id spec_action_table /\
  map te_key gen_condition_table = map se_id spec_condition_table /\
  length gen_action_table = 51%nat /\ length gen_condition_table = 22%nat.
Proof. exact registered_types_are_the_spec_types. Qed.
Print Assumptions C05_registered_types_are_exactly_the_spec_types.

(* for EVERY interpretation of the codecs (any lookup context, any argument values): each argument is written
   to and read from exactly the field the specification assigns to it, the type byte is the type's own number,
   unused fields are zero, no two arguments share a field *)
Theorem C05_every_action_uses_the_spec_fields :
  forall (rval : Type) dec_codec enc_codec wav_duration g, In g gen_action_table ->
    exists s, In s spec_action_table /\
      entry_correct rval dec_codec enc_codec wav_duration action_record_fields "_action_id" g s.
Proof. exact every_generated_action_is_correct. Qed.
Print Assumptions C05_every_action_uses_the_spec_fields.

Theorem C05_every_condition_uses_the_spec_fields :
  forall (rval : Type) dec_codec enc_codec wav_duration g, In g gen_condition_table ->
    exists s, In s spec_condition_table /\
      entry_correct rval dec_codec enc_codec wav_duration condition_record_fields "_condition_id" g s.
Proof. exact every_generated_condition_is_correct. Qed.
Print Assumptions C05_every_condition_uses_the_spec_fields.
