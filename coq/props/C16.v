(* C16 — map saving is failure-atomic and never touches the base map.  Statements only. *)
From Coq Require Import String List Bool.
From RC Require Import lib.Result model.IoDsl proofs.C15_proofs.
Import ListNotations.

(* save_chk_to_mpq and add_audio_files_to_mpq, destination absent or existing, 0..3 sounds in the base map,
   1..3 audio files: in EVERY execution of the fault-enumerating semantics (any set of primitive calls failing
   before, after or part-way) the base map and the audio files are unchanged, no temp / .part file remains, and the
   destination is as before or a complete new map; a run without failure ends with the complete new map *)
Theorem C16_save_and_audio_import_are_failure_atomic : c16_atomic_all = true.
Proof. exact c16_atomic_all_true. Qed.
Print Assumptions C16_save_and_audio_import_are_failure_atomic.

Theorem C16_reading_a_map_leaves_it_untouched_and_no_temp_file : c16_read_all = true.
Proof. exact c16_read_all_true. Qed.
Print Assumptions C16_reading_a_map_leaves_it_untouched_and_no_temp_file.

(* the statement is not vacuous: it is FALSE of the save as it was before the repair (plain copy onto the destination) *)
Theorem C16_unrepaired_save_refuted :
  exists r, In r (all_runs (prog_save_chk_to_mpq_unrepaired true 0) (fs_of true true true)) /\
            atomic_ok (fs_of true true true) r = false.
Proof. exact unrepaired_save_refuted. Qed.
Print Assumptions C16_unrepaired_save_refuted.

Theorem C16_number_of_executions_covered :
  length (all_runs (prog_save_chk_to_mpq true 3) (fs_of true true true)) = 53 /\
  length (all_runs (prog_add_audio_files_to_mpq true 3 3) (fs_of true true true)) = 108.
Proof. exact execution_counts. Qed.
Print Assumptions C16_number_of_executions_covered.
