(* C15 — no file is overwritten without explicit opt-in.  Statements only. *)
From Coq Require Import String List Bool.
From RC Require Import lib.Result model.IoDsl gen.GenIoDefaults proofs.C15_proofs.
Import ListNotations.

(* every file-writing entry point x {the default read from the source, false} x 0..3 sounds x 1..3 audio files,
   destination existing: EVERY execution (every fault schedule) fails and leaves every file — destination, base,
   audio, temp locations — exactly as it was; without faults the error is FileExistsError; and every default is false *)
Theorem C15_existing_destination_is_never_overwritten_without_opt_in : c15_refuses_all = true.
Proof. exact c15_refuses_all_true. Qed.
Print Assumptions C15_existing_destination_is_never_overwritten_without_opt_in.

(* with opt-in, under every fault schedule, nothing but the named destination changes and no work file remains *)
Theorem C15_with_opt_in_only_the_destination_changes : c15_only_dst_all = true.
Proof. exact c15_only_dst_all_true. Qed.
Print Assumptions C15_with_opt_in_only_the_destination_changes.
