(* C13 - Operations never mutate their inputs.
   The model is regenerated from /repo/src on every run (tools/translate_heap.py -> gen/GenHeap.v):
   every function of the library outside the file-system layer, as a program of model/Heap.v.
   "gen_heap_entries" are the public decode / encode / lookup-building / rebuilding / editor operations. *)
From Coq Require Import NArith List Bool Arith.
From RC Require Import model.Heap gen.GenHeap proofs.C13_proofs.
Import ListNotations.

(* One call of any operation - on any heap, with any arguments (which may alias each other and anything
   else), under any oracle (branches taken, iteration counts, elements picked, unknown values, where an
   exception cuts it short) and any fuel: every object that existed before the call still holds exactly
   what it held. *)
Theorem C13_no_operation_writes_to_an_existing_object :
  forall g fuel h args o,
    In g gen_heap_entries -> frame h (hp (run gen_heap_table fuel g h args o)).
Proof. exact no_operation_writes_to_an_existing_object. Qed.
Print Assumptions C13_no_operation_writes_to_an_existing_object.

(* ... and what it returns is an immutable value or an object created during the call. *)
Theorem C13_operations_return_new_objects :
  forall g fuel h args o,
    In g gen_heap_entries ->
    halt (run gen_heap_table fuel g h args o) = 1 ->
    vfresh (length h) (ret (run gen_heap_table fuel g h args o)).
Proof. exact operations_return_new_objects. Qed.
Print Assumptions C13_operations_return_new_objects.

(* Histories: any sequence of operations, each applied to any values whatever - in particular to inputs
   and outputs of earlier operations, shared or not.  Whatever existed after the first part of the
   history is unchanged after the rest of it: a map value can be reused, compared or saved again. *)
Theorem C13_histories_keep_every_value :
  forall cs1 cs2 h,
    Forall (fun c => In (c_fn c) gen_heap_entries) (cs1 ++ cs2) ->
    frame (fold_left (after gen_heap_table) cs1 h) (fold_left (after gen_heap_table) (cs1 ++ cs2) h).
Proof. exact histories_keep_every_intermediate_value. Qed.
Print Assumptions C13_histories_keep_every_value.

(* The same for every library function that does not reserve a parameter for its caller's new objects
   (all but constructors' self and private helpers filling a list / reading a stream made by their caller). *)
Theorem C13_no_public_function_writes_to_an_existing_object :
  forall g fuel h args o,
    public_fn gen_heap_table g -> frame h (hp (run gen_heap_table fuel g h args o)).
Proof. exact no_public_function_writes_to_an_existing_object. Qed.
Print Assumptions C13_no_public_function_writes_to_an_existing_object.
