(* C01 — binary CHK round trip is byte-exact.  Statements only. *)
From Coq Require Import String NArith List Bool.
From RC Require Import lib.Result lib.Bytes model.Layout model.Str model.ChkIo
  proofs.Layout_proofs proofs.Str_proofs proofs.ChkIo_proofs proofs.C01_proofs.
Import ListNotations.

(* every well-formed CHK: any number, order and duplication of chunks (induction on wf_chk), arbitrary
   4-byte names, arbitrary payload bytes; recognised sections at a legal size *)
Theorem C01_chk_roundtrip :
  forall bs secs, wf_chk bs -> bytes_ok bs -> chk_decode bs = Ok secs -> chk_encode secs = Ok bs.
Proof. exact chk_roundtrip. Qed.
Print Assumptions C01_chk_roundtrip.

(* any table-like section, generic in the layout: what was read is what is written *)
Theorem C01_layout_roundtrip :
  forall l fuel bs v rest, bytes_ok bs -> wf_l l = true -> decode_l fuel l bs = Ok (v, rest) ->
    exists pre, encode_l l v = Ok pre /\ pre ++ rest = bs.
Proof. exact layout_roundtrip. Qed.
Print Assumptions C01_layout_roundtrip.

(* STR (w = 2) and STRx (w = 4): any count, any offsets (shared, unsorted, interior, dangling),
   any NUL-terminated 7-bit data *)
Theorem C01_str_roundtrip :
  forall w bs m, bytes_ok bs -> str_decode w bs = Ok m -> str_encode w m = Ok bs.
Proof. exact str_roundtrip. Qed.
Print Assumptions C01_str_roundtrip.

(* the generated encode layouts are the generated decode layouts (up to the strict-count flag),
   are well-formed, and every registered name is exactly four bytes *)
Theorem C01_generated_tables_symmetric : table_ok section_table = true.
Proof. exact section_table_ok. Qed.
Print Assumptions C01_generated_tables_symmetric.

(* non-vacuity *)
Theorem C01_example_is_wellformed_and_decodes :
  (wf_chk example_chk /\ bytes_ok example_chk) /\
  exists secs, chk_decode example_chk = Ok secs /\ length secs = 5.
Proof. exact (conj example_chk_wf example_chk_decodes). Qed.
Print Assumptions C01_example_is_wellformed_and_decodes.
