(* C10 — unmodelled content passes through untouched and in place.  Statements only. *)
From Coq Require Import String NArith List Bool.
From RC Require Import lib.Result lib.Bytes model.Layout model.ChkIo model.TrigTable model.RichCodec model.RichIo
  proofs.C10_proofs.
Import ListNotations.

(* sections: for every decoded map, every position i holding an unmodelled section (unknown name, STRx, a recognised
   section without a rich model other than the recomputed UPUS), and ANY edits that leave position i alone,
   the save puts the very same section at position i *)
Theorem C10_unmodelled_section_survives_in_place :
  forall d r r' wd d' i s,
    load d = Ok r -> nth_error d i = Some s -> unmodelled s = true ->
    nth_error r' i = nth_error r i -> save wd r' = Ok d' -> nth_error d' i = Some s.
Proof. exact unmodelled_section_survives. Qed.
Print Assumptions C10_unmodelled_section_survives_in_place.

Theorem C10_trigger_editor_leaves_other_sections_in_place :
  forall new r r' i s, add_triggers new r = Ok r' -> nth_error r i = Some s ->
    (forall ts, s <> RTrig ts) -> nth_error r' i = Some s.
Proof. exact add_triggers_keeps_other_sections. Qed.
Print Assumptions C10_trigger_editor_leaves_other_sections_in_place.

(* trigger entries: a type byte outside the enumeration, or inside it but without a transcoder, is kept as the raw
   record by decode (whatever the lookups are) and written back field for field by encode (whatever the new lookups are) *)
Theorem C10_unknown_entry_is_kept_raw :
  forall cx cx' table enum idf flagc fields vals,
    NoDup fields -> length vals = length fields ->
    enum_has enum (vint idf (entry_val fields vals)) = false ->
    exists e, decode_entry_of cx table enum idf flagc fields (entry_val fields vals) = Ok (Some e) /\
              encode_entry_of cx' table flagc fields e = Ok (entry_val fields vals).
Proof. exact unknown_entry_roundtrip. Qed.
Print Assumptions C10_unknown_entry_is_kept_raw.

Theorem C10_unsupported_entry_is_kept_raw :
  forall cx cx' table enum idf flagc fields vals,
    NoDup fields -> length vals = length fields ->
    vint idf (entry_val fields vals) <> NO_ENTRY ->
    find_entry (vint idf (entry_val fields vals)) table = None ->
    exists e, decode_entry_of cx table enum idf flagc fields (entry_val fields vals) = Ok (Some e) /\
              encode_entry_of cx' table flagc fields e = Ok (entry_val fields vals).
Proof. exact unsupported_entry_roundtrip. Qed.
Print Assumptions C10_unsupported_entry_is_kept_raw.

Theorem C10_record_fields_are_distinct : NoDup action_record_fields /\ NoDup condition_record_fields.
Proof. exact record_fields_nodup. Qed.
Print Assumptions C10_record_fields_are_distinct.
