(* C10 — unmodelled content passes through untouched and in place.  Statements only. *)
From Coq Require Import String NArith List Bool.
From RC Require Import lib.Result lib.Bytes model.Layout model.ChkIo model.TrigTable model.RichCodec model.RichIo
  proofs.C10_proofs proofs.C10_entries gen.GenTrig gen.GenFlags.
Import ListNotations.

(* sections: for every decoded map, every position i holding an unmodelled section (unknown name, STRx, a recognised
   section without a rich model other than the recomputed UPUS), and ANY edits that leave position i alone,
   the save puts the very same section at position i *)
Theorem C10_unmodelled_section_survives_in_place :
  forall d r r' wd d' i s,
    load d = Ok r -> nth_error d i = Some s -> unmodelled s = true ->
    nth_error r' i = nth_error r i -> save wd r' = Ok d' -> nth_error d' i = Some s.
Proof. exact unmodelled_section_survives. Qed.
Print Assumptions C10_unmodelled_section_survives_in_place.

Theorem C10_trigger_editor_leaves_other_sections_in_place :
  forall new r r' i s, add_triggers new r = Ok r' -> nth_error r i = Some s ->
    (forall ts, s <> RTrig ts) -> nth_error r' i = Some s.
Proof. exact add_triggers_keeps_other_sections. Qed.
Print Assumptions C10_trigger_editor_leaves_other_sections_in_place.

(* trigger entries: a type byte outside the enumeration, or inside it but without a transcoder, is kept as the raw
   record by decode (whatever the lookups are) and written back field for field by encode (whatever the new lookups are) *)
Theorem C10_unknown_entry_is_kept_raw :
  forall cx cx' table enum idf flagc fields vals,
    NoDup fields -> length vals = length fields ->
    enum_has enum (vint idf (entry_val fields vals)) = false ->
    exists e, decode_entry_of cx table enum idf flagc fields (entry_val fields vals) = Ok (Some e) /\
              encode_entry_of cx' table flagc fields e = Ok (entry_val fields vals).
Proof. exact unknown_entry_roundtrip. Qed.
Print Assumptions C10_unknown_entry_is_kept_raw.

Theorem C10_unsupported_entry_is_kept_raw :
  forall cx cx' table enum idf flagc fields vals,
    NoDup fields -> length vals = length fields ->
    vint idf (entry_val fields vals) <> NO_ENTRY ->
    find_entry (vint idf (entry_val fields vals)) table = None ->
    exists e, decode_entry_of cx table enum idf flagc fields (entry_val fields vals) = Ok (Some e) /\
              encode_entry_of cx' table flagc fields e = Ok (entry_val fields vals).
Proof. exact unsupported_entry_roundtrip. Qed.
Print Assumptions C10_unsupported_entry_is_kept_raw.

Theorem C10_record_fields_are_distinct : NoDup action_record_fields /\ NoDup condition_record_fields.
Proof. exact record_fields_nodup. Qed.
Print Assumptions C10_record_fields_are_distinct.

Local Open Scope string_scope.

(* INSIDE A TRIGGER, for whole entry lists.  Whatever the 16 / 64 entries of a trigger are (any mixture of supported,
   unsupported, unknown and empty entries) and whatever the decode and encode contexts are: the entries without a rich
   model that come out of decode -> encode are exactly those that went in, field for field and in the same ORDER; the
   supported entries and the padding never turn into one. *)
Theorem C10_unmodelled_entries_keep_content_and_order :
  forall cx cx' v t v', trigger_decode cx v = Ok t -> trigger_encode cx' t = Ok v' -> raw_entries_preserved v v'.
Proof. exact trigger_raw_entries_survive. Qed.
Print Assumptions C10_unmodelled_entries_keep_content_and_order.

(* ... and keep their POSITION when no empty slot precedes them (an empty slot before them is the recorded finding
   interior-gap-compacted: the rich layer drops it) *)
Theorem C10_unmodelled_action_keeps_its_position :
  forall cx cx' n vs os vs' k v,
    mapM (decode_entry_of cx gen_action_table "TriggerActionId" "_action_id" action_flags_codec action_record_fields) vs = Ok os ->
    mapM (encode_entry_of cx' gen_action_table action_flags_codec action_record_fields) (somes os) = Ok vs' ->
    forallb (fun x => negb (N.eqb (vint "_action_id" x) NO_ENTRY) || raw_action x) (firstn k vs) = true ->
    nth_error vs k = Some v -> raw_action v = true ->
    nth_error (pad_to n (empty_entry action_record_fields) vs') k = Some (norm action_record_fields v).
Proof.
  exact (raw_entry_keeps_its_position gen_action_table "TriggerActionId" "_action_id" action_flags_codec action_record_fields
           (proj1 record_fields_nodup) in_action_fields action_id_is_not_flags action_table_ids_ok).
Qed.
Print Assumptions C10_unmodelled_action_keeps_its_position.

(* THE WHOLE PATH.  Load a map; append triggers to the TRIG section at position i and do anything at all to the other
   sections; save (with or without sound metadata).  Position i of the output is a TRIG section in which trigger k is the
   input's trigger k with its unmodelled conditions and actions preserved as above. *)
Theorem C10_unmodelled_entries_survive_load_edit_save :
  forall d r r' wd d' i v ts new,
    load d = Ok r -> nth_error d i = Some (DTab "TRIG" v) ->
    nth_error r i = Some (RTrig ts) -> nth_error r' i = Some (RTrig (ts ++ new)) ->
    save wd r' = Ok d' ->
    exists v', nth_error d' i = Some (DTab "TRIG" v') /\
      forall k tv, nth_error (vlist "_triggers" v) k = Some tv ->
        exists tv', nth_error (vlist "_triggers" v') k = Some tv' /\ raw_entries_preserved tv tv'.
Proof. exact raw_trigger_entries_survive_load_edit_save. Qed.
Print Assumptions C10_unmodelled_entries_survive_load_edit_save.
