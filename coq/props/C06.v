(* C06 — decoded sections expose the values at the spec's offsets.  Statements only. *)
From Coq Require Import String NArith List Bool.
From RC Require Import lib.Result lib.Bytes model.Layout model.ChkIo
  proofs.Layout_proofs proofs.Layout_offsets proofs.C06_proofs gen.GenLayouts spec.SpecLayouts
  model.Str proofs.C06_str.
Import ListNotations.

(* the layouts read from the transcoders' source ARE the layouts transcribed from the format description:
   same fields, same order, same widths and counts, for decode and for encode *)
Theorem C06_generated_layouts_are_the_spec_layouts :
  forall name dec enc, In (name, (dec, enc)) gen_layouts ->
    exists spec, In (name, spec) spec_layouts /\ dec = spec /\ erase enc = spec /\ wf_l spec = true.
Proof. exact gen_layout_is_spec. Qed.
Print Assumptions C06_generated_layouts_are_the_spec_layouts.

(* every scalar reached by a path in a spec layout is the little-endian integer found at the
   layout's offset and width — for every payload *)
Theorem C06_decoded_field_is_the_integer_at_the_spec_offset :
  forall name spec, In (name, spec) spec_layouts ->
  forall fuel bs v rest p o w x,
    decode_l fuel spec bs = Ok (v, rest) -> locate spec p = Some (o, Prim w) -> get spec v p = Some x ->
    x = VInt (le_decode (slice bs o w)).
Proof. exact spec_field_at_offset. Qed.
Print Assumptions C06_decoded_field_is_the_integer_at_the_spec_offset.

Theorem C06_encode_writes_the_field_at_the_spec_offset :
  forall name spec, In (name, spec) spec_layouts ->
  forall fuel bs v rest p o w x pre,
    bytes_ok bs -> decode_l fuel spec bs = Ok (v, rest) -> encode_l spec v = Ok pre ->
    locate spec p = Some (o, Prim w) -> get spec v p = Some (VInt x) -> o + w <= length pre ->
    le_decode (slice pre o w) = x.
Proof. exact spec_encode_at_offset. Qed.
Print Assumptions C06_encode_writes_the_field_at_the_spec_offset.

(* generic in the layout (the two statements above are its instances) *)
Theorem C06_field_at_offset_any_layout :
  forall l fuel bs v rest p o w x, wf_l l = true ->
    decode_l fuel l bs = Ok (v, rest) -> locate l p = Some (o, Prim w) -> get l v p = Some x ->
    x = VInt (le_decode (slice bs o w)).
Proof. exact field_at_offset. Qed.
Print Assumptions C06_field_at_offset_any_layout.

(* the string tables (STR: w = 2, STRx: w = 4): the count is the integer at offset 0, offset k is the integer at
   w + w*k, and the strings are the NUL-terminated runs of the data that starts right after the last offset *)
Theorem C06_string_table_fields_at_the_spec_offsets :
  forall w bs m, str_decode w bs = Ok m ->
    ss_num m = le_decode (slice bs 0 w) /\
    N.of_nat (length (ss_offsets m)) = ss_num m /\
    (forall k, (k < length (ss_offsets m))%nat ->
       nth_error (ss_offsets m) k = Some (le_decode (slice bs (w + w * k) w))) /\
    split_nul [] (skipn (w + w * length (ss_offsets m)) bs) = Ok (ss_strings m).
Proof. exact str_fields_at_spec_offsets. Qed.
Print Assumptions C06_string_table_fields_at_the_spec_offsets.
