(* C19 — decoding arbitrary bytes terminates with an error or a writable model.  Statements only. *)
From Coq Require Import String NArith List Bool.
From RC Require Import lib.Result lib.Bytes model.Layout model.Str model.ChkIo
  proofs.Layout_proofs proofs.C01_proofs proofs.C19_proofs.
Import ListNotations.

(* the model's decoder is a total function and its fuel is adequate: for EVERY byte string the
   out-of-fuel constructor is unreachable (each iteration of the chunk loop consumes >= 8 bytes,
   each record of a to-the-end section >= 1 byte) *)
Theorem C19_decode_terminates : forall bs, chk_decode bs <> Raise OutOfFuel.
Proof. exact chk_decode_terminates. Qed.
Print Assumptions C19_decode_terminates.

Theorem C19_section_decode_terminates :
  forall l fuel bs, wf_l l = true -> length bs < fuel -> decode_l fuel l bs <> Raise OutOfFuel.
Proof. exact decode_no_oof. Qed.
Print Assumptions C19_section_decode_terminates.

(* The functional half, for EVERY byte string (bytes_ok: each element is a byte): what the decoder accepts can
   be written, and the written bytes decode to the very same model.  No well-formedness is assumed: a
   truncated last section, a size field larger than the file, a fixed-size section that is too long, a
   ragged record tail the decoder happens to accept, unknown names.  bs' may differ from bs. *)
Theorem C19_accepted_input_is_writable_and_stable :
  forall bs secs, bytes_ok bs -> chk_decode bs = Ok secs ->
    exists bs', chk_encode secs = Ok bs' /\ chk_decode bs' = Ok secs.
Proof. exact chk_decode_stable. Qed.
Print Assumptions C19_accepted_input_is_writable_and_stable.
