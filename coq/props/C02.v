(* C02 — unedited load/save preserves every value the game reads.  Statements only.

   FULL STATEMENT: forall bs, accepts bs -> load_save bs = Ok bs' -> spec_view bs' = spec_view bs, and a map that cannot
   be represented raises.  It is FALSE of the unchanged code outside the guards recorded as known findings (64-slot
   MRGN, weapons no unit carries, interior gaps, unused fields).  Proved here (_partial): every flag word keeps exactly its
   specified bits, reference-free slot contents are reproduced, unmodelled sections and raw entries are untouched.
   The whole-map claim is judged by tools/c02.py with an independent reader on the implementation's output, and the
   pipeline model is tied to the implementation byte for byte. *)
From Coq Require Import String NArith List Bool.
From RC Require Import lib.Result lib.Bytes model.Layout model.Flags model.ChkIo model.TrigTable model.RichCodec model.RichIo
  proofs.Flags_proofs proofs.C03_proofs proofs.C10_proofs proofs.C08_proofs proofs.C03_strings proofs.C02_entries proofs.C02_triggers gen.GenConsts model.Str model.StrEditor gen.GenFlags gen.GenTrig spec.SpecTrig.
Import ListNotations.
Local Open Scope string_scope.
Local Open Scope list_scope.
Local Open Scope N_scope.

(* whatever number sits in a flags field, the bits the format defines survive the cycle (reserved bits are dropped) *)
Theorem C02_flag_words_keep_their_defined_bits_partial :
  forall c nb x, num_roundtrip c nb x -> exists bs, flags_of c x = Ok bs /\ flags_to c bs = Ok (x mod 2 ^ nb).
Proof. exact flags_roundtrip. Qed.
Print Assumptions C02_flag_words_keep_their_defined_bits_partial.

Theorem C02_location_slot_partial :
  forall L x1 y1 x2 y2 sid fl i,
    fl < 64 -> last_id_guard L sid -> loc_is_unused (loc_val x1 y1 x2 y2 sid fl) = false ->
    exists l, mrgn_decode_locs L [loc_val x1 y1 x2 y2 sid fl] i = Ok [l] /\
              l_idx l = Some (i + 1) /\ loc_encode L l = Ok (loc_val x1 y1 x2 y2 sid fl).
Proof. exact location_slot_roundtrip. Qed.
Print Assumptions C02_location_slot_partial.

Theorem C02_unknown_entries_untouched_partial :
  forall cx cx' table enum idf flagc fields vals,
    NoDup fields -> length vals = length fields ->
    enum_has enum (vint idf (entry_val fields vals)) = false ->
    exists e, decode_entry_of cx table enum idf flagc fields (entry_val fields vals) = Ok (Some e) /\
              encode_entry_of cx' table flagc fields e = Ok (entry_val fields vals).
Proof. exact unknown_entry_roundtrip. Qed.
Print Assumptions C02_unknown_entries_untouched_partial.

Theorem C02_unmodelled_sections_untouched_partial :
  forall d r wd d' i s,
    load d = Ok r -> nth_error d i = Some s -> unmodelled s = true -> save wd r = Ok d' -> nth_error d' i = Some s.
Proof. intros d r wd d' i s Hl Hn Hu Hs. exact (unmodelled_section_survives d r r wd d' i s Hl Hn Hu eq_refl Hs). Qed.
Print Assumptions C02_unmodelled_sections_untouched_partial.

(* THE STRING TABLE OF AN UNEDITED MAP.  Everything decode_chk puts into the rich map mentions only texts the map's own
   string table resolves (induction over sections, triggers, entries, arguments); so the rebuild before a save has nothing
   to add, and the STR section is emitted exactly as it was loaded, at its position: every string number keeps its text. *)
Theorem C02_unedited_save_emits_the_loaded_string_table :
  forall d r wd d' m bin i,
    load d = Ok r -> strs_named "STR " d = [m] ->
    filter (named "STR ") r = [RDecodedStr "STR " 2 m] -> wf_table 2 m bin ->
    save wd r = Ok d' -> nth_error d i = Some (DStr "STR " 2 m) ->
    nth_error d' i = Some (DStr "STR " 2 m).
Proof. exact unedited_save_emits_the_loaded_str. Qed.
Print Assumptions C02_unedited_save_emits_the_loaded_string_table.

(* "every numeric setting keeps its value, every string reference resolves to the same text", one trigger ACTION of any
   registered type through an unedited load (context cx) and save (context cx'): the record written back holds the same type
   number, the same five flag bits, and for every argument field a number that is the re-encoding of what was decoded from
   it (the play time of a sound being written back as it was read); the fields the type does not use are written as 0
   (recorded finding unused-fields-zeroed) *)
Theorem C02_a_supported_action_keeps_its_values :
  forall cx cx' v key args fl v',
    decode_entry_of cx gen_action_table "TriggerActionId" "_action_id" action_flags_codec action_record_fields v
      = Ok (Some (ERich key args fl)) ->
    encode_entry_of cx' gen_action_table action_flags_codec action_record_fields (ERich key args fl) = Ok v' ->
    (vint "_flags" v < 256)%N ->
    exists te s,
      find_entry key gen_action_table = Some te /\ In s spec_action_table /\ se_id s = key /\
      vint "_action_id" v' = vint "_action_id" v /\
      vint "_flags" v' = (vint "_flags" v mod 2 ^ 5)%N /\
      (forall a c f, In (a, c, f) (te_dec te) ->
         exists x, dec_arg cx c (vint f v) = Ok x /\
                   (enc_arg cx' c x = Ok (vint f v') \/ (c = CRaw /\ vint f v' = vint f v))) /\
      (forall f, In f action_record_fields -> f <> "_flags" -> expected_src s f = EZero -> vint f v' = 0%N) /\
      (forall x, In x (te_dec te) <-> In x (se_args s)) /\
      (exists r', v' = rec_val action_record_fields r').
Proof. exact action_values_survive. Qed.
Print Assumptions C02_a_supported_action_keeps_its_values.

Theorem C02_a_supported_condition_keeps_its_values :
  forall cx cx' v key args fl v',
    decode_entry_of cx gen_condition_table "TriggerConditionId" "_condition_id" condition_flags_codec condition_record_fields v
      = Ok (Some (ERich key args fl)) ->
    encode_entry_of cx' gen_condition_table condition_flags_codec condition_record_fields (ERich key args fl) = Ok v' ->
    (vint "_flags" v < 256)%N ->
    exists te s,
      find_entry key gen_condition_table = Some te /\ In s spec_condition_table /\ se_id s = key /\
      vint "_condition_id" v' = vint "_condition_id" v /\
      vint "_flags" v' = (vint "_flags" v mod 2 ^ 5)%N /\
      (forall a c f, In (a, c, f) (te_dec te) ->
         exists x, dec_arg cx c (vint f v) = Ok x /\
                   (enc_arg cx' c x = Ok (vint f v') \/ (c = CRaw /\ vint f v' = vint f v))) /\
      (forall f, In f condition_record_fields -> f <> "_flags" -> expected_src s f = EZero -> vint f v' = 0%N) /\
      (forall x, In x (te_dec te) <-> In x (se_args s)) /\
      (exists r', v' = rec_val condition_record_fields r').
Proof. exact condition_values_survive. Qed.
Print Assumptions C02_a_supported_condition_keeps_its_values.

(* ... where re-encoding what was decoded gives the SAME number for plain numbers and enumeration members *)
Theorem C02_numeric_arguments_keep_their_number :
  forall cx cx' c n x n',
    (c = CRaw \/ exists E, c = CEnum E) -> dec_arg cx c n = Ok x -> enc_arg cx' c x = Ok n' -> n' = n.
Proof. exact numeric_codec_same_number. Qed.
Print Assumptions C02_numeric_arguments_keep_their_number.

(* ... and, for a string argument, a number that resolves in the table being written to the same text *)
Theorem C02_string_arguments_keep_their_text :
  forall cx cx' n x n',
    (N.of_nat (length (sl_by_id (cx_str cx'))) <= 1000000)%N ->
    dec_arg cx CStr n = Ok x -> enc_arg cx' CStr x = Ok n' -> str_by_id (cx_str cx') n' = str_by_id (cx_str cx) n.
Proof. exact string_codec_same_text. Qed.
Print Assumptions C02_string_arguments_keep_their_text.

(* one WHOLE trigger through an unedited load and save: when its condition and action lists have no gap (no empty entry in front
   of a used one - the gap case is the recorded finding interior-gap-compacted), every entry is written back AT ITS OWN POSITION
   as the encoding of what was decoded from that position, and every empty position as the all-zero entry; what one entry keeps
   is C02_a_supported_action_keeps_its_values / ..._condition_... above and C10's theorems for the entries without a rich model *)
Theorem C02_trigger_entries_stay_in_place_when_there_is_no_gap :
  forall cx cx' v t v',
    trigger_decode cx v = Ok t -> trigger_encode cx' t = Ok v' ->
    length (vlist "_conditions" v) = N.to_nat NUM_CONDITIONS_PER_TRIGGER ->
    length (vlist "_actions" v) = N.to_nat NUM_ACTIONS_PER_TRIGGER ->
    (forall os, mapM (dec_cond cx) (vlist "_conditions" v) = Ok os -> gap_free os) ->
    (forall os, mapM (dec_act cx) (vlist "_actions" v) = Ok os -> gap_free os) ->
    (forall k slot, nth_error (vlist "_conditions" v) k = Some slot ->
       exists o, dec_cond cx slot = Ok o /\
         match o with
         | Some e => exists slot', nth_error (vlist "_conditions" v') k = Some slot' /\ enc_cond cx' e = Ok slot'
         | None => nth_error (vlist "_conditions" v') k = Some (empty_entry condition_record_fields)
         end) /\
    (forall k slot, nth_error (vlist "_actions" v) k = Some slot ->
       exists o, dec_act cx slot = Ok o /\
         match o with
         | Some e => exists slot', nth_error (vlist "_actions" v') k = Some slot' /\ enc_act cx' e = Ok slot'
         | None => nth_error (vlist "_actions" v') k = Some (empty_entry action_record_fields)
         end).
Proof. exact trigger_entries_stay_in_place. Qed.
Print Assumptions C02_trigger_entries_stay_in_place_when_there_is_no_gap.

(* ... and the section level above it: trigger k of the written TRIG section is the encoding of what was decoded from trigger k
   of the read one; the section keeps its number of triggers (its size, 2400 bytes each, is C11) *)
Theorem C02_every_trigger_keeps_its_position :
  forall cx cx' v ts v',
    trig_decode cx v = Ok ts -> trig_encode cx' ts = Ok v' ->
    length (vlist "_triggers" v') = length (vlist "_triggers" v) /\
    forall k tv, nth_error (vlist "_triggers" v) k = Some tv ->
      exists t tv', trigger_decode cx tv = Ok t /\ trigger_encode cx' t = Ok tv' /\ nth_error (vlist "_triggers" v') k = Some tv'.
Proof. exact trig_section_triggerwise. Qed.
Print Assumptions C02_every_trigger_keeps_its_position.
