(* C17 — map archives round-trip: CHK exact, other members preserved.  Statements only.
   PARTIAL: everything here is under the hypothesis StormLibSpec (the three premises about sl_extract / sl_add /
   sl_compact).  That the bundled libstorm binary satisfies it is runtime behaviour, exercised by the correspondence. *)
From Coq Require Import String NArith List Bool.
From RC Require Import lib.Result model.Archive.
Import ListNotations.

Theorem C17_saved_archive_partial :
  forall (content : Type) (sl_extract : archive content -> string -> option content)
         (sl_add : archive content -> string -> content -> archive content)
         (sl_compact : archive content -> archive content),
    (forall a m, sl_extract a m = a m) ->
    (forall a m c m', sl_add a m c m' = if String.eqb m' m then Some c else a m') ->
    (forall a m, sl_compact a m = a m) ->
    forall base chk,
      save_chk content sl_add sl_compact base chk chk_member = Some chk /\
      (forall m, m <> chk_member -> save_chk content sl_add sl_compact base chk m = base m) /\
      read_chk content sl_extract (save_chk content sl_add sl_compact base chk) = Some chk.
Proof.
  intros content ex ad co H1 H2 H3 base chk. split; [|split].
  - exact (save_chk_scenario content ad co H2 H3 base chk).
  - intros m Hm. exact (save_chk_other content ad co H2 H3 base chk m Hm).
  - exact (read_after_save content ex ad co H1 H2 H3 base chk).
Qed.
Print Assumptions C17_saved_archive_partial.

Theorem C17_imported_audio_is_stored_under_the_canonical_path_partial :
  forall (content : Type) (sl_add : archive content -> string -> content -> archive content),
    (forall a m c m', sl_add a m c m' = if String.eqb m' m then Some c else a m') ->
    forall files a name c,
      In (name, c) files -> (forall c', In (name, c') files -> c' = c) ->
      fold_left (fun a f => sl_add a (wav_member (fst f)) (snd f)) files a (wav_member name) = Some c.
Proof. intros content ad H2 files a name c. exact (fold_add_last content ad H2 files a name c). Qed.
Print Assumptions C17_imported_audio_is_stored_under_the_canonical_path_partial.

Theorem C17_import_leaves_other_members_alone_partial :
  forall (content : Type) (sl_add : archive content -> string -> content -> archive content),
    (forall a m c m', sl_add a m c m' = if String.eqb m' m then Some c else a m') ->
    forall files a m,
      (forall f, In f files -> wav_member (fst f) <> m) ->
      fold_left (fun a f => sl_add a (wav_member (fst f)) (snd f)) files a m = a m.
Proof. intros content ad H2 files a m. exact (fold_add_other content ad H2 files a m). Qed.
Print Assumptions C17_import_leaves_other_members_alone_partial.
