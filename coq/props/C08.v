(* C08 — string table growth keeps every string ID valid.  Statements only. *)
From Coq Require Import String NArith List Bool.
From RC Require Import lib.Result lib.Bytes model.Str model.StrEditor proofs.C08_proofs.
Import ListNotations.
Local Open Scope N_scope.

(* For every well-formed table (count = number of offsets; every offset lies in the data region and
   reaches a NUL; nothing assumed about order, sharing, interior pointers or unreferenced data) and every
   list of 7-bit NUL-free strings: if the grown table can be laid out at all (offsets within the width),
   then  (1) it is well-formed,  (2) every existing id resolves to its previous text,
         (3) every requested string has an id resolving to exactly it,
         (4) the stored data only grows, by distinct requested strings none of which was resolvable before,
         (5) adding the same list again changes nothing. *)
Theorem C08_add_strings_correct :
  forall w req t bin t' bin',
    wf_table w t bin -> Forall clean req ->
    add_strings w req t = Ok t' -> str_encode w t' = Ok bin' ->
    wf_table w t' bin' /\
    (forall i o s, nth_error (ss_offsets t) i = Some o -> resolve bin o = Ok s ->
                   exists o', nth_error (ss_offsets t') i = Some o' /\ resolve bin' o' = Ok s) /\
    (forall s, In s req -> resolvable t' bin' s) /\
    (exists U, ss_strings t' = ss_strings t ++ U /\ NoDup U /\
               forall s, In s U -> In s req /\ ~ resolvable t bin s) /\
    add_strings w req t' = Ok t'.
Proof. exact add_strings_correct. Qed.
Print Assumptions C08_add_strings_correct.

Theorem C08_strx_of_str_preserves_the_id_to_text_map :
  forall t bin bin4 i o s,
    wf_table 2 t bin -> str_encode 4 (generate_strx t) = Ok bin4 ->
    nth_error (ss_offsets t) i = Some o -> resolve bin o = Ok s ->
    exists o', nth_error (ss_offsets (generate_strx t)) i = Some o' /\ resolve bin4 o' = Ok s.
Proof. exact strx_of_str_preserves. Qed.
Print Assumptions C08_strx_of_str_preserves_the_id_to_text_map.

(* non-vacuity: the table on which the unrepaired editor failed satisfies the hypotheses *)
Theorem C08_hypotheses_are_satisfiable :
  wf_table 2 {| ss_num := 1; ss_offsets := [4]; ss_strings := [[97]; [122; 122; 122]] |}
           [1; 0; 4; 0; 97; 0; 122; 122; 122; 0].
Proof. exact wf_example. Qed.
Print Assumptions C08_hypotheses_are_satisfiable.
