(* C11: whatever is encoded, the emitted sections have exactly the mandated sizes — or the call raises. *)
From Coq Require Import String NArith List Bool Lia PeanoNat.
From RC Require Import lib.Result lib.Bytes model.Layout model.Flags model.TrigTable model.RichCodec
  proofs.Layout_proofs proofs.C08_proofs gen.GenLayouts gen.GenConsts gen.GenTrig gen.GenFlags.
Import ListNotations.
Local Open Scope string_scope.
Local Open Scope list_scope.

(* value v has the shape layout l describes: exactly n elements under Arr n *)
Fixpoint fits (l : layout) (v : val) {struct l} : bool :=
  match l, v with
  | Prim _, VInt _ => true
  | Arr n _ l', VList vs => Nat.eqb (length vs) n && forallb (fits l') vs
  | Seq a b, VPair x y => fits a x && fits b y
  | Named f l', VNamed g x => String.eqb f g && fits l' x
  | Unit, VUnit => true
  | Many l', VList vs => forallb (fits l') vs
  | Chunk _ l', x => fits l' x
  | _, _ => false
  end.

Lemma enc_list_length e s : forall vs bs,
  (forall x b, In x vs -> e x = Ok b -> length b = s) -> enc_list e vs = Ok bs -> length bs = length vs * s.
Proof.
  induction vs as [|x r IH]; intros bs He H; simpl in H.
  - inversion H; reflexivity.
  - inv_bind H as a Ha Hk. inv_bind Hk as b Hb Hk2. inversion Hk2; subst.
    rewrite app_length. rewrite (He x a (or_introl eq_refl) Ha).
    rewrite (IH b); [simpl; lia | intros y c Hy; apply He; right; assumption | assumption].
Qed.

(* the same, with well-formedness (chunks have the size of their body) *)
Theorem encode_size l : forall v bs s,
  wf_l l = true -> size_l l = Some s -> fits l v = true -> encode_l l v = Ok bs -> length bs = s.
Proof.
  induction l as [w|n st l IH|a IHa b IHb|f l IH| |l IH|sz l IH]; intros v bs s Hwf Hs Hf H; simpl in *.
  - destruct v; try discriminate. inversion Hs; subst. apply pack_ok_inv in H as [_ ->]. apply le_encode_length.
  - destruct v as [|vs| | |]; try discriminate.
    destruct (size_l l) as [sl|] eqn:El; [|discriminate]. inversion Hs; subst.
    apply andb_true_iff in Hf as [Hn Hall]. apply Nat.eqb_eq in Hn.
    destruct (st && negb (Nat.eqb (length vs) n)); [discriminate|].
    rewrite (enc_list_length (encode_l l) sl vs bs); [lia | | assumption].
    intros x b0 Hx Hb. rewrite forallb_forall in Hall. eapply IH; eauto.
  - destruct v as [| |x y| |]; try discriminate. apply andb_true_iff in Hwf as [Hwa Hwb].
    destruct (size_l a) as [sa|] eqn:Ea; [|discriminate]. destruct (size_l b) as [sb|] eqn:Eb; [|discriminate].
    inversion Hs; subst. apply andb_true_iff in Hf as [Hfa Hfb].
    inv_bind H as p Hp Hk. inv_bind Hk as q Hq Hk2. inversion Hk2; subst. rewrite app_length.
    rewrite (IHa _ _ _ Hwa eq_refl Hfa Hp), (IHb _ _ _ Hwb eq_refl Hfb Hq). reflexivity.
  - destruct v as [| | |g x|]; try discriminate. apply andb_true_iff in Hf as [Hg Hx]. rewrite Hg in H. eapply IH; eauto.
  - destruct v; try discriminate. inversion H; inversion Hs; subst. reflexivity.
  - discriminate.
  - apply andb_true_iff in Hwf as [Hw Hsz]. destruct (size_l l) as [sl|] eqn:El; [|discriminate].
    apply andb_true_iff in Hsz as [Hsz _]. apply Nat.eqb_eq in Hsz. subst sl. inversion Hs; subst s.
    eapply IH; eauto.
Qed.

(* a to-the-end section is a whole number of records *)
Theorem encode_many_size l vs bs s :
  wf_l l = true -> size_l l = Some s -> forallb (fits l) vs = true ->
  encode_l (Many l) (VList vs) = Ok bs -> length bs = length vs * s.
Proof.
  intros Hwf Hs Hall H. simpl in H. apply (enc_list_length (encode_l l) s vs bs); [|assumption].
  intros x b Hx Hb. rewrite forallb_forall in Hall. eapply encode_size; eauto.
Qed.

(* ---- the trigger encoder always emits 16 conditions, 64 actions, 27 player flags ----------------------------------- *)

Lemma pad_to_length {A} n (x : A) l : length l <= n -> length (pad_to n x l) = n.
Proof. intros H. unfold pad_to. rewrite app_length, repeat_length. lia. Qed.

Definition trigger_layout : layout :=
  match dec_TRIG with
  | Seq (Named _ (Many (Chunk _ t))) _ => t
  | _ => Unit
  end.

Lemma trigger_layout_facts : wf_l trigger_layout = true /\ size_l trigger_layout = Some 2400.
Proof. split; vm_compute; reflexivity. Qed.

Lemma rec_val_fits_condition r :
  fits (match trigger_layout with Seq (Named _ (Arr _ _ c)) _ => c | _ => Unit end) (rec_val condition_record_fields r) = true.
Proof. reflexivity. Qed.

Lemma rec_val_fits_action r :
  fits (match trigger_layout with Seq _ (Seq (Named _ (Arr _ _ a)) _) => a | _ => Unit end) (rec_val action_record_fields r) = true.
Proof. reflexivity. Qed.

Lemma empty_entries_fit :
  fits (match trigger_layout with Seq (Named _ (Arr _ _ c)) _ => c | _ => Unit end) (empty_entry condition_record_fields) = true /\
  fits (match trigger_layout with Seq _ (Seq (Named _ (Arr _ _ a)) _) => a | _ => Unit end) (empty_entry action_record_fields) = true.
Proof. split; reflexivity. Qed.

Lemma encode_entry_of_fits_c cx e v :
  encode_entry_of cx gen_condition_table condition_flags_codec condition_record_fields e = Ok v ->
  fits (match trigger_layout with Seq (Named _ (Arr _ _ c)) _ => c | _ => Unit end) v = true.
Proof.
  destruct e as [r|key args fl]; cbn [encode_entry_of]; intros H.
  - inversion H; subst. apply rec_val_fits_condition.
  - destruct (find_entry key gen_condition_table); [|discriminate].
    inv_bind H as r Hr Hk. inv_bind Hk as x Hx Hk2. inversion Hk2; subst. apply rec_val_fits_condition.
Qed.

Lemma encode_entry_of_fits_a cx e v :
  encode_entry_of cx gen_action_table action_flags_codec action_record_fields e = Ok v ->
  fits (match trigger_layout with Seq _ (Seq (Named _ (Arr _ _ a)) _) => a | _ => Unit end) v = true.
Proof.
  destruct e as [r|key args fl]; cbn [encode_entry_of]; intros H.
  - inversion H; subst. apply rec_val_fits_action.
  - destruct (find_entry key gen_action_table); [|discriminate].
    inv_bind H as r Hr Hk. inv_bind Hk as x Hx Hk2. inversion Hk2; subst. apply rec_val_fits_action.
Qed.

Lemma mapM_forall {A B} (f : A -> result B) (P : B -> Prop) l l' :
  (forall a b, f a = Ok b -> P b) -> mapM f l = Ok l' -> Forall P l'.
Proof.
  intros Hf. revert l'. induction l as [|x r IH]; intros l' H; simpl in H.
  - inversion H; constructor.
  - inv_bind H as y Hy Hk. inv_bind Hk as ys Hys Hk2. inversion Hk2; subst. constructor; eauto.
Qed.

Lemma forallb_of_Forall {A} (p : A -> bool) l : Forall (fun x => p x = true) l -> forallb p l = true.
Proof. induction 1; simpl; [reflexivity | rewrite H, IHForall; reflexivity]. Qed.

Lemma player_ids_27 : length player_ids = 27.
Proof. reflexivity. Qed.

(* every trigger the rich encoder produces fits the 2400-byte trigger layout *)
Theorem trigger_encode_fits cx t v : trigger_encode cx t = Ok v -> fits trigger_layout v = true.
Proof.
  unfold trigger_encode. intros H.
  inv_bind H as cs Hcs Hk. inv_bind Hk as acts Hacts Hk2.
  destruct (Nat.ltb (N.to_nat NUM_CONDITIONS_PER_TRIGGER) (length cs)) eqn:Ec; [discriminate|].
  destruct (Nat.ltb (N.to_nat NUM_ACTIONS_PER_TRIGGER) (length acts)) eqn:Ea; [discriminate|].
  apply Nat.ltb_ge in Ec, Ea. inversion Hk2; subst v. clear Hk2.
  pose proof (mapM_forall _ _ _ _ (encode_entry_of_fits_c cx) Hcs) as Fc.
  pose proof (mapM_forall _ _ _ _ (encode_entry_of_fits_a cx) Hacts) as Fa.
  unfold trigger_layout. change dec_TRIG with dec_TRIG. cbn [dec_TRIG].
  cbn [mk_struct fits]. rewrite !String.eqb_refl. cbn [andb].
  rewrite (pad_to_length _ _ _ Ec), (pad_to_length _ _ _ Ea). cbn [Nat.eqb N.to_nat NUM_CONDITIONS_PER_TRIGGER NUM_ACTIONS_PER_TRIGGER Pos.to_nat Pos.iter_op Nat.add].
  repeat rewrite Nat.eqb_refl. cbn [andb].
  assert (forall n x (l : list val) p, forallb p l = true -> p x = true -> forallb p (pad_to n x l) = true) as Hpad.
  { intros n x l p Hl Hx. unfold pad_to. rewrite forallb_app, Hl. simpl.
    induction (n - length l)%nat; simpl; [reflexivity | rewrite Hx; assumption]. }
  rewrite Hpad; [| apply forallb_of_Forall; exact Fc | apply empty_entries_fit].
  rewrite Hpad; [| apply forallb_of_Forall; exact Fa | apply empty_entries_fit].
  reflexivity.
Qed.

(* C11, TRIG: if the rich trigger section encodes at all, its bytes are a whole number of 2400-byte triggers *)
Theorem trig_section_is_whole_triggers cx ts v bs :
  trig_encode cx ts = Ok v -> encode_l enc_TRIG v = Ok bs -> length bs = length ts * 2400.
Proof.
  unfold trig_encode. intros H He. inv_bind H as vs Hvs Hk. inversion Hk; subst v.
  assert (forallb (fits (Chunk 2400 trigger_layout)) vs = true) as Hall.
  { apply forallb_of_Forall. eapply mapM_forall; [|exact Hvs]. intros t v Ht. cbn [fits]. eapply trigger_encode_fits; eauto. }
  rewrite <- (mapM_length _ _ _ Hvs).
  assert (enc_TRIG = Seq (Named "_triggers" (Many (Chunk 2400 trigger_layout))) Unit) as E by reflexivity.
  rewrite E in He. cbn [encode_l mk_struct] in He. rewrite String.eqb_refl in He.
  inv_bind He as p Hp Hk2. inv_bind Hk2 as q Hq Hk3. inversion Hq; subst q. inversion Hk3; subst bs. rewrite app_nil_r.
  change (enc_list (encode_l (Chunk 2400 trigger_layout)) vs = Ok p) with
    (encode_l (Many (Chunk 2400 trigger_layout)) (VList vs) = Ok p) in Hp.
  apply (encode_many_size (Chunk 2400 trigger_layout) vs p 2400); try assumption; vm_compute; reflexivity.
Qed.

(* the fixed-size sections: the rich encoders always build exactly 255 / 64 / 64 / 512 slots *)
Lemma seq_map_length n : length (map N.of_nat (seq 0 n)) = n.
Proof. rewrite map_length, seq_length. reflexivity. Qed.

Lemma vlist_single f l : vlist f (mk_struct [(f, VList l)]) = l.
Proof. unfold vlist. cbn [mk_struct vfield]. rewrite String.eqb_refl. reflexivity. Qed.

Theorem slot_counts :
  (forall L ls v, mrgn_encode L ls = Ok v -> length (vlist "_locations" v) = N.to_nat MRGN_TRANSCODER_MAX_LOCATIONS) /\
  (forall cs v, uprp_encode cs = Ok v -> length (vlist "_cuwp_slots" v) = N.to_nat MAX_CUWP_SLOTS) /\
  (forall cs v, upus_rebuild cs = Ok v -> length (vlist "_cuwp_slots_used" v) = N.to_nat MAX_CUWP_SLOTS) /\
  (forall L ws v, wav_encode L ws = Ok v -> length (vlist "_wav_string_ids" v) = N.to_nat MAX_WAV_FILES).
Proof.
  repeat split.
  - intros L ls v H. unfold mrgn_encode in H. inv_bind H as slots Hs Hk. inversion Hk; subst.
    cbv [vlist vfield mk_struct String.eqb Ascii.eqb Bool.eqb]. rewrite (mapM_length _ _ _ Hs). apply seq_map_length.
  - intros cs v H. unfold uprp_encode in H. destruct (existsb _ cs); [discriminate|].
    inv_bind H as slots Hs Hk. inversion Hk; subst. cbv [vlist vfield mk_struct String.eqb Ascii.eqb Bool.eqb]. rewrite (mapM_length _ _ _ Hs). apply seq_map_length.
  - intros cs v H. unfold upus_rebuild in H. destruct (existsb _ cs); [discriminate|]. destruct (existsb _ cs); [discriminate|].
    injection H as Hv. subst v. cbv [vlist vfield mk_struct String.eqb Ascii.eqb Bool.eqb].
    match goal with |- length ?l = _ => assert (length l = 64) as -> by reflexivity end. reflexivity.
  - intros L ws v H. unfold wav_encode in H. inv_bind H as ids Hs Hk. inversion Hk; subst.
    cbv [vlist vfield mk_struct String.eqb Ascii.eqb Bool.eqb]. rewrite map_length, (mapM_length _ _ _ Hs). apply seq_map_length.
Qed.

Lemma slot_count_constants :
  (N.to_nat MRGN_TRANSCODER_MAX_LOCATIONS, N.to_nat MAX_CUWP_SLOTS, N.to_nat MAX_WAV_FILES) = (255, 64, 512).
Proof. reflexivity. Qed.

(* and the binary encoders refuse any other count where the format fixes it (strict arrays), e.g. WAV: *)
Theorem strict_array_refuses_wrong_count n l vs :
  length vs <> n -> encode_l (Arr n true l) (VList vs) = Raise StructError.
Proof.
  intros H. simpl. replace (Nat.eqb (length vs) n) with false by (symmetry; apply Nat.eqb_neq; assumption).
  reflexivity.
Qed.

Theorem fixed_sections_have_strict_counts :
  enc_UPUS = Seq (Named "_cuwp_slots_used" (Arr 64 true (Prim 1))) Unit /\
  enc_SWNM = Seq (Named "_switch_string_ids" (Arr 256 true (Prim 4))) Unit /\
  enc_WAV = Seq (Named "_wav_string_ids" (Arr 512 true (Prim 4))) Unit.
Proof. repeat split; reflexivity. Qed.
