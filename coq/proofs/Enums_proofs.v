From Coq Require Import NArith List Bool String Lia.
From RC Require Import lib.Result model.Enums.
Import ListNotations.
Local Open Scope N_scope.

Lemma nodup_N_spec l : nodup_N l = true -> NoDup l.
Proof.
  induction l as [|x r IH]; simpl; intros H; constructor.
  - apply andb_true_iff in H as [H _]. apply negb_true_iff in H.
    intros Hin. assert (existsb (N.eqb x) r = true) as E.
    { apply existsb_exists. exists x. split; [assumption | apply N.eqb_refl]. }
    congruence.
  - apply IH. apply andb_true_iff in H as [_ H]. exact H.
Qed.

Lemma nodup_str_spec l : nodup_str l = true -> NoDup l.
Proof.
  induction l as [|x r IH]; simpl; intros H; constructor.
  - apply andb_true_iff in H as [H _]. apply negb_true_iff in H.
    intros Hin. assert (existsb (String.eqb x) r = true) as E.
    { apply existsb_exists. exists x. split; [assumption | apply String.eqb_refl]. }
    congruence.
  - apply IH. apply andb_true_iff in H as [_ H]. exact H.
Qed.

Lemma enum_map_get_notin E n : ~ In n (map fst E) -> enum_map_get E n = None.
Proof.
  induction E as [|[i m] r IH]; simpl; intros H; [reflexivity|].
  rewrite IH by tauto. destruct (N.eqb_spec i n); [subst; tauto | reflexivity].
Qed.

Lemma enum_map_get_in E i m :
  NoDup (map fst E) -> In (i, m) E -> enum_map_get E i = Some m.
Proof.
  induction E as [|[j m'] r IH]; simpl; intros Hnd Hin; [tauto|].
  inversion Hnd as [|? ? Hnotin Hnd']; subst.
  destruct Hin as [Heq | Hin].
  - inversion Heq; subst. rewrite enum_map_get_notin by assumption. rewrite N.eqb_refl. reflexivity.
  - rewrite IH by assumption. reflexivity.
Qed.

Lemma enum_encode_in E i m :
  NoDup (map snd E) -> In (i, m) E -> enum_encode E m = Ok i.
Proof.
  induction E as [|[j m'] r IH]; simpl; intros Hnd Hin; [tauto|].
  inversion Hnd as [|? ? Hnotin Hnd']; subst.
  destruct Hin as [Heq | Hin].
  - inversion Heq; subst. rewrite String.eqb_refl. reflexivity.
  - destruct (String.eqb_spec m m') as [->|Hne].
    + exfalso. apply Hnotin. change m' with (snd (i, m')). apply in_map. assumption.
    + apply IH; assumption.
Qed.

(* The codec is exact on the whole of N for a well-formed table. *)
Lemma enum_exact_wf E :
  enum_wf E = true ->
  (forall i m, In (i, m) E -> enum_decode E i = Ok m /\ enum_encode E m = Ok i) /\
  (forall n, ~ In n (map fst E) -> enum_decode E n = Raise KeyError) /\
  (forall n m, enum_decode E n = Ok m -> In (n, m) E /\ enum_encode E m = Ok n) /\
  (forall i m1 m2, In (i, m1) E -> In (i, m2) E -> m1 = m2) /\
  (forall i1 i2 m, In (i1, m) E -> In (i2, m) E -> i1 = i2).
Proof.
  unfold enum_wf. intros H. apply andb_true_iff in H as [Hi Hs].
  apply nodup_N_spec in Hi. apply nodup_str_spec in Hs.
  assert (forall i m, In (i, m) E -> enum_decode E i = Ok m /\ enum_encode E m = Ok i) as A.
  { intros i m Hin. unfold enum_decode. rewrite (enum_map_get_in E i m) by assumption.
    split; [reflexivity | apply enum_encode_in; assumption]. }
  split; [exact A|]. split; [|split; [|split]].
  - intros n Hn. unfold enum_decode. rewrite enum_map_get_notin by assumption. reflexivity.
  - intros n m Hd. unfold enum_decode in Hd.
    destruct (enum_map_get E n) as [m'|] eqn:G; [|discriminate]. inversion Hd; subst m'.
    assert (In (n, m) E) as Hin.
    { clear -G. induction E as [|[j m'] r IH]; simpl in *; [discriminate|].
      destruct (enum_map_get r n) as [m''|] eqn:G'.
      - inversion G; subst. right. apply IH. reflexivity.
      - destruct (N.eqb_spec j n); [|discriminate]. inversion G; subst. left. reflexivity. }
    split; [assumption | apply A; assumption].
  - intros i m1 m2 H1 H2. destruct (A i m1 H1) as [D1 _]. destruct (A i m2 H2) as [D2 _]. congruence.
  - intros i1 i2 m H1 H2. destruct (A i1 m H1) as [_ D1]. destruct (A i2 m H2) as [_ D2]. congruence.
Qed.
