(* C04, "every new reference resolves to the authored object", switches, through the save's own rebuild: the number the save
   writes for a NAMED switch s (RichSwnmLookup.get_id_by_switch over the rebuilt table) names a slot of the rebuilt switch
   table that carries that number and s's name - provided no switch with ANOTHER name claims the same number (that case is the
   recorded finding two-switches-one-index; the premise says exactly what it excludes). *)
From Coq Require Import String NArith List Bool Lia PeanoNat.
From RC Require Import lib.Result lib.Bytes model.Layout model.RichCodec model.RichIo model.Alloc
  proofs.Layout_proofs proofs.C08_proofs proofs.Save_strings proofs.Save_refs proofs.C07_triggers proofs.C11_upus gen.GenConsts.
Import ListNotations.
Local Open Scope string_scope.
Local Open Scope list_scope.
Local Open Scope N_scope.

Lemma find_switch_id_some s : forall t acc k,
  find_switch_id s t acc = Some k -> acc = Some k \/ exists u, In (u, k) t /\ rswitch_key_eqb s u = true.
Proof.
  induction t as [|[u j] t IH]; intros acc k H; simpl in H; [left; exact H|].
  apply IH in H as [H|(u' & Hin & He)].
  - destruct (rswitch_key_eqb s u) eqn:E; [|left; exact H]. inversion H; subst j. right. exists u. split; [left; reflexivity | exact E].
  - right. exists u'. split; [right; exact Hin | exact He].
Qed.

(* two switches the dictionary takes for one key have the same name, when one of them has a name at all *)
Lemma key_eqb_named_same_name s u :
  rswitch_key_eqb s u = true -> rstr_empty (s_name s) = false ->
  sw_norm u = sw_norm s /\ rstr_empty (s_name u) = false.
Proof.
  unfold rswitch_key_eqb, sw_norm. intros H Hs.
  destruct (s_name s) as [|x] eqn:Ens; [discriminate Hs|]. destruct x as [|x0 x]; [discriminate Hs|].
  destruct (s_idx s) as [i|], (s_idx u) as [j|]; try discriminate.
  - apply andb_true_iff in H as [_ H]. destruct (s_name u) as [|y]; [discriminate|].
    apply list_N_eqb_eq in H. subst y. split; reflexivity.
  - cbn [rstr_empty andb] in H. destruct (s_name u) as [|y]; [discriminate|]. cbn [rstr_eqb rstr_empty andb] in H.
    rewrite orb_false_r in H. apply list_N_eqb_eq in H. subst y. split; reflexivity.
Qed.

Theorem saved_switch_number_names_the_switch r sw s k :
  RichIo.rebuild_swnm r = Ok sw -> find_switch_id s (snd sw) None = Some k -> (N.to_nat k < N.to_nat MAX_SWITCHES)%nat ->
  rstr_empty (s_name s) = false ->
  (* no switch with another name claims the same number *)
  (forall u, In (u, k) (snd sw) -> rstr_empty (s_name u) = false -> sw_norm u = sw_norm s) ->
  exists slot, nth_error (fst sw) (N.to_nat k) = Some slot /\ sw_norm slot = sw_norm s /\ s_idx slot = Some k.
Proof.
  intros H Hfind Hk Hnamed Huniq. unfold RichIo.rebuild_swnm in H.
  apply bind_ok_inv in H as (outs & Ho & Hk2).
  match type of Hk2 with Ok ?p = Ok _ => assert (sw = p) as -> by congruence end. clear Hk2. cbn [fst snd] in *.
  match type of Hfind with find_switch_id s ?a None = _ => set (assigned := a) in * end.
  apply find_switch_id_some in Hfind as [Hc|(u & Hin & He)]; [discriminate|].
  destruct (key_eqb_named_same_name _ _ He Hnamed) as [Hnu Hun].
  set (by_slot := map (fun p : rswitch * N => (snd p, fst p)) assigned).
  set (named_by_slot := filter (fun p : N * rswitch => negb (rstr_empty (s_name (snd p)))) by_slot).
  assert (In (k, u) named_by_slot) as Hnb.
  { unfold named_by_slot. apply filter_In. split.
    - unfold by_slot. apply in_map_iff. exists (u, k). split; [reflexivity | exact Hin].
    - cbn [snd]. rewrite Hun. reflexivity. }
  assert (exists u', assocN_last k named_by_slot = Some u') as [u' Hu'].
  { apply assocN_last_some_iff. apply in_map_iff. exists (k, u). split; [reflexivity | exact Hnb]. }
  pose proof (assocN_last_in _ _ _ Hu') as Hin'. unfold named_by_slot in Hin'. apply filter_In in Hin' as [Hin' Hn'].
  cbn [snd] in Hn'. apply negb_true_iff in Hn'.
  unfold by_slot in Hin'. apply in_map_iff in Hin' as ([u0 k0] & Heq & Hin0). cbn [fst snd] in Heq. inversion Heq; subst k0 u0. clear Heq.
  pose proof (Huniq u' Hin0 Hn') as Hsame.
  match goal with |- exists slot, nth_error (map ?F ?L) _ = _ /\ _ =>
    assert (nth_error (map F L) (N.to_nat k) = Some (F k)) as Hnth end.
  { rewrite nth_error_map.
    assert (nth_error (map N.of_nat (seq 0 (N.to_nat MAX_SWITCHES))) (N.to_nat k) = Some k) as ->; [|reflexivity].
    rewrite nth_error_map, nth_error_seq_lt by exact Hk. cbn [option_map]. rewrite ?Nat.add_0_l, N2Nat.id. reflexivity. }
  eexists. split; [exact Hnth|]. cbv beta. fold assigned. fold by_slot. fold named_by_slot. rewrite Hu'.
  split; [|reflexivity]. unfold sw_norm in *. cbn [s_name]. exact Hsame.
Qed.

(* ---- the switch table, read back by a later load: entry k of the lookup that load builds is switch k with the name written ---- *)

Lemma swnm_go_nth L : forall ids k0 j sid,
  nth_error ids j = Some sid ->
  nth_error ((fix go (ids : list N) (k : N) : list (N * rswitch) :=
                match ids with
                | [] => []
                | sid :: r => (k, {| s_name := str_by_id L sid; s_idx := Some k; s_oid := 0 |}) :: go r (k + 1)
                end) ids k0) j
  = Some (k0 + N.of_nat j, {| s_name := str_by_id L sid; s_idx := Some (k0 + N.of_nat j); s_oid := 0 |}).
Proof.
  induction ids as [|x r IH]; intros k0 j sid H; [destruct j; discriminate|].
  destruct j as [|j]; simpl in H.
  - inversion H; subst x. simpl. rewrite N.add_0_r. reflexivity.
  - simpl. rewrite (IH (k0 + 1) j sid H). replace (k0 + 1 + N.of_nat j) with (k0 + N.of_nat (S j)) by lia. reflexivity.
Qed.

Theorem an_emitted_switch_table_reads_back L ss v j s :
  N.of_nat (length (sl_by_id L)) <= 1000000 -> swnm_encode L ss = Ok v -> nth_error ss j = Some s ->
  nth_error (swnm_lookup L v) j = Some (N.of_nat j, {| s_name := s_name s; s_idx := Some (N.of_nat j); s_oid := 0 |}).
Proof.
  intros Hsmall H Hn. unfold swnm_encode in H. inv_bind H as ids Hids Hk.
  match type of Hk with Ok ?p = Ok _ => assert (v = p) as -> by congruence end. clear Hk.
  unfold swnm_lookup. change (mk_struct [("_switch_string_ids", VList (map VInt ids))]) with (VPair (VNamed "_switch_string_ids" (VList (map VInt ids))) VUnit). rewrite vints_single.
  destruct (mapM_nth _ _ _ _ _ Hids Hn) as (sid & Hsid & Hnid).
  rewrite (swnm_go_nth L ids 0 j sid Hnid). rewrite N.add_0_l.
  destruct (id_by_str_resolves _ _ _ Hsmall Hsid) as [-> _]. reflexivity.
Qed.
