(* C06 for the string tables (STR: w = 2, STRx: w = 4): the decoded count, every decoded offset and the
   string data are read from exactly the places the format description gives them. *)
From Coq Require Import String NArith List Bool Lia PeanoNat.
From RC Require Import lib.Result lib.Bytes lib.Utf8 model.Layout model.Str proofs.Layout_proofs proofs.Layout_offsets.
Import ListNotations.
Local Open Scope N_scope.

Lemma read_offsets_spec w : forall fuel n bs offs rest,
  read_offsets fuel w n bs = Ok (offs, rest) ->
  N.of_nat (length offs) = n /\ rest = skipn (w * length offs) bs /\
  forall k, (k < length offs)%nat -> nth_error offs k = Some (le_decode (slice bs (w * k) w)).
Proof.
  induction fuel as [|fuel IH]; intros n bs offs rest H; simpl in H.
  - destruct (n =? 0) eqn:E; [|discriminate]. apply N.eqb_eq in E. inversion H; subst. simpl.
    rewrite Nat.mul_0_r. repeat split; auto. intros k Hk; lia.
  - destruct (n =? 0) eqn:E.
    + apply N.eqb_eq in E. inversion H; subst. simpl. rewrite Nat.mul_0_r. repeat split; auto. intros k Hk; lia.
    + apply N.eqb_neq in E.
      inv_bind H as vr Hu Hk. destruct vr as [v r1]. inv_bind Hk as p Hr Hk2. destruct p as [os r2].
      simpl in *. inversion Hk2; subst offs rest. clear Hk2.
      apply unpack_ok_inv in Hu as (Hl & -> & ->).
      destruct (IH _ _ _ _ Hr) as (Hn & -> & Hnth).
      split; [cbn [length]; rewrite Nat2N.inj_succ; lia|]. split.
      * simpl. rewrite skipn_skipn. f_equal. lia.
      * intros [|k] Hk; simpl.
        -- unfold slice. rewrite Nat.mul_0_r. simpl. reflexivity.
        -- simpl in Hk. rewrite (Hnth k) by lia. unfold slice. rewrite skipn_skipn.
           replace (w * S k)%nat with (w + w * k)%nat by lia. reflexivity.
Qed.

Theorem str_fields_at_spec_offsets w bs m :
  str_decode w bs = Ok m ->
  ss_num m = le_decode (slice bs 0 w) /\
  N.of_nat (length (ss_offsets m)) = ss_num m /\
  (forall k, (k < length (ss_offsets m))%nat ->
     nth_error (ss_offsets m) k = Some (le_decode (slice bs (w + w * k) w))) /\
  split_nul [] (skipn (w + w * length (ss_offsets m)) bs) = Ok (ss_strings m).
Proof.
  unfold str_decode. intros H.
  inv_bind H as nr Hn Hk. destruct nr as [n r1]. inv_bind Hk as p Ho Hk2. destruct p as [offs r2].
  inv_bind Hk2 as strs Hs Hk3. simpl in *. inversion Hk3; subst m. clear Hk3. simpl.
  apply unpack_ok_inv in Hn as (Hl & -> & ->).
  destruct (read_offsets_spec _ _ _ _ _ _ Ho) as (Hc & -> & Hnth).
  split; [reflexivity|]. split; [exact Hc|]. split.
  - intros k Hk. rewrite (Hnth k Hk). unfold slice. rewrite skipn_skipn. reflexivity.
  - rewrite skipn_skipn in Hs. exact Hs.
Qed.

(* each string is the run of bytes up to its terminating NUL, in order, starting where the offsets end;
   a byte >= 128 or a missing final NUL is an error, never a silently different text *)
Lemma split_nul_spec : forall bs cur strs,
  split_nul cur bs = Ok strs ->
  (bs = [] /\ cur = [] /\ strs = []) \/
  exists s rest strs', strs = (rev cur ++ s) :: strs' /\ bs = s ++ 0 :: rest /\
                       Forall (fun b => 0 < b < 128) s /\ split_nul [] rest = Ok strs'.
Proof.
  induction bs as [|b r IH]; intros cur strs H; simpl in H.
  - destruct cur; [inversion H; auto|discriminate].
  - destruct (128 <=? b) eqn:E1; [discriminate|]. apply N.leb_gt in E1.
    destruct (b =? 0) eqn:E0.
    + apply N.eqb_eq in E0. subst b. inv_bind H as rest Hr Hk. inversion Hk; subst strs.
      right. exists [], r, rest. rewrite app_nil_r. repeat split; auto.
    + apply N.eqb_neq in E0. destruct (IH _ _ H) as [(-> & Hc & _)|(s & rest & strs' & -> & -> & Hf & Hr)]; [discriminate|].
      right. exists (b :: s), rest, strs'. simpl. rewrite <- app_assoc. simpl. repeat split; auto.
      constructor; [lia|exact Hf].
Qed.
