(* What the strict UTF-8 decoder accepts, the encoder writes back byte for byte (all four length classes,
   overlong forms, surrogates and code points above U+10FFFF being rejected by the decoder). *)
From Coq Require Import String NArith ZArith List Bool Lia ZifyN ZifyBool.
From RC Require Import lib.Result lib.Bytes lib.Utf8 proofs.Layout_proofs.
Import ListNotations.
Local Open Scope N_scope.

Ltac Zify.zify_post_hook ::= Z.div_mod_to_equations.

Lemma is_cont_spec b : is_cont b = true -> 128 <= b < 192.
Proof. unfold is_cont. lia. Qed.

Lemma enc2 b0 b1 : 194 <= b0 < 224 -> 128 <= b1 < 192 ->
  utf8_encode_cp ((b0 - 192) * 64 + (b1 - 128)) = Ok [b0; b1].
Proof.
  intros H0 H1. unfold utf8_encode_cp.
  set (c := (b0 - 192) * 64 + (b1 - 128)).
  assert (Hc : 128 <= c < 2048) by (unfold c; lia).
  destruct (c <? 128) eqn:E1; [lia|]. destruct (c <? 2048) eqn:E2; [|lia].
  assert (c / 64 = b0 - 192) by (unfold c; lia).
  assert (c mod 64 = b1 - 128) by (unfold c; lia).
  rewrite H, H2. do 3 f_equal; lia.
Qed.

Lemma enc3 b0 b1 b2 : 224 <= b0 < 240 ->
  (if b0 =? 224 then 160 else 128) <= b1 < (if b0 =? 237 then 160 else 192) -> 128 <= b2 < 192 ->
  utf8_encode_cp ((b0 - 224) * 4096 + (b1 - 128) * 64 + (b2 - 128)) = Ok [b0; b1; b2].
Proof.
  intros H0 H1 H2. unfold utf8_encode_cp.
  set (c := (b0 - 224) * 4096 + (b1 - 128) * 64 + (b2 - 128)).
  assert (Hb1 : 128 <= b1 < 192) by (destruct (b0 =? 224), (b0 =? 237); lia).
  assert (Hc : 2048 <= c < 65536).
  { unfold c. destruct (b0 =? 224) eqn:E; [|destruct (b0 =? 237); lia]. destruct (b0 =? 237); lia. }
  assert (Hs : ~ (55296 <= c < 57344)).
  { unfold c. destruct (b0 =? 237) eqn:E; [destruct (b0 =? 224); lia|]. destruct (b0 =? 224); lia. }
  destruct (c <? 128) eqn:E1; [lia|]. destruct (c <? 2048) eqn:E2; [lia|]. destruct (c <? 65536) eqn:E3; [|lia].
  destruct ((55296 <=? c) && (c <? 57344)) eqn:E4; [lia|].
  assert (c / 4096 = b0 - 224) by (unfold c; lia).
  assert ((c / 64) mod 64 = b1 - 128) by (unfold c; lia).
  assert (c mod 64 = b2 - 128) by (unfold c; lia).
  rewrite H, H3, H4. do 4 f_equal; lia.
Qed.

Lemma enc4 b0 b1 b2 b3 : 240 <= b0 < 245 ->
  (if b0 =? 240 then 144 else 128) <= b1 < (if b0 =? 244 then 144 else 192) -> 128 <= b2 < 192 -> 128 <= b3 < 192 ->
  utf8_encode_cp ((b0 - 240) * 262144 + (b1 - 128) * 4096 + (b2 - 128) * 64 + (b3 - 128)) = Ok [b0; b1; b2; b3].
Proof.
  intros H0 H1 H2 H3. unfold utf8_encode_cp.
  set (c := (b0 - 240) * 262144 + (b1 - 128) * 4096 + (b2 - 128) * 64 + (b3 - 128)).
  assert (Hb1 : 128 <= b1 < 192) by (destruct (b0 =? 240), (b0 =? 244); lia).
  assert (Hc : 65536 <= c < 1114112).
  { unfold c. destruct (b0 =? 240) eqn:E; [destruct (b0 =? 244); lia|]. destruct (b0 =? 244) eqn:E'; lia. }
  destruct (c <? 128) eqn:E1; [lia|]. destruct (c <? 2048) eqn:E2; [lia|]. destruct (c <? 65536) eqn:E3; [lia|].
  destruct (c <? 1114112) eqn:E4; [|lia].
  assert (c / 262144 = b0 - 240) by (unfold c; lia).
  assert ((c / 4096) mod 64 = b1 - 128) by (unfold c; lia).
  assert ((c / 64) mod 64 = b2 - 128) by (unfold c; lia).
  assert (c mod 64 = b3 - 128) by (unfold c; lia).
  rewrite H, H4, H5, H6. do 5 f_equal; lia.
Qed.

Theorem utf8_decode_encode : forall fuel bs s, utf8_decode_fuel fuel bs = Ok s -> utf8_encode s = Ok bs.
Proof.
  induction fuel as [|fuel IH]; intros bs s H.
  - destruct bs; simpl in H; inversion H; reflexivity.
  - destruct bs as [|b0 r0]; [simpl in H; inversion H; reflexivity|].
    cbn [utf8_decode_fuel] in H.
    destruct (b0 <? 128) eqn:E0.
    { inv_bind H as t Ht Hk. inversion Hk; subst s. cbn [utf8_encode]. unfold utf8_encode_cp. rewrite E0.
      cbn [bind]. rewrite (IH _ _ Ht). reflexivity. }
    destruct ((194 <=? b0) && (b0 <? 224)) eqn:E2.
    { destruct r0 as [|b1 r1]; [discriminate|]. destruct (is_cont b1) eqn:C1; [|discriminate].
      inv_bind H as t Ht Hk. inversion Hk; subst s. cbn [utf8_encode].
      rewrite enc2 by (try apply is_cont_spec; auto; lia). cbn [bind]. rewrite (IH _ _ Ht). reflexivity. }
    destruct ((224 <=? b0) && (b0 <? 240)) eqn:E3.
    { destruct r0 as [|b1 [|b2 r2]]; try discriminate.
      match type of H with (if ?c then _ else _) = _ => destruct c eqn:C end; [|discriminate].
      apply andb_true_iff in C as [C C2]. apply andb_true_iff in C as [Cl Ch].
      inv_bind H as t Ht Hk. inversion Hk; subst s. cbn [utf8_encode].
      rewrite enc3; [cbn [bind]; rewrite (IH _ _ Ht); reflexivity | lia | | apply is_cont_spec; exact C2].
      split; [apply N.leb_le; exact Cl | apply N.ltb_lt; exact Ch]. }
    destruct ((240 <=? b0) && (b0 <? 245)) eqn:E4; [|discriminate].
    destruct r0 as [|b1 [|b2 [|b3 r3]]]; try discriminate.
    match type of H with (if ?c then _ else _) = _ => destruct c eqn:C end; [|discriminate].
    apply andb_true_iff in C as [C C3]. apply andb_true_iff in C as [C C2]. apply andb_true_iff in C as [Cl Ch].
    inv_bind H as t Ht Hk. inversion Hk; subst s. cbn [utf8_encode].
    rewrite enc4; [cbn [bind]; rewrite (IH _ _ Ht); reflexivity | lia | | apply is_cont_spec; exact C2 | apply is_cont_spec; exact C3].
    split; [apply N.leb_le; exact Cl | apply N.ltb_lt; exact Ch].
Qed.

Corollary utf8_roundtrip bs s : utf8_decode bs = Ok s -> utf8_encode s = Ok bs.
Proof. apply utf8_decode_encode. Qed.
