(* String numbers are stable under growth: the id -> text lookup of a grown STR table is the old lookup followed by
   the new texts, none of which the old lookup held.  Hence every text that had an id keeps exactly that id in
   everything the save writes (C07: existing references are not renumbered; C04: a new text gets an id of its own). *)
From Coq Require Import String NArith List Bool Lia PeanoNat.
From RC Require Import lib.Result lib.Bytes model.Layout model.Str model.StrEditor model.RichCodec proofs.Layout_proofs proofs.C08_proofs.
Import ListNotations.
Local Open Scope list_scope.
Local Open Scope N_scope.

Lemma mapM_of_Forall2 {A B} (f : A -> result B) l r : Forall2 (fun a b => f a = Ok b) l r -> mapM f l = Ok r.
Proof. induction 1 as [|a b l r Hab _ IH]; simpl; [reflexivity | rewrite Hab, IH; reflexivity]. Qed.

Lemma Forall2_of_mapM {A B} (f : A -> result B) l : forall r, mapM f l = Ok r -> Forall2 (fun a b => f a = Ok b) l r.
Proof.
  induction l as [|x l IH]; intros r H; simpl in H.
  - inversion H; constructor.
  - inv_bind H as y Hy Hk. inv_bind Hk as ys Hys Hk2. inversion Hk2; subst. constructor; auto.
Qed.

Lemma Forall2_of_nth {A B} (P : A -> B -> Prop) : forall l r,
  length l = length r ->
  (forall i a b, nth_error l i = Some a -> nth_error r i = Some b -> P a b) -> Forall2 P l r.
Proof.
  induction l as [|a l IH]; intros [|b r] Hlen H; simpl in Hlen; try discriminate; constructor.
  - apply (H 0%nat); reflexivity.
  - apply IH; [lia|]. intros i x y Hx Hy. apply (H (S i)); assumption.
Qed.

(* ---- the lookup of a grown table -------------------------------------------------------------------------------------- *)

Theorem add_strings_lookup w req t bin t' T T' :
  wf_table w t bin -> Forall clean req -> add_strings w req t = Ok t' ->
  build_lookup w t = Ok T -> build_lookup w t' = Ok T' ->
  exists U, T' = T ++ U /\ NoDup U /\ (forall s, In s U -> In s req /\ ~ In s T) /\ (forall s, In s req -> In s (T ++ U)).
Proof.
  intros Hwf Hreq Hadd HT HT'.
  unfold build_lookup in HT. rewrite (wf_enc _ _ _ Hwf) in HT. simpl in HT.
  destruct (add_unfold w req t t' bin Hwf Hadd) as (existing & Hex & Hcase).
  rewrite HT in Hex. inversion Hex; subst existing. clear Hex.
  pose proof (make_unique_spec req T [] (NoDup_nil _) (fun s (H : In s []) => match H with end))
    as (Hnd & Hsub & Hcov & _).
  destruct Hcase as [[Hu ->] | [Hu ->]].
  - (* nothing added *)
    unfold build_lookup in HT'. rewrite (wf_enc _ _ _ Hwf) in HT'. simpl in HT'. rewrite HT in HT'. inversion HT'; subst T'.
    exists []. rewrite app_nil_r. split; [reflexivity|]. split; [constructor|]. split; [intros s []|].
    intros s Hs. destruct (Hcov s Hs) as [Hin|Hin]; [assumption|]. unfold uniq_of in Hu. rewrite Hu in Hin. destruct Hin.
  - set (U := uniq_of req T) in *. fold (grown w t bin U) in HT'.
    assert (Forall clean U) as HU.
    { apply Forall_forall. intros s Hs. destruct (Hsub s Hs) as [[[]|Hr] _].
      rewrite Forall_forall in Hreq. apply Hreq. assumption. }
    unfold build_lookup in HT'. inv_bind HT' as bin' He' HT'.
    exists U. split; [|split; [assumption|split]].
    + (* the grown lookup is the old one followed by the new texts *)
      assert (mapM (resolve bin') (ss_offsets (grown w t bin U)) = Ok (T ++ U)) as Hm; [|congruence].
      apply mapM_of_Forall2. apply Forall2_of_nth.
      * simpl. rewrite !app_length, map_length, new_offsets_length. rewrite (mapM_length _ _ _ HT). reflexivity.
      * intros i o' s Ho' Hs.
        destruct (Nat.lt_ge_cases i (length (ss_offsets t))) as [Hlt|Hge].
        -- destruct (nth_error (ss_offsets t) i) as [o|] eqn:En; [|apply nth_error_None in En; lia].
           destruct (mapM_nth _ _ _ _ _ HT En) as (s0 & Hr0 & Hn0).
           rewrite nth_error_app1 in Hs by (rewrite (mapM_length _ _ _ HT); assumption).
           rewrite Hn0 in Hs. inversion Hs; subst s0.
           destruct (grown_preserves _ _ _ _ _ _ _ _ Hwf HU He' En Hr0) as (o2 & Hn2 & Hr2). congruence.
        -- pose proof (mapM_length _ _ _ HT) as HL.
           rewrite nth_error_app2 in Hs by lia. rewrite HL in Hs.
           destruct (grown_new_resolves _ _ _ _ _ _ _ Hwf HU He' Hs) as (o2 & Hn2 & Hr2).
           replace (length (ss_offsets t) + (i - length (ss_offsets t)))%nat with i in Hn2 by lia. congruence.
    + intros s Hs. destruct (Hsub s Hs) as [[[]|Hr] Hne]. auto.
    + intros s Hs. apply in_or_app. destruct (Hcov s Hs); auto.
Qed.

(* ---- ids ---------------------------------------------------------------------------------------------------------------- *)

Lemma last_id_of_app s : forall a b next found,
  last_id_of s (a ++ b) next found = last_id_of s b (next + N.of_nat (length a)) (last_id_of s a next found).
Proof.
  induction a as [|x a IH]; intros b next found; simpl.
  - rewrite N.add_0_r. reflexivity.
  - rewrite IH. f_equal. lia.
Qed.

Lemma last_id_of_notin s : forall b next found, ~ In s b -> last_id_of s b next found = found.
Proof.
  induction b as [|x b IH]; intros next found H; simpl; [reflexivity|].
  rewrite IH by (intros Hc; apply H; right; assumption).
  destruct (list_N_eqb s x) eqn:E; [|reflexivity]. apply list_N_eqb_eq in E. subst. exfalso. apply H. left. reflexivity.
Qed.

(* a text absent from the added part keeps the id it had (in particular: every text the old table resolves) *)
Theorem id_stable_under_growth T U s : ~ In s U -> id_by_string (T ++ U) s = id_by_string T s.
Proof. intros H. unfold id_by_string. rewrite last_id_of_app. apply last_id_of_notin. assumption. Qed.

Lemma last_id_of_found s : forall b next found i,
  last_id_of s b next found = Some i -> found = Some i \/ (next <= i /\ i < next + N.of_nat (length b) /\
                                                         nth_error b (N.to_nat (i - next)) = Some s).
Proof.
  induction b as [|x b IH]; intros next found i H; simpl in H; [left; assumption|].
  apply IH in H as [H|(H1 & H2 & H3)].
  - destruct (list_N_eqb s x) eqn:E; [|left; assumption]. apply list_N_eqb_eq in E. subst x.
    inversion H; subst i. right. split; [lia|]. split; [simpl; lia|]. rewrite N.sub_diag. reflexivity.
  - right. split; [lia|]. split; [simpl length; lia|].
    replace (N.to_nat (i - next)) with (S (N.to_nat (i - (next + 1)))) by lia. exact H3.
Qed.

(* the id the lookup gives for a text resolves to that text: ids are 1-based positions *)
Theorem id_by_string_sound T s i : id_by_string T s = Some i -> 1 <= i /\ nth_error T (N.to_nat (i - 1)) = Some s.
Proof.
  unfold id_by_string. intros H. apply last_id_of_found in H as [H|(H1 & _ & H3)]; [discriminate|]. auto.
Qed.

Lemma last_id_of_in s : forall b next found, In s b -> exists i, last_id_of s b next found = Some i.
Proof.
  induction b as [|x b IH]; intros next found Hin; [destruct Hin|]. destruct Hin as [->|H]; simpl.
  - rewrite (proj2 (list_N_eqb_eq s s) eq_refl).
    destruct (in_dec (list_eq_dec N.eq_dec) s b) as [Hin|Hout]; [apply IH; assumption|].
    rewrite last_id_of_notin by assumption. eauto.
  - apply IH; assumption.
Qed.

Theorem id_by_string_complete T s : In s T -> exists i, id_by_string T s = Some i.
Proof. apply last_id_of_in. Qed.

(* on rich strings *)
Definition known (L : str_lookup) (s : rstr) : Prop := match s with RNull => True | RText t => In t (sl_by_id L) end.

Theorem id_by_str_stable T U s :
  known {| sl_by_id := T |} s -> (forall t, s = RText t -> ~ In t U) ->
  id_by_str {| sl_by_id := T ++ U |} s = id_by_str {| sl_by_id := T |} s.
Proof.
  destruct s as [|t]; intros Hk Hn; [reflexivity|]. simpl. rewrite id_stable_under_growth; [reflexivity|]. apply Hn. reflexivity.
Qed.

(* what decode hands out is known to the lookup it came from *)
Lemma str_by_id_known L id : known L (str_by_id L id).
Proof.
  unfold str_by_id. destruct (id =? 0); [exact I|].
  destruct (nth_error _ _) eqn:E; [|exact I]. simpl. eapply nth_error_In; eauto.
Qed.

(* ---- section encoders that consult the string lookup only through id_by_str ------------------------------------------------ *)

Lemma mapM_ext_in {A B} (f g : A -> result B) l : (forall x, In x l -> f x = g x) -> mapM f l = mapM g l.
Proof.
  induction l as [|x l IH]; intros H; simpl; [reflexivity|].
  rewrite (H x (or_introl eq_refl)), IH; [reflexivity|]. intros y Hy. apply H. right. assumption.
Qed.

Lemma assocN_last_in {A} k (l : list (N * A)) v : assocN_last k l = Some v -> In (k, v) l.
Proof.
  induction l as [|[k' v'] l IH]; simpl; intros H; [discriminate|].
  destruct (assocN_last k l) as [x|] eqn:E.
  - inversion H; subst. right. apply IH. reflexivity.
  - destruct (k =? k') eqn:Ek; [|discriminate]. apply N.eqb_eq in Ek. inversion H; subst. left. reflexivity.
Qed.

(* two lookups that give every text of a set the same id *)
Definition agree_on (L L' : str_lookup) (P : rstr -> Prop) : Prop := forall s, P s -> id_by_str L' s = id_by_str L s.

Theorem wav_encode_agree L L' ws :
  agree_on L L' (fun s => In s (map fst ws)) -> wav_encode L' ws = wav_encode L ws.
Proof.
  intros Ha. unfold wav_encode.
  match goal with |- bind (mapM ?f ?l) _ = bind (mapM ?g ?l) _ => assert (mapM f l = mapM g l) as ->; [|reflexivity] end.
  apply mapM_ext_in. intros i _.
  destruct (assocN_last i (map (fun w => (snd w, fst w)) ws)) as [p|] eqn:E; [|reflexivity].
  apply Ha. apply assocN_last_in in E. apply in_map_iff in E as ([s k] & Heq & Hin). simpl in Heq. inversion Heq; subst.
  apply in_map_iff. exists (p, i). auto.
Qed.

Theorem swnm_encode_agree L L' ss :
  agree_on L L' (fun s => In s (map s_name ss)) -> swnm_encode L' ss = swnm_encode L ss.
Proof.
  intros Ha. unfold swnm_encode.
  match goal with |- bind (mapM ?f ?l) _ = bind (mapM ?g ?l) _ => assert (mapM f l = mapM g l) as ->; [|reflexivity] end.
  apply mapM_ext_in. intros x Hx. apply Ha. apply in_map. assumption.
Qed.

Theorem loc_encode_agree L L' l : agree_on L L' (fun s => s = l_name l) -> loc_encode L' l = loc_encode L l.
Proof. intros Ha. unfold loc_encode. rewrite (Ha (l_name l) eq_refl). reflexivity. Qed.

Lemma fold_left_ext_in {A B} (f g : A -> B -> A) l : forall a,
  (forall a x, In x l -> f a x = g a x) -> fold_left f l a = fold_left g l a.
Proof.
  induction l as [|x l IH]; intros a H; simpl; [reflexivity|].
  rewrite (H a x (or_introl eq_refl)). apply IH. intros b y Hy. apply H. right. assumption.
Qed.

Theorem unis_encode_agree L L' nw us :
  agree_on L L' (fun s => In s (map u_name us)) -> unis_encode L' nw us = unis_encode L nw us.
Proof.
  intros Ha. unfold unis_encode.
  match goal with |- bind (fold_left ?f ?l ?a) _ = bind (fold_left ?g ?l ?a) _ =>
    assert (fold_left f l a = fold_left g l a) as ->; [|reflexivity] end.
  apply fold_left_ext_in. intros acc x Hx.
  rewrite (Ha (u_name x)) by (apply in_map; assumption). reflexivity.
Qed.

(* two growths of one table agree on everything the original table knew *)
Theorem growths_agree T U U' :
  (forall s, In s U -> ~ In s T) -> (forall s, In s U' -> ~ In s T) ->
  agree_on {| sl_by_id := T ++ U |} {| sl_by_id := T ++ U' |} (known {| sl_by_id := T |}).
Proof.
  intros HU HU' s Hk. destruct s as [|t]; [reflexivity|]. simpl in Hk. simpl.
  rewrite !id_stable_under_growth; [reflexivity | |]; intros Hc; [eapply HU | eapply HU']; eauto.
Qed.

(* ---- every string number the save writes denotes the text it was written for ------------------------------------------ *)

(* the id the lookup gives a rich string reads back as that string (0 for "no string"), and lies inside the table *)
Theorem id_by_str_resolves L s i :
  N.of_nat (length (sl_by_id L)) <= 1000000 ->
  id_by_str L s = Ok i ->
  str_by_id L i = s /\ (i = 0 \/ (1 <= i /\ i <= N.of_nat (length (sl_by_id L)))).
Proof.
  intros Hsmall H. destruct s as [|t]; simpl in H.
  - inversion H; subst i. split; [reflexivity | left; reflexivity].
  - destruct (id_by_string (sl_by_id L) t) as [j|] eqn:E; [|discriminate]. inversion H; subst j. clear H.
    destruct (id_by_string_sound _ _ _ E) as [H1 Hn].
    assert (N.to_nat (i - 1) < length (sl_by_id L))%nat as Hlt by (apply nth_error_Some; congruence).
    split.
    + unfold str_by_id. replace (i =? 0) with false by (symmetry; apply N.eqb_neq; lia).
      rewrite N.min_l by lia. rewrite Hn. reflexivity.
    + right. lia.
Qed.

Lemma vints_single f ids : vints f (VPair (VNamed f (VList (map VInt ids))) VUnit) = ids.
Proof.
  unfold vints, vlist. cbn [vfield]. rewrite String.eqb_refl. induction ids; simpl; [reflexivity | f_equal; assumption].
Qed.

(* ... in particular for every switch name, sound path, unit name and location name of the emitted sections *)
Theorem swnm_ids_are_valid L ss v :
  N.of_nat (length (sl_by_id L)) <= 1000000 -> swnm_encode L ss = Ok v ->
  Forall (fun i => i = 0 \/ (1 <= i /\ i <= N.of_nat (length (sl_by_id L)))) (vints "_switch_string_ids" v).
Proof.
  intros Hs H. unfold swnm_encode in H. inv_bind H as ids Hids Hk. inversion Hk; subst v.
  rewrite vints_single.
  apply Forall_forall. intros i Hi. destruct (mapM_in _ _ _ _ Hids Hi) as (k & s & Hn & Hf).
  exact (proj2 (id_by_str_resolves L (s_name s) i Hs Hf)).
Qed.

Theorem loc_name_id_is_valid L l v :
  N.of_nat (length (sl_by_id L)) <= 1000000 -> loc_encode L l = Ok v ->
  str_by_id L (vint "_string_id" v) = l_name l /\
  (vint "_string_id" v = 0 \/ (1 <= vint "_string_id" v /\ vint "_string_id" v <= N.of_nat (length (sl_by_id L)))).
Proof.
  intros Hs H. unfold loc_encode in H. inv_bind H as sid Hsid Hk. inv_bind Hk as fl Hfl Hk2. inversion Hk2; subst v.
  match goal with |- context [vint "_string_id" ?x] => change (vint "_string_id" x) with sid end.
  exact (id_by_str_resolves L (l_name l) sid Hs Hsid).
Qed.
