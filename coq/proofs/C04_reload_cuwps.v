(* C04, end to end for UNIT-PROPERTY arguments: the number a save writes into a Create-Unit-with-Properties action is resolved,
   by the context a later load of the saved map builds, to a set with properties equal to the authored ones. *)
From Coq Require Import String NArith List Bool Lia PeanoNat.
From RC Require Import lib.Result lib.Bytes model.Layout model.Str model.ChkIo model.RichCodec model.RichIo
  proofs.Layout_proofs proofs.C08_proofs proofs.Save_strings proofs.C07_slots proofs.C07_triggers proofs.C04_locations
  proofs.C04_cuwps proofs.C04_reload proofs.C04_reload_locs gen.GenConsts.
Import ListNotations.
Local Open Scope string_scope.
Local Open Scope list_scope.
Local Open Scope N_scope.

(* the save writes exactly ONE section named UPRP: the encoding of the rebuilt table, at the place of the map's own UPRP
   section or, when the map has none, appended *)
Theorem the_saved_uprp_section wd r d' up :
  save wd r = Ok d' -> rebuild_uprp r = Ok up ->
  (forall s, In s r -> named "UPRP" s = true -> exists cs, s = RUprp cs) ->      (* nothing else goes by that name *)
  (length (filter (named "UPRP") r) <= 1)%nat ->
  exists v, uprp_encode up = Ok v /\ tabs_named "UPRP" d' = [v].
Proof.
  unfold save. intros H Hup Honly Hone.
  inv_bind H as new_str H1 H. inv_bind H as mr H2 H. inv_bind H as sw H3 H. inv_bind H as up' H4 H.
  inv_bind H as us H5 H. inv_bind H as SL H6 H. inv_bind H as chk H7 H. inv_bind H as secs Hm H.
  inv_bind H as e1 He1 H. inv_bind H as e2 He2 H.
  match type of H with Ok ?q = Ok _ => assert (d' = q) as -> by congruence end. clear H.
  rewrite Hup in H4. inversion H4; subst up'. clear H4.
  rewrite !tabs_named_app.
  assert (tabs_named "UPRP" e1 = []) as ->.
  { match type of He1 with (if ?c then _ else _) = _ => destruct c end; [inversion He1; reflexivity|].
    inv_bind He1 as v1 Hv1 Hk1. inversion Hk1; reflexivity. }
  assert (forall (c : bool), tabs_named "UPRP" (if c then [] else [DTab "UPUS" us]) = []) as Hx3 by (intros [|]; reflexivity).
  rewrite Hx3, app_nil_r.
  (* what the sections at their places contribute *)
  assert (forall s d, In s r ->
            (fun s0 : rsection =>
               match s0 with
               | RMrgn _ => do v <- mrgn_encode SL (fst mr); Ok (DTab "MRGN" v)
               | RTrig ts => do v <- trig_encode {| cx_str := SL; cx_locs := fst mr; cx_loc_ids := snd mr; cx_switch_by_id := [];
                                                    cx_switch_ids := snd sw; cx_cuwps := up; cx_wav_dur := wd |} ts; Ok (DTab "TRIG" v)
               | RUnis nw n us0 => do v <- unis_encode SL nw us0; Ok (DTab n v)
               | RUprp _ => do v <- uprp_encode up; Ok (DTab "UPRP" v)
               | RSwnm _ => do v <- swnm_encode SL (fst sw); Ok (DTab "SWNM" v)
               | RWav ws => do v <- wav_encode SL ws; Ok (DTab "WAV " v)
               | RDecodedStr n w m => if String.eqb n "STR " then Ok (DStr n w new_str) else Ok (DStr n w m)
               | RDecodedTab n v => if String.eqb n "UPUS" then Ok (DTab n us) else Ok (DTab n v)
               | RUnknown n p => Ok (DUnknown n p)
               end) s = Ok d ->
            tabs_named "UPRP" [d] = match s with RUprp _ => match uprp_encode up with Ok v => [v] | Raise _ => [] end | _ => [] end)
    as Hpart.
  { intros s d Hin Hd. destruct s as [ls0|ts|nw n usx|cs|ss|ws|n w m|n v0|n p]; cbn beta iota in Hd.
    - inv_bind Hd as x Hx Hkx. inversion Hkx; reflexivity.
    - inv_bind Hd as x Hx Hkx. inversion Hkx; reflexivity.
    - inv_bind Hd as x Hx Hkx. inversion Hkx; subst d. unfold tabs_named. cbn [flat_map app].
      destruct (String.eqb n "UPRP") eqn:En; [|reflexivity].
      exfalso. destruct (Honly _ Hin) as [cs Hcs]; [cbn [named]; rewrite String.eqb_sym; exact En | discriminate].
    - inv_bind Hd as x Hx Hkx. inversion Hkx; subst d. rewrite Hx. reflexivity.
    - inv_bind Hd as x Hx Hkx. inversion Hkx; reflexivity.
    - inv_bind Hd as x Hx Hkx. inversion Hkx; reflexivity.
    - destruct (String.eqb n "STR "); inversion Hd; reflexivity.
    - destruct (String.eqb n "UPUS") eqn:Eu; inversion Hd; subst d; unfold tabs_named; cbn [flat_map app].
      + apply String.eqb_eq in Eu. subst n. reflexivity.
      + destruct (String.eqb n "UPRP") eqn:En; [|reflexivity].
        exfalso. destruct (Honly _ Hin) as [cs Hcs]; [cbn [named]; rewrite String.eqb_sym; exact En | discriminate].
    - inversion Hd; reflexivity. }
  (* generalise over r for the induction *)
  assert (forall r0 secs0, (forall s, In s r0 -> In s r) ->
            mapM (fun s0 : rsection =>
               match s0 with
               | RMrgn _ => do v <- mrgn_encode SL (fst mr); Ok (DTab "MRGN" v)
               | RTrig ts => do v <- trig_encode {| cx_str := SL; cx_locs := fst mr; cx_loc_ids := snd mr; cx_switch_by_id := [];
                                                    cx_switch_ids := snd sw; cx_cuwps := up; cx_wav_dur := wd |} ts; Ok (DTab "TRIG" v)
               | RUnis nw n us0 => do v <- unis_encode SL nw us0; Ok (DTab n v)
               | RUprp _ => do v <- uprp_encode up; Ok (DTab "UPRP" v)
               | RSwnm _ => do v <- swnm_encode SL (fst sw); Ok (DTab "SWNM" v)
               | RWav ws => do v <- wav_encode SL ws; Ok (DTab "WAV " v)
               | RDecodedStr n w m => if String.eqb n "STR " then Ok (DStr n w new_str) else Ok (DStr n w m)
               | RDecodedTab n v => if String.eqb n "UPUS" then Ok (DTab n us) else Ok (DTab n v)
               | RUnknown n p => Ok (DUnknown n p)
               end) r0 = Ok secs0 ->
            tabs_named "UPRP" secs0 =
            flat_map (fun s => match s with RUprp _ => match uprp_encode up with Ok v => [v] | Raise _ => [] end | _ => [] end) r0)
    as Hall.
  { induction r0 as [|s r0 IH]; intros secs0 Hsub Hm0; simpl in Hm0.
    - inversion Hm0; reflexivity.
    - inv_bind Hm0 as d Hd Hk. inv_bind Hk as ds Hds Hk2. inversion Hk2; subst secs0.
      change (d :: ds) with ([d] ++ ds). rewrite tabs_named_app, (Hpart s d (Hsub s (or_introl eq_refl)) Hd).
      rewrite (IH ds (fun s0 Hs0 => Hsub s0 (or_intror Hs0)) Hds). reflexivity. }
  rewrite (Hall r secs (fun s Hs => Hs) Hm).
  (* has "UPRP" is about the same constructor *)
  destruct (existsb (fun s : rsection => match s with RUprp _ => true | _ => false end) r) eqn:Ehas.
  - (* the map has a UPRP section: it was encoded there, nothing is appended *)
    apply existsb_exists in Ehas as (s0 & Hs0 & Hc). destruct s0; try discriminate.
    destruct (In_nth_error _ _ Hs0) as [ix Hix]. destruct (mapM_nth _ _ _ _ _ Hm Hix) as (dm & Hdm & _). cbn beta iota in Hdm.
    inv_bind Hdm as v Hv Hk. exists v. split; [exact Hv|]. rewrite Hv.
    assert (tabs_named "UPRP" e2 = []) as ->.
    { match type of He2 with (if ?c then _ else _) = _ =>
        assert (c = true) as Hc2; [|rewrite Hc2 in He2; inversion He2; reflexivity] end.
      apply existsb_exists. exists (RUprp cs). split; [exact Hs0|]. reflexivity. }
    rewrite app_nil_r.
    (* exactly one RUprp in r *)
    clear -Hone Hs0. induction r as [|s r IH]; [destruct Hs0|]. cbn [filter] in Hone. cbn [flat_map].
    destruct Hs0 as [->|Hin].
    + cbn [named] in Hone. rewrite String.eqb_refl in Hone. cbn [length] in Hone.
      assert (filter (named "UPRP") r = []) as Hnil by (destruct (filter (named "UPRP") r); [reflexivity | simpl in Hone; lia]).
      assert (flat_map (fun s => match s with RUprp _ => [v] | _ => [] end) r = []) as ->; [|reflexivity].
      clear -Hnil. induction r as [|s r IH]; [reflexivity|]. cbn [filter] in Hnil. destruct (named "UPRP" s) eqn:En; [discriminate|].
      cbn [flat_map]. rewrite (IH Hnil). destruct s; try reflexivity. cbn [named] in En. rewrite String.eqb_refl in En. discriminate.
    + destruct (named "UPRP" s) eqn:En.
      * exfalso. assert (In (RUprp cs) (filter (named "UPRP") r)) as Hx by (apply filter_In; split; [exact Hin | cbn [named]; apply String.eqb_refl]).
        cbn [length] in Hone. destruct (filter (named "UPRP") r); [destruct Hx | simpl in Hone; lia].
      * rewrite (IH Hone Hin). destruct s; try reflexivity. cbn [named] in En. rewrite String.eqb_refl in En. discriminate.
  - (* the map has none: the rebuilt table is appended *)
    assert (flat_map (fun s => match s with RUprp _ => match uprp_encode up with Ok v => [v] | Raise _ => [] end | _ => [] end) r = []) as ->.
    { clear -Ehas. induction r as [|s r IH]; [reflexivity|]. cbn [existsb] in Ehas. apply orb_false_iff in Ehas as [E1 E2].
      cbn [flat_map]. rewrite (IH E2). destruct s; try reflexivity. discriminate. }
    match type of He2 with (if ?c then _ else _) = _ => assert (c = false) as Hc2 end.
    { apply not_true_is_false. intros Hc. apply existsb_exists in Hc as (s0 & Hs0 & Hq).
      apply not_true_iff_false in Ehas. apply Ehas. apply existsb_exists. exists s0. split; [exact Hs0|].
      destruct s0; try discriminate; try reflexivity. apply andb_true_iff in Hq as [Hq1 Hq2].
      apply String.eqb_eq in Hq1. apply String.eqb_eq in Hq2. subst. discriminate. }
    rewrite Hc2 in He2. inv_bind He2 as v Hv Hk. inversion Hk; subst e2. exists v. split; [exact Hv|]. reflexivity.
Qed.

(* end to end: the number written for a unit-property set, looked up in the context a later load of the saved map builds *)
Theorem cuwp_number_resolves_after_reload wd r d' cx' cs up cx c i v slot :
  save wd r = Ok d' -> decode_context d' = Ok cx' ->
  filter (named "UPRP") r = [RUprp cs] -> rebuild_uprp r = Ok up -> cx_cuwps cx = up ->
  NoDup (map fst (cby_idx cs)) ->
  (forall s, In s r -> named "UPRP" s = true -> exists cs0, s = RUprp cs0) ->
  (forall x, In x up -> length (c_vs x) = 6%nat /\ length (c_vu x) = 7%nat /\ length (c_flags x) = 5%nat) ->
  id_by_cuwp cx c = Ok i -> 1 <= i ->
  (* the slot of the emitted table that carries this number, not all zero *)
  uprp_encode up = Ok v -> nth_error (vlist "_cuwp_slots" v) (N.to_nat (i - 1)) = Some slot -> cuwp_is_unused slot = false ->
  exists k,
    rcuwp_eqb c k = true /\
    cuwp_by_id cx' i = Some {| c_hp := c_hp k; c_sh := c_sh k; c_en := c_en k; c_res := c_res k; c_hang := c_hang k;
                               c_flags := c_flags k; c_vs := c_vs k; c_vu := c_vu k; c_unk := c_unk k; c_pad := c_pad k;
                               c_idx := Some i |}.
Proof.
  intros Hs Hc Hf Hup Hcx Hnd Honly Hlens Hid Hi Hv Hslot Hu.
  destruct (saved_cuwp_number_names_the_set r cs up cx c i Hf Hup Hcx Hnd Hid) as (k & Hk & He).
  destruct (the_saved_uprp_section wd r d' up Hs Hup Honly) as (v' & Hv' & Htabs); [rewrite Hf; simpl; lia|].
  rewrite Hv in Hv'. inversion Hv'; subst v'.
  destruct (saved_cuwp_table_reads_back up v Hv Hlens) as (cs' & Hdec & Hread).
  assert (cx_cuwps cx' = cs') as Hcw.
  { unfold decode_context in Hc. inv_bind Hc as str Hstr' Hk1. inv_bind Hk1 as L0 HL0 Hk2. inv_bind Hk2 as mv Hmv Hk3.
    inv_bind Hk3 as locs Hlocs Hk4. inv_bind Hk4 as cw Hcw Hk5. inversion Hk5; subst cx'. cbn [cx_cuwps].
    rewrite Htabs in Hcw. rewrite Hdec in Hcw. inversion Hcw. reflexivity. }
  exists k. split; [exact He|].
  unfold cuwp_by_id. rewrite Hcw. fold (cby_idx cs').
  pose proof (Hread (N.to_nat (i - 1)) k slot) as Hr. rewrite N2Nat.id in Hr. replace (i - 1 + 1) with i in Hr by lia.
  rewrite (Hr Hk Hslot Hu). reflexivity.
Qed.
