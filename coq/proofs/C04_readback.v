(* C04, "loading the saved map returns rich objects equal to the authored ones", for one trigger entry of ANY of the 51
   action and 22 condition types: the record written for an authored entry is read back, through the registered
   transcoder of that same type, as an entry of the same type, with the same flags, and with every argument the image of
   what was authored under decode-after-encode of its codec.  The argument codecs that need no object table (plain
   numbers, enumerations, AI scripts) and the string codecs are then shown to invert, so that for those arguments the
   value read back IS the authored one. *)
From Coq Require Import String NArith List Bool Lia PeanoNat.
From RC Require Import lib.Result lib.Bytes model.Layout model.Flags model.TrigTable model.RichCodec model.Str
  proofs.Layout_proofs proofs.Flags_proofs proofs.C05_proofs proofs.C08_proofs proofs.C10_proofs proofs.C04_proofs
  proofs.C12_proofs proofs.Save_strings proofs.Utf8_inverse lib.Utf8 gen.GenTrig spec.SpecTrig gen.GenFlags gen.GenEnums.
Import ListNotations.
Local Open Scope string_scope.
Local Open Scope list_scope.
Local Open Scope N_scope.

Lemma rec_get_val_rec fields v f : In f fields -> rec_get f (val_rec fields v) = Ok (vint f v).
Proof.
  unfold val_rec. induction fields as [|g fs IH]; intros Hin; [destruct Hin|]. simpl.
  destruct (String.eqb_spec f g) as [->|Hne]; [reflexivity|]. destruct Hin as [->|Hin]; [contradiction|]. auto.
Qed.

Lemma rec_get_map_flags_hit x r y : rec_get "_flags" r = Ok y ->
  rec_get "_flags" (map (fun p : string * N => if String.eqb (fst p) "_flags" then (fst p, x) else p) r) = Ok x.
Proof.
  induction r as [|[g v] r IH]; cbn [rec_get map fst]; intros H; [discriminate|].
  destruct (String.eqb_spec g "_flags") as [->|Hg]; cbn [rec_get].
  - rewrite String.eqb_refl. reflexivity.
  - destruct (String.eqb_spec "_flags" g) as [E|_]; [symmetry in E; contradiction|]. auto.
Qed.

Lemma map_snd_combine {A B} (a : list A) (b : list B) : length a = length b -> map snd (combine a b) = b.
Proof.
  revert b. induction a as [|x a IH]; intros [|y b] H; simpl in *; try discriminate; [reflexivity|].
  f_equal. apply IH. lia.
Qed.

(* what the specification tables are checked for, once, by computation *)
Definition spec_entry_ok (fields : list string) (idf : string) (s : spec_entry) : bool :=
  src_eqb (expected_src s idf) EOwnId
  && forallb (fun row => let '(a, c, f) := row in
                (src_eqb (expected_src s f) (EArg c a) || (src_eqb (expected_src s f) EWavDuration && codec_eqb c CRaw))
                && existsb (String.eqb f) fields && negb (String.eqb f "_flags"))
             (se_args s).

Section Readback.
  Variable table : list trig_entry.
  Variable spec : list spec_entry.
  Variable fields : list string.
  Variable idf enum : string.
  Variable flagc : flag_codec.
  Variable nflags : nat.

  Hypothesis Hmatch : tables_match fields table spec = true.
  Hypothesis Hspec : forallb (spec_entry_ok fields idf) spec = true.
  Hypothesis Hkeys : forallb (fun g => enum_has enum (te_key g) && negb (te_key g =? NO_ENTRY)) table = true.
  Hypothesis Hnd : NoDup fields.
  Hypothesis Hidf : In idf fields /\ idf <> "_flags".
  Hypothesis Hfl : In "_flags" fields.
  Hypothesis Hflags : forall bs : list bool, length bs = nflags -> rich_roundtrip flagc 5 bs.
  Hypothesis Hnames : length (fc_dec flagc) = nflags.

  Theorem entry_reads_back cx cx' (R : rarg -> rarg -> Prop) key args fl v :
    encode_entry_of cx table flagc fields (ERich key args fl) = Ok v ->
    length fl = nflags ->
    (forall te a c f x n, find_entry key table = Some te -> In (a, c, f) (te_dec te) -> arg_get rarg a args = Ok x ->
       enc_arg cx c x = Ok n -> exists x', dec_arg cx' c n = Ok x' /\ R x x') ->
    exists te args',
      find_entry key table = Some te /\
      decode_entry_of cx' table enum idf flagc fields v = Ok (Some (ERich key args' fl)) /\
      forall a c f, In (a, c, f) (te_dec te) ->
        exists x', arg_get rarg a args' = Ok x' /\
          ((exists x, arg_get rarg a args = Ok x /\ R x x') \/
           (* the one computed field: the play time of a sound, taken from the sound's metadata when not authored *)
           (exists d, wav_duration cx args = Ok d /\ x' = AInt d)).
  Proof.
    intros H Hlen Hinv. cbn [encode_entry_of] in H.
    destruct (find_entry key table) as [te|] eqn:Hf; [|discriminate].
    inv_bind H as r Hr Hk. inv_bind Hk as fx Hfx Hk2. inversion Hk2; subst v. clear Hk2.
    destruct (find_entry_in _ _ _ Hf) as [Hin Hkey].
    destruct (tables_match_in _ _ _ _ Hmatch Hin) as (s & Hs & Hm).
    rewrite forallb_forall in Hspec. pose proof (Hspec _ Hs) as Hok. unfold spec_entry_ok in Hok.
    apply andb_true_iff in Hok as [Hown Hargs]. apply src_eqb_eq in Hown. rewrite forallb_forall in Hargs.
    destruct (entry_matches_facts _ _ _ Hm) as (Hk & Ho & _ & Hdec & Hnda & _ & _ & _ & _).
    destruct (matched_entry_correct rarg (dec_arg cx') (enc_arg cx) (wav_duration cx) _ idf _ _ Hm Hown)
      as (_ & _ & _ & Henc & Hdecode & _ & _ & _).
    specialize (Henc args r Hr).
    set (r' := map (fun p : string * N => if String.eqb (fst p) "_flags" then (fst p, fx) else p) r).
    set (v := rec_val fields r').
    (* every field but the flags holds what the interpreter computed *)
    assert (forall f, In f fields -> f <> "_flags" -> forall n, rec_get f r = Ok n -> vint f v = n) as Hfield.
    { intros f Hinf Hne n Hn. unfold v. rewrite vint_rec_val by assumption. unfold r'.
      rewrite rec_get_map_flags by assumption. rewrite Hn. reflexivity. }
    assert (vint idf v = key) as Hid.
    { destruct Hidf as [Hi1 Hi2]. apply Hfield; [assumption|assumption|].
      pose proof (Henc idf Hi1) as E. rewrite Hown in E. rewrite E. congruence. }
    assert (vint "_flags" v = fx) as Hfv.
    { unfold v. rewrite vint_rec_val by assumption. unfold r'.
      pose proof (Henc "_flags" Hfl) as E.
      assert (exists y, rec_get "_flags" r = Ok y) as [y Hy].
      { destruct (expected_src s "_flags"); [eauto|eauto| |].
        - destruct E as (d & _ & E). eauto.
        - destruct E as (x & n & _ & _ & E). eauto. }
      rewrite (rec_get_map_flags_hit _ _ _ Hy). reflexivity. }
    rewrite forallb_forall in Hkeys. pose proof (Hkeys _ Hin) as Hkk. rewrite Hkey in Hkk.
    apply andb_true_iff in Hkk as [Hen Hnz]. apply negb_true_iff in Hnz.
    (* each argument row decodes *)
    assert (forall a c f, In (a, c, f) (te_dec te) ->
              exists n x', rec_get f (val_rec fields v) = Ok n /\ dec_arg cx' c n = Ok x' /\
                ((exists x, arg_get rarg a args = Ok x /\ R x x') \/ (exists d, wav_duration cx args = Ok d /\ x' = AInt d)))
      as Hrow.
    { intros a c f Hrow. pose proof (proj1 (Hdec _) Hrow) as Hsa. pose proof (Hargs _ Hsa) as Hb. cbv beta iota in Hb.
      apply andb_true_iff in Hb as [Hb Hnf]. apply andb_true_iff in Hb as [Hsrc Hinf].
      apply negb_true_iff in Hnf. apply String.eqb_neq in Hnf.
      apply existsb_exists in Hinf as (f' & Hinf & Ef). apply String.eqb_eq in Ef. subst f'.
      pose proof (Henc f Hinf) as E. rewrite rec_get_val_rec by assumption.
      apply orb_true_iff in Hsrc as [Hsrc|Hsrc].
      - apply src_eqb_eq in Hsrc. rewrite Hsrc in E. destruct E as (x & n & Hx & Hn & Hg).
        destruct (Hinv _ _ _ _ _ _ eq_refl Hrow Hx Hn) as (x' & Hx' & HR).
        exists n, x'. split; [f_equal; apply Hfield; assumption|]. split; [assumption|]. left. eauto.
      - apply andb_true_iff in Hsrc as [Hsrc Hc]. apply src_eqb_eq in Hsrc. apply codec_eqb_eq in Hc. subst c.
        rewrite Hsrc in E. destruct E as (d & Hd & Hg).
        exists d, (AInt d). split; [f_equal; apply Hfield; assumption|]. split; [reflexivity|]. right. eauto. }
    assert (exists args', decode_entry rarg (dec_arg cx') te (val_rec fields v) = Ok args') as [args' Hargs'].
    { unfold decode_entry. apply mapM_all_ok. apply Forall_forall. intros [[a c] f] Hrw.
      destruct (Hrow _ _ _ Hrw) as (n & x' & Hg & Hd & _). rewrite Hg. cbn [bind]. rewrite Hd. cbn [bind]. eauto. }
    exists te, args'. split; [reflexivity|]. split.
    - unfold decode_entry_of. cbv zeta. rewrite Hid, Hen. cbn [negb]. rewrite Hnz, Hf, Hargs'. cbn [bind].
      rewrite Hfv. unfold flags_to in Hfx. unfold flags_of.
      destruct (Hflags fl Hlen) as (x0 & E0 & _ & D0). rewrite E0 in Hfx. inversion Hfx; subst x0.
      rewrite D0. cbn [bind]. unfold rich_of_bools. rewrite map_snd_combine; [reflexivity|].
      rewrite map_length. lia.
    - intros a c f Hrw. destruct (Hrow _ _ _ Hrw) as (n & x' & Hg & Hd & Hcase).
      destruct (Hdecode _ _ Hargs' a c f (proj1 (Hdec _) Hrw)) as (v0 & x0 & Hv0 & Hx0 & Hget).
      rewrite Hg in Hv0. inversion Hv0; subst v0. rewrite Hd in Hx0. inversion Hx0; subst x0.
      exists x'. auto.
  Qed.
End Readback.

Lemma action_spec_ok : forallb (spec_entry_ok action_record_fields "_action_id") spec_action_table = true.
Proof. vm_compute. reflexivity. Qed.
Lemma condition_spec_ok : forallb (spec_entry_ok condition_record_fields "_condition_id") spec_condition_table = true.
Proof. vm_compute. reflexivity. Qed.
Lemma action_keys_ok :
  forallb (fun g => enum_has "TriggerActionId" (te_key g) && negb (te_key g =? NO_ENTRY)) gen_action_table = true.
Proof. vm_compute. reflexivity. Qed.
Lemma condition_keys_ok :
  forallb (fun g => enum_has "TriggerConditionId" (te_key g) && negb (te_key g =? NO_ENTRY)) gen_condition_table = true.
Proof. vm_compute. reflexivity. Qed.

Theorem authored_action_reads_back cx (R : rarg -> rarg -> Prop) key args fl v :
  encode_entry_of cx gen_action_table action_flags_codec action_record_fields (ERich key args fl) = Ok v ->
  length fl = 5%nat ->
  (forall te a c f x n, find_entry key gen_action_table = Some te -> In (a, c, f) (te_dec te) -> arg_get rarg a args = Ok x ->
     enc_arg cx c x = Ok n -> exists x', dec_arg cx c n = Ok x' /\ R x x') ->
  exists te args',
    find_entry key gen_action_table = Some te /\
    decode_entry_of cx gen_action_table "TriggerActionId" "_action_id" action_flags_codec action_record_fields v
      = Ok (Some (ERich key args' fl)) /\
    forall a c f, In (a, c, f) (te_dec te) ->
      exists x', arg_get rarg a args' = Ok x' /\
        ((exists x, arg_get rarg a args = Ok x /\ R x x') \/ (exists d, wav_duration cx args = Ok d /\ x' = AInt d)).
Proof.
  apply (entry_reads_back gen_action_table spec_action_table action_record_fields "_action_id" "TriggerActionId"
           action_flags_codec 5%nat action_table_matches action_spec_ok action_keys_ok (proj1 record_fields_nodup)).
  - split; [simpl; tauto | discriminate].
  - simpl; tauto.
  - exact action_flags_rich.
  - reflexivity.
Qed.

Theorem authored_condition_reads_back cx (R : rarg -> rarg -> Prop) key args fl v :
  encode_entry_of cx gen_condition_table condition_flags_codec condition_record_fields (ERich key args fl) = Ok v ->
  length fl = 5%nat ->
  (forall te a c f x n, find_entry key gen_condition_table = Some te -> In (a, c, f) (te_dec te) -> arg_get rarg a args = Ok x ->
     enc_arg cx c x = Ok n -> exists x', dec_arg cx c n = Ok x' /\ R x x') ->
  exists te args',
    find_entry key gen_condition_table = Some te /\
    decode_entry_of cx gen_condition_table "TriggerConditionId" "_condition_id" condition_flags_codec condition_record_fields v
      = Ok (Some (ERich key args' fl)) /\
    forall a c f, In (a, c, f) (te_dec te) ->
      exists x', arg_get rarg a args' = Ok x' /\
        ((exists x, arg_get rarg a args = Ok x /\ R x x') \/ (exists d, wav_duration cx args = Ok d /\ x' = AInt d)).
Proof.
  apply (entry_reads_back gen_condition_table spec_condition_table condition_record_fields "_condition_id" "TriggerConditionId"
           condition_flags_codec 5%nat condition_table_matches condition_spec_ok condition_keys_ok (proj2 record_fields_nodup)).
  - split; [simpl; tauto | discriminate].
  - simpl; tauto.
  - exact condition_flags_rich.
  - reflexivity.
Qed.

(* ---- the argument codecs that consult no object table invert: the value read back is the authored one -------------------- *)

Definition plain_codec (c : codec) : bool :=
  match c with CRaw | CEnum _ | CStr | CStrValue | CAiScript => true | _ => false end.

(* an authored enumeration argument is a member of its enumeration (the rich classes admit nothing else) *)
Definition arg_member (c : codec) (x : rarg) : Prop :=
  match c, x with CEnum E, AEnum n => enum_has E n = true | _, _ => True end.

(* an AI script name that fits four bytes of UTF-8 is written as those bytes and read back as the same name *)
Lemma ai_codec_inverts cx n v : enc_arg cx CAiScript (AAi n) = Ok v -> dec_arg cx CAiScript v = Ok (AAi n).
Proof.
  intros H. cbn [enc_arg dec_arg] in *.
  inv_bind H as bs Hbs Hk. destruct (Nat.eqb (length bs) 4) eqn:El; [|discriminate]. inversion Hk; subst v. clear Hk.
  apply Nat.eqb_eq in El. pose proof (utf8_encode_bytes _ _ Hbs) as Hb.
  assert (bytes_ok bs) as Hok by exact Hb.
  unfold ai_name. pose proof (le_decode_bound bs Hok) as Hlt. rewrite El in Hlt.
  assert ((le_decode bs <? 2 ^ 32) = true) as -> by (apply N.ltb_lt; exact Hlt).
  rewrite <- El at 1. rewrite (le_encode_decode bs Hok). rewrite (utf8_encode_decode _ _ Hbs). reflexivity.
Qed.

Lemma plain_codec_inverts cx c x n :
  plain_codec c = true -> arg_member c x -> N.of_nat (length (sl_by_id (cx_str cx))) <= 1000000 ->
  enc_arg cx c x = Ok n -> dec_arg cx c n = Ok x.
Proof.
  intros Hp Hm Hsmall H. destruct c; try discriminate; destruct x; try discriminate; cbn [enc_arg dec_arg] in *.
  - inversion H; reflexivity.
  - inversion H; subst. cbn [arg_member] in Hm. rewrite Hm. reflexivity.
  - destruct (id_by_str_resolves _ _ _ Hsmall H) as [-> _]. reflexivity.
  - destruct (id_by_str_resolves _ _ _ Hsmall H) as [-> _]. reflexivity.
  - apply (ai_codec_inverts cx). exact H.
Qed.

(* an action all of whose arguments are plain numbers, enumeration members and strings is read back with exactly the
   authored arguments (the play time of a sound being the computed one) *)
Theorem authored_plain_action_reads_back_identically cx key args fl v :
  encode_entry_of cx gen_action_table action_flags_codec action_record_fields (ERich key args fl) = Ok v ->
  length fl = 5%nat -> N.of_nat (length (sl_by_id (cx_str cx))) <= 1000000 ->
  (forall te a c f x, find_entry key gen_action_table = Some te -> In (a, c, f) (te_dec te) -> arg_get rarg a args = Ok x ->
     plain_codec c = true /\ arg_member c x) ->
  exists te args',
    find_entry key gen_action_table = Some te /\
    decode_entry_of cx gen_action_table "TriggerActionId" "_action_id" action_flags_codec action_record_fields v
      = Ok (Some (ERich key args' fl)) /\
    forall a c f, In (a, c, f) (te_dec te) ->
      arg_get rarg a args' = arg_get rarg a args \/
      (exists d, wav_duration cx args = Ok d /\ arg_get rarg a args' = Ok (AInt d)).
Proof.
  intros H Hlen Hsmall Hplain.
  destruct (authored_action_reads_back cx eq key args fl v H Hlen) as (te & args' & Hf & Hd & Hargs).
  - intros te a c f x n Hf Hrow Hx Hn. destruct (Hplain _ _ _ _ _ Hf Hrow Hx) as [Hp Hm].
    exists x. split; [|reflexivity]. eapply plain_codec_inverts; eauto.
  - exists te, args'. split; [assumption|]. split; [assumption|]. intros a c f Hrow.
    destruct (Hargs _ _ _ Hrow) as (x' & Hx' & [(x & Hx & ->)|(d & Hd' & ->)]).
    + left. congruence.
    + right. eauto.
Qed.

Theorem authored_plain_condition_reads_back_identically cx key args fl v :
  encode_entry_of cx gen_condition_table condition_flags_codec condition_record_fields (ERich key args fl) = Ok v ->
  length fl = 5%nat -> N.of_nat (length (sl_by_id (cx_str cx))) <= 1000000 ->
  (forall te a c f x, find_entry key gen_condition_table = Some te -> In (a, c, f) (te_dec te) -> arg_get rarg a args = Ok x ->
     plain_codec c = true /\ arg_member c x) ->
  exists te args',
    find_entry key gen_condition_table = Some te /\
    decode_entry_of cx gen_condition_table "TriggerConditionId" "_condition_id" condition_flags_codec condition_record_fields v
      = Ok (Some (ERich key args' fl)) /\
    forall a c f, In (a, c, f) (te_dec te) ->
      arg_get rarg a args' = arg_get rarg a args \/
      (exists d, wav_duration cx args = Ok d /\ arg_get rarg a args' = Ok (AInt d)).
Proof.
  intros H Hlen Hsmall Hplain.
  destruct (authored_condition_reads_back cx eq key args fl v H Hlen) as (te & args' & Hf & Hd & Hargs).
  - intros te a c f x n Hf Hrow Hx Hn. destruct (Hplain _ _ _ _ _ Hf Hrow Hx) as [Hp Hm].
    exists x. split; [|reflexivity]. eapply plain_codec_inverts; eauto.
  - exists te, args'. split; [assumption|]. split; [assumption|]. intros a c f Hrow.
    destruct (Hargs _ _ _ Hrow) as (x' & Hx' & [(x & Hx & ->)|(d & Hd' & ->)]).
    + left. congruence.
    + right. eauto.
Qed.

(* ---- the context of a LATER load: only its string table matters for plain arguments ------------------------------------------- *)

Lemma dec_arg_plain_ctx cx cx' c n : plain_codec c = true -> cx_str cx = cx_str cx' -> dec_arg cx' c n = dec_arg cx c n.
Proof. intros Hp Hs. destruct c; try discriminate; cbn [dec_arg]; rewrite ?Hs; reflexivity. Qed.

Lemma decode_entry_plain_ctx cx cx' te r :
  (forall a c f, In (a, c, f) (te_dec te) -> plain_codec c = true) -> cx_str cx = cx_str cx' ->
  decode_entry rarg (dec_arg cx') te r = decode_entry rarg (dec_arg cx) te r.
Proof.
  intros Hp Hs. unfold decode_entry. apply mapM_ext_in. intros [[a c] f] Hin.
  destruct (rec_get f r); [|reflexivity]. cbn [bind]. rewrite (dec_arg_plain_ctx cx cx' c _ (Hp _ _ _ Hin) Hs). reflexivity.
Qed.

(* an authored action whose arguments are all plain, saved under context cx, is read back with exactly the authored arguments
   by ANY later load whose string table is the one the save wrote - whatever that load's location, switch and unit-property
   tables look like *)
Theorem authored_plain_action_reads_back_after_reload cx cx' key args fl v :
  encode_entry_of cx gen_action_table action_flags_codec action_record_fields (ERich key args fl) = Ok v ->
  length fl = 5%nat -> N.of_nat (length (sl_by_id (cx_str cx))) <= 1000000 -> cx_str cx = cx_str cx' ->
  (forall te a c f, find_entry key gen_action_table = Some te -> In (a, c, f) (te_dec te) -> plain_codec c = true) ->
  (forall te a c f x, find_entry key gen_action_table = Some te -> In (a, c, f) (te_dec te) -> arg_get rarg a args = Ok x ->
     arg_member c x) ->
  exists te args',
    find_entry key gen_action_table = Some te /\
    decode_entry_of cx' gen_action_table "TriggerActionId" "_action_id" action_flags_codec action_record_fields v
      = Ok (Some (ERich key args' fl)) /\
    forall a c f, In (a, c, f) (te_dec te) ->
      arg_get rarg a args' = arg_get rarg a args \/
      (exists d, wav_duration cx args = Ok d /\ arg_get rarg a args' = Ok (AInt d)).
Proof.
  intros H Hlen Hsmall Hs Hplain Hmem.
  destruct (authored_plain_action_reads_back_identically cx key args fl v H Hlen Hsmall) as (te & args' & Hf & Hd & Hargs).
  - intros te a c f x Hf Hrow Hx. split; [eapply Hplain; eauto | eapply Hmem; eauto].
  - exists te, args'. split; [exact Hf|]. split; [|exact Hargs].
    rewrite <- Hd. unfold decode_entry_of. cbv zeta.
    destruct (negb (enum_has "TriggerActionId" (vint "_action_id" v))); [reflexivity|].
    destruct (vint "_action_id" v =? NO_ENTRY); [reflexivity|].
    destruct (find_entry (vint "_action_id" v) gen_action_table) as [te0|] eqn:Ef0; [|reflexivity].
    assert (te0 = te) as ->.
    { (* the record's type byte is the authored key *)
      unfold decode_entry_of in Hd. cbv zeta in Hd.
      destruct (negb (enum_has "TriggerActionId" (vint "_action_id" v))); [discriminate|].
      destruct (vint "_action_id" v =? NO_ENTRY); [discriminate|]. rewrite Ef0 in Hd.
      destruct (decode_entry rarg (dec_arg cx) te0 (val_rec action_record_fields v)); [|discriminate]. cbn [bind] in Hd.
      destruct (flags_of action_flags_codec (vint "_flags" v)); [|discriminate]. cbn [bind] in Hd.
      inversion Hd as [Hkey]. rewrite Hkey in Ef0. congruence. }
    rewrite (decode_entry_plain_ctx cx cx' te _ (fun a c f Hin => Hplain te a c f Hf Hin) Hs). reflexivity.
Qed.

(* ---- the general form: written under the save's context cx, read under ANY later context cx' ------------------------------------ *)

Theorem authored_action_reads_back_later cx cx' (R : rarg -> rarg -> Prop) key args fl v :
  encode_entry_of cx gen_action_table action_flags_codec action_record_fields (ERich key args fl) = Ok v ->
  length fl = 5%nat ->
  (forall te a c f x n, find_entry key gen_action_table = Some te -> In (a, c, f) (te_dec te) -> arg_get rarg a args = Ok x ->
     enc_arg cx c x = Ok n -> exists x', dec_arg cx' c n = Ok x' /\ R x x') ->
  exists te args',
    find_entry key gen_action_table = Some te /\
    decode_entry_of cx' gen_action_table "TriggerActionId" "_action_id" action_flags_codec action_record_fields v
      = Ok (Some (ERich key args' fl)) /\
    forall a c f, In (a, c, f) (te_dec te) ->
      exists x', arg_get rarg a args' = Ok x' /\
        ((exists x, arg_get rarg a args = Ok x /\ R x x') \/ (exists d, wav_duration cx args = Ok d /\ x' = AInt d)).
Proof.
  apply (entry_reads_back gen_action_table spec_action_table action_record_fields "_action_id" "TriggerActionId"
           action_flags_codec 5%nat action_table_matches action_spec_ok action_keys_ok (proj1 record_fields_nodup)).
  - split; [simpl; tauto | discriminate].
  - simpl; tauto.
  - exact action_flags_rich.
  - reflexivity.
Qed.

Theorem authored_condition_reads_back_later cx cx' (R : rarg -> rarg -> Prop) key args fl v :
  encode_entry_of cx gen_condition_table condition_flags_codec condition_record_fields (ERich key args fl) = Ok v ->
  length fl = 5%nat ->
  (forall te a c f x n, find_entry key gen_condition_table = Some te -> In (a, c, f) (te_dec te) -> arg_get rarg a args = Ok x ->
     enc_arg cx c x = Ok n -> exists x', dec_arg cx' c n = Ok x' /\ R x x') ->
  exists te args',
    find_entry key gen_condition_table = Some te /\
    decode_entry_of cx' gen_condition_table "TriggerConditionId" "_condition_id" condition_flags_codec condition_record_fields v
      = Ok (Some (ERich key args' fl)) /\
    forall a c f, In (a, c, f) (te_dec te) ->
      exists x', arg_get rarg a args' = Ok x' /\
        ((exists x, arg_get rarg a args = Ok x /\ R x x') \/ (exists d, wav_duration cx args = Ok d /\ x' = AInt d)).
Proof.
  apply (entry_reads_back gen_condition_table spec_condition_table condition_record_fields "_condition_id" "TriggerConditionId"
           condition_flags_codec 5%nat condition_table_matches condition_spec_ok condition_keys_ok (proj2 record_fields_nodup)).
  - split; [simpl; tauto | discriminate].
  - simpl; tauto.
  - exact condition_flags_rich.
  - reflexivity.
Qed.
