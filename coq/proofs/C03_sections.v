(* C03, whole sections in editor form: the 255-slot location table.  Every slot is either the all-zero record or a used
   record in editor form (reserved elevation bits clear, name referred to by the last id of its text); then decoding the
   section to rich locations and encoding them back yields the section, slot for slot - by induction over the slot list
   (a used slot k becomes the one location with index k+1, an unused slot leaves index k+1 free). *)
From Coq Require Import String NArith List Bool Lia PeanoNat.
From RC Require Import lib.Result lib.Bytes model.Layout model.Flags model.RichCodec proofs.Layout_proofs proofs.C08_proofs
  proofs.C03_proofs proofs.C11_proofs proofs.Save_strings proofs.Save_refs proofs.C07_slots proofs.C07_triggers gen.GenConsts.
Import ListNotations.
Local Open Scope string_scope.
Local Open Scope list_scope.
Local Open Scope N_scope.

Definition editor_slot (L : str_lookup) (slot : val) : Prop :=
  exists x1 y1 x2 y2 sid fl, slot = loc_val x1 y1 x2 y2 sid fl /\ fl < 64 /\ last_id_guard L sid.

Lemma unused_editor_slot_is_empty L slot : editor_slot L slot -> loc_is_unused slot = true -> slot = empty_loc_val.
Proof.
  intros (x1 & y1 & x2 & y2 & sid & fl & -> & _ & _) H. unfold loc_is_unused in H.
  change (vint "_left_x1" (loc_val x1 y1 x2 y2 sid fl)) with x1 in H.
  change (vint "_top_y1" (loc_val x1 y1 x2 y2 sid fl)) with y1 in H.
  change (vint "_right_x2" (loc_val x1 y1 x2 y2 sid fl)) with x2 in H.
  change (vint "_bottom_y2" (loc_val x1 y1 x2 y2 sid fl)) with y2 in H.
  change (vint "_string_id" (loc_val x1 y1 x2 y2 sid fl)) with sid in H.
  change (vint "_elevation_flags" (loc_val x1 y1 x2 y2 sid fl)) with fl in H.
  repeat (apply andb_true_iff in H as [H ?]).
  repeat match goal with E : (_ =? 0) = true |- _ => apply N.eqb_eq in E; subst end. reflexivity.
Qed.

(* the decoded list, seen as "index -> location": slot k of the input decides index i0 + k + 1 *)
Lemma mrgn_decode_slotwise L : forall slots i0 ls,
  Forall (editor_slot L) slots -> mrgn_decode_locs L slots i0 = Ok ls ->
  (forall j l, In (j, l) (by_idx ls) -> i0 < j /\ j <= i0 + N.of_nat (length slots)) /\
  (forall k slot, nth_error slots k = Some slot ->
     if loc_is_unused slot then assocN_last (i0 + N.of_nat k + 1) (by_idx ls) = None
     else exists l, assocN_last (i0 + N.of_nat k + 1) (by_idx ls) = Some l /\ loc_encode L l = Ok slot).
Proof.
  induction slots as [|v r IH]; intros i0 ls Hed H.
  - simpl in H. inversion H; subst. split; [intros j l []|]. intros k slot Hk. destruct k; discriminate.
  - inversion Hed as [|? ? Hv Hr]; subst. cbn [mrgn_decode_locs] in H. inv_bind H as rest Hrest Hk.
    destruct (IH (i0 + 1) rest Hr Hrest) as [Hrange Hslots].
    destruct (loc_is_unused v) eqn:Eu.
    + inversion Hk; subst ls. split.
      * intros j l Hin. destruct (Hrange j l Hin). simpl length. lia.
      * intros k slot Hn. destruct k as [|k].
        -- simpl in Hn. inversion Hn; subst slot. rewrite Eu. apply assocN_last_none.
           intros Hc. apply in_map_iff in Hc as ([j l] & Hj & Hin). simpl in Hj. subst j. destruct (Hrange _ _ Hin). lia.
        -- simpl in Hn. specialize (Hslots k slot Hn).
           replace (i0 + N.of_nat (S k) + 1) with (i0 + 1 + N.of_nat k + 1) by lia. exact Hslots.
    + destruct Hv as (x1 & y1 & x2 & y2 & sid & fl & -> & Hfl & Hsid).
      destruct (location_slot_roundtrip L x1 y1 x2 y2 sid fl i0 Hfl Hsid Eu) as (l0 & Hd0 & Hi0 & He0).
      (* the head location is the one the single-slot lemma speaks about *)
      cbn [mrgn_decode_locs bind] in Hd0. rewrite Eu in Hd0.
      inv_bind Hk as el Hel Hk2. rewrite Hel in Hd0. cbn [bind] in Hd0. inversion Hd0 as [Hl0]. inversion Hk2; subst ls. clear Hk2.
      rewrite Hl0. rewrite Hl0 in *. clear Hl0 Hd0.
      assert (by_idx (l0 :: rest) = (i0 + 1, l0) :: by_idx rest) as Hb by (unfold by_idx; simpl; rewrite Hi0; reflexivity).
      split.
      * intros j l Hin. rewrite Hb in Hin. destruct Hin as [Heq|Hin].
        -- inversion Heq; subst. simpl length. lia.
        -- destruct (Hrange j l Hin). simpl length. lia.
      * intros k slot Hn. rewrite Hb. cbn [assocN_last]. destruct k as [|k].
        -- simpl in Hn. inversion Hn; subst slot. rewrite Eu.
           rewrite assocN_last_none.
           2:{ intros Hc. apply in_map_iff in Hc as ([j l] & Hj & Hin). simpl in Hj. subst j. destruct (Hrange _ _ Hin). lia. }
           replace (i0 + N.of_nat 0 + 1 =? i0 + 1) with true by (symmetry; apply N.eqb_eq; lia).
           exists l0. split; [reflexivity | exact He0].
        -- simpl in Hn. specialize (Hslots k slot Hn).
           replace (i0 + N.of_nat (S k) + 1) with (i0 + 1 + N.of_nat k + 1) by lia.
           destruct (loc_is_unused slot).
           ++ rewrite Hslots. replace (i0 + 1 + N.of_nat k + 1 =? i0 + 1) with false by (symmetry; apply N.eqb_neq; lia). reflexivity.
           ++ destruct Hslots as (l & Hl & He). rewrite Hl. exists l. auto.
Qed.

(* THE SECTION: 255 editor-form slots decode to rich locations that encode back to exactly those 255 slots *)
Theorem mrgn_section_roundtrip_in_editor_form L slots ls :
  length slots = N.to_nat MRGN_TRANSCODER_MAX_LOCATIONS -> Forall (editor_slot L) slots ->
  mrgn_decode L (mk_struct [("_locations", VList slots)]) = Ok ls ->
  mrgn_encode L ls = Ok (mk_struct [("_locations", VList slots)]).
Proof.
  intros Hlen Hed Hd. unfold mrgn_decode in Hd.
  change (vlist "_locations" (mk_struct [("_locations", VList slots)])) with slots in Hd.
  destruct (mrgn_decode_slotwise L slots 0 ls Hed Hd) as [_ Hslots].
  unfold mrgn_encode. fold (by_idx ls).
  assert (mapM (fun i => match assocN_last (i + 1) (by_idx ls) with
                         | Some l => loc_encode L l
                         | None => Ok empty_loc_val
                         end) (map N.of_nat (seq 0 (N.to_nat MRGN_TRANSCODER_MAX_LOCATIONS))) = Ok slots) as ->; [|reflexivity].
  apply mapM_of_Forall2. apply Forall2_of_nth.
  - rewrite map_length, seq_length. symmetry. exact Hlen.
  - intros k i slot Hi Hs. rewrite nth_error_map in Hi.
    destruct (nth_error (seq 0 (N.to_nat MRGN_TRANSCODER_MAX_LOCATIONS)) k) as [k'|] eqn:Ek; [|discriminate].
    assert (k' = k) as ->.
    { assert (k < N.to_nat MRGN_TRANSCODER_MAX_LOCATIONS)%nat as Hlt
        by (rewrite <- (seq_length (N.to_nat MRGN_TRANSCODER_MAX_LOCATIONS) 0); apply nth_error_Some; congruence).
      rewrite nth_error_seq_lt in Ek by exact Hlt. inversion Ek. reflexivity. }
    simpl in Hi. inversion Hi; subst i. specialize (Hslots k slot Hs).
    replace (0 + N.of_nat k + 1) with (N.of_nat k + 1) in Hslots by lia. cbv beta.
    destruct (loc_is_unused slot) eqn:Eu.
    + rewrite Hslots. f_equal. symmetry.
      eapply unused_editor_slot_is_empty; eauto. rewrite Forall_forall in Hed. apply Hed. eapply nth_error_In; eauto.
    + destruct Hslots as (l & Hl & He). rewrite Hl. exact He.
Qed.

(* ---- the 64-slot unit-property table, the same way ----------------------------------------------------------------------------- *)

Definition editor_cuwp_slot (slot : val) : Prop :=
  exists vs vu hp sh en res hang fl pad, slot = cuwp_val vs vu 0 hp sh en res hang fl pad /\ vs < 64 /\ vu < 128 /\ fl < 64.

Lemma unused_editor_cuwp_slot_is_empty slot : editor_cuwp_slot slot -> cuwp_is_unused slot = true -> slot = empty_cuwp_val.
Proof.
  intros (vs & vu & hp & sh & en & res & hang & fl & pad & -> & _) H. unfold cuwp_is_unused, cuwp_fields in H.
  cbn [forallb] in H.
  change (vint "_valid_special_properties_flags" (cuwp_val vs vu 0 hp sh en res hang fl pad)) with vs in H.
  change (vint "_valid_unit_properties_flags" (cuwp_val vs vu 0 hp sh en res hang fl pad)) with vu in H.
  change (vint "_owner_player" (cuwp_val vs vu 0 hp sh en res hang fl pad)) with 0 in H.
  change (vint "_hitpoints_percentage" (cuwp_val vs vu 0 hp sh en res hang fl pad)) with hp in H.
  change (vint "_shieldpoints_percentage" (cuwp_val vs vu 0 hp sh en res hang fl pad)) with sh in H.
  change (vint "_energypoints_percentage" (cuwp_val vs vu 0 hp sh en res hang fl pad)) with en in H.
  change (vint "_resource_amount" (cuwp_val vs vu 0 hp sh en res hang fl pad)) with res in H.
  change (vint "_units_in_hangar" (cuwp_val vs vu 0 hp sh en res hang fl pad)) with hang in H.
  change (vint "_flags" (cuwp_val vs vu 0 hp sh en res hang fl pad)) with fl in H.
  change (vint "_padding" (cuwp_val vs vu 0 hp sh en res hang fl pad)) with pad in H.
  repeat (apply andb_true_iff in H as [? H]).
  repeat match goal with E : (_ =? 0) = true |- _ => apply N.eqb_eq in E; subst end. reflexivity.
Qed.

Lemma uprp_decode_slotwise : forall slots i0 cs,
  Forall editor_cuwp_slot slots -> uprp_decode_slots slots i0 = Ok cs ->
  (forall j c, In (j, c) (C07_triggers.cby_idx cs) -> i0 < j /\ j <= i0 + N.of_nat (length slots)) /\
  (forall c, In c cs -> c_idx c <> None) /\
  (forall k slot, nth_error slots k = Some slot ->
     if cuwp_is_unused slot then assocN_last (i0 + N.of_nat k + 1) (C07_triggers.cby_idx cs) = None
     else exists c, assocN_last (i0 + N.of_nat k + 1) (C07_triggers.cby_idx cs) = Some c /\ cuwp_encode c = Ok slot).
Proof.
  induction slots as [|v r IH]; intros i0 cs Hed H.
  - simpl in H. inversion H; subst. split; [intros j c []|]. split; [intros c []|]. intros k slot Hk. destruct k; discriminate.
  - inversion Hed as [|? ? Hv Hr]; subst. cbn [uprp_decode_slots] in H. inv_bind H as rest Hrest Hk.
    destruct (IH (i0 + 1) rest Hr Hrest) as (Hrange & Hidx & Hslots).
    destruct (cuwp_is_unused v) eqn:Eu.
    + inversion Hk; subst cs. split; [|split].
      * intros j c Hin. destruct (Hrange j c Hin). simpl length. lia.
      * exact Hidx.
      * intros k slot Hn. destruct k as [|k].
        -- simpl in Hn. inversion Hn; subst slot. rewrite Eu. apply assocN_last_none.
           intros Hc. apply in_map_iff in Hc as ([j c] & Hj & Hin). simpl in Hj. subst j. destruct (Hrange _ _ Hin). lia.
        -- simpl in Hn. specialize (Hslots k slot Hn).
           replace (i0 + N.of_nat (S k) + 1) with (i0 + 1 + N.of_nat k + 1) by lia. exact Hslots.
    + destruct Hv as (vs & vu & hp & sh & en & res & hang & fl & pad & -> & Hvs & Hvu & Hfl).
      destruct (cuwp_slot_roundtrip vs vu hp sh en res hang fl pad i0 Hvs Hvu Hfl Eu) as (c0 & Hd0 & Hi0 & He0).
      cbn [uprp_decode_slots bind] in Hd0. rewrite Eu in Hd0.
      inv_bind Hk as a1 Ha1 Hk. rewrite Ha1 in Hd0. cbn [bind] in Hd0.
      inv_bind Hk as a2 Ha2 Hk. rewrite Ha2 in Hd0. cbn [bind] in Hd0.
      inv_bind Hk as a3 Ha3 Hk. rewrite Ha3 in Hd0. cbn [bind] in Hd0.
      inversion Hd0 as [Hc0]. inversion Hk; subst cs. clear Hk Hd0. subst c0.
      match type of Hi0 with c_idx ?c = _ => set (c0 := c) in * end.
      assert (C07_triggers.cby_idx (c0 :: rest) = (i0 + 1, c0) :: C07_triggers.cby_idx rest) as Hb
        by (unfold C07_triggers.cby_idx; cbn [flat_map]; rewrite Hi0; reflexivity).
      split; [|split].
      * intros j c Hin. rewrite Hb in Hin. destruct Hin as [Heq|Hin].
        -- inversion Heq; subst. simpl length. lia.
        -- destruct (Hrange j c Hin). simpl length. lia.
      * intros c [<-|Hc]; [rewrite Hi0; discriminate | apply Hidx; exact Hc].
      * intros k slot Hn. rewrite Hb. cbn [assocN_last]. destruct k as [|k].
        -- simpl in Hn. inversion Hn; subst slot. rewrite Eu.
           rewrite assocN_last_none.
           2:{ intros Hc. apply in_map_iff in Hc as ([j c] & Hj & Hin). simpl in Hj. subst j. destruct (Hrange _ _ Hin). lia. }
           replace (i0 + N.of_nat 0 + 1 =? i0 + 1) with true by (symmetry; apply N.eqb_eq; lia).
           exists c0. split; [reflexivity | exact He0].
        -- simpl in Hn. specialize (Hslots k slot Hn).
           replace (i0 + N.of_nat (S k) + 1) with (i0 + 1 + N.of_nat k + 1) by lia.
           destruct (cuwp_is_unused slot).
           ++ rewrite Hslots. replace (i0 + 1 + N.of_nat k + 1 =? i0 + 1) with false by (symmetry; apply N.eqb_neq; lia). reflexivity.
           ++ destruct Hslots as (c & Hc & He). rewrite Hc. exists c. auto.
Qed.

Theorem uprp_section_roundtrip_in_editor_form slots cs :
  length slots = N.to_nat MAX_CUWP_SLOTS -> Forall editor_cuwp_slot slots ->
  uprp_decode (mk_struct [("_cuwp_slots", VList slots)]) = Ok cs ->
  uprp_encode cs = Ok (mk_struct [("_cuwp_slots", VList slots)]).
Proof.
  intros Hlen Hed Hd. unfold uprp_decode in Hd.
  change (vlist "_cuwp_slots" (mk_struct [("_cuwp_slots", VList slots)])) with slots in Hd.
  destruct (uprp_decode_slotwise slots 0 cs Hed Hd) as (_ & Hidx & Hslots).
  unfold uprp_encode.
  assert (existsb (fun c => match c_idx c with None => true | Some _ => false end) cs = false) as ->.
  { apply not_true_is_false. intros E. apply existsb_exists in E as (c & Hc & Hn). specialize (Hidx c Hc). destruct (c_idx c); [discriminate | congruence]. }
  fold (C07_triggers.cby_idx cs).
  assert (mapM (fun i => match assocN_last (i + 1) (C07_triggers.cby_idx cs) with
                         | Some c => cuwp_encode c
                         | None => Ok empty_cuwp_val
                         end) (map N.of_nat (seq 0 (N.to_nat MAX_CUWP_SLOTS))) = Ok slots) as ->; [|reflexivity].
  apply mapM_of_Forall2. apply Forall2_of_nth.
  - rewrite map_length, seq_length. symmetry. exact Hlen.
  - intros k i slot Hi Hs. rewrite nth_error_map in Hi.
    destruct (nth_error (seq 0 (N.to_nat MAX_CUWP_SLOTS)) k) as [k'|] eqn:Ek; [|discriminate].
    assert (k' = k) as ->.
    { assert (k < N.to_nat MAX_CUWP_SLOTS)%nat as Hlt
        by (rewrite <- (seq_length (N.to_nat MAX_CUWP_SLOTS) 0); apply nth_error_Some; congruence).
      rewrite nth_error_seq_lt in Ek by exact Hlt. inversion Ek. reflexivity. }
    simpl in Hi. inversion Hi; subst i. specialize (Hslots k slot Hs).
    replace (0 + N.of_nat k + 1) with (N.of_nat k + 1) in Hslots by lia. cbv beta.
    destruct (cuwp_is_unused slot) eqn:Eu.
    + rewrite Hslots. f_equal. symmetry.
      eapply unused_editor_cuwp_slot_is_empty; eauto. rewrite Forall_forall in Hed. apply Hed. eapply nth_error_In; eauto.
    + destruct Hslots as (c & Hc & He). rewrite Hc. exact He.
Qed.
