(* C03, second clause (saving is idempotent): FALSE of the pipeline model, hence - the model being tied to the code byte
   for byte - of the implementation.  Witness: a map whose UPRP slot 1 is non-zero only in the owner byte, which the rich
   unit-property model does not hold.  First cycle: the slot is written back as all zero, UPUS marks it used.  Second
   cycle: the slot is now empty, UPUS is cleared.  Recorded as finding uprp-slot-dropped-fields-only. *)
From Coq Require Import String NArith List Bool.
From RC Require Import lib.Result lib.Bytes lib.Tree model.Layout model.ChkIo model.RichCodec model.RichIo.
Import ListNotations.
Local Open Scope N_scope.

Definition idem_witness : bytes :=
  frame_all [(codes_of_string "STR ", [0; 0]);
             (codes_of_string "MRGN", repeat 0 (255 * 20));
             (codes_of_string "UPRP", [0; 0; 0; 0; 1] ++ repeat 0 (15 + 63 * 20))].

Definition unwrap (r : result bytes) : bytes := match r with Ok b => b | Raise _ => [] end.
Definition idem_b1 : bytes := unwrap (load_save idem_witness).
Definition idem_b2 : bytes := unwrap (load_save idem_b1).

Lemma idem_first_cycle : load_save idem_witness = Ok idem_b1.
Proof. vm_compute. reflexivity. Qed.

Lemma idem_second_cycle : load_save idem_b1 = Ok idem_b2.
Proof. vm_compute. reflexivity. Qed.

Lemma idem_differ : bytes_eqb idem_b1 idem_b2 = false.
Proof. vm_compute. reflexivity. Qed.

Lemma bytes_eqb_refl' a : bytes_eqb a a = true.
Proof. induction a as [|x a IH]; simpl; [reflexivity | rewrite N.eqb_refl, IH; reflexivity]. Qed.

Theorem idempotence_refuted :
  exists bs b1 b2, load_save bs = Ok b1 /\ load_save b1 = Ok b2 /\ b1 <> b2.
Proof.
  exists idem_witness, idem_b1, idem_b2. split; [exact idem_first_cycle|]. split; [exact idem_second_cycle|].
  intros H. pose proof idem_differ as D. rewrite H in D. rewrite bytes_eqb_refl' in D. discriminate.
Qed.
