(* C07 over edit HISTORIES: any sequence of editor operations (adding triggers built from any pool of new objects,
   upserting unit settings) leaves every section it does not address where and as it was in the rich map - by induction
   over the sequence - and therefore (C07_untouched) the sound table the unedited save emits is emitted unchanged. *)
From Coq Require Import String NArith List Bool Lia PeanoNat.
From RC Require Import lib.Result lib.Bytes model.Layout model.Str model.StrEditor model.ChkIo model.TrigTable model.RichCodec
  model.RichIo proofs.Layout_proofs proofs.C08_proofs proofs.C10_proofs proofs.Save_sizes proofs.Save_strings proofs.C07_untouched.
Import ListNotations.
Local Open Scope string_scope.
Local Open Scope list_scope.

Definition edit_only (o : aop) : bool := match o with OpSaveReload => false | _ => true end.

(* sections no operation of the history addresses *)
Definition untouched_by (ops : list aop) (s : rsection) : bool :=
  match s with
  | RTrig _ => negb (existsb (fun o => match o with OpAddTriggers _ => true | _ => false end) ops)
  | RUnis _ n _ => negb (existsb (fun o => match o with OpUpsertUnits m _ => String.eqb m n | _ => false end) ops)
  | _ => true
  end.

Lemma upsert_keeps_other_sections name new r r' i s :
  upsert_units name new r = Ok r' -> nth_error r i = Some s ->
  (forall nw us, s <> RUnis nw name us) -> nth_error r' i = Some s.
Proof.
  unfold upsert_units. destruct (flat_map _ r) as [|[nw us] rest]; [discriminate|].
  intros H Hn Hs. inversion H; subst r'. rewrite nth_error_map, Hn. simpl.
  destruct s as [| |nw' n us'| | | | | |]; try reflexivity.
  destruct (String.eqb n name) eqn:E; [|reflexivity]. apply String.eqb_eq in E. subst n. exfalso. eapply Hs. reflexivity.
Qed.

Lemma fold_raise {A} (f : A -> aop -> result A) ops e :
  fold_left (fun acc o => do r <- acc; f r o) ops (Raise e) = Raise e.
Proof. induction ops as [|o ops IH]; simpl; [reflexivity | exact IH]. Qed.

Lemma untouched_by_cons o ops s : untouched_by (o :: ops) s = true -> untouched_by ops s = true.
Proof.
  destruct s; simpl; try reflexivity; intros H; apply negb_true_iff in H; apply orb_false_iff in H as [_ H];
    apply negb_true_iff; exact H.
Qed.

Theorem edits_keep_untouched_sections p ops : forall r0 r,
  forallb edit_only ops = true ->
  fold_left (fun acc o => do r <- acc; apply_op p r o) ops (Ok r0) = Ok r ->
  forall i s, nth_error r0 i = Some s -> untouched_by ops s = true -> nth_error r i = Some s.
Proof.
  induction ops as [|o ops IH]; intros r0 r He H i s Hn Hu.
  - simpl in H. inversion H; subst. exact Hn.
  - simpl in He. apply andb_true_iff in He as [Ho He]. simpl in H.
    destruct (apply_op p r0 o) as [r1|e] eqn:E1; [|rewrite fold_raise in H; discriminate].
    apply (IH r1 r He H i s); [|eapply untouched_by_cons; eauto].
    destruct o as [ts|name us|]; [| |discriminate]; cbn [apply_op] in E1.
    + inv_bind E1 as ts' Hts Hk. eapply add_triggers_keeps_other_sections; eauto.
      intros ts0 ->. simpl in Hu. discriminate.
    + eapply upsert_keeps_other_sections; eauto.
      intros nw us0 ->. simpl in Hu. rewrite String.eqb_refl in Hu. discriminate.
Qed.

(* the decoded STR section is addressed by no editor operation: the history keeps it, and keeps it the only one *)
Lemma add_triggers_named n new r r' :
  add_triggers new r = Ok r' -> map (named n) r' = map (named n) r.
Proof.
  unfold add_triggers. destruct (flat_map _ r) as [|ts0 rest]; [discriminate|]. intros H. inversion H; subst r'.
  rewrite map_map. apply map_ext. intros s. destruct s; reflexivity.
Qed.

Lemma upsert_named n name new r r' :
  upsert_units name new r = Ok r' -> map (named n) r' = map (named n) r.
Proof.
  unfold upsert_units. destruct (flat_map _ r) as [|[nw us] rest]; [discriminate|]. intros H. inversion H; subst r'.
  rewrite map_map. apply map_ext. intros s. destruct s as [| |nw' m us'| | | | | |]; try reflexivity.
  destruct (String.eqb m name); reflexivity.
Qed.

Lemma filter_by_positions {A} (P : A -> bool) : forall (a b : list A),
  map P a = map P b -> (forall i s, nth_error a i = Some s -> P s = true -> nth_error b i = Some s) ->
  filter P b = filter P a.
Proof.
  induction a as [|x a IH]; intros [|y b] Hm Hk; simpl in Hm; try discriminate; [reflexivity|].
  inversion Hm as [[Hxy Hrest]]. simpl.
  assert (filter P b = filter P a) as Hf.
  { apply IH; [assumption|]. intros i s Hn Hp. apply (Hk (S i) s Hn Hp). }
  destruct (P x) eqn:Ex; rewrite <- Hxy.
  - pose proof (Hk 0%nat x eq_refl Ex) as H0. simpl in H0. inversion H0; subst y. rewrite Hf. reflexivity.
  - exact Hf.
Qed.

Theorem edits_keep_the_decoded_str p ops : forall r0 r,
  forallb rich_form_sec r0 = true -> forallb edit_only ops = true ->
  fold_left (fun acc o => do r <- acc; apply_op p r o) ops (Ok r0) = Ok r ->
  filter (named "STR ") r = filter (named "STR ") r0.
Proof.
  intros r0 r Hrf He H.
  apply filter_by_positions.
  - (* names are kept by every operation *)
    clear Hrf. revert r0 H He. induction ops as [|o ops IH]; intros r0 H He; simpl in H; [inversion H; reflexivity|].
    simpl in He. apply andb_true_iff in He as [Ho He].
    destruct (apply_op p r0 o) as [r1|e] eqn:E1; [|rewrite fold_raise in H; discriminate].
    rewrite <- (IH r1 H He). destruct o as [ts|name us|]; [| |discriminate]; cbn [apply_op] in E1.
    + inv_bind E1 as ts' Hts Hk. symmetry. eapply add_triggers_named; eauto.
    + symmetry. eapply upsert_named; eauto.
  - intros i s Hn Hp. eapply edits_keep_untouched_sections; eauto.
    rewrite forallb_forall in Hrf. specialize (Hrf s (nth_error_In _ _ Hn)).
    destruct s as [|ts|nw n us| | | | | |]; try reflexivity.
    + vm_compute in Hp. discriminate.
    + (* a unit-settings section is never called "STR " in rich form *)
      cbn [named] in Hp. cbn [rich_form_sec] in Hrf. apply String.eqb_eq in Hp. subst n. vm_compute in Hrf. discriminate.
Qed.

(* the whole history: load-level map r0, any edit sequence, both saved (each with its own new strings / slots / sound
   metadata): the sound table comes out the same *)
Theorem sound_table_survives_any_edit_history p ops r0 r wd0 wd d0 d m bin T i ws :
  forallb rich_form_sec r0 = true -> forallb edit_only ops = true ->
  fold_left (fun acc o => do r <- acc; apply_op p r o) ops (Ok r0) = Ok r ->
  filter (named "STR ") r0 = [RDecodedStr "STR " 2 m] ->
  wf_table 2 m bin -> build_lookup 2 m = Ok T ->
  Forall clean (flat_map section_strings r0) -> Forall clean (flat_map section_strings r) ->
  nth_error r0 i = Some (RWav ws) -> names_known T (RWav ws) ->
  save wd0 r0 = Ok d0 -> save wd r = Ok d ->
  nth_error d i = nth_error d0 i.
Proof.
  intros Hrf He H Hf Hwf HT Hc0 Hc Hn Hk Hs0 Hs.
  eapply (untouched_string_section_is_identical r0 r wd0 wd d0 d m bin T i (RWav ws)); eauto.
  - rewrite (edits_keep_the_decoded_str p ops r0 r Hrf He H). exact Hf.
  - eapply edits_keep_untouched_sections; eauto.
Qed.
