(* C03, byte identity of one trigger entry in the form editors write: a supported condition / action whose unused fields are
   zero, whose flags byte uses only the five defined bits, and whose references use the number the lookup gives back for what
   they denote ("references using the last ID of their text", and the like for locations, switches and unit-property sets) is
   written back as EXACTLY the record it was decoded from. *)
From Coq Require Import String NArith List Bool Lia PeanoNat.
From RC Require Import lib.Result lib.Bytes model.Layout model.Flags model.TrigTable model.RichCodec model.Str
  proofs.Layout_proofs proofs.Flags_proofs proofs.C03_proofs proofs.C05_proofs proofs.C08_proofs proofs.C10_proofs
  proofs.C04_proofs proofs.C04_readback proofs.C12_proofs proofs.C02_entries gen.GenTrig spec.SpecTrig gen.GenFlags gen.GenEnums.
Import ListNotations.
Local Open Scope string_scope.
Local Open Scope list_scope.
Local Open Scope N_scope.

(* two facts about the specification tables, checked once by computation: only the type field holds the type's own number,
   and the one computed field (a sound's play time) is also an argument's field *)
Definition spec_fields_ok (fields : list string) (idf : string) (s : spec_entry) : bool :=
  forallb (fun f => match expected_src s f with
                    | EOwnId => String.eqb f idf
                    | EWavDuration => existsb (fun row : string * codec * string => String.eqb (snd row) f) (se_args s)
                    | EArg c a => existsb (arg_eqb (a, c, f)) (se_args s)
                    | EZero => true
                    end) fields.

Lemma find_arg_for_field_in f : forall args a c, find_arg_for_field f args = Some (a, c) -> In (a, c, f) args.
Proof.
  induction args as [|[[a0 c0] g] r IH]; intros a c H; simpl in H; [discriminate|].
  destruct (String.eqb_spec f g) as [->|Hne].
  - inversion H; subst. left. reflexivity.
  - right. apply IH. exact H.
Qed.

Lemma rec_val_ext fields r1 r2 :
  (forall f, In f fields -> match rec_get f r1 with Ok n => n | Raise _ => 0 end = match rec_get f r2 with Ok n => n | Raise _ => 0 end) ->
  rec_val fields r1 = rec_val fields r2.
Proof.
  intros H. unfold rec_val. f_equal. apply map_ext_in. intros f Hf. rewrite (H f Hf). reflexivity.
Qed.

Section Identity.
  Variable table : list trig_entry.
  Variable spec : list spec_entry.
  Variable fields : list string.
  Variable idf enum : string.
  Variable flagc : flag_codec.

  Hypothesis Hmatch : tables_match fields table spec = true.
  Hypothesis Hspec : forallb (spec_entry_ok fields idf) spec = true.
  Hypothesis Hwav : forallb spec_wav_ok spec = true.
  Hypothesis Hfields : forallb (spec_fields_ok fields idf) spec = true.
  Hypothesis Hnd : NoDup fields.
  Hypothesis Hidf : In idf fields /\ idf <> "_flags".
  Hypothesis Hfl : In "_flags" fields.
  Hypothesis Hflags : forall x, x < 256 -> num_roundtrip flagc 5 x.

  Theorem rich_entry_identity cx cx' vals key args fl v' :
    length vals = length fields ->
    let v := entry_val fields vals in
    decode_entry_of cx table enum idf flagc fields v = Ok (Some (ERich key args fl)) ->
    encode_entry_of cx' table flagc fields (ERich key args fl) = Ok v' ->
    vint "_flags" v < 32 ->
    (* editor form: the fields this type does not use are zero *)
    (forall s f, In s spec -> se_id s = key -> In f fields -> f <> "_flags" -> expected_src s f = EZero -> vint f v = 0) ->
    (* references use the number the save's lookup gives back for what they denote *)
    (forall te a c f x n', find_entry key table = Some te -> In (a, c, f) (te_dec te) ->
       dec_arg cx c (vint f v) = Ok x -> enc_arg cx' c x = Ok n' -> n' = vint f v) ->
    v' = v.
  Proof.
    intros Hlen v Hd He Hsmall Hzero Hguard.
    destruct (rich_entry_values_survive table spec fields idf enum flagc Hmatch Hspec Hwav Hnd Hidf Hfl Hflags
                cx cx' v key args fl v' Hd He ltac:(lia))
      as (te & s & Hf & Hs & Hkey & Hid & Hflg & Hrows & Hz & Hdec & (r' & Hr')).
    subst v'. unfold v at 1. rewrite <- (rec_val_val_rec fields Hnd vals Hlen). fold v.
    apply rec_val_ext. intros f Hinf.
    rewrite <- (vint_rec_val fields Hnd r' f Hinf). rewrite rec_get_val_rec by exact Hinf.
    destruct (String.eqb_spec f "_flags") as [->|Hne].
    - rewrite Hflg. apply N.mod_small. change (2 ^ 5) with 32. exact Hsmall.
    - rewrite forallb_forall in Hfields. pose proof (Hfields _ Hs) as Hfo. unfold spec_fields_ok in Hfo.
      rewrite forallb_forall in Hfo. specialize (Hfo f Hinf).
      destruct (expected_src s f) as [| | |c a] eqn:Esrc.
      + rewrite (Hz f Hinf Hne Esrc). symmetry. apply (Hzero s f Hs Hkey Hinf Hne Esrc).
      + apply String.eqb_eq in Hfo. subst f. exact Hid.
      + apply existsb_exists in Hfo as ([[a c] g] & Hrow & Hg). cbn [snd] in Hg. apply String.eqb_eq in Hg. subst g.
        destruct (Hrows a c f (proj2 (Hdec _) Hrow)) as (x & Hx & [Henc|[_ Heq]]); [|exact Heq].
        apply (Hguard te a c f x _ Hf (proj2 (Hdec _) Hrow) Hx Henc).
      + apply existsb_exists in Hfo as (row & Hrow & Hg). apply arg_eqb_eq in Hg. subst row.
        destruct (Hrows a c f (proj2 (Hdec _) Hrow)) as (x & Hx & [Henc|[_ Heq]]); [|exact Heq].
        apply (Hguard te a c f x _ Hf (proj2 (Hdec _) Hrow) Hx Henc).
  Qed.
End Identity.

Lemma action_fields_ok : forallb (spec_fields_ok action_record_fields "_action_id") spec_action_table = true.
Proof. vm_compute. reflexivity. Qed.
Lemma condition_fields_ok : forallb (spec_fields_ok condition_record_fields "_condition_id") spec_condition_table = true.
Proof. vm_compute. reflexivity. Qed.

Definition action_entry_identity :=
  rich_entry_identity gen_action_table spec_action_table action_record_fields "_action_id" "TriggerActionId"
    action_flags_codec action_table_matches action_spec_ok action_wav_ok action_fields_ok (proj1 record_fields_nodup)
    (conj (or_intror (or_intror (or_intror (or_intror (or_intror (or_intror (or_intror (or_introl eq_refl))))))))
          (fun H : "_action_id" = "_flags" => ltac:(discriminate H)))
    (or_intror (or_intror (or_intror (or_intror (or_intror (or_intror (or_intror (or_intror (or_intror (or_introl eq_refl))))))))))
    action_flags_num.

Definition condition_entry_identity :=
  rich_entry_identity gen_condition_table spec_condition_table condition_record_fields "_condition_id" "TriggerConditionId"
    condition_flags_codec condition_table_matches condition_spec_ok condition_wav_ok condition_fields_ok (proj2 record_fields_nodup)
    (conj (or_intror (or_intror (or_intror (or_intror (or_intror (or_introl eq_refl))))))
          (fun H : "_condition_id" = "_flags" => ltac:(discriminate H)))
    (or_intror (or_intror (or_intror (or_intror (or_intror (or_intror (or_intror (or_introl eq_refl))))))))
    condition_flags_num.

(* a concrete entry of this form (Wait 5000 ms, flags byte 4) evaluated in the kernel: decoded as a rich action and written
   back as the very record *)
Example wait_action_is_rewritten_identically :
  let cx0 := {| cx_str := {| sl_by_id := [] |}; cx_locs := []; cx_loc_ids := []; cx_switch_by_id := []; cx_switch_ids := [];
                cx_cuwps := []; cx_wav_dur := [] |} in
  let v0 := entry_val action_record_fields [0; 0; 0; 5000; 0; 0; 0; 4; 0; 4; 0; 0] in
  decode_entry_of cx0 gen_action_table "TriggerActionId" "_action_id" action_flags_codec action_record_fields v0
    = Ok (Some (ERich 4 [("_milliseconds", AInt 5000)] [false; false; true; false; false])) /\
  encode_entry_of cx0 gen_action_table action_flags_codec action_record_fields
    (ERich 4 [("_milliseconds", AInt 5000)] [false; false; true; false; false]) = Ok v0.
Proof. split; vm_compute; reflexivity. Qed.
