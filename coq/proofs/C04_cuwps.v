(* C04, "every new reference resolves to the authored object", unit-property sets, through the save's own rebuild: the number
   the save writes into a Create-Unit-with-Properties action for a set c (RichCuwpLookup.get_id_by_cuwp over the REBUILT
   table) names a slot of the rebuilt table that holds properties equal to c's. *)
From Coq Require Import String NArith List Bool Lia PeanoNat.
From RC Require Import lib.Result lib.Bytes model.Layout model.RichCodec model.RichIo model.Alloc
  proofs.Layout_proofs proofs.C08_proofs proofs.C09_proofs proofs.Save_strings proofs.C07_slots proofs.C07_triggers
  proofs.C04_locations gen.GenConsts.
Import ListNotations.
Local Open Scope string_scope.
Local Open Scope list_scope.
Local Open Scope N_scope.

Lemma find_cuwp_id_some c : forall t acc i,
  find_cuwp_id c t acc = Some i -> acc = Some i \/ exists k, In k t /\ rcuwp_eqb c k = true /\ c_idx k = Some i.
Proof.
  induction t as [|k t IH]; intros acc i H; simpl in H; [left; exact H|].
  apply IH in H as [H|(k' & Hin & He & Hi)].
  - destruct (rcuwp_eqb c k) eqn:E; [|left; exact H]. right. exists k. split; [left; reflexivity|]. split; [exact E | exact H].
  - right. exists k'. split; [right; exact Hin|]. split; assumption.
Qed.

Lemma NoDup_app_intro {A} (a b : list A) :
  NoDup a -> NoDup b -> (forall x, In x b -> ~ In x a) -> NoDup (a ++ b).
Proof.
  induction a as [|x a IH]; intros Ha Hb Hd; simpl; [exact Hb|].
  inversion Ha as [|? ? Hnot Ha']; subst. constructor.
  - intros Hc. apply in_app_iff in Hc as [Hc|Hc]; [contradiction|]. apply (Hd x Hc). left. reflexivity.
  - apply IH; [exact Ha' | exact Hb |]. intros y Hy Hc. apply (Hd y Hy). right. exact Hc.
Qed.

(* the rebuilt table has one set per number when the loaded one had *)
Lemma rebuilt_uprp_indices_distinct r cs up :
  filter (named "UPRP") r = [RUprp cs] -> rebuild_uprp r = Ok up ->
  NoDup (map fst (cby_idx cs)) -> NoDup (map fst (cby_idx up)).
Proof.
  intros Hf H Hnd. unfold rebuild_uprp in H. rewrite Hf in H. cbn [bind] in H.
  destruct (existsb _ cs) eqn:Enone; [discriminate|].
  match type of H with bind (add_cuwp_slots ?ex ?reqs) _ = _ => destruct (add_cuwp_slots ex reqs) as [outs|e] eqn:Ea; [|discriminate] end.
  cbn [bind] in H. inversion H; subst up. clear H.
  destruct (add_cuwp_slots_sound _ _ _ Ea) as (_ & Hnodup & Hfree & _).
  match goal with |- context [flat_map _ (combine ?order outs)] => set (order0 := order) in * end.
  set (placed := flat_map (fun p : rcuwp * outcome => match snd p with Placed i0 => [(fst p, i0)] | _ => [] end) (combine order0 outs)).
  assert (flat_map (fun p : rcuwp * outcome => match snd p with Placed i0 => [set_cidx (fst p) i0] | _ => [] end) (combine order0 outs)
          = map (fun q : rcuwp * N => set_cidx (fst q) (snd q)) placed) as Hshape.
  { unfold placed. clear. induction (combine order0 outs) as [|[q o] t IH]; simpl; [reflexivity|].
    destruct o; simpl; rewrite IH; reflexivity. }
  rewrite Hshape, cby_idx_app, map_app.
  assert (map fst (cby_idx (map (fun q : rcuwp * N => set_cidx (fst q) (snd q)) placed)) = map snd placed) as Hnew.
  { unfold cby_idx. clear. induction placed as [|[q j] t IH]; simpl; [reflexivity|]. rewrite IH. reflexivity. }
  rewrite Hnew.
  assert (NoDup (map snd placed)) as Hndp.
  { unfold placed. rewrite placed_pairs_indices. apply placed_ids_firstn_nodup. exact Hnodup. }
  assert (forall j, In j (map snd placed) -> In j (placed_ids outs)) as Hsub.
  { intros j Hj. unfold placed in Hj. rewrite placed_pairs_indices in Hj. eapply placed_ids_firstn_subset. exact Hj. }
  apply NoDup_app_intro; [exact Hnd | exact Hndp |].
  intros j Hj Hc. apply (Hfree j (Hsub j Hj)).
  apply in_map_iff in Hc as ([k cc] & Hk & Hin). simpl in Hk. subst k.
  unfold cby_idx in Hin. apply in_flat_map in Hin as (c1 & Hc1 & Hin1). apply in_flat_map. exists c1. split; [exact Hc1|].
  destruct (c_idx c1); [|destruct Hin1]. destruct Hin1 as [Heq|[]]. inversion Heq; subst. left. reflexivity.
Qed.

Theorem saved_cuwp_number_names_the_set r cs up cx c i :
  filter (named "UPRP") r = [RUprp cs] -> rebuild_uprp r = Ok up -> cx_cuwps cx = up ->
  NoDup (map fst (cby_idx cs)) ->                        (* the loaded table has one set per number (decode gives that) *)
  id_by_cuwp cx c = Ok i ->
  exists k, assocN_last i (cby_idx up) = Some k /\ rcuwp_eqb c k = true.
Proof.
  intros Hf H Hcx Hnd Hid. subst up.
  pose proof (rebuilt_uprp_indices_distinct _ _ _ Hf H Hnd) as Hnd2.
  assert (forall j, of_option KeyError (find_cuwp_id c (cx_cuwps cx) None) = Ok j ->
                    exists k, assocN_last j (cby_idx (cx_cuwps cx)) = Some k /\ rcuwp_eqb c k = true) as Hfind.
  { intros j Hj. destruct (find_cuwp_id c (cx_cuwps cx) None) as [j'|] eqn:E; [|discriminate]. inversion Hj; subst j'.
    apply find_cuwp_id_some in E as [Hc|(k & Hin & He & Hi)]; [discriminate|].
    exists k. split; [|exact He]. apply assocN_last_unique; [exact Hnd2|].
    unfold cby_idx. apply in_flat_map. exists k. split; [exact Hin|]. rewrite Hi. left. reflexivity. }
  unfold id_by_cuwp in Hid. destruct (c_idx c) as [ci|]; [|apply Hfind; exact Hid].
  unfold cuwp_by_id in Hid. fold (cby_idx (cx_cuwps cx)) in Hid.
  destruct (assocN_last ci (cby_idx (cx_cuwps cx))) as [k|] eqn:Ek; [|apply Hfind; exact Hid].
  destruct (rcuwp_eqb c k) eqn:Eq.
  - inversion Hid; subst i. exists k. split; assumption.
  - apply Hfind. exact Hid.
Qed.

(* the premise holds of every unit-property table decode_chk returns *)
Lemma uprp_decode_slots_indices : forall vs i0 cs,
  uprp_decode_slots vs i0 = Ok cs ->
  (forall j, In j (map fst (cby_idx cs)) -> i0 < j) /\ NoDup (map fst (cby_idx cs)).
Proof.
  induction vs as [|v r IH]; intros i0 cs H.
  - simpl in H. inversion H; subst. split; [intros j []|constructor].
  - cbn [uprp_decode_slots] in H. inv_bind H as rest Hrest Hk. destruct (IH _ _ Hrest) as [Hgt Hnd].
    destruct (cuwp_is_unused v).
    + inversion Hk; subst cs. split; [|exact Hnd]. intros j Hj. specialize (Hgt j Hj). lia.
    + repeat (let x := fresh "x" in let Hx := fresh "Hx" in let Hk' := fresh "Hk" in
              match type of Hk with bind _ _ = Ok _ => apply bind_ok_inv in Hk as (x & Hx & Hk') ; rename Hk' into Hk end).
      inversion Hk; subst cs. clear Hk.
      unfold cby_idx. cbn [flat_map c_idx app map fst]. fold (cby_idx rest). split.
      * intros j [<-|Hj]; [lia|]. specialize (Hgt j Hj). lia.
      * constructor; [|exact Hnd]. intros Hc. specialize (Hgt _ Hc). lia.
Qed.

Theorem loaded_uprp_table_has_one_set_per_number v cs :
  uprp_decode v = Ok cs -> NoDup (map fst (cby_idx cs)).
Proof. intros H. exact (proj2 (uprp_decode_slots_indices _ _ _ H)). Qed.

(* ---- the slot itself, read back by a later load: the unit-property set with the authored values, carrying the slot's number ---- *)
From RC Require Import model.Flags proofs.Flags_proofs proofs.C12_proofs proofs.C04_readback gen.GenFlags.

Lemma flags_read_back c nb bs n :
  (forall l : list bool, length l = n -> rich_roundtrip c nb l) -> length (fc_dec c) = n -> length bs = n ->
  forall x, flags_to c bs = Ok x -> flags_of c x = Ok bs.
Proof.
  intros Hrt Hnames Hlen x Hx. unfold flags_to in Hx. unfold flags_of.
  destruct (Hrt bs Hlen) as (x0 & E0 & _ & D0). rewrite E0 in Hx. inversion Hx; subst x0.
  rewrite D0. cbn [bind]. unfold rich_of_bools. rewrite map_snd_combine; [reflexivity|]. rewrite map_length. congruence.
Qed.

Theorem an_emitted_cuwp_slot_reads_back c slot i0 :
  cuwp_encode c = Ok slot ->
  length (c_vs c) = 6%nat -> length (c_vu c) = 7%nat -> length (c_flags c) = 5%nat ->
  cuwp_is_unused slot = false ->                         (* content equal to an empty slot is the recorded C11 finding *)
  uprp_decode_slots [slot] i0 =
    Ok [{| c_hp := c_hp c; c_sh := c_sh c; c_en := c_en c; c_res := c_res c; c_hang := c_hang c; c_flags := c_flags c;
           c_vs := c_vs c; c_vu := c_vu c; c_unk := c_unk c; c_pad := c_pad c; c_idx := Some (i0 + 1) |}].
Proof.
  intros H Hvs Hvu Hfl Hused. unfold cuwp_encode in H.
  inv_bind H as a Ha Hk. inv_bind Hk as b Hb Hk2. inv_bind Hk2 as f Hf Hk3.
  match type of Hk3 with Ok ?p = Ok _ => assert (slot = p) as -> by congruence end. clear Hk3.
  cbn [uprp_decode_slots bind]. rewrite Hused.
  change (vint "_valid_special_properties_flags" (mk_struct _)) with a.
  change (vint "_valid_unit_properties_flags" (mk_struct _)) with b.
  change (vint "_flags" (mk_struct _)) with f.
  change (vint "_hitpoints_percentage" (mk_struct _)) with (c_hp c).
  change (vint "_shieldpoints_percentage" (mk_struct _)) with (c_sh c).
  change (vint "_energypoints_percentage" (mk_struct _)) with (c_en c).
  change (vint "_resource_amount" (mk_struct _)) with (c_res c).
  change (vint "_units_in_hangar" (mk_struct _)) with (c_hang c).
  change (vint "_padding" (mk_struct _)) with (c_pad c).
  rewrite (flags_read_back _ _ _ 6%nat cuwp_valid_special_flags_rich eq_refl Hvs _ Ha). cbn [bind].
  rewrite (flags_read_back _ _ _ 7%nat cuwp_valid_unit_flags_rich eq_refl Hvu _ Hb). cbn [bind].
  rewrite (flags_read_back _ _ (c_flags c ++ [c_unk c]) 6%nat cuwp_unit_property_flags_rich eq_refl
             ltac:(rewrite app_length, Hfl; reflexivity) _ Hf). cbn [bind].
  assert (firstn 5 (c_flags c ++ [c_unk c]) = c_flags c) as ->.
  { rewrite firstn_app, Hfl, Nat.sub_diag, firstn_O, app_nil_r. apply firstn_all2. lia. }
  assert (nth 5 (c_flags c ++ [c_unk c]) false = c_unk c) as ->.
  { rewrite app_nth2 by lia. rewrite Hfl, Nat.sub_diag. reflexivity. }
  reflexivity.
Qed.

(* ---- the whole emitted unit-property table, read back by a later load -------------------------------------------------------- *)
From RC Require Import proofs.Save_refs.

Lemma uprp_decode_cons s r i0 :
  uprp_decode_slots (s :: r) i0 =
  (do rest <- uprp_decode_slots r (i0 + 1); do hd <- uprp_decode_slots [s] i0; Ok (hd ++ rest)).
Proof.
  cbn [uprp_decode_slots]. destruct (uprp_decode_slots r (i0 + 1)) as [rest|e]; [|reflexivity]. cbn [bind].
  destruct (cuwp_is_unused s); [reflexivity|].
  destruct (flags_of cuwp_valid_special_flags_codec _); [|reflexivity]. cbn [bind].
  destruct (flags_of cuwp_valid_unit_flags_codec _); [|reflexivity]. cbn [bind].
  destruct (flags_of cuwp_unit_property_flags_codec _); reflexivity.
Qed.

Lemma single_cuwp_slot_indices s i0 p : uprp_decode_slots [s] i0 = Ok p -> forall j, In j (map fst (cby_idx p)) -> j = i0 + 1.
Proof.
  intros H j Hj. destruct (uprp_decode_slots_indices [s] i0 p H) as [Hgt _].
  cbn [uprp_decode_slots bind] in H. destruct (cuwp_is_unused s).
  - inversion H; subst p. destruct Hj.
  - repeat (let x := fresh "x" in let Hx := fresh "Hx" in let Hk' := fresh "Hk" in
            match type of H with bind _ _ = Ok _ => apply bind_ok_inv in H as (x & Hx & Hk'); rename Hk' into H end).
    inversion H; subst p. unfold cby_idx in Hj. cbn in Hj. destruct Hj as [<-|[]]. reflexivity.
Qed.

Theorem emitted_cuwp_table_reads_back_slotwise : forall slots i0,
  (forall k s, nth_error slots k = Some s -> exists p, uprp_decode_slots [s] (i0 + N.of_nat k) = Ok p) ->
  exists cs', uprp_decode_slots slots i0 = Ok cs' /\
    forall k s p, nth_error slots k = Some s -> uprp_decode_slots [s] (i0 + N.of_nat k) = Ok p ->
      assocN_last (i0 + N.of_nat k + 1) (cby_idx cs') = assocN_last (i0 + N.of_nat k + 1) (cby_idx p).
Proof.
  induction slots as [|s r IH]; intros i0 Hall.
  - exists []. split; [reflexivity|]. intros k s p Hk. destruct k; discriminate.
  - destruct (Hall 0%nat s eq_refl) as [p0 Hp0]. rewrite N.add_0_r in Hp0.
    destruct (IH (i0 + 1)) as (rest & Hrest & Hslots).
    { intros k s' Hk. destruct (Hall (S k) s' Hk) as [p Hp]. exists p.
      replace (i0 + 1 + N.of_nat k) with (i0 + N.of_nat (S k)) by lia. exact Hp. }
    exists (p0 ++ rest). split; [rewrite uprp_decode_cons, Hrest; cbn [bind]; rewrite Hp0; reflexivity|].
    destruct (uprp_decode_slots_indices _ _ _ Hrest) as [Hgt _].
    intros k s' p Hk Hp. rewrite cby_idx_app, assocN_last_app.
    destruct k as [|k]; cbn [nth_error] in Hk.
    + inversion Hk; subst s'. rewrite N.add_0_r in Hp. rewrite Hp0 in Hp. inversion Hp; subst p. rewrite N.add_0_r.
      rewrite (assocN_last_none (i0 + 1) (cby_idx rest)); [reflexivity|].
      intros Hc. specialize (Hgt _ Hc). lia.
    + replace (i0 + N.of_nat (S k) + 1) with (i0 + 1 + N.of_nat k + 1) by lia.
      replace (i0 + N.of_nat (S k)) with (i0 + 1 + N.of_nat k) in Hp by lia.
      rewrite (Hslots k s' p Hk Hp).
      destruct (assocN_last (i0 + 1 + N.of_nat k + 1) (cby_idx p)) as [x|] eqn:E; [reflexivity|].
      apply assocN_last_none. intros Hc. pose proof (single_cuwp_slot_indices s i0 p0 Hp0 _ Hc). lia.
Qed.

Lemma cby_idx_member cs i c : In (i, c) (cby_idx cs) -> In c cs.
Proof.
  unfold cby_idx. intros H. apply in_flat_map in H as (c0 & Hc0 & Hin). destruct (c_idx c0); [|destruct Hin].
  destruct Hin as [Heq|[]]. inversion Heq; subst. exact Hc0.
Qed.

Theorem saved_cuwp_table_reads_back cs v :
  uprp_encode cs = Ok v ->
  (forall c, In c cs -> length (c_vs c) = 6%nat /\ length (c_vu c) = 7%nat /\ length (c_flags c) = 5%nat) ->
  exists cs', uprp_decode v = Ok cs' /\
    forall k c slot, assocN_last (N.of_nat k + 1) (cby_idx cs) = Some c ->
      nth_error (vlist "_cuwp_slots" v) k = Some slot -> cuwp_is_unused slot = false ->
      assocN_last (N.of_nat k + 1) (cby_idx cs') =
        Some {| c_hp := c_hp c; c_sh := c_sh c; c_en := c_en c; c_res := c_res c; c_hang := c_hang c; c_flags := c_flags c;
                c_vs := c_vs c; c_vu := c_vu c; c_unk := c_unk c; c_pad := c_pad c; c_idx := Some (N.of_nat k + 1) |}.
Proof.
  intros H Hlens. unfold uprp_encode in H. destruct (existsb _ cs); [discriminate|]. cbv zeta in H. fold (cby_idx cs) in H.
  inv_bind H as slots Hs Hk.
  match type of Hk with Ok ?q = Ok _ => assert (v = q) as -> by congruence end. clear Hk.
  unfold uprp_decode. change (vlist "_cuwp_slots" (mk_struct [("_cuwp_slots", VList slots)])) with slots.
  pose proof (mapM_length _ _ _ Hs) as Hlen. rewrite map_length, seq_length in Hlen.
  assert (forall k s, nth_error slots k = Some s ->
            match assocN_last (N.of_nat k + 1) (cby_idx cs) with
            | Some c => cuwp_encode c = Ok s
            | None => s = empty_cuwp_val
            end) as Hslot.
  { intros k s Hk. assert (k < N.to_nat MAX_CUWP_SLOTS)%nat as Hlt by (rewrite <- Hlen; apply nth_error_Some; congruence).
    assert (nth_error (map N.of_nat (seq 0 (N.to_nat MAX_CUWP_SLOTS))) k = Some (N.of_nat k)) as Hseq
      by (rewrite nth_error_map, nth_error_seq_lt by exact Hlt; reflexivity).
    destruct (mapM_nth _ _ _ _ _ Hs Hseq) as (b & Hb & Hnb). rewrite Hk in Hnb. inversion Hnb; subst b. cbv beta in Hb.
    destruct (assocN_last (N.of_nat k + 1) (cby_idx cs)); [exact Hb | inversion Hb; reflexivity]. }
  destruct (emitted_cuwp_table_reads_back_slotwise slots 0) as (cs' & Hdec & Hpieces).
  { intros k s Hk. specialize (Hslot k s Hk). rewrite N.add_0_l.
    destruct (assocN_last (N.of_nat k + 1) (cby_idx cs)) as [c|] eqn:El.
    - destruct (cuwp_is_unused s) eqn:Eu.
      + exists []. cbn [uprp_decode_slots bind]. rewrite Eu. reflexivity.
      + destruct (Hlens c (cby_idx_member _ _ _ (assocN_last_in _ _ _ El))) as (L1 & L2 & L3).
        eexists. apply (an_emitted_cuwp_slot_reads_back c s (N.of_nat k) Hslot L1 L2 L3 Eu).
    - subst s. exists []. reflexivity. }
  exists cs'. split; [exact Hdec|].
  intros k c slot El Hk Hu. pose proof (Hslot k slot Hk) as Hs'. rewrite El in Hs'.
  destruct (Hlens c (cby_idx_member _ _ _ (assocN_last_in _ _ _ El))) as (L1 & L2 & L3).
  pose proof (an_emitted_cuwp_slot_reads_back c slot (N.of_nat k) Hs' L1 L2 L3 Hu) as Hone.
  match type of Hone with _ = Ok ?pp => pose proof (Hpieces k slot pp Hk) as Hp end. rewrite !N.add_0_l in Hp. rewrite (Hp Hone).
  unfold cby_idx. cbn [flat_map c_idx app assocN_last]. rewrite N.eqb_refl. reflexivity.
Qed.
