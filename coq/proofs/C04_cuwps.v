(* C04, "every new reference resolves to the authored object", unit-property sets, through the save's own rebuild: the number
   the save writes into a Create-Unit-with-Properties action for a set c (RichCuwpLookup.get_id_by_cuwp over the REBUILT
   table) names a slot of the rebuilt table that holds properties equal to c's. *)
From Coq Require Import String NArith List Bool Lia PeanoNat.
From RC Require Import lib.Result lib.Bytes model.Layout model.RichCodec model.RichIo model.Alloc
  proofs.Layout_proofs proofs.C08_proofs proofs.C09_proofs proofs.Save_strings proofs.C07_slots proofs.C07_triggers
  proofs.C04_locations gen.GenConsts.
Import ListNotations.
Local Open Scope string_scope.
Local Open Scope list_scope.
Local Open Scope N_scope.

Lemma find_cuwp_id_some c : forall t acc i,
  find_cuwp_id c t acc = Some i -> acc = Some i \/ exists k, In k t /\ rcuwp_eqb c k = true /\ c_idx k = Some i.
Proof.
  induction t as [|k t IH]; intros acc i H; simpl in H; [left; exact H|].
  apply IH in H as [H|(k' & Hin & He & Hi)].
  - destruct (rcuwp_eqb c k) eqn:E; [|left; exact H]. right. exists k. split; [left; reflexivity|]. split; [exact E | exact H].
  - right. exists k'. split; [right; exact Hin|]. split; assumption.
Qed.

Lemma NoDup_app_intro {A} (a b : list A) :
  NoDup a -> NoDup b -> (forall x, In x b -> ~ In x a) -> NoDup (a ++ b).
Proof.
  induction a as [|x a IH]; intros Ha Hb Hd; simpl; [exact Hb|].
  inversion Ha as [|? ? Hnot Ha']; subst. constructor.
  - intros Hc. apply in_app_iff in Hc as [Hc|Hc]; [contradiction|]. apply (Hd x Hc). left. reflexivity.
  - apply IH; [exact Ha' | exact Hb |]. intros y Hy Hc. apply (Hd y Hy). right. exact Hc.
Qed.

(* the rebuilt table has one set per number when the loaded one had *)
Lemma rebuilt_uprp_indices_distinct r cs up :
  filter (named "UPRP") r = [RUprp cs] -> rebuild_uprp r = Ok up ->
  NoDup (map fst (cby_idx cs)) -> NoDup (map fst (cby_idx up)).
Proof.
  intros Hf H Hnd. unfold rebuild_uprp in H. rewrite Hf in H. cbn [bind] in H.
  destruct (existsb _ cs) eqn:Enone; [discriminate|].
  match type of H with bind (add_cuwp_slots ?ex ?reqs) _ = _ => destruct (add_cuwp_slots ex reqs) as [outs|e] eqn:Ea; [|discriminate] end.
  cbn [bind] in H. inversion H; subst up. clear H.
  destruct (add_cuwp_slots_sound _ _ _ Ea) as (_ & Hnodup & Hfree & _).
  match goal with |- context [flat_map _ (combine ?order outs)] => set (order0 := order) in * end.
  set (placed := flat_map (fun p : rcuwp * outcome => match snd p with Placed i0 => [(fst p, i0)] | _ => [] end) (combine order0 outs)).
  assert (flat_map (fun p : rcuwp * outcome => match snd p with Placed i0 => [set_cidx (fst p) i0] | _ => [] end) (combine order0 outs)
          = map (fun q : rcuwp * N => set_cidx (fst q) (snd q)) placed) as Hshape.
  { unfold placed. clear. induction (combine order0 outs) as [|[q o] t IH]; simpl; [reflexivity|].
    destruct o; simpl; rewrite IH; reflexivity. }
  rewrite Hshape, cby_idx_app, map_app.
  assert (map fst (cby_idx (map (fun q : rcuwp * N => set_cidx (fst q) (snd q)) placed)) = map snd placed) as Hnew.
  { unfold cby_idx. clear. induction placed as [|[q j] t IH]; simpl; [reflexivity|]. rewrite IH. reflexivity. }
  rewrite Hnew.
  assert (NoDup (map snd placed)) as Hndp.
  { unfold placed. rewrite placed_pairs_indices. apply placed_ids_firstn_nodup. exact Hnodup. }
  assert (forall j, In j (map snd placed) -> In j (placed_ids outs)) as Hsub.
  { intros j Hj. unfold placed in Hj. rewrite placed_pairs_indices in Hj. eapply placed_ids_firstn_subset. exact Hj. }
  apply NoDup_app_intro; [exact Hnd | exact Hndp |].
  intros j Hj Hc. apply (Hfree j (Hsub j Hj)).
  apply in_map_iff in Hc as ([k cc] & Hk & Hin). simpl in Hk. subst k.
  unfold cby_idx in Hin. apply in_flat_map in Hin as (c1 & Hc1 & Hin1). apply in_flat_map. exists c1. split; [exact Hc1|].
  destruct (c_idx c1); [|destruct Hin1]. destruct Hin1 as [Heq|[]]. inversion Heq; subst. left. reflexivity.
Qed.

Theorem saved_cuwp_number_names_the_set r cs up cx c i :
  filter (named "UPRP") r = [RUprp cs] -> rebuild_uprp r = Ok up -> cx_cuwps cx = up ->
  NoDup (map fst (cby_idx cs)) ->                        (* the loaded table has one set per number (decode gives that) *)
  id_by_cuwp cx c = Ok i ->
  exists k, assocN_last i (cby_idx up) = Some k /\ rcuwp_eqb c k = true.
Proof.
  intros Hf H Hcx Hnd Hid. subst up.
  pose proof (rebuilt_uprp_indices_distinct _ _ _ Hf H Hnd) as Hnd2.
  assert (forall j, of_option KeyError (find_cuwp_id c (cx_cuwps cx) None) = Ok j ->
                    exists k, assocN_last j (cby_idx (cx_cuwps cx)) = Some k /\ rcuwp_eqb c k = true) as Hfind.
  { intros j Hj. destruct (find_cuwp_id c (cx_cuwps cx) None) as [j'|] eqn:E; [|discriminate]. inversion Hj; subst j'.
    apply find_cuwp_id_some in E as [Hc|(k & Hin & He & Hi)]; [discriminate|].
    exists k. split; [|exact He]. apply assocN_last_unique; [exact Hnd2|].
    unfold cby_idx. apply in_flat_map. exists k. split; [exact Hin|]. rewrite Hi. left. reflexivity. }
  unfold id_by_cuwp in Hid. destruct (c_idx c) as [ci|]; [|apply Hfind; exact Hid].
  unfold cuwp_by_id in Hid. fold (cby_idx (cx_cuwps cx)) in Hid.
  destruct (assocN_last ci (cby_idx (cx_cuwps cx))) as [k|] eqn:Ek; [|apply Hfind; exact Hid].
  destruct (rcuwp_eqb c k) eqn:Eq.
  - inversion Hid; subst i. exists k. split; assumption.
  - apply Hfind. exact Hid.
Qed.

(* the premise holds of every unit-property table decode_chk returns *)
Lemma uprp_decode_slots_indices : forall vs i0 cs,
  uprp_decode_slots vs i0 = Ok cs ->
  (forall j, In j (map fst (cby_idx cs)) -> i0 < j) /\ NoDup (map fst (cby_idx cs)).
Proof.
  induction vs as [|v r IH]; intros i0 cs H.
  - simpl in H. inversion H; subst. split; [intros j []|constructor].
  - cbn [uprp_decode_slots] in H. inv_bind H as rest Hrest Hk. destruct (IH _ _ Hrest) as [Hgt Hnd].
    destruct (cuwp_is_unused v).
    + inversion Hk; subst cs. split; [|exact Hnd]. intros j Hj. specialize (Hgt j Hj). lia.
    + repeat (let x := fresh "x" in let Hx := fresh "Hx" in let Hk' := fresh "Hk" in
              match type of Hk with bind _ _ = Ok _ => apply bind_ok_inv in Hk as (x & Hx & Hk') ; rename Hk' into Hk end).
      inversion Hk; subst cs. clear Hk.
      unfold cby_idx. cbn [flat_map c_idx app map fst]. fold (cby_idx rest). split.
      * intros j [<-|Hj]; [lia|]. specialize (Hgt j Hj). lia.
      * constructor; [|exact Hnd]. intros Hc. specialize (Hgt _ Hc). lia.
Qed.

Theorem loaded_uprp_table_has_one_set_per_number v cs :
  uprp_decode v = Ok cs -> NoDup (map fst (cby_idx cs)).
Proof. intros H. exact (proj2 (uprp_decode_slots_indices _ _ _ H)). Qed.
