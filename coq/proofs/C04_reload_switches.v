(* C04, end to end for SWITCH arguments: the number a save writes for a named switch is resolved, by the context a later load of
   the saved map builds, to the switch of that number carrying the authored name. *)
From Coq Require Import String NArith List Bool Lia PeanoNat.
From RC Require Import lib.Result lib.Bytes model.Layout model.Str model.ChkIo model.RichCodec model.RichIo
  proofs.Layout_proofs proofs.C08_proofs proofs.Save_strings proofs.Save_refs proofs.C07_slots proofs.C07_triggers
  proofs.C04_locations proofs.C04_reload proofs.C04_reload_locs proofs.C04_switches gen.GenConsts.
Import ListNotations.
Local Open Scope string_scope.
Local Open Scope list_scope.
Local Open Scope N_scope.

(* the save writes exactly ONE section named SWNM: the encoding of the rebuilt switch table, at the place of the map's own SWNM
   section or, when the map has none, appended *)
Theorem the_saved_swnm_section wd r d' sw new_str SL :
  save wd r = Ok d' -> RichIo.rebuild_swnm r = Ok sw -> rebuild_str r = Ok new_str -> build_str_lookup 2 new_str = Ok SL ->
  (forall s, In s r -> named "SWNM" s = true -> exists ss, s = RSwnm ss) ->      (* nothing else goes by that name *)
  (length (filter (named "SWNM") r) <= 1)%nat ->
  exists v, swnm_encode SL (fst sw) = Ok v /\ tabs_named "SWNM" d' = [v].
Proof.
  unfold save. intros H Hsw Hstr HSL Honly Hone.
  inv_bind H as new_str' H1 H. inv_bind H as mr H2 H. inv_bind H as sw' H3 H. inv_bind H as up H4 H.
  inv_bind H as us H5 H. inv_bind H as SL' H6 H. inv_bind H as chk H7 H. inv_bind H as secs Hm H.
  inv_bind H as e1 He1 H. inv_bind H as e2 He2 H.
  match type of H with Ok ?q = Ok _ => assert (d' = q) as -> by congruence end. clear H.
  rewrite Hsw in H3. inversion H3; subst sw'. rewrite Hstr in H1. inversion H1; subst new_str'.
  rewrite HSL in H6. inversion H6; subst SL'. clear H1 H3 H6.
  rewrite !tabs_named_app.
  assert (tabs_named "SWNM" e2 = []) as ->.
  { match type of He2 with (if ?c then _ else _) = _ => destruct c end; [inversion He2; reflexivity|].
    inv_bind He2 as v2 Hv2 Hk2. inversion Hk2; reflexivity. }
  assert (forall (c : bool), tabs_named "SWNM" (if c then [] else [DTab "UPUS" us]) = []) as Hx3 by (intros [|]; reflexivity).
  rewrite Hx3, !app_nil_r.
  set (F := fun s0 : rsection =>
               match s0 with
               | RMrgn _ => do v <- mrgn_encode SL (fst mr); Ok (DTab "MRGN" v)
               | RTrig ts => do v <- trig_encode {| cx_str := SL; cx_locs := fst mr; cx_loc_ids := snd mr; cx_switch_by_id := [];
                                                    cx_switch_ids := snd sw; cx_cuwps := up; cx_wav_dur := wd |} ts; Ok (DTab "TRIG" v)
               | RUnis nw n us0 => do v <- unis_encode SL nw us0; Ok (DTab n v)
               | RUprp _ => do v <- uprp_encode up; Ok (DTab "UPRP" v)
               | RSwnm _ => do v <- swnm_encode SL (fst sw); Ok (DTab "SWNM" v)
               | RWav ws => do v <- wav_encode SL ws; Ok (DTab "WAV " v)
               | RDecodedStr n w m => if String.eqb n "STR " then Ok (DStr n w new_str) else Ok (DStr n w m)
               | RDecodedTab n v => if String.eqb n "UPUS" then Ok (DTab n us) else Ok (DTab n v)
               | RUnknown n p => Ok (DUnknown n p)
               end) in *.
  (* what the sections at their places contribute *)
  assert (forall s d, In s r -> F s = Ok d ->
            tabs_named "SWNM" [d] = match s with RSwnm _ => match swnm_encode SL (fst sw) with Ok v => [v] | Raise _ => [] end | _ => [] end)
    as Hpart.
  { intros s d Hin Hd. unfold F in Hd. destruct s as [ls0|ts|nw n usx|cs|ss|ws|n w m|n v0|n p]; cbn beta iota in Hd.
    - inv_bind Hd as x Hx Hkx. inversion Hkx; reflexivity.
    - inv_bind Hd as x Hx Hkx. inversion Hkx; reflexivity.
    - inv_bind Hd as x Hx Hkx. inversion Hkx; subst d. unfold tabs_named. cbn [flat_map app].
      destruct (String.eqb n "SWNM") eqn:En; [|reflexivity].
      exfalso. destruct (Honly _ Hin) as [ss Hss]; [cbn [named]; rewrite String.eqb_sym; exact En | discriminate].
    - inv_bind Hd as x Hx Hkx. inversion Hkx; reflexivity.
    - inv_bind Hd as x Hx Hkx. inversion Hkx; subst d. rewrite Hx. reflexivity.
    - inv_bind Hd as x Hx Hkx. inversion Hkx; reflexivity.
    - destruct (String.eqb n "STR "); inversion Hd; reflexivity.
    - destruct (String.eqb n "UPUS") eqn:Eu; inversion Hd; subst d; unfold tabs_named; cbn [flat_map app].
      + apply String.eqb_eq in Eu. subst n. reflexivity.
      + destruct (String.eqb n "SWNM") eqn:En; [|reflexivity].
        exfalso. destruct (Honly _ Hin) as [ss Hss]; [cbn [named]; rewrite String.eqb_sym; exact En | discriminate].
    - inversion Hd; reflexivity. }
  assert (forall r0 secs0, (forall s, In s r0 -> In s r) -> mapM F r0 = Ok secs0 ->
            tabs_named "SWNM" secs0 =
            flat_map (fun s => match s with RSwnm _ => match swnm_encode SL (fst sw) with Ok v => [v] | Raise _ => [] end | _ => [] end) r0)
    as Hall.
  { induction r0 as [|s r0 IH]; intros secs0 Hsub Hm0; simpl in Hm0.
    - inversion Hm0; reflexivity.
    - inv_bind Hm0 as d Hd Hk. inv_bind Hk as ds Hds Hk2. inversion Hk2; subst secs0.
      change (d :: ds) with ([d] ++ ds). rewrite tabs_named_app, (Hpart s d (Hsub s (or_introl eq_refl)) Hd).
      rewrite (IH ds (fun s0 Hs0 => Hsub s0 (or_intror Hs0)) Hds). reflexivity. }
  rewrite (Hall r secs (fun s Hs => Hs) Hm).
  destruct (existsb (fun s : rsection => match s with RSwnm _ => true | _ => false end) r) eqn:Ehas.
  - (* the map has a SWNM section: it was encoded there, nothing is appended *)
    apply existsb_exists in Ehas as (s0 & Hs0 & Hc). destruct s0; try discriminate.
    destruct (In_nth_error _ _ Hs0) as [ix Hix]. destruct (mapM_nth _ _ _ _ _ Hm Hix) as (dm & Hdm & _). unfold F in Hdm. cbn beta iota in Hdm.
    inv_bind Hdm as v Hv Hk. exists v. split; [exact Hv|]. rewrite Hv.
    assert (tabs_named "SWNM" e1 = []) as ->.
    { match type of He1 with (if ?c then _ else _) = _ =>
        assert (c = true) as Hc1; [|rewrite Hc1 in He1; inversion He1; reflexivity] end.
      apply existsb_exists. exists (RSwnm ss). split; [exact Hs0|]. reflexivity. }
    rewrite app_nil_r.
    clear -Hone Hs0. induction r as [|s r IH]; [destruct Hs0|]. cbn [filter] in Hone. cbn [flat_map].
    destruct Hs0 as [->|Hin].
    + cbn [named] in Hone. rewrite String.eqb_refl in Hone. cbn [length] in Hone.
      assert (filter (named "SWNM") r = []) as Hnil by (destruct (filter (named "SWNM") r); [reflexivity | simpl in Hone; lia]).
      assert (flat_map (fun s => match s with RSwnm _ => [v] | _ => [] end) r = []) as ->; [|reflexivity].
      clear -Hnil. induction r as [|s r IH]; [reflexivity|]. cbn [filter] in Hnil. destruct (named "SWNM" s) eqn:En; [discriminate|].
      cbn [flat_map]. rewrite (IH Hnil). destruct s; try reflexivity. cbn [named] in En. rewrite String.eqb_refl in En. discriminate.
    + destruct (named "SWNM" s) eqn:En.
      * exfalso. assert (In (RSwnm ss) (filter (named "SWNM") r)) as Hx by (apply filter_In; split; [exact Hin | cbn [named]; apply String.eqb_refl]).
        cbn [length] in Hone. destruct (filter (named "SWNM") r); [destruct Hx | simpl in Hone; lia].
      * rewrite (IH Hone Hin). destruct s; try reflexivity. cbn [named] in En. rewrite String.eqb_refl in En. discriminate.
  - (* the map has none: the rebuilt table is appended *)
    assert (flat_map (fun s => match s with RSwnm _ => match swnm_encode SL (fst sw) with Ok v => [v] | Raise _ => [] end | _ => [] end) r = []) as ->.
    { clear -Ehas. induction r as [|s r IH]; [reflexivity|]. cbn [existsb] in Ehas. apply orb_false_iff in Ehas as [E1 E2].
      cbn [flat_map]. rewrite (IH E2). destruct s; try reflexivity. discriminate. }
    match type of He1 with (if ?c then _ else _) = _ => assert (c = false) as Hc1 end.
    { apply not_true_is_false. intros Hc. apply existsb_exists in Hc as (s0 & Hs0 & Hq).
      apply not_true_iff_false in Ehas. apply Ehas. apply existsb_exists. exists s0. split; [exact Hs0|].
      destruct s0; try discriminate; try reflexivity. apply andb_true_iff in Hq as [Hq1 Hq2].
      apply String.eqb_eq in Hq1. apply String.eqb_eq in Hq2. subst. discriminate. }
    rewrite Hc1 in He1. inv_bind He1 as v Hv Hk. inversion Hk; subst e1. exists v. split; [exact Hv|]. reflexivity.
Qed.

Lemma swnm_go_keys L : forall ids k0,
  map fst ((fix go (ids : list N) (k : N) : list (N * rswitch) :=
              match ids with
              | [] => []
              | sid :: r => (k, {| s_name := str_by_id L sid; s_idx := Some k; s_oid := 0 |}) :: go r (k + 1)
              end) ids k0)
  = map (fun j => k0 + N.of_nat j) (seq 0 (length ids)).
Proof.
  induction ids as [|x r IH]; intros k0; [reflexivity|]. cbn [map fst length seq]. rewrite N.add_0_r. f_equal.
  rewrite IH. rewrite <- seq_shift, map_map. apply map_ext. intros j. lia.
Qed.

Lemma swnm_lookup_keys_nodup L v : NoDup (map fst (swnm_lookup L v)).
Proof.
  unfold swnm_lookup. rewrite swnm_go_keys.
  apply FinFun.Injective_map_NoDup; [|apply seq_NoDup]. intros a b H. lia.
Qed.

(* end to end: the number written for a named switch, looked up in the context a later load of the saved map builds *)
Theorem switch_number_resolves_after_reload wd r d' cx' sw new_str SL s k :
  save wd r = Ok d' -> decode_context d' = Ok cx' ->
  RichIo.rebuild_swnm r = Ok sw -> rebuild_str r = Ok new_str -> build_str_lookup 2 new_str = Ok SL ->
  N.of_nat (length (sl_by_id SL)) <= 1000000 ->
  (forall x, In x r -> named "SWNM" x = true -> exists ss, x = RSwnm ss) -> (length (filter (named "SWNM") r) <= 1)%nat ->
  find_switch_id s (snd sw) None = Some k -> (N.to_nat k < N.to_nat MAX_SWITCHES)%nat ->
  rstr_empty (s_name s) = false ->
  (forall u, In (u, k) (snd sw) -> rstr_empty (s_name u) = false -> sw_norm u = sw_norm s) ->
  exists entry, assocN_last k (cx_switch_by_id cx') = Some entry /\ sw_norm entry = sw_norm s /\ s_idx entry = Some k.
Proof.
  intros Hs Hc Hsw Hstr HSL Hsmall Honly Hone Hfind Hk Hnamed Huniq.
  destruct (saved_switch_number_names_the_switch r sw s k Hsw Hfind Hk Hnamed Huniq) as (slot & Hslot & Hname & Hidx).
  destruct (the_saved_swnm_section wd r d' sw new_str SL Hs Hsw Hstr HSL Honly Hone) as (v & Hv & Htabs).
  destruct (load_after_save_uses_the_saved_string_table _ _ _ _ Hs Hc) as (ns & L' & Hr' & HL' & Hcx').
  rewrite Hstr in Hr'. inversion Hr'; subst ns. rewrite HSL in HL'. inversion HL'; subst L'.
  assert (cx_switch_by_id cx' = swnm_lookup SL v) as Hby.
  { unfold decode_context in Hc. inv_bind Hc as str Hstr' Hk1. inv_bind Hk1 as L0 HL0 Hk2. inv_bind Hk2 as mv Hmv Hk3.
    inv_bind Hk3 as locs Hlocs Hk4. inv_bind Hk4 as cw Hcw Hk5. inversion Hk5; subst cx'. cbn [cx_switch_by_id cx_str] in *.
    rewrite Htabs. subst L0. reflexivity. }
  pose proof (an_emitted_switch_table_reads_back SL (fst sw) v (N.to_nat k) slot Hsmall Hv Hslot) as Hnth.
  rewrite N2Nat.id in Hnth.
  eexists. split; [|split].
  - rewrite Hby. apply assocN_last_unique; [apply swnm_lookup_keys_nodup|]. eapply nth_error_In. exact Hnth.
  - unfold sw_norm in *. cbn [s_name]. exact Hname.
  - reflexivity.
Qed.
