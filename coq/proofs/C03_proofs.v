(* C02 / C03: round trips of the rich section transcoders, slot by slot, under the editor-form guards. *)
From Coq Require Import String NArith List Bool Lia.
From RC Require Import lib.Result lib.Bytes model.Layout model.Str model.StrEditor model.Flags model.RichCodec
  proofs.Layout_proofs proofs.Flags_proofs proofs.C12_proofs gen.GenFlags gen.GenConsts.
Import ListNotations.
Local Open Scope string_scope.
Local Open Scope list_scope.
Local Open Scope N_scope.

(* decoding a flag number and re-encoding the booleans goes through the generated codec unchanged *)
Lemma fdecode_names c x r : fdecode c x = Ok r -> map fst r = map (fun e => fst (fst e)) (fc_dec c).
Proof.
  unfold fdecode. generalize (fc_dec c). intros l. revert r.
  induction l as [|[[f k] ng] l IH]; intros r H; simpl in H.
  - inversion H; reflexivity.
  - inv_bind H as p Hp Hk. inv_bind Hk as r' Hr Hk2. inversion Hk2; subst.
    inv_bind Hp as b Hb Hk3. inversion Hk3; subst. simpl. f_equal. apply IH. assumption.
Qed.

Lemma combine_fst_snd {A B} (l : list (A * B)) : combine (map fst l) (map snd l) = l.
Proof. induction l as [|[a b] l IH]; simpl; [reflexivity | rewrite IH; reflexivity]. Qed.

Lemma flags_roundtrip c nb x :
  num_roundtrip c nb x -> exists bs, flags_of c x = Ok bs /\ flags_to c bs = Ok (x mod 2 ^ nb).
Proof.
  intros (r & Hd & He). exists (map snd r). unfold flags_of, flags_to. rewrite Hd. simpl. split; [reflexivity|].
  unfold rich_of_bools. rewrite <- (fdecode_names _ _ _ Hd), combine_fst_snd. exact He.
Qed.

Lemma small_mod x k : x < 2 ^ k -> x mod 2 ^ k = x.
Proof. intros H. apply N.mod_small. assumption. Qed.

(* ---- one location slot -------------------------------------------------------------------------------------- *)

Definition loc_val (x1 y1 x2 y2 sid fl : N) : val :=
  mk_struct [("_left_x1", VInt x1); ("_top_y1", VInt y1); ("_right_x2", VInt x2); ("_bottom_y2", VInt y2);
             ("_string_id", VInt sid); ("_elevation_flags", VInt fl)].

(* "references using the last ID of their text": the id read is the id written back *)
Definition last_id_guard (L : str_lookup) (sid : N) : Prop := id_by_str L (str_by_id L sid) = Ok sid.

Lemma location_slot_roundtrip L x1 y1 x2 y2 sid fl i :
  fl < 64 -> last_id_guard L sid ->
  loc_is_unused (loc_val x1 y1 x2 y2 sid fl) = false ->
  exists l, mrgn_decode_locs L [loc_val x1 y1 x2 y2 sid fl] i = Ok [l] /\
            l_idx l = Some (i + 1) /\ loc_encode L l = Ok (loc_val x1 y1 x2 y2 sid fl).
Proof.
  intros Hfl Hsid Hused.
  assert (fl < 65536) as Hfl' by lia.
  destruct (flags_roundtrip _ _ _ (elevation_flags_num fl Hfl')) as (bs & Hd & He).
  rewrite small_mod in He by assumption.
  cbn [mrgn_decode_locs]. cbn [bind]. rewrite Hused.
  change (vint "_elevation_flags" (loc_val x1 y1 x2 y2 sid fl)) with fl. rewrite Hd. cbn [bind].
  eexists. split; [reflexivity|]. split; [reflexivity|].
  unfold loc_encode. cbn [l_name l_elev l_x1 l_y1 l_x2 l_y2].
  change (vint "_string_id" (loc_val x1 y1 x2 y2 sid fl)) with sid.
  unfold last_id_guard in Hsid. rewrite Hsid. cbn [bind]. rewrite He. reflexivity.
Qed.

(* an unused slot stays the all-zero record *)
Lemma empty_location_slot : loc_is_unused empty_loc_val = true /\ empty_loc_val = loc_val 0 0 0 0 0 0.
Proof. split; reflexivity. Qed.

(* ---- one unit-property slot ------------------------------------------------------------------------------------ *)

Definition cuwp_val (vs vu ow hp sh en res hang fl pad : N) : val :=
  mk_struct [("_valid_special_properties_flags", VInt vs); ("_valid_unit_properties_flags", VInt vu);
             ("_owner_player", VInt ow); ("_hitpoints_percentage", VInt hp); ("_shieldpoints_percentage", VInt sh);
             ("_energypoints_percentage", VInt en); ("_resource_amount", VInt res); ("_units_in_hangar", VInt hang);
             ("_flags", VInt fl); ("_padding", VInt pad)].

Lemma cuwp_slot_roundtrip vs vu hp sh en res hang fl pad i :
  vs < 64 -> vu < 128 -> fl < 64 ->
  cuwp_is_unused (cuwp_val vs vu 0 hp sh en res hang fl pad) = false ->
  exists c, uprp_decode_slots [cuwp_val vs vu 0 hp sh en res hang fl pad] i = Ok [c] /\
            c_idx c = Some (i + 1) /\ cuwp_encode c = Ok (cuwp_val vs vu 0 hp sh en res hang fl pad).
Proof.
  intros Hvs Hvu Hfl Hused.
  destruct (flags_roundtrip _ _ _ (cuwp_valid_special_flags_num vs ltac:(lia))) as (b1 & D1 & E1).
  destruct (flags_roundtrip _ _ _ (cuwp_valid_unit_flags_num vu ltac:(lia))) as (b2 & D2 & E2).
  destruct (flags_roundtrip _ _ _ (cuwp_unit_property_flags_num fl ltac:(lia))) as (b3 & D3 & E3).
  rewrite small_mod in E1, E2, E3 by assumption.
  cbn [uprp_decode_slots]. cbn [bind]. rewrite Hused.
  change (vint "_valid_special_properties_flags" (cuwp_val vs vu 0 hp sh en res hang fl pad)) with vs.
  change (vint "_valid_unit_properties_flags" (cuwp_val vs vu 0 hp sh en res hang fl pad)) with vu.
  change (vint "_flags" (cuwp_val vs vu 0 hp sh en res hang fl pad)) with fl.
  rewrite D1. cbn [bind]. rewrite D2. cbn [bind]. rewrite D3. cbn [bind].
  eexists. split; [reflexivity|]. split; [reflexivity|].
  unfold cuwp_encode. cbn [c_vs c_vu c_flags c_unk c_hp c_sh c_en c_res c_hang c_pad].
  rewrite E1. cbn [bind]. rewrite E2. cbn [bind].
  (* the six unit-property flags were split into five named ones and the unknown one, and are put back together *)
  assert (length b3 = 6%nat) as Hlen.
  { unfold flags_of in D3. destruct (fdecode cuwp_unit_property_flags_codec fl) as [r|] eqn:Er; [|discriminate].
    simpl in D3. inversion D3; subst. rewrite map_length. apply fdecode_names in Er.
    apply (f_equal (@length _)) in Er. rewrite map_length in Er. rewrite Er. reflexivity. }
  assert (firstn 5 b3 ++ [nth 5 b3 false] = b3) as ->.
  { destruct b3 as [|a0 [|a1 [|a2 [|a3 [|a4 [|a5 [|a6 b3]]]]]]]; simpl in Hlen; try discriminate. reflexivity. }
  rewrite E3. reflexivity.
Qed.
