(* C15 / C16: every execution (every fault schedule) of every file-writing entry point, by complete
   enumeration of the non-deterministic semantics inside the kernel. *)
From Coq Require Import String NArith List Bool Lia.
From RC Require Import lib.Result model.IoDsl gen.GenIoDefaults.
Import ListNotations.
Local Open Scope string_scope.

(* the entry points as functions of the overwrite flag, the number of sounds already in the base map (0..3)
   and the number of audio files imported (1..3) *)
Definition entry_points : list (string * (bool -> nat -> nat -> list cmd)) :=
  [("encode_chk_to_file", fun b _ _ => prog_encode_chk_to_file b);
   ("extract_file", fun b _ _ => prog_extract_file b);
   ("extract_chk_from_mpq", fun b _ _ => prog_extract_chk_from_mpq b);
   ("save_chk_to_mpq", fun b ns _ => prog_save_chk_to_mpq b ns);
   ("add_audio_files_to_mpq", fun b ns na => prog_add_audio_files_to_mpq b ns na)].

Definition sound_counts : list nat := [0; 1; 2; 3]%nat.
Definition audio_counts : list nat := [1; 2; 3]%nat.

Fixpoint default_of (n : string) (l : list (string * bool)) : option bool :=
  match l with [] => None | (m, b) :: r => if String.eqb n m then Some b else default_of n r end.

(* the fault-free execution is the first one enumerated *)
Definition faultfree (rs : list run_result) : option run_result :=
  find (fun r => match fst (fst r) with [] => true | _ => false end) rs.

(* C15a: destination exists, flag not set (the DEFAULT read from the source, and false): every execution fails
   leaving every file as it was; without faults the failure is FileExistsError *)
Definition refuses (prog : list cmd) : bool :=
  let f0 := fs_of true true true in
  let rs := all_runs prog f0 in
  forallb (fun r => let '(tr, o, f) := r in
                    match o with Failed _ => true | Done => false end &&
                    forallb (fun p => unchanged p f0 f) (Base :: Dst :: Audio :: temp_paths)) rs &&
  match faultfree rs with Some (_, Failed FileExists, _) => true | _ => false end.

Definition c15_refuses_all : bool :=
  forallb (fun ep =>
    match default_of (fst ep) gen_overwrite_defaults with
    | Some d =>
        negb d &&
        forallb (fun ns => forallb (fun na => refuses (snd ep d ns na) && refuses (snd ep false ns na)) audio_counts)
                sound_counts
    | None => false
    end) entry_points.

Lemma c15_refuses_all_true : c15_refuses_all = true.
Proof. vm_compute. reflexivity. Qed.

(* C15b: with opt-in, whatever happens (any fault), no file other than the destination is changed or left behind *)
Definition c15_only_dst_all : bool :=
  forallb (fun ep =>
    forallb (fun ns => forallb (fun na =>
      forallb (fun dst =>
        let f0 := fs_of true dst true in
        forallb (only_dst_changes f0) (all_runs (snd ep true ns na) f0)) [true; false]) audio_counts) sound_counts)
    entry_points.

Lemma c15_only_dst_all_true : c15_only_dst_all = true.
Proof. vm_compute. reflexivity. Qed.

(* C16: save and audio import, destination absent or existing, every fault schedule *)
Definition c16_atomic_all : bool :=
  forallb (fun ns =>
    forallb (fun dst =>
      let f0 := fs_of true dst true in
      forallb (atomic_ok f0) (all_runs (prog_save_chk_to_mpq true ns) f0) &&
      (dst || forallb (atomic_ok f0) (all_runs (prog_save_chk_to_mpq false ns) f0)) &&
      forallb (fun na => forallb (atomic_ok f0) (all_runs (prog_add_audio_files_to_mpq true ns na) f0)) audio_counts)
      [true; false]) sound_counts.

Lemma c16_atomic_all_true : c16_atomic_all = true.
Proof. vm_compute. reflexivity. Qed.

(* reading a map never changes it and leaves no temp file, under every fault schedule *)
Definition c16_read_all : bool :=
  let f0 := fs_of true false false in
  forallb (fun r => let '(tr, o, f) := r in unchanged Base f0 f && no_temp_left f && unchanged Dst f0 f)
          (all_runs (prog_read_chk_from_mpq Base 0) f0).

Lemma c16_read_all_true : c16_read_all = true.
Proof. vm_compute. reflexivity. Qed.

(* the unrepaired save (destination written by a plain copy) is NOT atomic: the witness is the execution in which
   the final copy fails part-way *)
Lemma unrepaired_save_refuted :
  exists r, In r (all_runs (prog_save_chk_to_mpq_unrepaired true 0) (fs_of true true true)) /\
            atomic_ok (fs_of true true true) r = false.
Proof.
  eexists. split.
  - apply filter_In with (f := fun r => negb (atomic_ok (fs_of true true true) r)).
    vm_compute. left. reflexivity.
  - vm_compute. reflexivity.
Qed.

(* how many executions the statements above range over *)
Lemma execution_counts :
  length (all_runs (prog_save_chk_to_mpq true 3) (fs_of true true true)) = 53%nat /\
  length (all_runs (prog_add_audio_files_to_mpq true 3 3) (fs_of true true true)) = 108%nat.
Proof. vm_compute. split; reflexivity. Qed.
