(* C04, the sound table, read back by a later load: a sound the save wrote into slot k is found by that load at slot k under
   the same path. *)
From Coq Require Import String NArith List Bool Lia PeanoNat.
From RC Require Import lib.Result lib.Bytes model.Layout model.RichCodec
  proofs.Layout_proofs proofs.C08_proofs proofs.Save_strings proofs.Save_refs gen.GenConsts.
Import ListNotations.
Local Open Scope string_scope.
Local Open Scope list_scope.
Local Open Scope N_scope.

Section Go.
  Variable L : str_lookup.
  Fixpoint wav_go (ids : list N) (k : N) : list (rstr * N) :=
    match ids with
    | [] => []
    | sid :: r => if sid =? UNUSED_WAV_STRING_ID then wav_go r (k + 1) else (str_by_id L sid, k) :: wav_go r (k + 1)
    end.
End Go.

Lemma wav_decode_go L v : wav_decode L v = wav_go L (vints "_wav_string_ids" v) 0.
Proof. reflexivity. Qed.

Lemma wav_go_in L : forall ids k0 j sid,
  nth_error ids j = Some sid -> sid <> UNUSED_WAV_STRING_ID -> In (str_by_id L sid, k0 + N.of_nat j) (wav_go L ids k0).
Proof.
  induction ids as [|x r IH]; intros k0 j sid H Hne; [destruct j; discriminate|].
  destruct j as [|j]; cbn [nth_error] in H; cbn [wav_go].
  - inversion H; subst x. destruct (sid =? UNUSED_WAV_STRING_ID) eqn:E; [apply N.eqb_eq in E; contradiction|].
    left. rewrite N.add_0_r. reflexivity.
  - replace (k0 + N.of_nat (S j)) with (k0 + 1 + N.of_nat j) by lia.
    destruct (x =? UNUSED_WAV_STRING_ID); [|right]; apply IH; assumption.
Qed.

Theorem an_emitted_sound_table_reads_back L ws v k p :
  N.of_nat (length (sl_by_id L)) <= 1000000 -> wav_encode L ws = Ok v ->
  (k < N.to_nat MAX_WAV_FILES)%nat ->
  assocN_last (N.of_nat k) (map (fun w : rstr * N => (snd w, fst w)) ws) = Some p ->
  p <> RNull ->                                        (* a sound has a path *)
  In (p, N.of_nat k) (wav_decode L v).
Proof.
  intros Hsmall H Hk Hslot Hp. unfold wav_encode in H. cbv zeta in H. inv_bind H as ids Hids Hk2.
  match type of Hk2 with Ok ?q = Ok _ => assert (v = q) as -> by congruence end. clear Hk2.
  rewrite wav_decode_go.
  change (mk_struct [("_wav_string_ids", VList (map VInt ids))]) with (VPair (VNamed "_wav_string_ids" (VList (map VInt ids))) VUnit).
  rewrite vints_single.
  assert (nth_error (map N.of_nat (seq 0 (N.to_nat MAX_WAV_FILES))) k = Some (N.of_nat k)) as Hseq
    by (rewrite nth_error_map, nth_error_seq_lt by exact Hk; reflexivity).
  destruct (mapM_nth _ _ _ _ _ Hids Hseq) as (sid & Hsid & Hn). cbv beta in Hsid. rewrite Hslot in Hsid.
  destruct (id_by_str_resolves _ _ _ Hsmall Hsid) as [Hres Hrange].
  assert (sid <> UNUSED_WAV_STRING_ID) as Hne.
  { intros ->. unfold str_by_id in Hres. change (UNUSED_WAV_STRING_ID =? 0) with true in Hres. cbv iota in Hres. congruence. }
  pose proof (wav_go_in L ids 0 k sid Hn Hne) as Hin. rewrite N.add_0_l, Hres in Hin. exact Hin.
Qed.
