(* Generic theorems about the layout interpreters, proved once for every layout. *)
From Coq Require Import String NArith List Bool Lia PeanoNat.
From RC Require Import lib.Result lib.Bytes model.Layout.
Import ListNotations.

Tactic Notation "inv_bind" hyp(H) "as" ident(x) ident(Hx) ident(Hk) :=
  apply bind_ok_inv in H as (x & Hx & Hk).

(* ---------------------------------------------------------------------------------- *)
(* 1. a fixed-size layout consumes exactly its size *)

Lemma rep_dec_size d n s :
  (forall bs v rest, d bs = Ok (v, rest) -> length bs = s + length rest) ->
  forall bs vs rest, rep_dec d n bs = Ok (vs, rest) -> length bs = n * s + length rest /\ length vs = n.
Proof.
  intros Hd. induction n as [|n IH]; intros bs vs rest H; simpl in H.
  - inversion H; subst. simpl. split; reflexivity.
  - inv_bind H as p1 Ha Hk. destruct p1 as [v r1]. inv_bind Hk as p2 Ha0 Hb. destruct p2 as [vs' r2]. simpl in *.
    inversion Hb; subst. apply Hd in Ha. apply IH in Ha0 as [Hl Hn]. simpl. split; lia.
Qed.

Lemma decode_size l :
  forall fuel bs v rest s, wf_l l = true -> size_l l = Some s ->
    decode_l fuel l bs = Ok (v, rest) -> length bs = s + length rest.
Proof.
  induction l as [w|n st l IH|a IHa b IHb|f l IH| |l IH|sz l IH]; intros fuel bs v rest s Hwf Hs H; simpl in *.
  - inv_bind H as p1 Ha Hb. destruct p1 as [x r]. inversion Hb; subst. inversion Hs; subst.
    apply unpack_ok_inv in Ha as (Hlen & _ & ->). simpl. rewrite skipn_length. lia.
  - destruct (size_l l) as [sl|] eqn:El; [|discriminate]. inversion Hs; subst.
    inv_bind H as p1 Ha Hb. destruct p1 as [vs r]. inversion Hb; subst. simpl.
    eapply rep_dec_size in Ha as [Hl _]; [exact Hl|].
    intros bs' v' rest' H'. eapply IH; eauto.
  - apply andb_true_iff in Hwf as [Hwa Hwb].
    destruct (size_l a) as [sa|] eqn:Ea; [|discriminate].
    destruct (size_l b) as [sb|] eqn:Eb; [|discriminate]. inversion Hs; subst.
    inv_bind H as p1 Ha Hk. destruct p1 as [va ra]. inv_bind Hk as p2 Ha0 Hb. destruct p2 as [vb rb]. simpl in *.
    inversion Hb; subst.
    eapply IHa in Ha; eauto. eapply IHb in Ha0; eauto. lia.
  - inv_bind H as p1 Ha Hb. destruct p1 as [x r]. inversion Hb; subst. simpl. eapply IH; eauto.
  - inversion H; inversion Hs; subst. reflexivity.
  - discriminate.
  - apply andb_true_iff in Hwf as [Hw Hsz]. destruct (size_l l) as [sl|] eqn:El; [|discriminate].
    apply andb_true_iff in Hsz as [Hsz _]. apply Nat.eqb_eq in Hsz. subst sl.
    inversion Hs; subst s. inv_bind H as p1 Ha Hb. destruct p1 as [x r]. inversion Hb; subst. simpl in *.
    eapply IH in Ha; eauto. rewrite firstn_length in Ha. rewrite skipn_length. lia.
Qed.

(* ---------------------------------------------------------------------------------- *)
(* 2. decode then encode reproduces the consumed bytes *)

Definition rt (d : bytes -> result (val * bytes)) (e : val -> result bytes) : Prop :=
  forall bs v rest, bytes_ok bs -> d bs = Ok (v, rest) -> exists pre, e v = Ok pre /\ pre ++ rest = bs.

Lemma rep_dec_roundtrip d e n : rt d e ->
  forall bs vs rest, bytes_ok bs -> rep_dec d n bs = Ok (vs, rest) ->
    exists pre, enc_list e vs = Ok pre /\ pre ++ rest = bs /\ length vs = n.
Proof.
  intros Hrt. induction n as [|n IH]; intros bs vs rest Hok H; simpl in H.
  - inversion H; subst. exists []. simpl. auto.
  - inv_bind H as p1 Ha Hk. destruct p1 as [v r1]. inv_bind Hk as p2 Ha0 Hb. destruct p2 as [vs' r2]. simpl in *.
    inversion Hb; subst.
    destruct (Hrt _ _ _ Hok Ha) as (p1 & E1 & A1).
    assert (bytes_ok r1) as Hok1 by (subst bs; apply bytes_ok_app_inv in Hok; tauto).
    destruct (IH _ _ _ Hok1 Ha0) as (p2 & E2 & A2 & L2).
    exists (p1 ++ p2). simpl. rewrite E1, E2. simpl. split; [reflexivity|]. split; [|lia].
    rewrite <- app_assoc. congruence.
Qed.

Lemma many_dec_roundtrip d e : rt d e ->
  forall fu bs vs, bytes_ok bs -> many_dec d fu bs = Ok vs -> enc_list e vs = Ok bs.
Proof.
  intros Hrt. induction fu as [|fu IH]; intros bs vs Hok H; destruct bs as [|b0 bs0]; simpl in H.
  - inversion H; reflexivity.
  - discriminate.
  - inversion H; reflexivity.
  - inv_bind H as p1 Ha Hk. destruct p1 as [v r1]. inv_bind Hk as vs' Ha0 Hb. simpl in *. inversion Hb; subst.
    destruct (Hrt _ _ _ Hok Ha) as (p1 & E1 & A1).
    assert (bytes_ok r1) as Hok1 by (rewrite <- A1 in Hok; apply bytes_ok_app_inv in Hok; tauto).
    specialize (IH _ _ Hok1 Ha0). cbn [enc_list]. rewrite E1. cbn [bind]. rewrite IH. cbn [bind]. f_equal. exact A1.
Qed.

Theorem layout_roundtrip l :
  forall fuel bs v rest, bytes_ok bs -> wf_l l = true ->
    decode_l fuel l bs = Ok (v, rest) ->
    exists pre, encode_l l v = Ok pre /\ pre ++ rest = bs.
Proof.
  induction l as [w|n st l IH|a IHa b IHb|f l IH| |l IH|sz l IH]; intros fuel bs v rest Hok Hwf H; simpl in *.
  - inv_bind H as p1 Ha Hb. destruct p1 as [x r]. inversion Hb; subst. simpl.
    destruct (unpack_pack _ _ _ _ Hok Ha) as (pre & Hp & Happ & _). eauto.
  - inv_bind H as p1 Ha Hb. destruct p1 as [vs r]. inversion Hb; subst. simpl in *.
    assert (rt (decode_l fuel l) (encode_l l)) as Hrt
      by (intros bs' v' rest' Hok' H'; eapply IH; eauto).
    destruct (rep_dec_roundtrip _ _ _ Hrt _ _ _ Hok Ha) as (pre & E & A & L).
    exists pre. rewrite L, Nat.eqb_refl. simpl. rewrite andb_false_r. auto.
  - apply andb_true_iff in Hwf as [Hwa Hwb].
    inv_bind H as p1 Ha Hk. destruct p1 as [va ra]. inv_bind Hk as p2 Ha0 Hb. destruct p2 as [vb rb]. simpl in *.
    inversion Hb; subst.
    destruct (IHa _ _ _ _ Hok Hwa Ha) as (p1 & E1 & A1).
    assert (bytes_ok ra) as Hokr by (rewrite <- A1 in Hok; apply bytes_ok_app_inv in Hok; tauto).
    destruct (IHb _ _ _ _ Hokr Hwb Ha0) as (p2 & E2 & A2).
    exists (p1 ++ p2). rewrite E1, E2. simpl. split; [reflexivity|]. rewrite <- app_assoc. congruence.
  - inv_bind H as p1 Ha Hb. destruct p1 as [x r]. inversion Hb; subst. simpl.
    rewrite String.eqb_refl. eapply IH; eauto.
  - inversion H; subst. exists []. auto.
  - apply andb_true_iff in Hwf as [Hw _].
    inv_bind H as vs0 Ha Hb. inversion Hb; subst. simpl.
    exists bs. rewrite app_nil_r. split; [|reflexivity].
    assert (rt (decode_l fuel l) (encode_l l)) as Hrt
      by (intros bs' v' rest' Hok' H'; eapply IH; eauto).
    eapply many_dec_roundtrip; eauto.
  - apply andb_true_iff in Hwf as [Hw Hsz]. destruct (size_l l) as [sl|] eqn:El; [|discriminate].
    apply andb_true_iff in Hsz as [Hsz _]. apply Nat.eqb_eq in Hsz. subst sl.
    inv_bind H as p1 Ha Hb. destruct p1 as [x r]. inversion Hb; subst. simpl in *.
    pose proof (decode_size _ _ _ _ _ _ Hw El Ha) as Hlen. rewrite firstn_length in Hlen.
    assert (r = []) as -> by (destruct r; [reflexivity | simpl in Hlen; lia]).
    destruct (IH _ _ _ _ (bytes_ok_firstn sz bs Hok) Hw Ha) as (pre & E & A).
    rewrite app_nil_r in A. subst pre. exists (firstn sz bs). split; [assumption | apply firstn_skipn].
Qed.

(* the whole-section form used by the property theorems *)
Corollary section_roundtrip l payload v :
  bytes_ok payload -> wf_l l = true ->
  decode_l (S (length payload)) l payload = Ok (v, []) -> encode_l l v = Ok payload.
Proof.
  intros Hok Hwf H. destruct (layout_roundtrip _ _ _ _ _ Hok Hwf H) as (pre & E & A).
  rewrite app_nil_r in A. congruence.
Qed.

(* ---------------------------------------------------------------------------------- *)
(* 3. decoding never grows the input; fuel adequacy: OutOfFuel is unreachable *)

Lemma rep_dec_shrinks d n :
  (forall bs v r, d bs = Ok (v, r) -> length r <= length bs) ->
  forall bs vs r, rep_dec d n bs = Ok (vs, r) -> length r <= length bs.
Proof.
  intros Hd. induction n as [|n IH]; intros bs vs r H; simpl in H.
  - inversion H; subst. lia.
  - inv_bind H as p1 Ha Hk. destruct p1 as [v r1]. inv_bind Hk as p2 Ha0 Hb. destruct p2 as [vs' r2]. simpl in *.
    inversion Hb; subst. apply Hd in Ha. apply IH in Ha0. lia.
Qed.

Lemma decode_shrinks l :
  forall fuel bs v rest, decode_l fuel l bs = Ok (v, rest) -> length rest <= length bs.
Proof.
  induction l as [w|n st l IH|a IHa b IHb|f l IH| |l IH|sz l IH]; intros fuel bs v rest H; simpl in *.
  - inv_bind H as p1 Ha Hb. destruct p1 as [x r]. inversion Hb; subst.
    apply unpack_ok_inv in Ha as (_ & _ & ->). simpl. rewrite skipn_length. lia.
  - inv_bind H as p1 Ha Hb. destruct p1 as [vs r]. inversion Hb; subst. simpl.
    eapply rep_dec_shrinks in Ha; eauto.
  - inv_bind H as p1 Ha Hk. destruct p1 as [va ra]. inv_bind Hk as p2 Ha0 Hb. destruct p2 as [vb rb]. simpl in *.
    inversion Hb; subst. apply IHa in Ha. apply IHb in Ha0. lia.
  - inv_bind H as p1 Ha Hb. destruct p1 as [x r]. inversion Hb; subst. simpl. eapply IH; eauto.
  - inversion H; subst. lia.
  - inv_bind H as vs0 Ha Hb. inversion Hb; subst. simpl. lia.
  - inv_bind H as p1 Ha Hb. destruct p1 as [x r]. inversion Hb; subst. simpl. rewrite skipn_length. lia.
Qed.

Lemma rep_dec_no_oof d n m :
  (forall bs, length bs <= m -> d bs <> Raise OutOfFuel) ->
  (forall bs v r, d bs = Ok (v, r) -> length r <= length bs) ->
  forall bs, length bs <= m -> rep_dec d n bs <> Raise OutOfFuel.
Proof.
  intros Hd Hs. induction n as [|n IH]; intros bs Hl; simpl; [discriminate|].
  destruct (d bs) as [[v r]|e] eqn:E; simpl.
  - destruct (rep_dec d n r) as [[vs r2]|e] eqn:E2; simpl; [discriminate|].
    intros Heq; inversion Heq; subst e. apply Hs in E. eapply (IH r); [lia | exact E2].
  - intros Heq; inversion Heq; subst e. eapply Hd; eauto.
Qed.

Lemma many_dec_no_oof d s m :
  (forall bs, length bs <= m -> d bs <> Raise OutOfFuel) ->
  (forall bs v rest, d bs = Ok (v, rest) -> length bs = S s + length rest) ->
  forall fu bs, length bs < fu -> length bs <= m -> many_dec d fu bs <> Raise OutOfFuel.
Proof.
  intros Hd Hs. induction fu as [|fu IH]; intros bs Hl Hm; [lia|].
  destruct bs as [|b0 bs0]; simpl; [discriminate|].
  destruct (d (b0 :: bs0)) as [[v r]|e] eqn:E; simpl.
  - apply Hs in E. simpl in E.
    destruct (many_dec d fu r) as [vs|e] eqn:E2; simpl; [discriminate|].
    intros Heq; inversion Heq; subst e. eapply (IH r); [| |exact E2]; simpl in *; lia.
  - intros Heq; inversion Heq; subst e. eapply Hd; eauto.
Qed.

Theorem decode_no_oof l :
  forall fuel bs, wf_l l = true -> length bs < fuel -> decode_l fuel l bs <> Raise OutOfFuel.
Proof.
  induction l as [w|n st l IH|a IHa b IHb|f l IH| |l IH|sz l IH]; intros fuel bs Hwf Hf; simpl in *.
  - unfold unpack. destruct (Nat.leb w (length bs)); simpl; discriminate.
  - destruct (rep_dec (decode_l fuel l) n bs) as [[vs r]|e] eqn:E; simpl; [discriminate|].
    intros Heq; inversion Heq; subst e. revert E. apply (rep_dec_no_oof _ _ (length bs)); [| |lia].
    + intros bs' Hl'. apply IH; [assumption | lia].
    + intros bs' v r. apply decode_shrinks.
  - apply andb_true_iff in Hwf as [Hwa Hwb].
    destruct (decode_l fuel a bs) as [[va ra]|e] eqn:Ea; simpl.
    + destruct (decode_l fuel b ra) as [[vb rb]|e] eqn:Eb; simpl; [discriminate|].
      intros Heq; inversion Heq; subst e. apply decode_shrinks in Ea. eapply (IHb fuel ra); [assumption | lia | exact Eb].
    + intros Heq; inversion Heq; subst e. eapply IHa; eauto.
  - destruct (decode_l fuel l bs) as [[x r]|e] eqn:E; simpl; [discriminate|].
    intros Heq; inversion Heq; subst e. eapply IH; eauto.
  - discriminate.
  - apply andb_true_iff in Hwf as [Hw Hsz].
    destruct (size_l l) as [[|s]|] eqn:El; try discriminate.
    destruct (many_dec (decode_l fuel l) fuel bs) as [vs|e] eqn:E; simpl; [discriminate|].
    intros Heq; inversion Heq; subst e. revert E. apply (many_dec_no_oof _ s (length bs)); [| |lia|lia].
    + intros bs' Hl'. apply IH; [assumption | lia].
    + intros bs' v r H'. eapply decode_size; eauto.
  - apply andb_true_iff in Hwf as [Hw _].
    destruct (decode_l fuel l (firstn sz bs)) as [[x r]|e] eqn:E; simpl; [discriminate|].
    intros Heq; inversion Heq; subst e. eapply (IH fuel (firstn sz bs)); [assumption | rewrite firstn_length; lia | exact E].
Qed.
