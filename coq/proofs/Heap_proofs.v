(* Soundness of the ownership checker of model/Heap.v: a table of functions accepted by [table_ok]
   never writes to a cell that existed when the outermost call started, whatever the heap, the
   arguments, the oracle (branches, iteration counts, element choices, unknown values) and the fuel
   (where the run is cut short). *)
From Coq Require Import NArith List Bool Arith Lia.
From RC Require Import model.Heap.
Import ListNotations.

(* ---- lists ---------------------------------------------------------------------------------------- *)
Lemma nth_setnth_eq {A} (l : list A) n a d : n < length l -> nth n (setnth l n a) d = a.
Proof.
  revert n; induction l as [|h t IH]; intros n Hn; simpl in *; [lia|].
  destruct n as [|n]; simpl; [reflexivity|]. apply IH; lia.
Qed.

Lemma nth_setnth_neq {A} (l : list A) n m a d : n <> m -> nth m (setnth l n a) d = nth m l d.
Proof.
  revert n m; induction l as [|h t IH]; intros n m Hn; simpl; [reflexivity|].
  destruct n as [|n]; destruct m as [|m]; simpl; try reflexivity; try lia.
  apply IH; lia.
Qed.

Lemma length_setnth {A} (l : list A) n a : length (setnth l n a) = length l.
Proof. revert n; induction l as [|h t IH]; intros [|n]; simpl; auto. Qed.

Lemma setnth_out {A} (l : list A) n a : length l <= n -> setnth l n a = l.
Proof.
  revert n; induction l as [|h t IH]; intros n Hn; simpl in *; [reflexivity|].
  destruct n as [|n]; [lia|]. f_equal; apply IH; lia.
Qed.

Lemma nth_error_setnth_neq {A} (l : list A) n m a : n <> m -> nth_error (setnth l n a) m = nth_error l m.
Proof.
  revert n m; induction l as [|h t IH]; intros n m Hn; simpl; [reflexivity|].
  destruct n as [|n]; destruct m as [|m]; simpl; try reflexivity; try lia.
  apply IH; lia.
Qed.

Lemma nth_meetl a b x : nth x (meetl a b) false = nth x a false && nth x b false.
Proof.
  revert b x; induction a as [|p a IH]; intros b x; simpl.
  - destruct x; reflexivity.
  - destruct b as [|q b]; simpl.
    + destruct x; simpl; rewrite andb_false_r; reflexivity.
    + destruct x; simpl; [reflexivity|apply IH].
Qed.

Lemma eqbl_eq a b : eqbl a b = true -> a = b.
Proof.
  revert b; induction a as [|x a IH]; intros [|y b] H; simpl in H; try discriminate; [reflexivity|].
  apply andb_true_iff in H; destruct H as [H1 H2]. apply eqb_prop in H1. f_equal; auto.
Qed.

Lemma aenv_eqb_eq a b : aenv_eqb a b = true -> a = b.
Proof.
  unfold aenv_eqb; intros H. apply andb_true_iff in H; destruct H as [H1 H2].
  apply eqbl_eq in H1; apply eqb_prop in H2. destruct a, b; simpl in *; congruence.
Qed.

(* ---- the invariant -------------------------------------------------------------------------------- *)
Definition env_ok (n0 : nat) (g : aenv) (e : list val) : Prop :=
  forall x, isf g x = true -> vfresh n0 (getv e x).

Definition Inv (h0 : heap) (g : aenv) (s : state) : Prop :=
  frame h0 (hp s) /\
  (halt s = 0 -> env_ok (length h0) g (env s)) /\
  (halt s = 1 -> rfresh g = true -> vfresh (length h0) (ret s)).

Definition le (g2 g1 : aenv) : Prop :=
  (forall x, isf g2 x = true -> isf g1 x = true) /\ (rfresh g2 = true -> rfresh g1 = true).

Lemma le_refl g : le g g.  Proof. split; auto. Qed.
Lemma le_trans a b c : le a b -> le b c -> le a c.
Proof. intros [A1 A2] [B1 B2]; split; auto. Qed.

Lemma meet_le_l a b : le (meet a b) a.
Proof.
  split; unfold isf, meet; simpl.
  - intros x H. rewrite nth_meetl in H. apply andb_true_iff in H; tauto.
  - intros H. apply andb_true_iff in H; tauto.
Qed.

Lemma meet_le_r a b : le (meet a b) b.
Proof.
  split; unfold isf, meet; simpl.
  - intros x H. rewrite nth_meetl in H. apply andb_true_iff in H; tauto.
  - intros H. apply andb_true_iff in H; tauto.
Qed.

Lemma Inv_weaken h0 g1 g2 s : Inv h0 g1 s -> le g2 g1 -> Inv h0 g2 s.
Proof.
  intros (F & E & R) [L1 L2]. split; [exact F|]. split.
  - intros Hh x Hx. apply E; auto.
  - intros Hh Hr. apply R; auto.
Qed.

Lemma frame_refl h : frame h h.  Proof. intros l _; reflexivity. Qed.

Lemma frame_length h0 h : frame h0 h -> length h0 <= length h.
Proof.
  intros F. destruct (length h0) as [|n] eqn:E; [lia|].
  assert (Hn : n < length h0) by lia.
  specialize (F n Hn).
  destruct (nth_error h0 n) eqn:E0; [|apply nth_error_None in E0; lia].
  assert (nth_error h n <> None) by congruence.
  apply nth_error_Some in H. lia.
Qed.

Lemma frame_app h0 h cs : frame h0 h -> frame h0 (h ++ cs).
Proof.
  intros F l Hl. rewrite nth_error_app1; [auto|].
  pose proof (frame_length _ _ F). lia.
Qed.

Lemma frame_setnth h0 h l c : frame h0 h -> length h0 <= l -> frame h0 (setnth h l c).
Proof. intros F Hl l' Hl'. rewrite nth_error_setnth_neq; [auto|lia]. Qed.

Lemma isf_setf_eq g x b : isf (setf g x b) x = true -> b = true.
Proof.
  unfold isf, setf; simpl. intros H.
  destruct (Nat.lt_ge_cases x (length (fresh g))) as [Hl|Hl].
  - rewrite nth_setnth_eq in H; auto.
  - rewrite setnth_out in H by lia. rewrite nth_overflow in H by lia. discriminate.
Qed.

Lemma isf_setf_neq g x y b : x <> y -> isf (setf g x b) y = isf g y.
Proof. unfold isf, setf; simpl. intros H. apply nth_setnth_neq; auto. Qed.

Lemma getv_set_eq e x v n0 : vfresh n0 v -> vfresh n0 (getv (setnth e x v) x).
Proof.
  unfold getv. intros Hv.
  destruct (Nat.lt_ge_cases x (length e)) as [Hl|Hl].
  - rewrite nth_setnth_eq; auto.
  - rewrite setnth_out by lia. rewrite nth_overflow by lia. exact I.
Qed.

Lemma env_ok_set n0 g e x b v :
  env_ok n0 g e -> (b = true -> vfresh n0 v) -> env_ok n0 (setf g x b) (setnth e x v).
Proof.
  intros E Hv y Hy. destruct (Nat.eq_dec x y) as [->|Hn].
  - apply getv_set_eq. apply Hv. eapply isf_setf_eq; eauto.
  - rewrite isf_setf_neq in Hy by auto. unfold getv. rewrite nth_setnth_neq by auto. apply E; auto.
Qed.

Lemma choice_spec s c s' :
  choice s = (c, s') -> hp s' = hp s /\ env s' = env s /\ halt s' = halt s /\ ret s' = ret s.
Proof.
  unfold choice. destruct (orc s); intros H; inversion H; subst; simpl; auto.
Qed.

Lemma rfresh_setf g x b : rfresh (setf g x b) = rfresh g.  Proof. reflexivity. Qed.

(* updating one variable of a running state *)
Lemma Inv_setv h0 g s x b v :
  Inv h0 g s -> (halt s = 0 -> b = true -> vfresh (length h0) v) -> Inv h0 (setf g x b) (setv s x v).
Proof.
  intros (F & E & R) Hv. split; [exact F|]. split; simpl.
  - intros Hh. apply env_ok_set; auto.
  - intros Hh Hr. apply R; auto.
Qed.

(* the same invariant on a state that differs only in its oracle *)
Lemma Inv_same h0 g s s' :
  Inv h0 g s -> hp s' = hp s -> env s' = env s -> halt s' = halt s -> ret s' = ret s -> Inv h0 g s'.
Proof. intros (F & E & R) H1 H2 H3 H4. unfold Inv. rewrite H1, H2, H3, H4. auto. Qed.

(* ---- the checker ---------------------------------------------------------------------------------- *)
Lemma loop_inv_spec k body g gi :
  loop_inv k body g = Some gi -> le gi g /\ exists g1, body gi = Some g1 /\ le gi g1.
Proof.
  revert g; induction k as [|k IH]; intros g H; simpl in H; [discriminate|].
  destruct (body g) as [g1|] eqn:Eb; [|discriminate].
  destruct (aenv_eqb (meet g g1) g) eqn:Eq.
  - inversion H; subst gi. split; [apply le_refl|]. exists g1. split; [exact Eb|].
    apply aenv_eqb_eq in Eq. rewrite <- Eq at 1. apply meet_le_r.
  - apply IH in H. destruct H as [L Ex]. split; [|exact Ex].
    eapply le_trans; [exact L|apply meet_le_l].
Qed.

Local Arguments loop_inv : simpl never.

Lemma check_rfresh sums cf : forall p g g', check sums cf p g = Some g' -> rfresh g' = true -> rfresh g = true.
Proof.
  induction cf as [|cf IH]; intros p g g' H Hr; simpl in H; [discriminate|].
  destruct p as [|i rest]; [inversion H; subst; exact Hr|].
  match type of H with match ?r with _ => _ end = _ => destruct r as [g1|] eqn:Er; [|discriminate] end.
  pose proof (IH _ _ _ H Hr) as H1. clear H Hr.
  destruct i; simpl in Er.
  - inversion Er; subst g1; exact H1.
  - inversion Er; subst g1; exact H1.
  - inversion Er; subst g1; exact H1.
  - inversion Er; subst g1; exact H1.
  - inversion Er; subst g1; exact H1.
  - inversion Er; subst g1; exact H1.
  - inversion Er; subst g1; exact H1.
  - destruct (isf g x); inversion Er; subst; exact H1.
  - inversion Er; subst g1; simpl in H1. apply andb_true_iff in H1; tauto.
  - inversion Er; subst g1; exact H1.
  - destruct (check sums cf a g) as [ga|] eqn:Ea; [|discriminate].
    match type of Er with match ?c with _ => _ end = _ => destruct c as [gh|] eqn:Eb; [|discriminate] end.
    inversion Er; subst g1. simpl in H1. apply andb_true_iff in H1. destruct H1 as [I1 _].
    exact (IH _ _ _ Ea I1).
  - destruct (check sums cf a g) as [ga|] eqn:Ea; [|discriminate].
    destruct (check sums cf b g) as [gb|] eqn:Eb; [|discriminate].
    inversion Er; subst g1. simpl in H1. apply andb_true_iff in H1. destruct H1 as [I1 _].
    exact (IH _ _ _ Ea I1).
  - apply loop_inv_spec in Er. destruct Er as [[_ L] _]. auto.
  - destruct (nth_error sums g0) as [sm|]; [|discriminate].
    destruct (args_ok g (s_pfresh sm) ys); inversion Er; subst g1; exact H1.
Qed.

Lemma args_ok_spec g pf ys x :
  args_ok g pf ys = true -> nth x pf false = true -> x < length ys /\ isf g (nth x ys 0) = true.
Proof.
  revert ys x; induction pf as [|b pf IH]; intros ys x H Hx; simpl in *.
  - destruct x; discriminate.
  - destruct ys as [|y ys].
    + apply andb_true_iff in H. destruct H as [Hb H]. destruct x as [|x].
      * subst b. discriminate.
      * destruct (IH [] x H Hx) as [Hl _]. simpl in Hl. lia.
    + apply andb_true_iff in H. destruct H as [Hb H]. destruct x as [|x]; simpl.
      * subst b. simpl in Hb. split; [lia|exact Hb].
      * destruct (IH ys x H Hx). split; [lia|auto].
Qed.

Lemma forallb2_nth {A B} (f : A -> B -> bool) a b n x :
  forallb2 f a b = true -> nth_error a n = Some x -> exists y, nth_error b n = Some y /\ f x y = true.
Proof.
  revert b n; induction a as [|p a IH]; intros b n H Hn.
  - destruct n; discriminate.
  - destruct b as [|q b]; simpl in H; [discriminate|].
    apply andb_true_iff in H. destruct H as [H1 H2].
    destruct n as [|n]; simpl in *.
    + inversion Hn; subst. eauto.
    + eapply IH; eauto.
Qed.

Lemma nth_firstn_lt {A} (l : list A) n x d : x < n -> nth x (firstn n l) d = nth x l d.
Proof.
  revert n x; induction l as [|h t IH]; intros n x H; simpl.
  - rewrite firstn_nil. reflexivity.
  - destruct n as [|n]; [lia|]. destruct x as [|x]; simpl; [reflexivity|]. apply IH; lia.
Qed.

Lemma nth_firstn_ge {A} (l : list A) n x d : n <= x -> nth x (firstn n l) d = d.
Proof. intros H. apply nth_overflow. pose proof (firstn_le_length n l). lia. Qed.

Lemma nth_app_repeat {A} (l : list A) (d : A) n x : nth x (l ++ repeat d n) d = nth x l d.
Proof.
  destruct (Nat.lt_ge_cases x (length l)) as [H|H].
  - apply app_nth1; auto.
  - rewrite app_nth2 by lia. rewrite (nth_overflow l) by lia.
    destruct (Nat.lt_ge_cases (x - length l) n) as [H2|H2].
    + apply nth_repeat.
    + apply nth_overflow. rewrite repeat_length. lia.
Qed.

(* the callee starts in a state its own initial abstract environment describes *)
Lemma Inv_enter h0 g s fn ys :
  Inv h0 g s -> halt s = 0 -> args_ok g (f_pfresh fn) ys = true ->
  Inv h0 (init_aenv fn) (enter s fn (map (getv (env s)) ys)).
Proof.
  intros (F & E & R) Hh Ha. split; [exact F|]. split; simpl.
  - intros _ x Hx. unfold isf, init_aenv in Hx. simpl in Hx.
    destruct (Nat.lt_ge_cases x (f_nvars fn)) as [Hl|Hl].
    + rewrite nth_firstn_lt in Hx by auto. rewrite nth_app_repeat in Hx.
      destruct (args_ok_spec _ _ _ _ Ha Hx) as [Hy Hf].
      unfold getv at 1. rewrite nth_firstn_lt by auto. rewrite nth_app_repeat.
      rewrite (nth_indep _ VAtom (getv (env s) 0)) by (rewrite map_length; auto).
      rewrite map_nth. apply E; auto.
    + rewrite nth_firstn_ge in Hx by auto. discriminate.
  - intros Hc; discriminate.
Qed.

Section Sound.
  Variable tab : list func.
  Variable sums : list fsum.
  Variable tfuel : nat.
  Hypothesis Htab : table_ok tfuel tab sums = true.

  Lemma exec_sound h0 : forall f cf p g g' s,
    check sums cf p g = Some g' -> Inv h0 g s -> Inv h0 g' (exec tab f p s).
  Proof.
    induction f as [|f IH]; intros cf p g g' s Hc HI; simpl.
    - destruct HI as (F & _ & _). split; [exact F|]. split; simpl; intros; discriminate.
    - destruct cf as [|cf]; [discriminate|].
      destruct p as [|i rest]; [simpl in Hc; inversion Hc; subst; exact HI|].
      destruct (Nat.eqb (halt s) 0) eqn:Eh; simpl.
      2:{ (* already halted: nothing runs *)
          apply Nat.eqb_neq in Eh. destruct HI as (F & E & R). split; [exact F|]. split.
          - intros H0; contradiction.
          - intros H1 Hr. apply R; auto. eapply check_rfresh; [exact Hc|exact Hr]. }
      simpl in Hc.
      match type of Hc with match ?r with _ => _ end = _ => destruct r as [g1|] eqn:Er; [|discriminate] end.
      apply Nat.eqb_eq in Eh.
      eapply IH; [exact Hc|]. clear Hc g'.
      destruct i; simpl in Er.
      + (* SAtom *) inversion Er; subst g1. apply Inv_setv; auto. intros; exact I.
      + (* SAny *) inversion Er; subst g1. destruct (choice s) as [c s'] eqn:Ec.
        destruct (choice_spec _ _ _ Ec) as (A1 & A2 & A3 & A4).
        apply Inv_setv; [eapply Inv_same; eauto|]. intros _ Hb; discriminate.
      + (* SNew *) inversion Er; subst g1. unfold alloc.
        apply Inv_setv; simpl.
        * destruct HI as (F & E & R). split; [apply frame_app; exact F|]. split; simpl; auto.
        * intros _ _. destruct HI as (F & _). apply frame_length in F. exact F.
      + (* SCopy *) inversion Er; subst g1. unfold alloc.
        apply Inv_setv; simpl.
        * destruct HI as (F & E & R). split; [apply frame_app; exact F|]. split; simpl; auto.
        * intros _ _. destruct HI as (F & _). apply frame_length in F. exact F.
      + (* SDeep *) inversion Er; subst g1. unfold deep.
        destruct (choice s) as [k s1] eqn:Ec.
        destruct (choice_spec _ _ _ Ec) as (A1 & A2 & A3 & A4).
        destruct (gen_cells (S k) (length (hp s1)) k (orc s1)) as [cs o] eqn:Eg.
        destruct HI as (F & E & R).
        split; simpl; [rewrite A1; apply frame_app; exact F|]. split.
        * intros Hh. rewrite A2. apply env_ok_set; [apply E; congruence|].
          intros _. simpl. rewrite A1. apply frame_length in F. exact F.
        * intros Hh Hr. rewrite A4. apply R; congruence.
      + (* SMove *) inversion Er; subst g1. apply Inv_setv; auto.
        intros Hh Hb. destruct HI as (_ & E & _). apply E; auto.
      + (* SRead *) inversion Er; subst g1. destruct (choice s) as [c s'] eqn:Ec.
        destruct (choice_spec _ _ _ Ec) as (A1 & A2 & A3 & A4).
        apply Inv_setv; [eapply Inv_same; eauto|]. intros _ Hb; discriminate.
      + (* SWrite *) destruct (isf g x) eqn:Ex; inversion Er; subst g1.
        destruct (choice s) as [c s'] eqn:Ec.
        destruct (choice_spec _ _ _ Ec) as (A1 & A2 & A3 & A4).
        destruct HI as (F & E & R). pose proof (E Eh x Ex) as Hv.
        unfold write. destruct (getv (env s) x) as [|l]; simpl in Hv.
        * eapply Inv_same; eauto. split; auto.
        * split; simpl; [rewrite A1; apply frame_setnth; auto|]. rewrite A2, A3, A4. split; auto.
      + (* SRet *) inversion Er; subst g1. destruct HI as (F & E & R).
        split; [exact F|]. split; simpl; [intros; discriminate|].
        intros _ Hr. apply andb_true_iff in Hr. destruct Hr as [_ Hy]. apply E; auto.
      + (* SRaise *) inversion Er; subst g1. destruct HI as (F & _ & _).
        split; [exact F|]. split; simpl; intros; discriminate.
      + (* STry *)
        destruct (check sums cf a g) as [ga|] eqn:Ea; [|discriminate].
        match type of Er with match ?c with _ => _ end = _ => destruct c as [gh|] eqn:Eb; [|discriminate] end.
        inversion Er; subst g1.
        pose proof (IH _ _ _ _ _ Ea HI) as HI1.
        destruct (Nat.eqb (halt (exec tab f a s)) 2) eqn:E2.
        * eapply Inv_weaken; [eapply IH; [exact Eb|]|apply meet_le_r].
          destruct HI1 as (F1 & _ & _). split; [exact F1|]. split; simpl.
          -- intros _ x Hx. unfold isf in Hx. simpl in Hx. exfalso.
             revert Hx. generalize (fresh ga). clear. intros l. revert x.
             induction l as [|b l IHl]; intros [|x]; simpl; try discriminate. apply IHl.
          -- intros Hc; discriminate.
        * eapply Inv_weaken; [exact HI1|apply meet_le_l].
      + (* SIf *)
        destruct (check sums cf a g) as [ga|] eqn:Ea; [|discriminate].
        destruct (check sums cf b g) as [gb|] eqn:Eb; [|discriminate].
        inversion Er; subst g1. destruct (choice s) as [c s'] eqn:Ec.
        destruct (choice_spec _ _ _ Ec) as (A1 & A2 & A3 & A4).
        assert (HI' : Inv h0 g s') by (eapply Inv_same; eauto).
        destruct c.
        * eapply Inv_weaken; [eapply IH; [exact Eb|exact HI']|apply meet_le_r].
        * eapply Inv_weaken; [eapply IH; [exact Ea|exact HI']|apply meet_le_l].
      + (* SLoop *)
        apply loop_inv_spec in Er. destruct Er as [L (g2 & Eb & L2)].
        destruct (choice s) as [c s'] eqn:Ec.
        destruct (choice_spec _ _ _ Ec) as (A1 & A2 & A3 & A4).
        assert (HI' : Inv h0 g1 s') by (eapply Inv_weaken; [eapply Inv_same; eauto|exact L]).
        clear Ec. induction c as [|c IHc]; simpl; [exact HI'|].
        eapply Inv_weaken; [eapply IH; [exact Eb|exact IHc]|exact L2].
      + (* SCall *)
        destruct (nth_error sums g0) as [sm|] eqn:Es; [|discriminate].
        destruct (args_ok g (s_pfresh sm) ys) eqn:Ea; inversion Er; subst g1.
        destruct (nth_error tab g0) as [fn|] eqn:Et.
        2:{ destruct HI as (F & _ & _). split; [exact F|]. split; simpl; intros; discriminate. }
        destruct (forallb2_nth _ _ _ _ _ Htab Et) as (sm' & Es' & Hok).
        rewrite Es in Es'. inversion Es'; subst sm'. clear Es'.
        unfold func_ok in Hok. apply andb_true_iff in Hok. destruct Hok as [Hpf Hok].
        apply eqbl_eq in Hpf.
        destruct (check sums tfuel (f_body fn) (init_aenv fn)) as [gf|] eqn:Ef; [|discriminate].
        rewrite Hpf in Ea.
        pose proof (Inv_enter _ _ _ _ _ HI Eh Ea) as HIc.
        pose proof (IH _ _ _ _ _ Ef HIc) as HIr.
        set (sc := exec tab f (f_body fn) (enter s fn (map (getv (env s)) ys))) in *.
        destruct HIr as (Fc & Ec & Rc). destruct HI as (F & E & R).
        unfold leave. split; simpl; [exact Fc|]. split.
        * intros Hh. apply env_ok_set; [apply E; exact Eh|].
          intros Hsr. destruct (Nat.eqb (halt sc) 1) eqn:E1; [|exact I].
          apply Nat.eqb_eq in E1. apply Rc; [exact E1|].
          rewrite Hsr in Hok. simpl in Hok. exact Hok.
        * intros Hh. destruct (Nat.eqb (halt sc) 2); discriminate.
  Qed.

  (* ---- the statements -------------------------------------------------------------------------- *)
  (* any single call, from any heap with any arguments: no pre-existing cell changes *)
  Theorem run_frame fuel g h args o :
    public_fn tab g ->
    frame h (hp (run tab fuel g h args o)).
  Proof.
    intros Hp. unfold run. destruct (nth_error tab g) as [fn|] eqn:Et; [|apply frame_refl].
    destruct (forallb2_nth _ _ _ _ _ Htab Et) as (sm & Es & Hok).
    unfold func_ok in Hok. apply andb_true_iff in Hok. destruct Hok as [_ Hok].
    destruct (check sums tfuel (f_body fn) (init_aenv fn)) as [gf|] eqn:Ef; [|discriminate].
    assert (HI : Inv h (init_aenv fn) (enter (mkst h [] o 0 VAtom) fn args)).
    { split; [apply frame_refl|]. split; simpl; [|intros; discriminate].
      intros _ x Hx. unfold isf, init_aenv in Hx. simpl in Hx. exfalso.
      specialize (Hp fn Et).
      destruct (Nat.lt_ge_cases x (f_nvars fn)) as [Hl|Hl].
      - rewrite nth_firstn_lt in Hx by auto. rewrite nth_app_repeat in Hx.
        destruct (Nat.lt_ge_cases x (length (f_pfresh fn))) as [H2|H2].
        + rewrite forallb_forall in Hp. specialize (Hp (nth x (f_pfresh fn) false) (nth_In _ _ H2)).
          rewrite Hx in Hp. discriminate.
        + rewrite nth_overflow in Hx by auto. discriminate.
      - rewrite nth_firstn_ge in Hx by auto. discriminate. }
    pose proof (exec_sound h fuel _ _ _ _ _ Ef HI) as (F & _ & _). exact F.
  Qed.

  (* a function whose summary says "fresh" hands back an atom or an object created during the call *)
  Theorem run_returns_new fuel g h args o fn sm :
    nth_error tab g = Some fn -> forallb negb (f_pfresh fn) = true ->
    nth_error sums g = Some sm -> s_ret sm = true ->
    halt (run tab fuel g h args o) = 1 -> vfresh (length h) (ret (run tab fuel g h args o)).
  Proof.
    intros Et Hp Es Hr. unfold run. rewrite Et.
    destruct (forallb2_nth _ _ _ _ _ Htab Et) as (sm' & Es' & Hok).
    rewrite Es in Es'. inversion Es'; subst sm'.
    unfold func_ok in Hok. apply andb_true_iff in Hok. destruct Hok as [_ Hok].
    destruct (check sums tfuel (f_body fn) (init_aenv fn)) as [gf|] eqn:Ef; [|discriminate].
    rewrite Hr in Hok. simpl in Hok.
    assert (HI : Inv h (init_aenv fn) (enter (mkst h [] o 0 VAtom) fn args)).
    { split; [apply frame_refl|]. split; simpl; [|intros; discriminate].
      intros _ x Hx. unfold isf, init_aenv in Hx. simpl in Hx. exfalso.
      destruct (Nat.lt_ge_cases x (f_nvars fn)) as [Hl|Hl].
      - rewrite nth_firstn_lt in Hx by auto. rewrite nth_app_repeat in Hx.
        destruct (Nat.lt_ge_cases x (length (f_pfresh fn))) as [H2|H2].
        + rewrite forallb_forall in Hp. specialize (Hp (nth x (f_pfresh fn) false) (nth_In _ _ H2)).
          rewrite Hx in Hp. discriminate.
        + rewrite nth_overflow in Hx by auto. discriminate.
      - rewrite nth_firstn_ge in Hx by auto. discriminate. }
    pose proof (exec_sound h fuel _ _ _ _ _ Ef HI) as (_ & _ & R). intros H1. apply R; auto.
  Qed.

  (* histories: any sequence of calls from outside, each on any values at all (atoms, results of earlier
     calls, objects reachable from them, the arguments of earlier calls): every cell keeps, for ever,
     the contents it had when the call after which it first existed returned *)
  Lemma frame_trans h0 h1 h2 : frame h0 h1 -> frame h1 h2 -> frame h0 h2.
  Proof.
    intros F1 F2 l Hl. pose proof (frame_length _ _ F1). rewrite F2 by lia. apply F1; auto.
  Qed.

  Theorem history_frame cs : Forall (fun c => public_fn tab (c_fn c)) cs -> forall h, frame h (fold_left (after tab) cs h).
  Proof.
    induction cs as [|c cs IH]; intros Hp h; simpl; [apply frame_refl|].
    inversion Hp as [|? ? Hc Hcs]; subst.
    eapply frame_trans; [|apply IH; exact Hcs].
    unfold after. apply run_frame. exact Hc.
  Qed.

  Corollary history_frame_between cs1 cs2 h :
    Forall (fun c => public_fn tab (c_fn c)) (cs1 ++ cs2) ->
    frame (fold_left (after tab) cs1 h) (fold_left (after tab) (cs1 ++ cs2) h).
  Proof.
    intros Hp. rewrite fold_left_app. apply history_frame.
    apply Forall_app in Hp. tauto.
  Qed.
End Sound.
