(* C19, the functional half: whatever the binary decoder accepts can be written, and what is written
   decodes to the very same model.  (The other half, termination, is in C01_proofs.)

     chk_decode bs = Ok secs  ->  exists bs', chk_encode secs = Ok bs' /\ chk_decode bs' = Ok secs

   for EVERY byte string bs (no well-formedness assumed: truncated last section, sizes larger than
   the file, fixed-size sections that are too long, record sections with a ragged tail that the
   decoder happens to accept, unknown names, ...).  bs' may differ from bs - that is the point. *)
From Coq Require Import String NArith List Bool Lia PeanoNat.
From RC Require Import lib.Result lib.Bytes lib.Tree model.Layout model.Str model.ChkIo
  proofs.Layout_proofs proofs.Layout_offsets proofs.Str_proofs proofs.ChkIo_proofs proofs.C01_proofs gen.GenLayouts.
Import ListNotations.

(* ---- lists ---------------------------------------------------------------------------------- *)
Lemma firstn_firstn_le {A} (l : list A) a b : a <= b -> firstn a (firstn b l) = firstn a l.
Proof. intros H. rewrite firstn_firstn. f_equal. lia. Qed.

Lemma firstn_eq_weaken {A} (x y : list A) a b : a <= b -> firstn b x = firstn b y -> firstn a x = firstn a y.
Proof. intros H E. rewrite <- (firstn_firstn_le x a b H), <- (firstn_firstn_le y a b H), E. reflexivity. Qed.

Lemma firstn_skipn_shift {A} (x y : list A) a b :
  firstn (a + b) x = firstn (a + b) y -> firstn b (skipn a x) = firstn b (skipn a y).
Proof.
  intros E. rewrite !firstn_skipn_comm. f_equal. exact E.
Qed.

(* ---- fixed-size layouts read exactly their size, and nothing but those bytes matters ------------ *)
Lemma rep_fixed (d : nat -> bytes -> result (val * bytes)) s :
  (forall fuel bs v rest, d fuel bs = Ok (v, rest) ->
     s <= length bs /\ rest = skipn s bs /\
     forall fuel' bs', firstn s bs' = firstn s bs -> s <= length bs' -> d fuel' bs' = Ok (v, skipn s bs')) ->
  forall n fuel bs vs rest, rep_dec (d fuel) n bs = Ok (vs, rest) ->
    n * s <= length bs /\ rest = skipn (n * s) bs /\
    forall fuel' bs', firstn (n * s) bs' = firstn (n * s) bs -> n * s <= length bs' ->
      rep_dec (d fuel') n bs' = Ok (vs, skipn (n * s) bs').
Proof.
  intros Hd. induction n as [|n IH]; intros fuel bs vs rest H; simpl in H.
  - inversion H; subst. simpl. split; [lia|]. split; [reflexivity|]. intros; reflexivity.
  - inv_bind H as p1 Ha Hk. destruct p1 as [v r1]. inv_bind Hk as p2 Hb Hk2. destruct p2 as [vs' r2].
    simpl in *. inversion Hk2; subst vs rest. clear Hk2.
    destruct (Hd _ _ _ _ Ha) as (L1 & -> & E1).
    destruct (IH _ _ _ _ Hb) as (L2 & -> & E2).
    rewrite skipn_length in L2.
    split; [lia|]. split; [rewrite skipn_skipn; reflexivity|].
    intros fuel' bs' Hf Hl.
    assert (Hs : s <= s + n * s) by lia.
    cbn [rep_dec].
    rewrite (E1 fuel' bs' (firstn_eq_weaken _ _ _ _ Hs Hf)) by lia. cbn [bind fst snd].
    rewrite (E2 fuel' (skipn s bs')).
    + cbn [bind fst snd]. rewrite skipn_skipn. reflexivity.
    + apply firstn_skipn_shift. exact Hf.
    + rewrite skipn_length. lia.
Qed.

Lemma fixed_local l : wf_l l = true -> forall n, size_l l = Some n ->
  forall fuel bs v rest, decode_l fuel l bs = Ok (v, rest) ->
    n <= length bs /\ rest = skipn n bs /\
    forall fuel' bs', firstn n bs' = firstn n bs -> n <= length bs' -> decode_l fuel' l bs' = Ok (v, skipn n bs').
Proof.
  induction l as [w|k st l IH|a IHa b IHb|f l IH| |l IH|sz l IH]; intros Hwf n Hs fuel bs v rest H; simpl in *.
  - inversion Hs; subst n. inv_bind H as p1 Ha Hk. destruct p1 as [x r]. inversion Hk; subst. simpl.
    apply unpack_ok_inv in Ha as (Hl & -> & ->). split; [exact Hl|]. split; [reflexivity|].
    intros _ bs' Hf Hl'. unfold unpack. apply Nat.leb_le in Hl'. rewrite Hl'. cbn [bind fst snd]. rewrite Hf. reflexivity.
  - destruct (size_l l) as [s|] eqn:El; [|discriminate]. inversion Hs; subst n.
    inv_bind H as p1 Ha Hk. destruct p1 as [vs r]. inversion Hk; subst. simpl in *.
    destruct (rep_fixed (fun fu => decode_l fu l) s (fun fu bs0 v0 r0 => IH Hwf s eq_refl fu bs0 v0 r0) _ _ _ _ _ Ha)
      as (L & -> & E).
    split; [exact L|]. split; [reflexivity|]. intros fuel' bs' Hf Hl. rewrite (E fuel' bs' Hf Hl). reflexivity.
  - apply andb_true_iff in Hwf as [Hwa Hwb].
    destruct (size_l a) as [x|] eqn:Ea; [|discriminate]. destruct (size_l b) as [y|] eqn:Eb; [|discriminate].
    inversion Hs; subst n.
    inv_bind H as p1 Ha Hk. destruct p1 as [va ra]. inv_bind Hk as p2 Hb Hk2. destruct p2 as [vb rb].
    simpl in *. inversion Hk2; subst v rest. clear Hk2.
    destruct (IHa Hwa x eq_refl _ _ _ _ Ha) as (L1 & -> & E1).
    destruct (IHb Hwb y eq_refl _ _ _ _ Hb) as (L2 & -> & E2).
    rewrite skipn_length in L2.
    split; [lia|]. split; [rewrite skipn_skipn; reflexivity|].
    intros fuel' bs' Hf Hl.
    assert (Hx : x <= x + y) by lia.
    rewrite (E1 fuel' bs' (firstn_eq_weaken _ _ _ _ Hx Hf)) by lia. cbn [bind fst snd].
    rewrite (E2 fuel' (skipn x bs')).
    + cbn [bind fst snd]. rewrite skipn_skipn. reflexivity.
    + apply firstn_skipn_shift. exact Hf.
    + rewrite skipn_length. lia.
  - inv_bind H as p1 Ha Hk. destruct p1 as [x r]. inversion Hk; subst. simpl in *.
    destruct (IH Hwf n Hs _ _ _ _ Ha) as (L & -> & E). split; [exact L|]. split; [reflexivity|].
    intros fuel' bs' Hf Hl. rewrite (E fuel' bs' Hf Hl). reflexivity.
  - inversion Hs; subst n. inversion H; subst. simpl. split; [lia|]. split; [reflexivity|]. intros; reflexivity.
  - discriminate.
  - apply andb_true_iff in Hwf as [Hw Hsz]. destruct (size_l l) as [sl|] eqn:El; [|discriminate].
    apply andb_true_iff in Hsz as [Hsz _]. apply Nat.eqb_eq in Hsz. subst sl. inversion Hs; subst n.
    inv_bind H as p1 Ha Hk. destruct p1 as [x r]. inversion Hk; subst. simpl in *.
    destruct (IH Hw sz eq_refl _ _ _ _ Ha) as (L & _ & E).
    rewrite firstn_length in L.
    split; [lia|]. split; [reflexivity|].
    intros fuel' bs' Hf Hl.
    rewrite (E fuel' (firstn sz bs')).
    + reflexivity.
    + rewrite firstn_firstn, Nat.min_id. rewrite firstn_firstn, Nat.min_id. exact Hf.
    + rewrite firstn_length. lia.
Qed.

(* ---- what a layout needs for "the written bytes decode to the same value" ------------------------ *)
(* a variable-size layout is a fixed-size head followed by a variable-size tail, down to a record loop *)
Fixpoint stable_ok (l : layout) : bool :=
  match size_l l with
  | Some _ => true
  | None =>
      match l with
      | Seq a b => match size_l a with
                   | Some _ => stable_ok b
                   | None => stable_ok a && match size_l b with Some O => true | _ => false end
                   end
      | Named _ l' => stable_ok l'
      | Many _ => true
      | _ => false
      end
  end.

Lemma stable_ok_unfold l :
  stable_ok l = match size_l l with
                | Some _ => true
                | None => match l with
                          | Seq a b => match size_l a with
                                       | Some _ => stable_ok b
                                       | None => stable_ok a && match size_l b with Some O => true | _ => false end
                                       end
                          | Named _ l' => stable_ok l'
                          | Many _ => true
                          | _ => false
                          end
                end.
Proof. destruct l; reflexivity. Qed.

Definition stable (l : layout) : Prop :=
  forall fuel bs v rest, bytes_ok bs -> decode_l fuel l bs = Ok (v, rest) ->
    exists pre, encode_l l v = Ok pre /\ pre ++ rest = bs /\ decode_l fuel l pre = Ok (v, []) /\
                (size_l l = None -> rest = []).

Lemma stable_fixed l n : wf_l l = true -> size_l l = Some n -> stable l.
Proof.
  intros Hwf Hs fuel bs v rest Hok H.
  destruct (layout_roundtrip _ _ _ _ _ Hok Hwf H) as (pre & E & A).
  destruct (fixed_local _ Hwf _ Hs _ _ _ _ H) as (L & -> & Ext).
  exists pre. split; [exact E|]. split; [exact A|]. split; [|rewrite Hs; discriminate].
  assert (Hp : pre = firstn n bs).
  { assert (length pre = n).
    { apply (f_equal (@length N)) in A. rewrite app_length, skipn_length in A. lia. }
    rewrite <- A. rewrite firstn_app, H0, Nat.sub_diag, firstn_O, app_nil_r. rewrite <- H0. symmetry. apply firstn_all. }
  rewrite (Ext fuel pre).
  - rewrite Hp. rewrite skipn_all2; [reflexivity|]. rewrite firstn_length. lia.
  - rewrite Hp. rewrite firstn_firstn, Nat.min_id. reflexivity.
  - rewrite Hp, firstn_length. lia.
Qed.

Lemma stable_all l : wf_l l = true -> stable_ok l = true -> stable l.
Proof.
  induction l as [w|k st l IH|a IHa b IHb|f l IH| |l IH|sz l IH]; intros Hwf Hst;
    rewrite stable_ok_unfold in Hst;
    try (match type of Hst with context [size_l ?x] => destruct (size_l x) as [n|] eqn:Es end;
         [eapply stable_fixed; eauto|]); try discriminate.
  - (* Seq, variable size *)
    simpl in Hwf. apply andb_true_iff in Hwf as [Hwa Hwb].
    destruct (size_l a) as [x|] eqn:Ea.
    + (* fixed head, variable tail *)
      rename Hst into Hb.
      assert (Eb : size_l b = None).
      { simpl in Es. rewrite Ea in Es. destruct (size_l b); [discriminate|reflexivity]. }
      intros fuel bs v rest Hok H. simpl in H.
      inv_bind H as p1 Hda Hk. destruct p1 as [va ra]. inv_bind Hk as p2 Hdb Hk2. destruct p2 as [vb rb].
      simpl in *. inversion Hk2; subst v rest. clear Hk2.
      destruct (layout_roundtrip _ _ _ _ _ Hok Hwa Hda) as (pa & Epa & Aa).
      assert (Hokr : bytes_ok ra) by (rewrite <- Aa in Hok; apply bytes_ok_app_inv in Hok; tauto).
      destruct (IHb Hwb Hb _ _ _ _ Hokr Hdb) as (pb & Epb & Ab & Db & Rb).
      specialize (Rb Eb). subst rb. rewrite app_nil_r in Ab. subst pb.
      exists (pa ++ ra). rewrite Epa, Epb. cbn [bind]. split; [reflexivity|]. split; [rewrite app_nil_r; exact Aa|].
      split; [|intros _; reflexivity].
      rewrite Aa. rewrite Hda. cbn [bind fst snd]. rewrite Hdb. reflexivity.
    + (* variable head (it consumes everything), empty tail *)
      apply andb_true_iff in Hst as [Ha Hb].
      destruct (size_l b) as [[|y]|] eqn:Eb; try discriminate.
      intros fuel bs v rest Hok H. simpl in H.
      inv_bind H as p1 Hda Hk. destruct p1 as [va ra]. inv_bind Hk as p2 Hdb Hk2. destruct p2 as [vb rb].
      simpl in *. inversion Hk2; subst v rest. clear Hk2.
      destruct (IHa Hwa Ha _ _ _ _ Hok Hda) as (pa & Epa & Aa & Da & Ra).
      specialize (Ra Ea). subst ra. rewrite app_nil_r in Aa. subst pa.
      destruct (fixed_local _ Hwb _ Eb _ _ _ _ Hdb) as (_ & Hrb & _). simpl in Hrb. subst rb.
      destruct (layout_roundtrip _ _ _ _ _ (Forall_nil _) Hwb Hdb) as (pb & Epb & Ab).
      apply app_eq_nil in Ab as [-> _].
      exists bs. rewrite Epa, Epb. cbn [bind]. split; [rewrite app_nil_r; reflexivity|]. split; [apply app_nil_r|].
      split; [|intros _; reflexivity].
      rewrite Hda. cbn [bind fst snd]. rewrite Hdb. reflexivity.
  - (* Named, variable size *)
    simpl in Es. simpl in Hwf.
    intros fuel bs v rest Hok H. simpl in H.
    inv_bind H as p1 Hd Hk. destruct p1 as [x r]. inversion Hk; subst. simpl in *.
    destruct (IH Hwf Hst _ _ _ _ Hok Hd) as (pre & E & A & D & R).
    exists pre. rewrite String.eqb_refl. split; [exact E|]. split; [exact A|]. split; [rewrite D; reflexivity|exact (fun _ => R Es)].
  - (* Many *)
    intros fuel bs v rest Hok H. simpl in H.
    inv_bind H as vs Hd Hk. inversion Hk; subst v rest. clear Hk.
    destruct (layout_roundtrip (Many l) fuel bs (VList vs) [] Hok Hwf) as (pre & E & A).
    { simpl. rewrite Hd. reflexivity. }
    rewrite app_nil_r in A. subst pre.
    exists bs. split; [exact E|]. split; [apply app_nil_r|]. split; [simpl; rewrite Hd; reflexivity|reflexivity].
Qed.

(* fuel does not matter for a fixed-size layout (no record loop inside) *)
Lemma fixed_fuel l n : wf_l l = true -> size_l l = Some n ->
  forall f1 f2 bs v rest, decode_l f1 l bs = Ok (v, rest) -> decode_l f2 l bs = Ok (v, rest).
Proof.
  intros Hwf Hs f1 f2 bs v rest H.
  destruct (fixed_local _ Hwf _ Hs _ _ _ _ H) as (L & -> & E). apply E; auto.
Qed.

(* ---- one section ---------------------------------------------------------------------------------- *)
Definition table_stable (t : list (string * kind)) : bool :=
  forallb (fun e => match snd e with KStr _ => true | KTab dec enc => stable_ok enc end) t.

Lemma section_table_stable : table_stable section_table = true.
Proof. vm_compute. reflexivity. Qed.

Lemma size_l_None_erase l : size_l (erase l) = size_l l.
Proof. apply size_erase. Qed.

Lemma decode_one_stable name payload sec :
  length name = 4 -> (N.of_nat (length payload) < 2 ^ 32)%N -> bytes_ok payload ->
  decode_one name payload = Ok sec ->
  exists payload', encode_one sec = Ok (frame name payload') /\ decode_one name payload' = Ok sec /\
                   length payload' <= length payload.
Proof.
  intros Hn Hlen Hok H. unfold decode_one in H.
  destruct (lookup_name name section_table) as [[s k]|] eqn:El.
  - destruct (lookup_name_in _ _ _ _ El) as [Hin Hname].
    destruct (table_ok_in _ _ _ section_table_ok Hin) as [Hk _].
    pose proof (lookup_name_str _ _ _ _ El) as Hls.
    assert (Hst : match k with KStr _ => true | KTab dec enc => stable_ok enc end = true).
    { pose proof section_table_stable as Ht. unfold table_stable in Ht. rewrite forallb_forall in Ht.
      exact (Ht _ Hin). }
    destruct k as [w|dec enc].
    + inv_bind H as m Hd Hk2. inversion Hk2; subst sec.
      exists payload. split; [|split; [unfold decode_one; rewrite El, Hd; reflexivity|lia]].
      simpl. rewrite (str_roundtrip _ _ _ Hok Hd). simpl. rewrite header_ok by assumption. simpl.
      unfold frame. rewrite <- Hname, <- app_assoc. reflexivity.
    + simpl in Hk. apply andb_true_iff in Hk as [He Hwf]. apply layout_eqb_eq in He.
      unfold decode_section in H. inv_bind H as v Hd Hk2. inversion Hk2; subst sec. clear Hk2.
      inv_bind Hd as vr Hd Hk3. destruct vr as [v' r]. simpl in Hk3. inversion Hk3; subst v'. clear Hk3.
      rewrite <- He, decode_erase in Hd.
      destruct (stable_all enc Hwf Hst _ _ _ _ Hok Hd) as (pre & E & A & D & R).
      assert (Hpl : length pre <= length payload).
      { apply (f_equal (@length N)) in A. rewrite app_length in A. lia. }
      exists pre. split; [|split; [|exact Hpl]].
      * cbn [encode_one]. rewrite Hls. rewrite E. cbn [bind].
        rewrite header_ok by lia. cbn [bind]. unfold frame. rewrite <- Hname, <- app_assoc. reflexivity.
      * unfold decode_one. rewrite El. unfold decode_section. rewrite <- He, decode_erase.
        destruct (size_l enc) as [n|] eqn:Es.
        -- rewrite (fixed_fuel _ _ Hwf Es _ (S (length pre)) _ _ _ D). reflexivity.
        -- specialize (R eq_refl). subst r. rewrite app_nil_r in A. subst pre. rewrite Hd. reflexivity.
  - inversion H; subst sec. exists payload. split; [|split; [unfold decode_one; rewrite El; reflexivity|lia]].
    simpl. rewrite header_ok by assumption. simpl. unfold frame. rewrite <- app_assoc. reflexivity.
Qed.

(* ---- the chunk loop ------------------------------------------------------------------------------- *)
Lemma read_n_length n bs : (N.of_nat (length (fst (read_n n bs))) <= n)%N.
Proof.
  unfold read_n. simpl. rewrite firstn_length. lia.
Qed.

Lemma read_n_ok n bs : bytes_ok bs -> bytes_ok (fst (read_n n bs)) /\ bytes_ok (snd (read_n n bs)).
Proof. intros H. unfold read_n. simpl. split; [apply bytes_ok_firstn|apply bytes_ok_skipn]; exact H. Qed.

Lemma frame_length name p : length (frame name p) = length name + 4 + length p.
Proof. unfold frame. rewrite !app_length, le_encode_length. lia. Qed.

Theorem chk_decode_stable_fuel : forall fuel bs secs,
  bytes_ok bs -> chk_decode_fuel fuel bs = Ok secs ->
  exists bs', chk_encode secs = Ok bs' /\ length bs' <= length bs /\
              forall fuel', length bs' < fuel' -> chk_decode_fuel fuel' bs' = Ok secs.
Proof.
  induction fuel as [|fuel IH]; intros bs secs Hok H.
  - destruct bs; simpl in H; [|discriminate]. inversion H; subst.
    exists []. simpl. repeat split; auto. intros [|f] _; reflexivity.
  - destruct bs as [|b0 bs0].
    { simpl in H; inversion H; subst; exists []; simpl; repeat split; auto. intros [|f] _; reflexivity. }
    cbn [chk_decode_fuel] in H.
    destruct (Nat.ltb (length (b0 :: bs0)) 4) eqn:E4; [discriminate|]. apply Nat.ltb_ge in E4.
    inv_bind H as szr Hu Hk. destruct szr as [sz r]. cbn [fst snd] in Hk.
    inv_bind Hk as sec Hd Hk2. inv_bind Hk2 as secs' Hr Hk3. inversion Hk3; subst secs. clear Hk3.
    set (bs := b0 :: bs0) in *.
    pose proof Hu as Hu'. apply unpack_ok_inv in Hu' as (Hl4 & Hsz & Hrr). subst r.
    assert (Hszb : (sz < 2 ^ 32)%N).
    { subst sz. rewrite <- pow256_4.
      assert (Hl' : length (firstn 4 (skipn 4 bs)) = 4) by (rewrite firstn_length; lia).
      pose proof (le_decode_bound (firstn 4 (skipn 4 bs))) as Hbd. rewrite Hl' in Hbd.
      apply Hbd. apply bytes_ok_firstn, bytes_ok_skipn; exact Hok. }
    set (rest := skipn 4 (skipn 4 bs)) in *.
    assert (Hokrest : bytes_ok rest) by (apply bytes_ok_skipn, bytes_ok_skipn; exact Hok).
    destruct (read_n_ok sz rest Hokrest) as [Hokp Hokq].
    pose proof (read_n_length sz rest) as Hpl.
    assert (Hn4 : length (firstn 4 bs) = 4) by (rewrite firstn_length; lia).
    assert (Hplen : (N.of_nat (length (fst (read_n sz rest))) < 2 ^ 32)%N) by lia.
    destruct (decode_one_stable _ _ _ Hn4 Hplen Hokp Hd) as (p' & Eenc & Ddec & Lp).
    destruct (IH _ _ Hokq Hr) as (bs2 & Eenc2 & L2 & D2).
    assert (Hp'len : (N.of_nat (length p') < 2 ^ 32)%N) by lia.
    assert (Hsplit : length (fst (read_n sz rest)) + length (snd (read_n sz rest)) = length rest).
    { unfold read_n. simpl. rewrite firstn_length, skipn_length. lia. }
    assert (Hrest : length rest + 8 = length bs).
    { unfold rest. rewrite !skipn_length. rewrite skipn_length in Hl4. lia. }
    exists (frame (firstn 4 bs) p' ++ bs2). split; [|split].
    + cbn [chk_encode]. rewrite Eenc. cbn [bind]. rewrite Eenc2. reflexivity.
    + rewrite app_length, frame_length, Hn4. lia.
    + intros fuel' Hf. destruct fuel' as [|f']; [lia|].
      rewrite chk_decode_frame by assumption. rewrite Ddec. cbn [bind].
      rewrite D2; [reflexivity|]. rewrite app_length, frame_length, Hn4 in Hf. lia.
Qed.

Theorem chk_decode_stable bs secs :
  bytes_ok bs -> chk_decode bs = Ok secs ->
  exists bs', chk_encode secs = Ok bs' /\ chk_decode bs' = Ok secs.
Proof.
  intros Hok H. destruct (chk_decode_stable_fuel _ _ _ Hok H) as (bs' & E & L & D).
  exists bs'. split; [exact E|]. unfold chk_decode. apply D. lia.
Qed.

(* not vacuous: an input that is NOT well formed (a WAV section 4 bytes too long, then a truncated unknown
   section whose size field promises 100 bytes) decodes, and what is written back differs from it *)
Definition ragged_chk : bytes :=
  (frame (codes_of_string "UPUS") (repeat 1 64 ++ [9; 9; 9; 9]) ++
   [81; 81; 81; 81; 100; 0; 0; 0; 1; 2; 3])%N.

Example ragged_chk_is_accepted_and_rewritten :
  exists secs bs', chk_decode ragged_chk = Ok secs /\ chk_encode secs = Ok bs' /\ bs' <> ragged_chk /\
                   chk_decode bs' = Ok secs.
Proof.
  eexists. eexists. split; [vm_compute; reflexivity|]. split; [vm_compute; reflexivity|].
  split; [intros Heq; apply (f_equal (@length N)) in Heq; vm_compute in Heq; discriminate|].
  vm_compute. reflexivity.
Qed.
