(* C07, pre-existing triggers: the record bytes of a trigger depend on the encode context only through the numbers the
   context gives to the trigger's own strings, locations, switches and unit-property sets.  Part 1 (this section):
   congruence - two contexts that agree on those numbers encode the trigger identically.  Part 2: the contexts two
   saves build (the unedited map, and the map after ANY edits that keep the location / unit-property / switch sections)
   do agree on every object that sits in a slot of the loaded map. *)
From Coq Require Import String NArith List Bool Lia PeanoNat.
From RC Require Import lib.Result lib.Bytes model.Layout model.Str model.StrEditor model.Alloc model.ChkIo model.Flags
  model.TrigTable model.RichCodec model.RichIo proofs.Layout_proofs proofs.Alloc_proofs proofs.C09_proofs proofs.C08_proofs
  proofs.Save_strings proofs.C07_slots proofs.C10_entries proofs.C07_untouched gen.GenTrig gen.GenFlags gen.GenConsts.
Import ListNotations.
Local Open Scope string_scope.
Local Open Scope list_scope.
Local Open Scope N_scope.

(* ---- part 1: congruence ------------------------------------------------------------------------------------------------- *)

Definition arg_agrees (cx0 cx' : context) (x : rarg) : Prop := forall c, enc_arg cx' c x = enc_arg cx0 c x.

Definition entry_agrees (cx0 cx' : context) (e : rentry) : Prop :=
  match e with
  | ERaw _ => True
  | ERich _ args _ => (forall a x, In (a, x) args -> arg_agrees cx0 cx' x) /\ wav_duration cx' args = wav_duration cx0 args
  end.

Lemma arg_get_in' a (args : list (string * rarg)) x : arg_get rarg a args = Ok x -> In (a, x) args.
Proof.
  induction args as [|[b v] r IH]; simpl; intros H; [discriminate|].
  destruct (String.eqb_spec a b) as [->|Hne]; [inversion H; subst; left; reflexivity | right; apply IH; assumption].
Qed.

Lemma encode_entry_of_agrees cx0 cx' table flagc fields e :
  entry_agrees cx0 cx' e -> encode_entry_of cx' table flagc fields e = encode_entry_of cx0 table flagc fields e.
Proof.
  destruct e as [r|key args fl]; [reflexivity|]. intros [Hargs Hwd]. cbn [encode_entry_of].
  destruct (find_entry key table) as [te|]; [|reflexivity].
  assert (encode_entry rarg (enc_arg cx') (wav_duration cx') te args = encode_entry rarg (enc_arg cx0) (wav_duration cx0) te args) as ->;
    [|reflexivity].
  unfold encode_entry. apply mapM_ext_in. intros [f src] _. destruct src as [| | |c a]; try reflexivity.
  - rewrite Hwd. reflexivity.
  - destruct (arg_get rarg a args) as [x|] eqn:Eg; [|reflexivity]. cbn [bind].
    rewrite (Hargs a x (arg_get_in' _ _ _ Eg) c). reflexivity.
Qed.

Theorem trigger_encode_agrees cx0 cx' t :
  (forall e, In e (t_conds t) -> entry_agrees cx0 cx' e) -> (forall e, In e (t_acts t) -> entry_agrees cx0 cx' e) ->
  trigger_encode cx' t = trigger_encode cx0 t.
Proof.
  intros Hc Ha. unfold trigger_encode.
  rewrite (mapM_ext_in _ (encode_entry_of cx0 gen_condition_table condition_flags_codec condition_record_fields) (t_conds t))
    by (intros e He; apply encode_entry_of_agrees; apply Hc; exact He).
  rewrite (mapM_ext_in _ (encode_entry_of cx0 gen_action_table action_flags_codec action_record_fields) (t_acts t))
    by (intros e He; apply encode_entry_of_agrees; apply Ha; exact He).
  reflexivity.
Qed.

(* ---- part 2a: numbers of locations that sit in a slot --------------------------------------------------------------------- *)

Lemma find_loc_id_app l a : forall b acc, find_loc_id l (a ++ b) acc = find_loc_id l b (find_loc_id l a acc).
Proof. induction a as [|[k i] a IH]; intros b acc; simpl; [reflexivity | apply IH]. Qed.

Lemma find_loc_id_nomatch l t : forall acc, (forall k i, In (k, i) t -> rloc_eqb l k = false) -> find_loc_id l t acc = acc.
Proof.
  induction t as [|[k i] t IH]; intros acc H; simpl; [reflexivity|].
  rewrite (H k i (or_introl eq_refl)). apply IH. intros k' i' Hin. apply (H k' i'). right. exact Hin.
Qed.

Lemma rloc_eqb_idx l k i j : l_idx l = Some i -> l_idx k = Some j -> i <> j -> rloc_eqb l k = false.
Proof.
  intros Hl Hk Hne. unfold rloc_eqb. rewrite Hl, Hk. unfold rloc_fields_eqb. rewrite Hl, Hk. cbn [optN_eqb].
  replace (i =? j) with false by (symmetry; apply N.eqb_neq; exact Hne).
  rewrite !andb_false_r. reflexivity.
Qed.

Lemma filter_all {A} (p : A -> bool) l : (forall x, In x l -> p x = true) -> filter p l = l.
Proof.
  induction l as [|x l IH]; intros H; simpl; [reflexivity|]. rewrite (H x (or_introl eq_refl)). f_equal.
  apply IH. intros y Hy. apply H. right. exact Hy.
Qed.

Lemma filter_none {A} (p : A -> bool) l : (forall x, In x l -> p x = false) -> filter p l = [].
Proof.
  induction l as [|x l IH]; intros H; simpl; [reflexivity|]. rewrite (H x (or_introl eq_refl)).
  apply IH. intros y Hy. apply H. right. exact Hy.
Qed.

Definition loc_req (l : rloc) : request := match l_idx l with Some k => RCarry k | None => RFresh end.

(* the order rebuild_mrgn walks its locations in is already "indexed first": sorting the requests changes nothing *)
Lemma carried_first_of_sorted (w : list rloc) :
  carried_first (map loc_req (filter (fun l => match l_idx l with Some _ => true | None => false end) w ++
                              filter (fun l => match l_idx l with Some _ => false | None => true end) w))
  = map loc_req (filter (fun l => match l_idx l with Some _ => true | None => false end) w ++
                 filter (fun l => match l_idx l with Some _ => false | None => true end) w).
Proof.
  unfold carried_first. rewrite !map_app, !filter_app.
  rewrite (filter_all _ (map loc_req (filter (fun l => match l_idx l with Some _ => true | None => false end) w))).
  2:{ intros x Hx. apply in_map_iff in Hx as (l & <- & Hl). apply filter_In in Hl as [_ Hl]. unfold loc_req. destruct (l_idx l); [reflexivity|discriminate]. }
  rewrite (filter_none _ (map loc_req (filter (fun l => match l_idx l with Some _ => false | None => true end) w))).
  2:{ intros x Hx. apply in_map_iff in Hx as (l & <- & Hl). apply filter_In in Hl as [_ Hl]. unfold loc_req. destruct (l_idx l); [discriminate|reflexivity]. }
  rewrite (filter_none _ (map loc_req (filter (fun l => match l_idx l with Some _ => true | None => false end) w))).
  2:{ intros x Hx. apply in_map_iff in Hx as (l & <- & Hl). apply filter_In in Hl as [_ Hl]. unfold loc_req. destruct (l_idx l); [reflexivity|discriminate]. }
  rewrite (filter_all _ (map loc_req (filter (fun l => match l_idx l with Some _ => false | None => true end) w))).
  2:{ intros x Hx. apply in_map_iff in Hx as (l & <- & Hl). apply filter_In in Hl as [_ Hl]. unfold loc_req. destruct (l_idx l); [discriminate|reflexivity]. }
  rewrite app_nil_r. reflexivity.
Qed.

(* the location numbers a save hands to the encoders: for a location carrying an index that was occupied in the loaded
   table, the number is found among the loaded table's own entries - whatever else had to be placed *)
Theorem old_location_number_is_stable r ls mr l i :
  filter (named "MRGN") r = [RMrgn ls] -> rebuild_mrgn r = Ok mr ->
  l_idx l = Some i -> In i (map fst (by_idx ls)) ->
  find_loc_id l (snd mr) None =
  find_loc_id l (map (fun l => (l, match l_idx l with Some i => i | None => 0 end)) ls) None.
Proof.
  intros Hf H Hli Hi. unfold rebuild_mrgn in H. rewrite Hf in H. cbn [only bind] in H.
  destruct (existsb _ ls) eqn:Enone; [discriminate|].
  match type of H with bind (add_locations ?ex ?reqs) _ = _ => destruct (add_locations ex reqs) as [outs|e] eqn:Ea; [|discriminate] end.
  cbn [bind] in H. inversion H; subst mr. clear H. cbn [snd].
  rewrite find_loc_id_app. apply find_loc_id_nomatch.
  destruct (add_locations_sound _ _ _ Ea) as (Hfits & _ & Hfree & _).
  (* i is the index of an existing location *)
  assert (In i (flat_map (fun l => match l_idx l with Some i => [i] | None => [] end) ls)) as Hex.
  { apply in_map_iff in Hi as ([k l1] & Hk & Hin1). simpl in Hk. subst k.
    unfold by_idx in Hin1. apply in_flat_map in Hin1 as (l2 & Hl2 & Hin2). apply in_flat_map. exists l2. split; [assumption|].
    destruct (l_idx l2); [|destruct Hin2]. destruct Hin2 as [Heq|[]]. inversion Heq; subst. left. reflexivity. }
  intros k j Hin0. apply in_flat_map in Hin0. destruct Hin0 as ([q j'] & Hq & Hin).
  (* (q, j') is a placed pair: j' is a placed id, and if q carries an index it is j' *)
  match type of Hq with In _ (flat_map _ (combine ?order outs)) => set (order0 := order) in * end.
  apply in_flat_map in Hq. destruct Hq as ([q0 o] & Hcomb & Hq2). cbn [fst snd] in Hq2. rename Hq2 into Hq.
  destruct o as [pi| | |]; [| destruct Hq | destruct Hq | destruct Hq]. destruct Hq as [Heq|[]]. inversion Heq; subst q0 pi. clear Heq.
  assert (In j' (placed_ids outs)) as Hp.
  { apply in_combine_r in Hcomb. unfold placed_ids. apply in_flat_map. exists (Placed j'). split; [exact Hcomb | left; reflexivity]. }
  assert (j' <> i) as Hne by (intros ->; exact (Hfree i Hp Hex)).
  cbn [fst snd] in Hin. destruct Hin as [Heq|[Heq|[]]]; inversion Heq; subst k j; clear Heq.
  - apply (rloc_eqb_idx l (set_idx q j') i j' Hli eq_refl). congruence.
  - destruct (l_idx q) as [kq|] eqn:Eq.
    + (* q carried kq and was placed: at kq *)
      assert (kq = j') as ->.
      { (* position of (q, Placed j') in combine order0 outs, with order0 mapped to requests *)
        clear -Hfits Hcomb Eq. subst order0.
        match type of Hcomb with In _ (combine ?order outs) => remember order as ord end.
        assert (Forall2 outcome_fits (map (fun l => match l_idx l with Some k => RCarry k | None => RFresh end) ord) outs) as F.
        { subst ord. rewrite carried_first_of_sorted in Hfits. exact Hfits. }
        clear Hfits Heqord. revert outs F Hcomb. induction ord as [|x ord IH]; intros outs F Hcomb; [destruct Hcomb|].
        destruct outs as [|o outs]; [destruct Hcomb|]. simpl in F. inversion F as [|? ? ? ? Hx Hrest]; subst.
        destruct Hcomb as [Heq|Hcomb]; [|eapply IH; eauto].
        inversion Heq; subst x o. rewrite Eq in Hx. simpl in Hx. symmetry. exact Hx. }
      apply (rloc_eqb_idx l q i j' Hli Eq). congruence.
    + unfold rloc_eqb. rewrite Hli, Eq. reflexivity.
Qed.

(* ---- part 2b: numbers of unit-property sets that sit in a slot ------------------------------------------------------------- *)

Definition cby_idx (cs : list rcuwp) : list (N * rcuwp) :=
  flat_map (fun c => match c_idx c with Some i => [(i, c)] | None => [] end) cs.

Lemma cby_idx_app a b : cby_idx (a ++ b) = cby_idx a ++ cby_idx b.
Proof. unfold cby_idx. apply flat_map_app. Qed.

Lemma bools_eqb_refl l : bools_eqb l l = true.
Proof. induction l as [|x l IH]; simpl; [reflexivity | rewrite eqb_reflx, IH; reflexivity]. Qed.

Lemma rcuwp_eqb_refl c : rcuwp_eqb c c = true.
Proof. unfold rcuwp_eqb. rewrite !N.eqb_refl, !bools_eqb_refl, eqb_reflx. reflexivity. Qed.

Theorem old_cuwp_number_is_stable r cs up cx c c' i :
  filter (named "UPRP") r = [RUprp cs] -> rebuild_uprp r = Ok up -> cx_cuwps cx = up ->
  c_idx c = Some i -> assocN_last i (cby_idx cs) = Some c' -> rcuwp_eqb c c' = true ->
  id_by_cuwp cx c = Ok i.
Proof.
  intros Hf H Hcx Hci Hslot Heq. unfold rebuild_uprp in H. rewrite Hf in H. cbn [bind] in H.
  destruct (existsb _ cs) eqn:Enone; [discriminate|].
  match type of H with bind (add_cuwp_slots ?ex ?reqs) _ = _ => destruct (add_cuwp_slots ex reqs) as [outs|e] eqn:Ea; [|discriminate] end.
  cbn [bind] in H. inversion H as [E]. clear H.
  unfold id_by_cuwp. rewrite Hci. unfold cuwp_by_id. rewrite Hcx, <- E. unfold cby_idx in Hslot.
  rewrite flat_map_app, assocN_last_app.
  rewrite assocN_last_none; [rewrite Hslot, Heq; reflexivity|].
  destruct (add_cuwp_slots_sound _ _ _ Ea) as (_ & _ & Hfree & _).
  intros Hc. apply in_map_iff in Hc as ([k cc] & Hk & Hin). simpl in Hk. subst k.
  apply in_flat_map in Hin as (c0 & Hc0 & Hin).
  apply in_flat_map in Hc0 as ([q o] & Hcomb & Hq). cbn [fst snd] in Hq.
  destruct o as [pi| | |]; [| destruct Hq | destruct Hq | destruct Hq]. destruct Hq as [<-|[]].
  cbn [set_cidx c_idx] in Hin. destruct Hin as [Heq2|[]]. inversion Heq2; subst pi. clear Heq2.
  assert (In i (placed_ids outs)) as Hp.
  { apply in_combine_r in Hcomb. unfold placed_ids. apply in_flat_map. exists (Placed i). split; [exact Hcomb | left; reflexivity]. }
  apply (Hfree i Hp).
  apply assocN_last_in in Hslot. apply in_flat_map in Hslot as (c1 & Hc1 & Hin1).
  apply in_flat_map. exists c1. split; [exact Hc1|]. destruct (c_idx c1); [|destruct Hin1].
  destruct Hin1 as [Heq3|[]]. inversion Heq3; subst. left. reflexivity.
Qed.

(* ---- part 2c: numbers of switches that triggers refer to by number ----------------------------------------------------------- *)

Definition sw_norm (s : rswitch) : list N := match s_name s with RNull => [] | RText x => x end.

Lemma list_N_eqb_nil_r x : list_N_eqb x [] = match x with [] => true | _ => false end.
Proof. destruct x; reflexivity. Qed.

Lemma key_eqb_indexed a b i j :
  s_idx a = Some i -> s_idx b = Some j ->
  rswitch_key_eqb a b = (i =? j) && list_N_eqb (sw_norm a) (sw_norm b).
Proof.
  intros Ha Hb. unfold rswitch_key_eqb, sw_norm. rewrite Ha, Hb.
  destruct (s_name a) as [|x]; destruct (s_name b) as [|y]; try reflexivity;
    try (destruct y; reflexivity); try (destruct x; reflexivity).
Qed.

Lemma key_eqb_some_none a b i : s_idx a = Some i -> s_idx b = None -> rswitch_key_eqb a b = false.
Proof. intros Ha Hb. unfold rswitch_key_eqb. rewrite Ha, Hb. reflexivity. Qed.

(* "the same numbered switch": equal index, equal name up to null = empty *)
Definition same_switch (k : N) (x y : rswitch) : Prop := s_idx x = Some k /\ s_idx y = Some k /\ sw_norm x = sw_norm y.

Lemma key_eqb_same k x y : s_idx x = Some k -> rswitch_key_eqb x y = true -> same_switch k x y.
Proof.
  intros Hx H. destruct (s_idx y) as [j|] eqn:Hy; [|rewrite (key_eqb_some_none x y k Hx Hy) in H; discriminate].
  rewrite (key_eqb_indexed x y k j Hx Hy) in H. apply andb_true_iff in H as [H1 H2].
  apply N.eqb_eq in H1. subst j. apply list_N_eqb_eq in H2. repeat split; assumption.
Qed.

Lemma same_key_eqb k x y : same_switch k x y -> rswitch_key_eqb x y = true.
Proof.
  intros (Hx & Hy & Hn). rewrite (key_eqb_indexed x y k k Hx Hy), N.eqb_refl, Hn. simpl. apply list_N_eqb_eq. reflexivity.
Qed.

Lemma same_switch_trans k x y z : same_switch k x y -> same_switch k y z -> same_switch k x z.
Proof. intros (A & B & C) (D & E & F). repeat split; congruence. Qed.

Lemma same_switch_refl k x : s_idx x = Some k -> same_switch k x x.
Proof. intros H. repeat split; assumption. Qed.

(* first-occurrence de-duplication keeps what it has accepted, and a representative of every element *)
Lemma dedupe_acc_in {A} (eqb : A -> A -> bool) : forall l acc a, In a acc -> In a (dedupe eqb l acc).
Proof.
  induction l as [|h l IH]; intros acc a H; simpl; [rewrite <- in_rev; exact H|].
  destruct (existsb (eqb h) acc); apply IH; [exact H | right; exact H].
Qed.

Lemma dedupe_repr {A} (eqb : A -> A -> bool) : forall l acc x,
  In x l -> exists y, In y (dedupe eqb l acc) /\ (y = x \/ eqb x y = true).
Proof.
  induction l as [|h l IH]; intros acc x H; [destruct H|]. simpl.
  destruct H as [->|H].
  - destruct (existsb (eqb x) acc) eqn:E.
    + apply existsb_exists in E as (a & Ha & Hea). exists a. split; [apply dedupe_acc_in; exact Ha | right; exact Hea].
    + exists x. split; [apply dedupe_acc_in; left; reflexivity | left; reflexivity].
  - destruct (existsb (eqb h) acc); apply IH; exact H.
Qed.

(* the rebuilder's engine (a carried number always takes its slot) *)
Lemma engine_carry_always_placed : forall reqs used free outs,
  engine false false None reqs used free = Ok outs ->
  Forall2 (fun r o => match r with RCarry k => o = Placed k | _ => True end) reqs outs.
Proof.
  induction reqs as [|r rest IH]; intros used free outs H; simpl in H; [inversion H; constructor|].
  destruct r as [k| |].
  - apply bind_ok_inv in H as (o & Ho & Hk). inversion Hk; subst. constructor; [reflexivity | eapply IH; eauto].
  - destruct free as [|f free']; [discriminate|].
    apply bind_ok_inv in H as (o & Ho & Hk). inversion Hk; subst. constructor; [exact I | eapply IH; eauto].
  - apply bind_ok_inv in H as (o & Ho & Hk). inversion Hk; subst. constructor; [exact I | eapply IH; eauto].
Qed.

Lemma find_switch_id_const s k : forall t acc,
  (forall b i, In (b, i) t -> rswitch_key_eqb s b = true -> i = k) ->
  (acc = Some k \/ exists b i, In (b, i) t /\ rswitch_key_eqb s b = true) ->
  (acc = None \/ acc = Some k) ->
  find_switch_id s t acc = Some k.
Proof.
  induction t as [|[b i] t IH]; intros acc Hall Hex Hacc; simpl.
  - destruct Hex as [->|(b & i & [] & _)]. reflexivity.
  - apply IH.
    + intros b' i' Hin. apply (Hall b' i'). right. exact Hin.
    + destruct (rswitch_key_eqb s b) eqn:E.
      * left. f_equal. apply (Hall b i (or_introl eq_refl) E).
      * destruct Hex as [->|(b' & i' & [Heq|Hin] & Hm)]; [left; reflexivity | inversion Heq; subst; congruence |].
        right. exists b', i'. auto.
    + destruct (rswitch_key_eqb s b) eqn:E; [right; f_equal; apply (Hall b i (or_introl eq_refl) E) | exact Hacc].
Qed.

Lemma combine_nth_pair {A B} (P : A -> B -> Prop) : forall (l : list A) (l' : list B) x,
  Forall2 P l l' -> In x l -> exists y, In (x, y) (combine l l') /\ P x y.
Proof.
  induction l as [|a l IH]; intros l' x F Hin; [destruct Hin|].
  inversion F as [|? b ? l2 Hab Hrest]; subst. destruct Hin as [->|Hin].
  - exists b. split; [left; reflexivity | exact Hab].
  - destruct (IH l2 x Hrest Hin) as (y & Hy & Hp). exists y. split; [right; exact Hy | exact Hp].
Qed.

Lemma combine_forall2 {A B} (P : A -> B -> Prop) : forall (l : list A) (l' : list B) x y,
  Forall2 P l l' -> In (x, y) (combine l l') -> P x y.
Proof.
  induction l as [|a l IH]; intros l' x y F Hin; [destruct Hin|].
  inversion F as [|? b ? l2 Hab Hrest]; subst. destruct Hin as [Heq|Hin]; [inversion Heq; subst; exact Hab | eapply IH; eauto].
Qed.

(* a switch that some trigger of the map refers to by number keeps exactly that number, whatever else the map holds *)
Theorem used_switch_number_is_stable r sw s k :
  RichIo.rebuild_swnm r = Ok sw -> s_idx s = Some k -> In s (flat_map section_switches r) ->
  find_switch_id s (snd sw) None = Some k.
Proof.
  intros H Hs Hin. unfold RichIo.rebuild_swnm in H.
  set (swnm := match filter (named "SWNM") r with [RSwnm ss] => ss | _ => default_switches end) in *.
  set (used := dedupe rswitch_key_eqb (flat_map section_switches r) []) in *.
  set (named_sw := filter (fun s0 => negb (rstr_empty (s_name s0))) swnm) in *.
  set (all := dedupe rswitch_key_eqb (used ++ named_sw) []) in *.
  apply bind_ok_inv in H as (outs & Ho & Hk). inversion Hk; subst sw. clear Hk. cbn [snd].
  unfold Alloc.rebuild_swnm in Ho. destruct (existsb _ _); [discriminate|].
  pose proof (engine_carry_always_placed _ _ _ _ Ho) as F.
  (* a representative of s sits in `all` *)
  destruct (dedupe_repr rswitch_key_eqb _ [] s Hin) as (u & Hu & Hsu). fold used in Hu.
  assert (same_switch k s u) as Rsu by (destruct Hsu as [->|E]; [apply same_switch_refl; exact Hs | apply key_eqb_same; assumption]).
  assert (In u (used ++ named_sw)) as Hu2 by (apply in_or_app; left; exact Hu).
  destruct (dedupe_repr rswitch_key_eqb _ [] u Hu2) as (a & Ha & Hua). fold all in Ha.
  assert (same_switch k u a) as Rua
    by (destruct Hua as [->|E]; [apply same_switch_refl; apply Rsu | apply key_eqb_same; [apply Rsu | assumption]]).
  pose proof (same_switch_trans k s u a Rsu Rua) as Rsa.
  assert (Forall2 (fun (x : rswitch) o => match s_idx x with Some j => o = Placed j | None => True end) all outs) as F2.
  { clear -F. revert outs F. induction all as [|x l IH]; intros outs F; simpl in F; inversion F; subst; constructor.
    - destruct (s_idx x); assumption.
    - apply IH. assumption. }
  apply find_switch_id_const.
  - intros b i Hbi Hm. apply in_flat_map in Hbi as ([b0 o] & Hcomb & Hq). cbn [fst snd] in Hq.
    destruct o as [pi| | |]; [| destruct Hq | destruct Hq | destruct Hq]. destruct Hq as [Heq|[]]. inversion Heq; subst b0 pi. clear Heq.
    pose proof (combine_forall2 _ _ _ _ _ F2 Hcomb) as Hfit. cbv beta in Hfit.
    destruct (key_eqb_same k s b Hs Hm) as (_ & Hb & _). rewrite Hb in Hfit. inversion Hfit. reflexivity.
  - right. destruct (combine_nth_pair _ _ _ a F2 Ha) as (o & Hcomb & Hfit). cbv beta in Hfit.
    pose proof (same_key_eqb k s a Rsa) as Hmatch.
    destruct Rsa as (_ & Hak & _). rewrite Hak in Hfit. subst o.
    exists a, k. split; [|exact Hmatch].
    apply in_flat_map. exists (a, Placed k). split; [exact Hcomb | left; reflexivity].
  - left. reflexivity.
Qed.

(* ---- part 3: the two saves ---------------------------------------------------------------------------------------------------- *)

(* what is asked of an argument of a pre-existing trigger: it denotes something that sits in the loaded map's tables *)
Definition arg_ok (T : list (list N)) (ls : list rloc) (cs : list rcuwp) (r0 r' : list rsection) (x : rarg) : Prop :=
  match x with
  | AStr s => known {| sl_by_id := T |} s
  | AStrV p => In p T
  | ALoc l => exists i, l_idx l = Some i /\ In i (map fst (by_idx ls))
  | ACuwp c => exists i c', c_idx c = Some i /\ assocN_last i (cby_idx cs) = Some c' /\ rcuwp_eqb c c' = true
  | ASwitch s => exists k, s_idx s = Some k /\ In s (flat_map section_switches r0) /\ In s (flat_map section_switches r')
  | _ => True
  end.

Definition entry_ok T ls cs r0 r' (e : rentry) : Prop :=
  match e with ERaw _ => True | ERich _ args _ => forall a x, In (a, x) args -> arg_ok T ls cs r0 r' x end.

Definition trigger_ok T ls cs r0 r' (t : rtrigger) : Prop :=
  (forall e, In e (t_conds t) -> entry_ok T ls cs r0 r' e) /\ (forall e, In e (t_acts t) -> entry_ok T ls cs r0 r' e).

(* the context a save encodes its triggers with *)
Definition save_context (wd : list (list N * N)) (L : str_lookup) (mr : list rloc * list (rloc * N))
           (sw : list rswitch * list (rswitch * N)) (up : list rcuwp) : context :=
  {| cx_str := L; cx_locs := fst mr; cx_loc_ids := snd mr; cx_switch_by_id := []; cx_switch_ids := snd sw;
     cx_cuwps := up; cx_wav_dur := wd |}.

Section TwoSaves.
  Variables (r0 r' : list rsection) (wd : list (list N * N)).
  Variables (m : str_section) (bin : bytes) (T : list (list N)) (ls : list rloc) (cs : list rcuwp).
  Variables (U0 U' : list (list N)) (mr0 mr' : list rloc * list (rloc * N)) (sw0 sw' : list rswitch * list (rswitch * N))
            (up0 up' : list rcuwp).

  Hypothesis HU0 : forall s, In s U0 -> ~ In s T.
  Hypothesis HU' : forall s, In s U' -> ~ In s T.
  Hypothesis Hm0 : filter (named "MRGN") r0 = [RMrgn ls].
  Hypothesis Hm' : filter (named "MRGN") r' = [RMrgn ls].
  Hypothesis Hu0 : filter (named "UPRP") r0 = [RUprp cs].
  Hypothesis Hu' : filter (named "UPRP") r' = [RUprp cs].
  Hypothesis Rm0 : rebuild_mrgn r0 = Ok mr0.
  Hypothesis Rm' : rebuild_mrgn r' = Ok mr'.
  Hypothesis Ru0 : rebuild_uprp r0 = Ok up0.
  Hypothesis Ru' : rebuild_uprp r' = Ok up'.
  Hypothesis Rs0 : RichIo.rebuild_swnm r0 = Ok sw0.
  Hypothesis Rs' : RichIo.rebuild_swnm r' = Ok sw'.

  Let cx0 := save_context wd {| sl_by_id := T ++ U0 |} mr0 sw0 up0.
  Let cx' := save_context wd {| sl_by_id := T ++ U' |} mr' sw' up'.

  Lemma arg_ok_agrees x : arg_ok T ls cs r0 r' x -> arg_agrees cx0 cx' x.
  Proof.
    intros Hok c. destruct x as [n|id|l|s|p|cw|s|nm|]; cbn [arg_ok] in Hok.
    - destruct c; reflexivity.
    - destruct c; reflexivity.
    - destruct Hok as (i & Hi & Hin). destruct c; try reflexivity; cbn [enc_arg]; unfold id_by_loc; cbn [cx' cx0 save_context cx_loc_ids];
        rewrite (old_location_number_is_stable r' ls mr' l i Hm' Rm' Hi Hin),
                (old_location_number_is_stable r0 ls mr0 l i Hm0 Rm0 Hi Hin); reflexivity.
    - destruct c; try reflexivity. cbn [enc_arg cx' cx0 save_context cx_str].
      apply (growths_agree T U0 U' HU0 HU'). exact Hok.
    - destruct c; try reflexivity. cbn [enc_arg cx' cx0 save_context cx_str].
      apply (growths_agree T U0 U' HU0 HU' (RText p)). exact Hok.
    - destruct Hok as (i & c' & Hi & Hslot & Heq). destruct c; try reflexivity. cbn [enc_arg].
      rewrite (old_cuwp_number_is_stable r' cs up' cx' cw c' i Hu' Ru' eq_refl Hi Hslot Heq),
              (old_cuwp_number_is_stable r0 cs up0 cx0 cw c' i Hu0 Ru0 eq_refl Hi Hslot Heq). reflexivity.
    - destruct Hok as (k & Hk & Hin0 & Hin'). destruct c; try reflexivity. cbn [enc_arg]. unfold id_by_switch.
      cbn [cx' cx0 save_context cx_switch_ids].
      rewrite (used_switch_number_is_stable r' sw' s k Rs' Hk Hin'), (used_switch_number_is_stable r0 sw0 s k Rs0 Hk Hin0). reflexivity.
    - destruct c; reflexivity.
    - destruct c; reflexivity.
  Qed.

  Lemma entry_ok_agrees e : entry_ok T ls cs r0 r' e -> entry_agrees cx0 cx' e.
  Proof.
    destruct e as [r|key args fl]; [intros _; exact I|]. intros Hok. split.
    - intros a x Hin. apply arg_ok_agrees. eapply Hok; eauto.
    - reflexivity.
  Qed.

  (* a pre-existing trigger is encoded to the same record by both saves *)
  Theorem preexisting_trigger_encodes_identically t :
    trigger_ok T ls cs r0 r' t -> trigger_encode cx' t = trigger_encode cx0 t.
  Proof.
    intros [Hc Ha]. apply trigger_encode_agrees; intros e He; apply entry_ok_agrees; [apply Hc | apply Ha]; exact He.
  Qed.

  (* ... hence the trigger section that holds the old triggers followed by any new ones starts with the old records *)
  Theorem preexisting_triggers_keep_their_records ts new v0 v' :
    Forall (trigger_ok T ls cs r0 r') ts ->
    trig_encode cx0 ts = Ok v0 -> trig_encode cx' (ts ++ new) = Ok v' ->
    forall k tv, nth_error (vlist "_triggers" v0) k = Some tv -> nth_error (vlist "_triggers" v') k = Some tv.
  Proof.
    intros Hok H0 H' k tv Hn. unfold trig_encode in H0, H'.
    apply bind_ok_inv in H0 as (vs0 & Hvs0 & Hk0). inversion Hk0; subst v0. clear Hk0.
    apply bind_ok_inv in H' as (vs' & Hvs' & Hk'). inversion Hk'; subst v'. clear Hk'.
    match type of Hn with context [vlist "_triggers" ?x] => change (vlist "_triggers" x) with vs0 in Hn end.
    match goal with |- context [vlist "_triggers" ?x] => change (vlist "_triggers" x) with vs' end.
    destruct (mapM_app _ _ _ _ Hvs') as (r1 & r2 & H1 & H2 & ->).
    assert (mapM (trigger_encode cx') ts = mapM (trigger_encode cx0) ts) as E.
    { apply mapM_ext_in. intros t Ht. apply preexisting_trigger_encodes_identically.
      rewrite Forall_forall in Hok. apply Hok. exact Ht. }
    rewrite E, Hvs0 in H1. inversion H1; subst r1.
    rewrite nth_error_app1; [exact Hn | apply nth_error_Some; congruence].
  Qed.
End TwoSaves.

(* ---- part 4: through RichChkIo.encode_chk -------------------------------------------------------------------------------------- *)

Theorem preexisting_triggers_survive_edits_bytewise r0 r' wd d0 d' m bin T ls cs i ts new :
  filter (named "STR ") r0 = [RDecodedStr "STR " 2 m] -> filter (named "STR ") r' = [RDecodedStr "STR " 2 m] ->
  wf_table 2 m bin -> build_lookup 2 m = Ok T ->
  Forall clean (flat_map section_strings r0) -> Forall clean (flat_map section_strings r') ->
  filter (named "MRGN") r0 = [RMrgn ls] -> filter (named "MRGN") r' = [RMrgn ls] ->
  filter (named "UPRP") r0 = [RUprp cs] -> filter (named "UPRP") r' = [RUprp cs] ->
  nth_error r0 i = Some (RTrig ts) -> nth_error r' i = Some (RTrig (ts ++ new)) ->
  Forall (trigger_ok T ls cs r0 r') ts ->
  save wd r0 = Ok d0 -> save wd r' = Ok d' ->
  exists v0 v', nth_error d0 i = Some (DTab "TRIG" v0) /\ nth_error d' i = Some (DTab "TRIG" v') /\
    forall k tv, nth_error (vlist "_triggers" v0) k = Some tv -> nth_error (vlist "_triggers" v') k = Some tv.
Proof.
  intros Hs0 Hs' Hwf HT Hc0 Hc' Hm0 Hm' Hu0 Hu' Hn0 Hn' Hok S0 S'.
  unfold save in S0, S'.
  inv_bind S0 as ns0 A1 S0. inv_bind S0 as mr0 A2 S0. inv_bind S0 as sw0 A3 S0. inv_bind S0 as up0 A4 S0.
  inv_bind S0 as us0 A5 S0. inv_bind S0 as L0 A6 S0. inv_bind S0 as ck0 A7 S0. inv_bind S0 as secs0 Am S0.
  inv_bind S0 as e10 A8 S0. inv_bind S0 as e20 A9 S0. inversion S0; subst d0. clear S0.
  inv_bind S' as ns' B1 S'. inv_bind S' as mr' B2 S'. inv_bind S' as sw' B3 S'. inv_bind S' as up' B4 S'.
  inv_bind S' as us' B5 S'. inv_bind S' as L' B6 S'. inv_bind S' as ck' B7 S'. inv_bind S' as secs' Bm S'.
  inv_bind S' as e1' B8 S'. inv_bind S' as e2' B9 S'. inversion S'; subst d'. clear S'.
  destruct (C07_untouched.save_lookup_is_a_growth _ _ _ _ _ _ Hs0 Hwf HT Hc0 A1 A6) as (U0 & -> & HU0).
  destruct (C07_untouched.save_lookup_is_a_growth _ _ _ _ _ _ Hs' Hwf HT Hc' B1 B6) as (U' & -> & HU').
  destruct (mapM_nth _ _ _ _ _ Am Hn0) as (y0 & Hy0 & Hny0).
  destruct (mapM_nth _ _ _ _ _ Bm Hn') as (y' & Hy' & Hny'). cbv beta iota in Hy0, Hy'.
  inv_bind Hy0 as v0 Hv0 Hk0. inversion Hk0; subst y0. inv_bind Hy' as v' Hv' Hk'. inversion Hk'; subst y'.
  exists v0, v'. split; [|split].
  - rewrite nth_error_app1 by (apply nth_error_Some; congruence). exact Hny0.
  - rewrite nth_error_app1 by (apply nth_error_Some; congruence). exact Hny'.
  - eapply (preexisting_triggers_keep_their_records r0 r' wd T ls cs U0 U' mr0 mr' sw0 sw' up0 up'); eauto.
Qed.
