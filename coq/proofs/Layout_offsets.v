(* "Each decoded field is the little-endian integer at the layout's offset" — generic in the layout. *)
From Coq Require Import String NArith List Bool Lia PeanoNat.
From RC Require Import lib.Result lib.Bytes model.Layout proofs.Layout_proofs.
Import ListNotations.

Lemma skipn_skipn {A} (x y : nat) (l : list A) : skipn x (skipn y l) = skipn (y + x) l.
Proof.
  revert l; induction y as [|y IH]; intros l; simpl; [reflexivity|].
  destruct l as [|a l]; [destruct x; reflexivity | apply IH].
Qed.

Definition is_suffix (r bs : bytes) : Prop := exists pre, bs = pre ++ r.

Lemma is_suffix_refl bs : is_suffix bs bs.
Proof. exists []. reflexivity. Qed.

Lemma is_suffix_trans a b c : is_suffix a b -> is_suffix b c -> is_suffix a c.
Proof. intros [p ->] [q ->]. exists (q ++ p). rewrite app_assoc. reflexivity. Qed.

Lemma is_suffix_skipn n bs : is_suffix (skipn n bs) bs.
Proof. exists (firstn n bs). symmetry. apply firstn_skipn. Qed.

Lemma suffix_len_skipn r bs s : is_suffix r bs -> length bs = s + length r -> r = skipn s bs.
Proof.
  intros [pre ->] Hl. rewrite app_length in Hl. assert (length pre = s) by lia. subst s.
  rewrite skipn_app, skipn_all, Nat.sub_diag. reflexivity.
Qed.

Lemma rep_dec_suffix d n :
  (forall bs v r, d bs = Ok (v, r) -> is_suffix r bs) ->
  forall bs vs r, rep_dec d n bs = Ok (vs, r) -> is_suffix r bs.
Proof.
  intros Hd. induction n as [|n IH]; intros bs vs r H; simpl in H.
  - inversion H; subst. apply is_suffix_refl.
  - inv_bind H as p1 Ha Hk. destruct p1 as [v r1]. inv_bind Hk as p2 Ha0 Hb. destruct p2 as [vs' r2].
    simpl in *. inversion Hb; subst. eapply is_suffix_trans; [eapply IH; eauto | eapply Hd; eauto].
Qed.

Lemma decode_suffix l : forall fuel bs v rest, decode_l fuel l bs = Ok (v, rest) -> is_suffix rest bs.
Proof.
  induction l as [w|n st l IH|a IHa b IHb|f l IH| |l IH|sz l IH]; intros fuel bs v rest H; simpl in *.
  - inv_bind H as p1 Ha Hb. destruct p1 as [x r]. inversion Hb; subst.
    apply unpack_ok_inv in Ha as (_ & _ & ->). apply is_suffix_skipn.
  - inv_bind H as p1 Ha Hb. destruct p1 as [vs r]. inversion Hb; subst. simpl.
    eapply rep_dec_suffix in Ha; eauto.
  - inv_bind H as p1 Ha Hk. destruct p1 as [va ra]. inv_bind Hk as p2 Ha0 Hb. destruct p2 as [vb rb].
    simpl in *. inversion Hb; subst. eapply is_suffix_trans; eauto.
  - inv_bind H as p1 Ha Hb. destruct p1 as [x r]. inversion Hb; subst. simpl. eapply IH; eauto.
  - inversion H; subst. apply is_suffix_refl.
  - inv_bind H as vs Ha Hb. inversion Hb; subst. exists bs. rewrite app_nil_r. reflexivity.
  - inv_bind H as p1 Ha Hb. destruct p1 as [x r]. inversion Hb; subst. apply is_suffix_skipn.
Qed.

Lemma decode_rest_skipn l fuel bs v rest s :
  wf_l l = true -> size_l l = Some s -> decode_l fuel l bs = Ok (v, rest) -> rest = skipn s bs.
Proof.
  intros Hwf Hs H. apply suffix_len_skipn; [eapply decode_suffix; eauto | eapply decode_size; eauto].
Qed.

(* the i-th element of a repetition was decoded from offset i * size *)
Lemma rep_dec_nth d sz n :
  (forall bs v r, d bs = Ok (v, r) -> r = skipn sz bs) ->
  forall bs vs rest i xi, rep_dec d n bs = Ok (vs, rest) -> nth_error vs i = Some xi ->
    exists r, d (skipn (i * sz) bs) = Ok (xi, r).
Proof.
  intros Hd. induction n as [|n IH]; intros bs vs rest i xi H Hn; simpl in H.
  - inversion H; subst. destruct i; discriminate.
  - inv_bind H as p1 Ha Hk. destruct p1 as [v r1]. inv_bind Hk as p2 Ha0 Hb. destruct p2 as [vs' r2].
    simpl in *. inversion Hb; subst. destruct i as [|i]; simpl in Hn.
    + inversion Hn; subst. simpl. eauto.
    + destruct (IH _ _ _ _ _ Ha0 Hn) as (r & Hr). exists r.
      rewrite (Hd _ _ _ Ha) in Hr. rewrite skipn_skipn in Hr. simpl. exact Hr.
Qed.

Lemma many_dec_nth d sz :
  (forall bs v r, d bs = Ok (v, r) -> r = skipn sz bs) ->
  forall fu bs vs i xi, many_dec d fu bs = Ok vs -> nth_error vs i = Some xi ->
    exists r, d (skipn (i * sz) bs) = Ok (xi, r).
Proof.
  intros Hd. induction fu as [|fu IH]; intros bs vs i xi H Hn; destruct bs as [|b0 bs0]; simpl in H.
  - inversion H; subst. destruct i; discriminate.
  - discriminate.
  - inversion H; subst. destruct i; discriminate.
  - inv_bind H as p1 Ha Hk. destruct p1 as [v r1]. inv_bind Hk as vs' Ha0 Hb.
    simpl in *. inversion Hb; subst. destruct i as [|i]; simpl in Hn.
    + inversion Hn; subst. simpl. eauto.
    + destruct (IH _ _ _ _ Ha0 Hn) as (r & Hr). exists r.
      rewrite (Hd _ _ _ Ha) in Hr. rewrite skipn_skipn in Hr. simpl. exact Hr.
Qed.

(* a located sub-layout lies inside its parent *)
Lemma locate_bound l : forall p o r s, wf_l l = true ->
  size_l l = Some s -> locate l p = Some (o, r) -> exists sr, size_l r = Some sr /\ o + sr <= s.
Proof.
  induction l as [w|n st l IH|a IHa b IHb|f l IH| |l IH|sz l IH]; intros p o r s Hwf Hs H;
    (destruct p as [|st0 p']; [simpl in H; inversion H; subst; exists s; split; [assumption | lia] |]);
    simpl in H, Hs, Hwf.
  - destruct st0; discriminate.
  - destruct st0 as [f0|i]; [discriminate|].
    destruct (Nat.ltb i n) eqn:Lt; [|discriminate]. apply Nat.ltb_lt in Lt.
    destruct (size_l l) as [sl|] eqn:El; [|discriminate].
    destruct (locate l p') as [[o' r']|] eqn:Ep; [|discriminate]. inversion H; subst. inversion Hs; subst.
    destruct (IH _ _ _ _ Hwf eq_refl Ep) as (sr & Hsr & Hb). exists sr. split; [assumption|]. nia.
  - apply andb_true_iff in Hwf as [Hwa Hwb].
    destruct st0 as [f0|i]; [|discriminate].
    destruct (size_l a) as [sa|] eqn:Ea; [|discriminate].
    destruct (size_l b) as [sb|] eqn:Eb; [|discriminate]. inversion Hs; subst.
    destruct (has_field f0 a).
    + destruct (IHa _ _ _ _ Hwa eq_refl H) as (sr & Hsr & Hb). exists sr. split; [assumption | lia].
    + destruct (locate b (SField f0 :: p')) as [[o' r']|] eqn:Ep; [|discriminate]. inversion H; subst.
      destruct (IHb _ _ _ _ Hwb eq_refl Ep) as (sr & Hsr & Hb). exists sr. split; [assumption | lia].
  - destruct st0 as [f0|i]; [|discriminate].
    destruct (String.eqb f0 f); [|discriminate]. eapply IH; eauto.
  - destruct st0; discriminate.
  - discriminate.
  - apply andb_true_iff in Hwf as [Hw Hsz]. destruct (size_l l) as [sl|] eqn:El; [|discriminate].
    apply andb_true_iff in Hsz as [Hsz _]. apply Nat.eqb_eq in Hsz. subst sl. inversion Hs; subst s.
    eapply IH; eauto.
Qed.

Lemma slice_skipn bs k o w : slice (skipn k bs) o w = slice bs (k + o) w.
Proof. unfold slice. rewrite skipn_skipn. reflexivity. Qed.

Lemma slice_firstn bs sz o w : o + w <= sz -> slice (firstn sz bs) o w = slice bs o w.
Proof.
  intros H. unfold slice. rewrite skipn_firstn_comm, firstn_firstn. f_equal. lia.
Qed.

Theorem field_at_offset l :
  forall fuel bs v rest p o w x, wf_l l = true ->
    decode_l fuel l bs = Ok (v, rest) -> locate l p = Some (o, Prim w) -> get l v p = Some x ->
    x = VInt (le_decode (slice bs o w)).
Proof.
  induction l as [w0|n st l IH|a IHa b IHb|f l IH| |l IH|sz l IH];
    intros fuel bs v rest p o w x Hwf H Hloc Hget.
  - destruct p as [|s0 p']; simpl in Hloc, Hget; [|destruct s0; discriminate].
    inversion Hloc; subst. inversion Hget; subst. simpl in H.
    inv_bind H as p1 Ha Hb. destruct p1 as [y r]. inversion Hb; subst.
    apply unpack_ok_inv in Ha as (_ & -> & _). reflexivity.
  - destruct p as [|s0 p']; simpl in Hloc; [discriminate|].
    destruct s0 as [f0|i]; [discriminate|]. simpl in Hwf.
    destruct (Nat.ltb i n) eqn:Lt; [|discriminate].
    destruct (size_l l) as [sl|] eqn:El; [|discriminate].
    destruct (locate l p') as [[o' r']|] eqn:Ep; [|discriminate]. inversion Hloc; subst.
    simpl in H. inv_bind H as p1 Ha Hb. destruct p1 as [vs r]. inversion Hb; subst.
    simpl in Hget. rewrite Lt in Hget. destruct (nth_error vs i) as [xi|] eqn:En; [|discriminate].
    assert (forall bs v r, decode_l fuel l bs = Ok (v, r) -> r = skipn sl bs) as Hd
      by (intros; eapply decode_rest_skipn; eauto).
    destruct (rep_dec_nth _ _ _ Hd _ _ _ _ _ Ha En) as (ri & Hi).
    rewrite (IH _ _ _ _ _ _ _ _ Hwf Hi Ep Hget). rewrite slice_skipn. reflexivity.
  - destruct p as [|s0 p']; simpl in Hloc; [discriminate|].
    destruct s0 as [f0|i]; [|discriminate]. simpl in Hwf. apply andb_true_iff in Hwf as [Hwa Hwb].
    simpl in H. inv_bind H as p1 Ha Hk. destruct p1 as [va ra]. inv_bind Hk as p2 Ha0 Hb. destruct p2 as [vb rb].
    simpl in *. inversion Hb; subst.
    destruct (has_field f0 a) eqn:Hf.
    + eapply IHa; eauto.
    + destruct (size_l a) as [sa|] eqn:Ea; [|discriminate].
      destruct (locate b (SField f0 :: p')) as [[o' r']|] eqn:Ep; [|discriminate]. inversion Hloc; subst.
      rewrite (decode_rest_skipn _ _ _ _ _ _ Hwa Ea Ha) in Ha0.
      rewrite (IHb _ _ _ _ _ _ _ _ Hwb Ha0 Ep Hget). rewrite slice_skipn. reflexivity.
  - destruct p as [|s0 p']; simpl in Hloc; [discriminate|].
    destruct s0 as [f0|i]; [|discriminate].
    simpl in H. inv_bind H as p1 Ha Hb. destruct p1 as [y r]. inversion Hb; subst.
    simpl in Hget. destruct (String.eqb f0 f); [|discriminate]. eapply IH; eauto.
  - destruct p as [|s0 p']; simpl in Hloc; [discriminate | destruct s0; discriminate].
  - destruct p as [|s0 p']; simpl in Hloc; [discriminate|].
    destruct s0 as [f0|i]; [discriminate|]. simpl in Hwf. apply andb_true_iff in Hwf as [Hw _].
    destruct (size_l l) as [sl|] eqn:El; [|discriminate].
    destruct (locate l p') as [[o' r']|] eqn:Ep; [|discriminate]. inversion Hloc; subst.
    simpl in H. inv_bind H as vs Ha Hb. inversion Hb; subst.
    simpl in Hget. destruct (nth_error vs i) as [xi|] eqn:En; [|discriminate].
    assert (forall bs v r, decode_l fuel l bs = Ok (v, r) -> r = skipn sl bs) as Hd
      by (intros; eapply decode_rest_skipn; eauto).
    destruct (many_dec_nth _ _ Hd _ _ _ _ _ Ha En) as (ri & Hi).
    rewrite (IH _ _ _ _ _ _ _ _ Hw Hi Ep Hget). rewrite slice_skipn. reflexivity.
  - simpl in Hwf. apply andb_true_iff in Hwf as [Hw Hsz]. destruct (size_l l) as [sl|] eqn:El; [|discriminate].
    apply andb_true_iff in Hsz as [Hsz _]. apply Nat.eqb_eq in Hsz. subst sl.
    simpl in H. inv_bind H as p1 Ha Hb. destruct p1 as [y r]. inversion Hb; subst.
    destruct p as [|s0 p']; [simpl in Hloc; discriminate|].
    simpl in Hloc, Hget.
    destruct (locate_bound _ _ _ _ _ Hw El Hloc) as (sr & Hsr & Hbd). simpl in Hsr. inversion Hsr; subst sr.
    rewrite (IH _ _ _ _ _ _ _ _ Hw Ha Hloc Hget). rewrite slice_firstn by assumption. reflexivity.
Qed.

(* and the converse direction for writing: what encode emits at the offset is the field's value *)
Theorem encode_at_offset l fuel bs v rest p o w x pre :
  bytes_ok bs -> wf_l l = true -> decode_l fuel l bs = Ok (v, rest) ->
  encode_l l v = Ok pre -> locate l p = Some (o, Prim w) -> get l v p = Some (VInt x) ->
  o + w <= length pre -> le_decode (slice pre o w) = x.
Proof.
  intros Hok Hwf H He Hloc Hget Hb.
  destruct (layout_roundtrip _ _ _ _ _ Hok Hwf H) as (pre' & He' & Happ).
  rewrite He in He'. inversion He'; subst pre'.
  pose proof (field_at_offset _ _ _ _ _ _ _ _ _ Hwf H Hloc Hget) as Hx. inversion Hx; subst x.
  f_equal. rewrite <- Happ. unfold slice.
  rewrite skipn_app. rewrite firstn_app.
  replace (w - length (skipn o pre)) with 0 by (rewrite skipn_length; lia).
  rewrite firstn_O, app_nil_r. reflexivity.
Qed.
