(* C05: the generated trigger tables equal the specification tables; generic facts about the
   table interpreter: an argument lands in / is read from exactly the field its row names. *)
From Coq Require Import String NArith List Bool Lia.
From RC Require Import lib.Result model.TrigTable gen.GenTrig spec.SpecTrig proofs.Layout_proofs.
Import ListNotations.
Local Open Scope N_scope.

Lemma action_table_matches : tables_match action_record_fields gen_action_table spec_action_table = true.
Proof. vm_compute. reflexivity. Qed.

Lemma condition_table_matches : tables_match condition_record_fields gen_condition_table spec_condition_table = true.
Proof. vm_compute. reflexivity. Qed.

Lemma tables_match_in fields : forall g s x,
  tables_match fields g s = true -> In x g -> exists y, In y s /\ entry_matches fields x y = true.
Proof.
  induction g as [|g0 g IH]; intros [|s0 s] x H Hin; simpl in *; try discriminate; [tauto|].
  apply andb_true_iff in H as [H1 H2]. destruct Hin as [->|Hin].
  - exists s0. auto.
  - destruct (IH _ _ H2 Hin) as (y & Hy & Hm). exists y. auto.
Qed.

Lemma tables_match_in_spec fields : forall g s y,
  tables_match fields g s = true -> In y s -> exists x, In x g /\ entry_matches fields x y = true.
Proof.
  induction g as [|g0 g IH]; intros [|s0 s] y H Hin; simpl in *; try discriminate; [tauto|].
  apply andb_true_iff in H as [H1 H2]. destruct Hin as [->|Hin].
  - exists g0. auto.
  - destruct (IH _ _ H2 Hin) as (x & Hx & Hm). exists x. auto.
Qed.

Lemma nodup_strs_spec l : nodup_strs l = true -> NoDup l.
Proof.
  induction l as [|x r IH]; simpl; intros H; constructor.
  - apply andb_true_iff in H as [H _]. apply negb_true_iff in H. intros Hin.
    assert (existsb (String.eqb x) r = true) as E
      by (apply existsb_exists; exists x; split; [assumption | apply String.eqb_refl]).
    congruence.
  - apply IH. apply andb_true_iff in H as [_ H]. exact H.
Qed.

Lemma codec_eqb_eq a b : codec_eqb a b = true -> a = b.
Proof. destruct a, b; simpl; intros H; try discriminate; try reflexivity. apply String.eqb_eq in H. congruence. Qed.

Lemma arg_eqb_eq x y : arg_eqb x y = true -> x = y.
Proof.
  destruct x as [[a c] f], y as [[b d] g]. unfold arg_eqb. simpl. intros H.
  apply andb_true_iff in H as [H H3]. apply andb_true_iff in H as [H1 H2].
  apply String.eqb_eq in H1, H3. apply codec_eqb_eq in H2. congruence.
Qed.

Lemma src_eqb_eq a b : src_eqb a b = true -> a = b.
Proof.
  destruct a, b; simpl; intros H; try discriminate; try reflexivity.
  apply andb_true_iff in H as [H1 H2]. apply codec_eqb_eq in H1. apply String.eqb_eq in H2. congruence.
Qed.

Lemma subset_args_in a b x : subset_args a b = true -> In x a -> In x b.
Proof.
  unfold subset_args. rewrite forallb_forall. intros H Hin. specialize (H _ Hin).
  apply existsb_exists in H as (y & Hy & He). apply arg_eqb_eq in He. subst. assumption.
Qed.

(* ---- the interpreter writes / reads exactly the named field ------------------------------------------- *)
Section Generic.
  Variable rval : Type.
  Variable dec_codec : codec -> N -> result rval.
  Variable enc_codec : codec -> rval -> result N.
  Variable wav_duration : list (string * rval) -> result N.

  Lemma mapM_rec_get {A} (h : A -> result (string * N)) (key : A -> string) :
    (forall x p, h x = Ok p -> fst p = key x) ->
    forall rows rec x p, mapM h rows = Ok rec -> NoDup (map key rows) -> In x rows -> h x = Ok p ->
      rec_get (fst p) rec = Ok (snd p).
  Proof.
    intros Hkey. induction rows as [|r0 rows IH]; intros rec x p H Hnd Hin Hx; [destruct Hin|].
    simpl in H. inv_bind H as p0 Hp0 Hk. inv_bind Hk as rec' Hr Hk2. inversion Hk2; subst rec.
    inversion Hnd as [|? ? Hnotin Hnd']; subst.
    destruct Hin as [->|Hin].
    - rewrite Hx in Hp0. inversion Hp0; subst p0. destruct p as [f v]. simpl. rewrite String.eqb_refl. reflexivity.
    - destruct p0 as [f0 v0]. destruct p as [f v]. simpl.
      destruct (String.eqb_spec f f0) as [->|Hne]; [|eapply (IH _ _ (f, v)); eauto].
      exfalso. apply Hnotin. pose proof (Hkey _ _ Hp0) as K0. pose proof (Hkey _ _ Hx) as Kx. simpl in *.
      rewrite <- K0, Kx. apply in_map. assumption.
  Qed.

  Definition enc_row (e : trig_entry) (args : list (string * rval)) (row : string * enc_src) : result (string * N) :=
    let '(f, src) := row in
    match src with
    | EZero => Ok (f, 0)
    | EOwnId => Ok (f, te_own_id e)
    | EWavDuration => do d <- wav_duration args; Ok (f, d)
    | EArg c a => do x <- arg_get rval a args; do v <- enc_codec c x; Ok (f, v)
    end.

  Lemma enc_row_key e args row p : enc_row e args row = Ok p -> fst p = fst row.
  Proof.
    destruct row as [f src]. destruct src; simpl; intros H.
    - inversion H; reflexivity.
    - inversion H; reflexivity.
    - inv_bind H as d Hd Hk. inversion Hk; reflexivity.
    - inv_bind H as x Hx Hk. inv_bind Hk as v Hv Hk2. inversion Hk2; reflexivity.
  Qed.

  Lemma encode_entry_field e args rec f src :
    encode_entry rval enc_codec wav_duration e args = Ok rec ->
    NoDup (map fst (te_enc e)) -> In (f, src) (te_enc e) ->
    match src with
    | EZero => rec_get f rec = Ok 0
    | EOwnId => rec_get f rec = Ok (te_own_id e)
    | EWavDuration => exists d, wav_duration args = Ok d /\ rec_get f rec = Ok d
    | EArg c a => exists x v, arg_get rval a args = Ok x /\ enc_codec c x = Ok v /\ rec_get f rec = Ok v
    end.
  Proof.
    intros H Hnd Hin. unfold encode_entry in H.
    change (mapM (enc_row e args) (te_enc e) = Ok rec) in H.
    assert (exists p, enc_row e args (f, src) = Ok p) as [p Hp].
    { clear Hnd. revert rec H. induction (te_enc e) as [|r0 rows IH]; intros rec H; [destruct Hin|].
      simpl in H. inv_bind H as p0 Hp0 Hk. inv_bind Hk as rec' Hr Hk2.
      destruct Hin as [->|Hin]; [eauto | eapply IH; eauto]. }
    pose proof (mapM_rec_get (enc_row e args) fst (enc_row_key e args) _ _ _ _ H Hnd Hin Hp) as Hg.
    destruct src; simpl in Hp.
    - inversion Hp; subst p. exact Hg.
    - inversion Hp; subst p. exact Hg.
    - inv_bind Hp as d Hd Hk. inversion Hk; subst p. eauto.
    - inv_bind Hp as x Hx Hk. inv_bind Hk as v Hv Hk2. inversion Hk2; subst p. eauto.
  Qed.

  Lemma decode_entry_arg e r args a c f :
    decode_entry rval dec_codec e r = Ok args ->
    NoDup (map (fun x => fst (fst x)) (te_dec e)) -> In (a, c, f) (te_dec e) ->
    exists v x, rec_get f r = Ok v /\ dec_codec c v = Ok x /\ arg_get rval a args = Ok x.
  Proof.
    unfold decode_entry. revert args. induction (te_dec e) as [|[[a0 c0] f0] rows IH]; intros args H Hnd Hin;
      [destruct Hin|].
    simpl in H. inv_bind H as p0 Hp0 Hk. inv_bind Hk as args' Hr Hk2. inversion Hk2; subst args.
    inv_bind Hp0 as v0 Hv0 Hk3. inv_bind Hk3 as x0 Hx0 Hk4. inversion Hk4; subst p0.
    inversion Hnd as [|? ? Hnotin Hnd']; subst.
    destruct Hin as [Heq|Hin].
    - inversion Heq; subst. exists v0, x0. simpl. rewrite String.eqb_refl. auto.
    - destruct (IH _ Hr Hnd' Hin) as (v & x & Hv & Hx & Hg). exists v, x. split; [assumption|]. split; [assumption|].
      simpl. destruct (String.eqb_spec a a0) as [->|Hne]; [|assumption].
      exfalso. apply Hnotin. apply (in_map (fun x : string * codec * string => fst (fst x)) _ _ Hin).
  Qed.
End Generic.

(* ---- putting table equality and interpreter together ---------------------------------------------------- *)

Lemma entry_matches_facts fields g s :
  entry_matches fields g s = true ->
  te_key g = se_id s /\ te_own_id g = se_id s /\ te_model g = se_model s /\
  (forall x, In x (te_dec g) <-> In x (se_args s)) /\
  NoDup (map (fun x => fst (fst x)) (se_args s)) /\ NoDup (map snd (se_args s)) /\
  NoDup (map fst (te_enc g)) /\
  (forall f, In f fields -> In f (map fst (te_enc g))) /\
  (forall f src, In (f, src) (te_enc g) -> In f fields /\ src = expected_src s f).
Proof.
  unfold entry_matches. intros H.
  repeat (apply andb_true_iff in H as [H ?]).
  apply N.eqb_eq in H. apply N.eqb_eq in H9. apply String.eqb_eq in H8.
  repeat split; try assumption.
  - eapply subset_args_in; eauto.
  - eapply subset_args_in; eauto.
  - apply nodup_strs_spec; assumption.
  - apply nodup_strs_spec; assumption.
  - apply nodup_strs_spec; assumption.
  - intros f Hf. rewrite forallb_forall in H1. specialize (H1 _ Hf).
    apply existsb_exists in H1 as (y & Hy & He). apply String.eqb_eq in He. subst. assumption.
  - rewrite forallb_forall in H0. specialize (H0 _ H10). apply andb_true_iff in H0 as [Ha _].
    apply existsb_exists in Ha as (y & Hy & He). apply String.eqb_eq in He. simpl in He. subst. assumption.
  - rewrite forallb_forall in H0. specialize (H0 _ H10). apply andb_true_iff in H0 as [_ Hb].
    apply src_eqb_eq in Hb. exact Hb.
Qed.

Section Top.
  Variable rval : Type.
  Variable dec_codec : codec -> N -> result rval.
  Variable enc_codec : codec -> rval -> result N.
  Variable wav_duration : list (string * rval) -> result N.

  (* what a matched pair (generated entry g, specification entry s) guarantees for every run of the interpreter *)
  Definition entry_correct (fields : list string) (idfield : string) (g : trig_entry) (s : spec_entry) : Prop :=
    te_key g = se_id s /\ te_own_id g = se_id s /\ te_model g = se_model s /\
    (* encode: each argument is written, through its codec, to the field the spec assigns to it;
       the type byte is the type's own number; every field the spec leaves unused is zero *)
    (forall args rec, encode_entry rval enc_codec wav_duration g args = Ok rec ->
       (forall f, In f fields ->
          match expected_src s f with
          | EZero => rec_get f rec = Ok 0
          | EOwnId => rec_get f rec = Ok (se_id s)
          | EWavDuration => exists d, wav_duration args = Ok d /\ rec_get f rec = Ok d
          | EArg c a => exists x v, arg_get rval a args = Ok x /\ enc_codec c x = Ok v /\ rec_get f rec = Ok v
          end)) /\
    (* decode: each argument is read, through its codec, from the field the spec assigns to it *)
    (forall r args, decode_entry rval dec_codec g r = Ok args ->
       forall a c f, In (a, c, f) (se_args s) ->
         exists v x, rec_get f r = Ok v /\ dec_codec c v = Ok x /\ arg_get rval a args = Ok x) /\
    (* no two arguments share a field, no argument is stored twice *)
    NoDup (map snd (se_args s)) /\ NoDup (map (fun x => fst (fst x)) (se_args s)) /\
    expected_src s idfield = EOwnId.

  Lemma matched_entry_correct fields idfield g s :
    entry_matches fields g s = true -> expected_src s idfield = EOwnId -> entry_correct fields idfield g s.
  Proof.
    intros Hm Hid.
    destruct (entry_matches_facts _ _ _ Hm) as (Hk & Ho & Hmod & Hdec & Hnda & Hndf & Hnde & Hall & Hsrc).
    unfold entry_correct. repeat split; try assumption.
    - intros args rec Henc f Hf.
      apply Hall in Hf. apply in_map_iff in Hf as ([f' src] & Hf1 & Hf2). simpl in Hf1. subst f'.
      destruct (Hsrc _ _ Hf2) as [_ ->].
      pose proof (encode_entry_field rval enc_codec wav_duration g args rec f _ Henc Hnde Hf2) as H.
      destruct (expected_src s f); try assumption. rewrite <- Ho. assumption.
    - intros r args Hd a c f Hin. apply Hdec in Hin.
      eapply decode_entry_arg; eauto.
      assert (map (fun x => fst (fst x)) (te_dec g) = map (fun x => fst (fst x)) (te_dec g)) by reflexivity.
      (* NoDup of the generated argument names follows from the spec's, the two lists having the same elements
         and the same length *)
      clear H.
      assert (length (te_dec g) = length (se_args s)) as Hlen.
      { unfold entry_matches in Hm. repeat (apply andb_true_iff in Hm as [Hm ?]).
        apply PeanoNat.Nat.eqb_eq. assumption. }
      apply NoDup_incl_NoDup with (l' := map (fun x => fst (fst x)) (te_dec g)) in Hnda.
      + assumption.
      + rewrite !map_length. lia.
      + intros y Hy. apply in_map_iff in Hy as (x & <- & Hx).
        apply (in_map (fun x : string * codec * string => fst (fst x))). apply Hdec. assumption.
  Qed.

  Theorem every_generated_action_is_correct :
    forall g, In g gen_action_table ->
      exists s, In s spec_action_table /\ entry_correct action_record_fields "_action_id" g s.
  Proof.
    intros g Hg. destruct (tables_match_in _ _ _ _ action_table_matches Hg) as (s & Hs & Hm).
    exists s. split; [assumption|]. apply matched_entry_correct; [assumption|].
    clear -Hs. unfold spec_action_table in Hs. simpl in Hs.
    repeat (destruct Hs as [<-|Hs]; [reflexivity|]). destruct Hs.
  Qed.

  Theorem every_generated_condition_is_correct :
    forall g, In g gen_condition_table ->
      exists s, In s spec_condition_table /\ entry_correct condition_record_fields "_condition_id" g s.
  Proof.
    intros g Hg. destruct (tables_match_in _ _ _ _ condition_table_matches Hg) as (s & Hs & Hm).
    exists s. split; [assumption|]. apply matched_entry_correct; [assumption|].
    clear -Hs. unfold spec_condition_table in Hs. simpl in Hs.
    repeat (destruct Hs as [<-|Hs]; [reflexivity|]). destruct Hs.
  Qed.
End Top.

(* every type of the specification table has a registered transcoder, and vice versa *)
Theorem registered_types_are_the_spec_types :
  map te_key gen_action_table = map se_id spec_action_table /\
  map te_key gen_condition_table = map se_id spec_condition_table /\
  length gen_action_table = 51%nat /\ length gen_condition_table = 22%nat.
Proof. vm_compute. repeat split; reflexivity. Qed.
