(* C11, "the slot-usage table agrees with the slots in use": for whatever unit-property sets a save ends up with, byte k
   of the emitted UPUS table is 1 exactly when slot k of the emitted UPRP table was written from a unit-property set
   carrying index k+1, and 0 exactly when that slot is the all-zero record. *)
From Coq Require Import String NArith List Bool Lia PeanoNat.
From RC Require Import lib.Result lib.Bytes model.Layout model.RichCodec proofs.Layout_proofs proofs.C08_proofs proofs.C11_proofs
  proofs.Save_strings proofs.Save_refs proofs.C07_slots proofs.C07_triggers gen.GenConsts.
Import ListNotations.
Local Open Scope string_scope.
Local Open Scope list_scope.
Local Open Scope N_scope.

Lemma assocN_last_some_iff {A} k (l : list (N * A)) : (exists v, assocN_last k l = Some v) <-> In k (map fst l).
Proof.
  split.
  - intros [v H]. apply assocN_last_in in H. apply in_map_iff. exists (k, v). auto.
  - intros H. destruct (assocN_last k l) as [v|] eqn:E; [eauto|].
    exfalso. revert E H. induction l as [|[k' v'] l IH]; simpl; intros E H; [destruct H|].
    destruct (assocN_last k l) eqn:E2; [discriminate|]. destruct (k =? k') eqn:Ek; [discriminate|].
    destruct H as [->|H]; [rewrite N.eqb_refl in Ek; discriminate | apply IH; auto].
Qed.

Lemma used_ids_are_keys cs : flat_map (fun c => match c_idx c with Some i => [i] | None => [] end) cs = map fst (cby_idx cs).
Proof.
  unfold cby_idx. induction cs as [|c cs IH]; simpl; [reflexivity|]. rewrite map_app, <- IH. destruct (c_idx c); reflexivity.
Qed.

Theorem upus_agrees_with_uprp cs us uv k :
  upus_rebuild cs = Ok us -> uprp_encode cs = Ok uv -> (k < N.to_nat MAX_CUWP_SLOTS)%nat ->
  (nth_error (vlist "_cuwp_slots_used" us) k = Some (VInt 1) /\
   exists c slot, assocN_last (N.of_nat k + 1) (cby_idx cs) = Some c /\
                  nth_error (vlist "_cuwp_slots" uv) k = Some slot /\ cuwp_encode c = Ok slot)
  \/
  (nth_error (vlist "_cuwp_slots_used" us) k = Some (VInt 0) /\
   assocN_last (N.of_nat k + 1) (cby_idx cs) = None /\
   nth_error (vlist "_cuwp_slots" uv) k = Some empty_cuwp_val).
Proof.
  intros Hu He Hk. unfold upus_rebuild in Hu. destruct (existsb _ cs); [discriminate|]. destruct (existsb _ cs); [discriminate|].
  inversion Hu; subst us. clear Hu.
  unfold uprp_encode in He. destruct (existsb _ cs); [discriminate|]. inv_bind He as slots Hs Hk2. inversion Hk2; subst uv. clear Hk2.
  match goal with |- context [vlist "_cuwp_slots_used" ?x] =>
    change (vlist "_cuwp_slots_used" x) with
      (map (fun i => VInt (if existsb (N.eqb (i + 1)) (flat_map (fun c => match c_idx c with Some i0 => [i0] | None => [] end) cs) then 1 else 0))
           (map N.of_nat (seq 0 (N.to_nat MAX_CUWP_SLOTS)))) end.
  match goal with |- context [vlist "_cuwp_slots" ?x] => change (vlist "_cuwp_slots" x) with slots end.
  assert (nth_error (map N.of_nat (seq 0 (N.to_nat MAX_CUWP_SLOTS))) k = Some (N.of_nat k)) as Hseq
    by (rewrite nth_error_map, nth_error_seq_lt by exact Hk; reflexivity).
  destruct (mapM_nth _ _ _ _ _ Hs Hseq) as (slot & Hslot & Hnslot). cbv beta in Hslot. fold (cby_idx cs) in Hslot.
  rewrite nth_error_map, Hseq. cbn [option_map]. rewrite used_ids_are_keys.
  destruct (assocN_last (N.of_nat k + 1) (cby_idx cs)) as [c|] eqn:Ea.
  - left. split.
    + assert (existsb (N.eqb (N.of_nat k + 1)) (map fst (cby_idx cs)) = true) as ->; [|reflexivity].
      apply existsb_exists. exists (N.of_nat k + 1). split; [|apply N.eqb_refl].
      apply assocN_last_some_iff. eauto.
    + exists c, slot. auto.
  - right. split; [|split; [reflexivity|]].
    + assert (existsb (N.eqb (N.of_nat k + 1)) (map fst (cby_idx cs)) = false) as ->; [|reflexivity].
      apply not_true_is_false. intros E. apply existsb_exists in E as (x & Hx & Ex). apply N.eqb_eq in Ex. subst x.
      apply assocN_last_some_iff in Hx as [v Hv]. congruence.
    + inversion Hslot; subst slot. exact Hnslot.
Qed.
