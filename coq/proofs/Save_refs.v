(* C11 / C04, whole map, string references: every string number that RichChkIo.encode_chk writes into the location table,
   the switch-name table and the sound table refers to an entry of the string table it emits alongside (or is 0), and
   reads back - through that emitted table's own id -> text lookup - as exactly the name it was written for. *)
From Coq Require Import String NArith List Bool Lia PeanoNat.
From RC Require Import lib.Result lib.Bytes model.Layout model.Str model.StrEditor model.ChkIo model.TrigTable model.RichCodec
  model.RichIo proofs.Layout_proofs proofs.C08_proofs proofs.C11_proofs proofs.Save_sizes proofs.Save_strings gen.GenConsts.
Import ListNotations.
Local Open Scope string_scope.
Local Open Scope list_scope.
Local Open Scope N_scope.

Definition valid_sid (L : str_lookup) (i : N) : Prop := i = 0 \/ (1 <= i /\ i <= N.of_nat (length (sl_by_id L))).

Lemma nth_error_seq_lt n : forall s k, (k < n)%nat -> nth_error (seq s n) k = Some (s + k)%nat.
Proof.
  induction n as [|n IH]; intros s k H; [lia|]. destruct k as [|k]; simpl; [f_equal; lia|].
  rewrite IH by lia. f_equal. lia.
Qed.

Lemma wav_ids_are_valid L ws v :
  N.of_nat (length (sl_by_id L)) <= 1000000 -> wav_encode L ws = Ok v ->
  Forall (valid_sid L) (vints "_wav_string_ids" v).
Proof.
  intros Hs H. unfold wav_encode in H. inv_bind H as ids Hids Hk. inversion Hk; subst v.
  rewrite vints_single. apply Forall_forall. intros i Hi.
  destruct (mapM_in _ _ _ _ Hids Hi) as (k & j & Hn & Hf). cbv beta in Hf.
  destruct (assocN_last j (map (fun w => (snd w, fst w)) ws)) as [p|].
  - exact (proj2 (id_by_str_resolves L p i Hs Hf)).
  - inversion Hf; subst i. left. reflexivity.
Qed.

Lemma mrgn_ids_are_valid L ls v :
  N.of_nat (length (sl_by_id L)) <= 1000000 -> mrgn_encode L ls = Ok v ->
  Forall (fun slot => valid_sid L (vint "_string_id" slot)) (vlist "_locations" v).
Proof.
  intros Hs H. unfold mrgn_encode in H. inv_bind H as slots Hsl Hk. inversion Hk; subst v.
  match goal with |- context [vlist "_locations" ?x] => change (vlist "_locations" x) with slots end.
  apply Forall_forall. intros slot Hi.
  destruct (mapM_in _ _ _ _ Hsl Hi) as (k & j & Hn & Hf). cbv beta in Hf.
  destruct (assocN_last (j + 1) _) as [l|].
  - exact (proj2 (loc_name_id_is_valid L l slot Hs Hf)).
  - inversion Hf; subst slot. left. reflexivity.
Qed.

(* a location that holds a slot of the emitted table reads back with its own name *)
Lemma mrgn_slot_name_resolves L ls v k l slot :
  N.of_nat (length (sl_by_id L)) <= 1000000 -> mrgn_encode L ls = Ok v ->
  (k < N.to_nat MRGN_TRANSCODER_MAX_LOCATIONS)%nat ->
  assocN_last (N.of_nat k + 1) (flat_map (fun l => match l_idx l with Some i => [(i, l)] | None => [] end) ls) = Some l ->
  nth_error (vlist "_locations" v) k = Some slot ->
  str_by_id L (vint "_string_id" slot) = l_name l.
Proof.
  intros Hs H Hk Hl Hn. unfold mrgn_encode in H. inv_bind H as slots Hsl Hk2. inversion Hk2; subst v.
  match type of Hn with context [vlist "_locations" ?x] => change (vlist "_locations" x) with slots in Hn end.
  assert (nth_error (map N.of_nat (seq 0 (N.to_nat MRGN_TRANSCODER_MAX_LOCATIONS))) k = Some (N.of_nat k)) as Hseq.
  { rewrite nth_error_map. rewrite nth_error_seq_lt by assumption. reflexivity. }
  destruct (mapM_nth _ _ _ _ _ Hsl Hseq) as (b & Hb & Hnb). cbv beta in Hb. rewrite Hl in Hb.
  rewrite Hn in Hnb. inversion Hnb; subst b.
  exact (proj1 (loc_name_id_is_valid L l slot Hs Hb)).
Qed.

(* ---- the whole save ----------------------------------------------------------------------------------------------------- *)

Definition refs_ok (L : str_lookup) (s : dsection) : Prop :=
  match s with
  | DTab name v =>
      (name = "MRGN" -> Forall (fun slot => valid_sid L (vint "_string_id" slot)) (vlist "_locations" v)) /\
      (name = "SWNM" -> Forall (valid_sid L) (vints "_switch_string_ids" v)) /\
      (name = "WAV " -> Forall (valid_sid L) (vints "_wav_string_ids" v))
  | _ => True
  end.

Lemma refs_ok_other L name v : name <> "MRGN" -> name <> "SWNM" -> name <> "WAV " -> refs_ok L (DTab name v).
Proof. intros A B C. repeat split; intros E; congruence. Qed.

Theorem saved_string_references_are_valid wd r d :
  forallb rich_form_sec r = true -> save wd r = Ok d ->
  exists new_str L,
    rebuild_str r = Ok new_str /\ build_str_lookup 2 new_str = Ok L /\
    length (sl_by_id L) = length (ss_offsets new_str) /\
    (forall i n w m, nth_error r i = Some (RDecodedStr n w m) -> n = "STR " -> nth_error d i = Some (DStr n w new_str)) /\
    (N.of_nat (length (sl_by_id L)) <= 1000000 -> Forall (refs_ok L) d).
Proof.
  unfold save. intros Hrf H.
  inv_bind H as new_str H1 H. inv_bind H as mr H2 H. inv_bind H as sw H3 H. inv_bind H as up H4 H.
  inv_bind H as us H5 H. inv_bind H as SL H6 H. inv_bind H as chk H7 H. inv_bind H as secs Hm H.
  inv_bind H as e1 He1 H. inv_bind H as e2 He2 H. inversion H; subst d. clear H.
  exists new_str, SL. split; [exact H1|]. split; [exact H6|]. split; [|split].
  - unfold build_str_lookup in H6. inv_bind H6 as T HT Hk. inversion Hk; subst SL. cbn [sl_by_id].
    unfold build_lookup in HT. inv_bind HT as bin Hb HT. eapply mapM_length; eauto.
  - intros i n w m Hn ->. destruct (mapM_nth _ _ _ _ _ Hm Hn) as (y & Hy & Hny). cbv beta iota in Hy.
    rewrite String.eqb_refl in Hy. inversion Hy; subst y.
    rewrite nth_error_app1 by (apply nth_error_Some; congruence). exact Hny.
  - intros Hsmall.
    assert (forall v, swnm_encode SL (fst sw) = Ok v -> refs_ok SL (DTab "SWNM" v)) as Hswnm.
    { intros v Hv. repeat split; intros E; try discriminate E. eapply swnm_ids_are_valid; eauto. }
    apply Forall_app; split; [|apply Forall_app; split; [|apply Forall_app; split]].
    + apply Forall_forall. intros y Hy.
      destruct (mapM_in _ _ _ _ Hm Hy) as (ix & x & Hx & Hfx). apply nth_error_In in Hx.
      rewrite forallb_forall in Hrf. specialize (Hrf x Hx).
      destruct x as [ls|ts|nw n usx|cs|ss|ws|n w m|n v|n p]; cbn beta iota in Hfx.
      * inv_bind Hfx as v Hv Hk. inversion Hk; subst y. repeat split; intros E; try discriminate E. eapply mrgn_ids_are_valid; eauto.
      * inv_bind Hfx as v Hv Hk. inversion Hk; subst y. apply refs_ok_other; discriminate.
      * inv_bind Hfx as v Hv Hk. inversion Hk; subst y. cbn [rich_form_sec] in Hrf.
        apply orb_true_iff in Hrf as [E|E]; apply String.eqb_eq in E; subst n; apply refs_ok_other; discriminate.
      * inv_bind Hfx as v Hv Hk. inversion Hk; subst y. apply refs_ok_other; discriminate.
      * inv_bind Hfx as v Hv Hk. inversion Hk; subst y. apply Hswnm. exact Hv.
      * inv_bind Hfx as v Hv Hk. inversion Hk; subst y. repeat split; intros E; try discriminate E. eapply wav_ids_are_valid; eauto.
      * destruct (String.eqb n "STR "); inversion Hfx; subst y; exact I.
      * cbn [rich_form_sec] in Hrf. apply negb_true_iff in Hrf.
        assert (n <> "MRGN" /\ n <> "SWNM" /\ n <> "WAV ") as (A & B & C)
          by (repeat split; intros ->; vm_compute in Hrf; discriminate).
        destruct (String.eqb n "UPUS"); inversion Hfx; subst y; apply refs_ok_other; assumption.
      * inversion Hfx; subst y. exact I.
    + match type of He1 with (if ?c then _ else _) = _ => destruct c end; [inversion He1; constructor|].
      inv_bind He1 as v Hv Hk. inversion Hk; subst e1. constructor; [|constructor]. apply Hswnm. exact Hv.
    + match type of He2 with (if ?c then _ else _) = _ => destruct c end; [inversion He2; constructor|].
      inv_bind He2 as v Hv Hk. inversion Hk; subst e2. constructor; [|constructor]. apply refs_ok_other; discriminate.
    + match goal with |- Forall _ (if ?c then _ else _) => destruct c end; constructor; [|constructor].
      apply refs_ok_other; discriminate.
Qed.
