(* STR / STRx: decode then encode reproduces the payload, for every payload that decodes. *)
From Coq Require Import String NArith List Bool Lia PeanoNat.
From RC Require Import lib.Result lib.Bytes lib.Utf8 model.Str proofs.Layout_proofs.
Import ListNotations.
Local Open Scope N_scope.

Definition join (strs : list (list N)) : bytes := concat (map (fun s => s ++ [0]) strs).

Lemma split_nul_join bs : forall cur strs,
  split_nul cur bs = Ok strs -> Forall (fun c => 0 < c /\ c < 128) cur ->
  rev cur ++ bs = join strs /\ Forall (Forall (fun c => 0 < c /\ c < 128)) strs.
Proof.
  induction bs as [|b r IH]; intros cur strs H Hc; simpl in H.
  - destruct cur; [|discriminate]. inversion H; subst. split; [reflexivity | constructor].
  - destruct (128 <=? b) eqn:E128; [discriminate|]. apply N.leb_gt in E128.
    destruct (b =? 0) eqn:E0.
    + apply N.eqb_eq in E0. subst b.
      inv_bind H as rest Hr Hk. inversion Hk; subst.
      destruct (IH [] rest Hr (Forall_nil _)) as [Hj Ha]. simpl in Hj.
      split.
      * unfold join in *. simpl. rewrite <- Hj. rewrite <- app_assoc. reflexivity.
      * constructor; [apply Forall_rev; assumption | assumption].
    + destruct (IH (b :: cur) strs H) as [Hj Ha]; [constructor; [apply N.eqb_neq in E0; lia | assumption]|].
      split; [|assumption]. simpl in Hj. rewrite <- app_assoc in Hj. exact Hj.
Qed.

Lemma ascii_okb_of_Forall s : Forall (fun c => c < 128) s -> ascii_okb s = true.
Proof.
  unfold ascii_okb. intros H. apply forallb_forall. rewrite Forall_forall in H.
  intros x Hx. apply N.ltb_lt. apply H. assumption.
Qed.

Lemma enc_strings_join strs :
  Forall (Forall (fun c => 0 < c /\ c < 128)) strs -> enc_strings strs = Ok (join strs).
Proof.
  induction 1 as [|s r Hs Hr IH]; [reflexivity|].
  simpl. unfold enc_string.
  rewrite utf8_encode_ascii by (apply ascii_okb_of_Forall; eapply Forall_impl; [|exact Hs]; simpl; tauto).
  simpl. rewrite Nat.eqb_refl. simpl.
  assert (existsb (N.eqb 0) s = false) as ->.
  { apply not_true_is_false. intros E. apply existsb_exists in E as (x & Hx & Ex). apply N.eqb_eq in Ex. subst x.
    rewrite Forall_forall in Hs. specialize (Hs 0 Hx). lia. }
  rewrite firstn_all. rewrite IH. reflexivity.
Qed.

(* ... and what is not NUL-free 7-bit text is refused: no table is written (before the fix cee72c9 the first len(s)
   bytes of the UTF-8 form were written: "é" became the lone byte C3) *)
Lemma enc_string_refuses s :
  (exists c, In c s /\ (c = 0 \/ 128 <= c)) -> exists e, enc_string s = Raise e.
Proof.
  intros (c & Hin & Hc). unfold enc_string. destruct (utf8_encode s) as [u|e] eqn:Eu; [|simpl; eauto]. simpl.
  destruct (negb (Nat.eqb (length u) (length s)) || existsb (N.eqb 0) u) eqn:E; [eauto|].
  exfalso. apply orb_false_iff in E as [E1 E2]. apply negb_false_iff in E1. apply Nat.eqb_eq in E1.
  (* every code point encodes to at least one byte, and to exactly one only below 128, where the byte is the code point *)
  assert (forall t v, utf8_encode t = Ok v -> length v = length t -> v = t /\ Forall (fun x => x < 128) t) as K.
  { induction t as [|x t IH]; intros v Hv Hl; simpl in Hv.
    - inversion Hv; subst. split; [reflexivity | constructor].
    - inv_bind Hv as a Ha Hk. inv_bind Hk as b Hb Hk2. inversion Hk2; subst v. clear Hk2.
      assert (length t <= length b)%nat as Hge.
      { clear -Hb. revert b Hb. induction t as [|y t IHt]; intros b Hb; simpl in *; [lia|].
        inv_bind Hb as a1 Ha1 Hk. inv_bind Hk as b1 Hb1 Hk2. inversion Hk2; subst b. rewrite app_length.
        specialize (IHt _ Hb1).
        assert (1 <= length a1)%nat; [|lia].
        unfold utf8_encode_cp in Ha1.
        repeat match type of Ha1 with (if ?c then _ else _) = _ => destruct c end; inversion Ha1; simpl; lia. }
      rewrite app_length in Hl. simpl in Hl.
      assert (1 <= length a)%nat as Ha1.
      { unfold utf8_encode_cp in Ha.
        repeat match type of Ha with (if ?c then _ else _) = _ => destruct c end; inversion Ha; simpl; lia. }
      assert (length a = 1 /\ length b = length t)%nat as [La Lb] by lia.
      destruct (IH b Hb Lb) as [-> Hall].
      unfold utf8_encode_cp in Ha.
      destruct (x <? 128) eqn:Ex.
      + inversion Ha; subst a. split; [reflexivity|]. constructor; [apply N.ltb_lt; assumption | assumption].
      + repeat match type of Ha with (if ?c then _ else _) = _ => destruct c end; inversion Ha; subst a; simpl in La; lia. }
  destruct (K s u Eu E1) as [-> Hall].
  destruct Hc as [->|Hc].
  - assert (existsb (N.eqb 0) s = true); [|congruence]. apply existsb_exists. exists 0. split; [assumption | reflexivity].
  - rewrite Forall_forall in Hall. specialize (Hall c Hin). lia.
Qed.

Lemma read_offsets_roundtrip w fuel : forall n bs offs rest,
  bytes_ok bs -> read_offsets fuel w n bs = Ok (offs, rest) ->
  exists pre, enc_offsets w n offs = Ok pre /\ pre ++ rest = bs.
Proof.
  induction fuel as [|fuel IH]; intros n bs offs rest Hok H; simpl in H.
  - destruct (n =? 0) eqn:E; [|discriminate]. inversion H; subst.
    exists []. simpl. rewrite E. auto.
  - destruct (n =? 0) eqn:E.
    + inversion H; subst. exists []. simpl. rewrite E. auto.
    + inv_bind H as vr Hu Hk. destruct vr as [v r1]. inv_bind Hk as p2 Hr Hk2. destruct p2 as [offs' r2].
      simpl in *. inversion Hk2; subst.
      destruct (unpack_pack _ _ _ _ Hok Hu) as (p1 & Hp & Happ & _).
      assert (bytes_ok r1) as Hok1 by (rewrite <- Happ in Hok; apply bytes_ok_app_inv in Hok; tauto).
      destruct (IH _ _ _ _ Hok1 Hr) as (p2 & He & Happ2).
      exists (p1 ++ p2). simpl. rewrite E, Hp. simpl. rewrite He. simpl.
      split; [reflexivity|]. rewrite <- app_assoc. congruence.
Qed.

Theorem str_roundtrip w bs m :
  bytes_ok bs -> str_decode w bs = Ok m -> str_encode w m = Ok bs.
Proof.
  intros Hok H. unfold str_decode in H.
  inv_bind H as nr Hn Hk. destruct nr as [n r1]. inv_bind Hk as offs Ho Hk2. destruct offs as [offs r2].
  inv_bind Hk2 as strs Hs Hk3. simpl in *. inversion Hk3; subst. unfold str_encode. simpl.
  destruct (unpack_pack _ _ _ _ Hok Hn) as (p1 & Hp & Happ & _).
  assert (bytes_ok r1) as Hok1 by (rewrite <- Happ in Hok; apply bytes_ok_app_inv in Hok; tauto).
  destruct (read_offsets_roundtrip _ _ _ _ _ _ Hok1 Ho) as (p2 & He & Happ2).
  destruct (split_nul_join _ _ _ Hs (Forall_nil _)) as [Hj Ha]. simpl in Hj.
  rewrite Hp. simpl. rewrite He. simpl. rewrite (enc_strings_join _ Ha). simpl.
  f_equal. rewrite <- Hj. congruence.
Qed.

Lemma enc_strings_refuses strs s :
  In s strs -> (exists c, In c s /\ (c = 0 \/ 128 <= c)) -> exists e, enc_strings strs = Raise e.
Proof.
  induction strs as [|x r IH]; intros Hin Hbad; [destruct Hin|]. simpl.
  destruct (enc_string x) as [a|e] eqn:Ex; [|simpl; eauto]. simpl.
  destruct Hin as [->|Hin].
  - destruct (enc_string_refuses s Hbad) as [e He]. congruence.
  - destruct (IH Hin Hbad) as [e ->]. simpl. eauto.
Qed.

(* a string table holding anything but NUL-free 7-bit text is never written *)
Theorem str_encode_refuses w m s :
  In s (ss_strings m) -> (exists c, In c s /\ (c = 0 \/ 128 <= c)) -> exists e, str_encode w m = Raise e.
Proof.
  intros Hin Hbad. unfold str_encode.
  destruct (pack w (ss_num m)); [|simpl; eauto]. simpl.
  destruct (enc_offsets w (ss_num m) (ss_offsets m)); [|simpl; eauto]. simpl.
  destruct (enc_strings_refuses _ _ Hin Hbad) as [e ->]. simpl. eauto.
Qed.
