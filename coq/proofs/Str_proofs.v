(* STR / STRx: decode then encode reproduces the payload, for every payload that decodes. *)
From Coq Require Import String NArith List Bool Lia PeanoNat.
From RC Require Import lib.Result lib.Bytes lib.Utf8 model.Str proofs.Layout_proofs.
Import ListNotations.
Local Open Scope N_scope.

Definition join (strs : list (list N)) : bytes := concat (map (fun s => s ++ [0]) strs).

Lemma split_nul_join bs : forall cur strs,
  split_nul cur bs = Ok strs -> Forall (fun c => c < 128) cur ->
  rev cur ++ bs = join strs /\ Forall (Forall (fun c => c < 128)) strs.
Proof.
  induction bs as [|b r IH]; intros cur strs H Hc; simpl in H.
  - destruct cur; [|discriminate]. inversion H; subst. split; [reflexivity | constructor].
  - destruct (128 <=? b) eqn:E128; [discriminate|]. apply N.leb_gt in E128.
    destruct (b =? 0) eqn:E0.
    + apply N.eqb_eq in E0. subst b.
      inv_bind H as rest Hr Hk. inversion Hk; subst.
      destruct (IH [] rest Hr (Forall_nil _)) as [Hj Ha]. simpl in Hj.
      split.
      * unfold join in *. simpl. rewrite <- Hj. rewrite <- app_assoc. reflexivity.
      * constructor; [apply Forall_rev; assumption | assumption].
    + destruct (IH (b :: cur) strs H) as [Hj Ha]; [constructor; assumption|].
      split; [|assumption]. simpl in Hj. rewrite <- app_assoc in Hj. exact Hj.
Qed.

Lemma ascii_okb_of_Forall s : Forall (fun c => c < 128) s -> ascii_okb s = true.
Proof.
  unfold ascii_okb. intros H. apply forallb_forall. rewrite Forall_forall in H.
  intros x Hx. apply N.ltb_lt. apply H. assumption.
Qed.

Lemma enc_strings_join strs :
  Forall (Forall (fun c => c < 128)) strs -> enc_strings strs = Ok (join strs).
Proof.
  induction 1 as [|s r Hs Hr IH]; [reflexivity|].
  simpl. unfold enc_string. rewrite utf8_encode_ascii by (apply ascii_okb_of_Forall; assumption).
  simpl. rewrite firstn_all. rewrite IH. reflexivity.
Qed.

Lemma read_offsets_roundtrip w fuel : forall n bs offs rest,
  bytes_ok bs -> read_offsets fuel w n bs = Ok (offs, rest) ->
  exists pre, enc_offsets w n offs = Ok pre /\ pre ++ rest = bs.
Proof.
  induction fuel as [|fuel IH]; intros n bs offs rest Hok H; simpl in H.
  - destruct (n =? 0) eqn:E; [|discriminate]. inversion H; subst.
    exists []. simpl. rewrite E. auto.
  - destruct (n =? 0) eqn:E.
    + inversion H; subst. exists []. simpl. rewrite E. auto.
    + inv_bind H as vr Hu Hk. destruct vr as [v r1]. inv_bind Hk as p2 Hr Hk2. destruct p2 as [offs' r2].
      simpl in *. inversion Hk2; subst.
      destruct (unpack_pack _ _ _ _ Hok Hu) as (p1 & Hp & Happ & _).
      assert (bytes_ok r1) as Hok1 by (rewrite <- Happ in Hok; apply bytes_ok_app_inv in Hok; tauto).
      destruct (IH _ _ _ _ Hok1 Hr) as (p2 & He & Happ2).
      exists (p1 ++ p2). simpl. rewrite E, Hp. simpl. rewrite He. simpl.
      split; [reflexivity|]. rewrite <- app_assoc. congruence.
Qed.

Theorem str_roundtrip w bs m :
  bytes_ok bs -> str_decode w bs = Ok m -> str_encode w m = Ok bs.
Proof.
  intros Hok H. unfold str_decode in H.
  inv_bind H as nr Hn Hk. destruct nr as [n r1]. inv_bind Hk as offs Ho Hk2. destruct offs as [offs r2].
  inv_bind Hk2 as strs Hs Hk3. simpl in *. inversion Hk3; subst. unfold str_encode. simpl.
  destruct (unpack_pack _ _ _ _ Hok Hn) as (p1 & Hp & Happ & _).
  assert (bytes_ok r1) as Hok1 by (rewrite <- Happ in Hok; apply bytes_ok_app_inv in Hok; tauto).
  destruct (read_offsets_roundtrip _ _ _ _ _ _ Hok1 Ho) as (p2 & He & Happ2).
  destruct (split_nul_join _ _ _ Hs (Forall_nil _)) as [Hj Ha]. simpl in Hj.
  rewrite Hp. simpl. rewrite He. simpl. rewrite (enc_strings_join _ Ha). simpl.
  f_equal. rewrite <- Hj. congruence.
Qed.
