(* C18: for every module of the package taken as the first import, the model of the import machinery
   loads without error and every registry whose factory module got loaded is complete and duplicate-free. *)
From Coq Require Import NArith List Bool Lia.
From RC Require Import lib.Result lib.Finite model.Imports gen.GenImports.
Import ListNotations.
Local Open Scope N_scope.

Definition n_modules : N := N.of_nat (length gen_modules).

Lemma all_entries_ok_b :
  forall_below n_modules (entry_ok gen_modules gen_factory_modules gen_expected_keys) = true.
Proof. vm_compute. reflexivity. Qed.

Lemma all_entries_ok m : m < n_modules ->
  entry_ok gen_modules gen_factory_modules gen_expected_keys m = true.
Proof. apply forall_below_spec. exact all_entries_ok_b. Qed.

Definition registry_complete (st : state) (r : N) : Prop :=
  exists fm expk,
    In (r, fm) gen_factory_modules /\ In (r, expk) gen_expected_keys /\
    (In fm (started st) ->
       nodupN (keys_of r st) = true /\ same_set (keys_of r st) expk = true) /\
    (~ In fm (started st) -> keys_of r st = []).

Lemma memN_in k l : memN k l = true <-> In k l.
Proof.
  unfold memN. rewrite existsb_exists. split.
  - intros (x & Hx & He). apply N.eqb_eq in He. subst. assumption.
  - intros H. exists k. split; [assumption | apply N.eqb_refl].
Qed.

Lemma find_some_in {A} (f : A -> bool) l x : find f l = Some x -> In x l /\ f x = true.
Proof. apply find_some. Qed.

Theorem registries_complete_from_any_entry_point m :
  m < n_modules ->
  exists st, load_top gen_modules m = Ok st /\
             forall r, In r [0; 1; 2; 3] -> registry_complete st r.
Proof.
  intros Hm. pose proof (all_entries_ok m Hm) as H. unfold entry_ok in H.
  destruct (load_top gen_modules m) as [st|e]; [|discriminate].
  exists st. split; [reflexivity|]. intros r Hr. rewrite forallb_forall in H. specialize (H r Hr).
  unfold registry_ok in H.
  destruct (find (fun p => fst p =? r) gen_factory_modules) as [[r1 fm]|] eqn:F1; [|discriminate].
  destruct (find (fun p => fst p =? r) gen_expected_keys) as [[r2 expk]|] eqn:F2; [|discriminate].
  apply find_some in F1 as [I1 E1]. apply find_some in F2 as [I2 E2]. simpl in E1, E2.
  apply N.eqb_eq in E1. apply N.eqb_eq in E2. subst r1 r2.
  exists fm, expk. split; [assumption|]. split; [assumption|]. split.
  - intros Hin. apply memN_in in Hin. rewrite Hin in H. apply andb_true_iff in H. exact H.
  - intros Hnin. destruct (memN fm (started st)) eqn:E; [apply memN_in in E; contradiction|].
    destruct (keys_of r st); [reflexivity | discriminate].
Qed.

(* the expected key sets are the ones this library ships: 10 binary sections, 7 rich sections,
   51 actions, 22 conditions *)
Lemma expected_sizes : map (fun e => length (snd e)) gen_expected_keys = [10; 7; 51; 22]%nat.
Proof. vm_compute. reflexivity. Qed.
