(* C01/C06/C19 facts about the generated tables + the top-level statements for the binary layer. *)
From Coq Require Import String NArith List Bool Lia PeanoNat.
From RC Require Import lib.Result lib.Bytes lib.Tree model.Layout model.Str model.ChkIo
  proofs.Layout_proofs proofs.Layout_offsets proofs.Str_proofs proofs.ChkIo_proofs
  gen.GenLayouts.
Import ListNotations.
Local Open Scope N_scope.

Lemma section_table_ok : table_ok section_table = true.
Proof. vm_compute. reflexivity. Qed.

(* ---- fuel adequacy of the chunk loop (termination of the model) -------------------------------- *)

Lemma str_decode_no_oof w bs : str_decode w bs <> Raise OutOfFuel.
Proof.
  unfold str_decode. unfold unpack. destruct (Nat.leb w (length bs)); simpl; [|discriminate].
  set (r := skipn w bs). set (n := le_decode (firstn w bs)).
  assert (forall fuel n bs, read_offsets fuel w n bs <> Raise OutOfFuel) as Hro.
  { induction fuel as [|fuel IH]; intros n0 bs0; simpl; destruct (n0 =? 0); try discriminate.
    unfold unpack. destruct (Nat.leb w (length bs0)); simpl; [|discriminate].
    destruct (read_offsets fuel w (n0 - 1) (skipn w bs0)) as [[o r0]|e] eqn:E; simpl; [discriminate|].
    intros Heq. inversion Heq; subst. eapply IH; eauto. }
  assert (forall bs cur, split_nul cur bs <> Raise OutOfFuel) as Hsn.
  { induction bs0 as [|b r0 IH]; intros cur; simpl.
    - destruct cur; discriminate.
    - destruct (128 <=? b); [discriminate|]. destruct (b =? 0); [|apply IH].
      destruct (split_nul [] r0) as [x|e] eqn:E; simpl; [discriminate|].
      intros Heq; inversion Heq; subst. eapply IH; eauto. }
  destruct (read_offsets (length r) w n r) as [[o r0]|e] eqn:E; simpl.
  - destruct (split_nul [] r0) as [x|e] eqn:E2; simpl; [discriminate|].
    intros Heq; inversion Heq; subst. eapply Hsn; eauto.
  - intros Heq; inversion Heq; subst. eapply Hro; eauto.
Qed.

Lemma decode_one_no_oof name payload : decode_one name payload <> Raise OutOfFuel.
Proof.
  unfold decode_one. destruct (lookup_name name section_table) as [[s k]|] eqn:El; [|discriminate].
  destruct (lookup_name_in _ _ _ _ El) as [Hin _].
  destruct (table_ok_in _ _ _ section_table_ok Hin) as [Hk _].
  destruct k as [w|dec enc].
  - destruct (str_decode w payload) eqn:E; simpl; [discriminate|].
    intros Heq; inversion Heq; subst. eapply str_decode_no_oof; eauto.
  - simpl in Hk. apply andb_true_iff in Hk as [He Hwf]. apply layout_eqb_eq in He.
    unfold decode_section.
    destruct (decode_l (S (length payload)) dec payload) as [[v r]|e] eqn:E; simpl; [discriminate|].
    intros Heq; inversion Heq; subst e. revert E. rewrite <- He. rewrite decode_erase.
    apply decode_no_oof; [assumption | lia].
Qed.

Lemma read_n_shrinks n bs : (length (snd (read_n n bs)) <= length bs)%nat.
Proof. unfold read_n. simpl. rewrite skipn_length. lia. Qed.

Lemma chk_decode_fuel_enough : forall fuel bs, (length bs < fuel)%nat -> chk_decode_fuel fuel bs <> Raise OutOfFuel.
Proof.
  induction fuel as [|fuel IH]; intros bs Hl; [lia|].
  destruct bs as [|b0 bs0]; [simpl; discriminate|].
  cbn [chk_decode_fuel]. destruct (Nat.ltb (length (b0 :: bs0)) 4) eqn:E4; [intros Hx; discriminate Hx|].
  apply Nat.ltb_ge in E4.
  destruct (unpack 4 (skipn 4 (b0 :: bs0))) as [[sz r]|e] eqn:Eu; cbn [bind fst snd];
    [|unfold unpack in Eu; destruct (Nat.leb 4 (length (skipn 4 (b0 :: bs0)))); inversion Eu; intros Hx; discriminate Hx].
  apply unpack_ok_inv in Eu as (Hlen & _ & ->).
  destruct (decode_one (firstn 4 (b0 :: bs0)) (fst (read_n sz (skipn 4 (skipn 4 (b0 :: bs0)))))) as [sec|e] eqn:Ed.
  - cbn [bind].
    destruct (chk_decode_fuel fuel (snd (read_n sz (skipn 4 (skipn 4 (b0 :: bs0)))))) as [secs|e] eqn:Er;
      simpl; [discriminate|].
    intros Heq; inversion Heq; subst. revert Er. apply IH.
    pose proof (read_n_shrinks sz (skipn 4 (skipn 4 (b0 :: bs0)))) as Hs.
    rewrite !skipn_length in Hs. rewrite skipn_length in Hlen. simpl in *. lia.
  - cbn [bind]. intros Heq; inversion Heq; subst. eapply decode_one_no_oof; eauto.
Qed.

Theorem chk_decode_terminates bs : chk_decode bs <> Raise OutOfFuel.
Proof. unfold chk_decode. apply chk_decode_fuel_enough. lia. Qed.

(* ---- C01 top level ----------------------------------------------------------------------------- *)

Theorem chk_roundtrip bs secs :
  wf_chk bs -> bytes_ok bs -> chk_decode bs = Ok secs -> chk_encode secs = Ok bs.
Proof. intros Hwf Hok H. exact (chk_roundtrip_wf bs section_table_ok Hwf Hok _ _ H). Qed.

(* non-vacuity: a concrete well-formed CHK with an exotic unknown name, a duplicated empty section,
   a 1-location MRGN and a UPUS section decodes, and encodes back *)
Definition example_chk : bytes :=
  frame [255; 0; 195; 169] [1; 2; 3] ++
  frame [81; 81; 81; 81] [] ++ frame [81; 81; 81; 81] [] ++
  frame (codes_of_string "MRGN") (repeat 7 20) ++
  frame (codes_of_string "UPUS") (repeat 1 64) ++ [].

Lemma example_chk_wf : wf_chk example_chk /\ bytes_ok example_chk.
Proof.
  split.
  - unfold example_chk. repeat (apply wf_chk_cons; [reflexivity | reflexivity | | ]);
      try apply wf_chk_nil; unfold legal_payload; vm_compute; auto.
  - apply bytes_okb_spec. vm_compute. reflexivity.
Qed.

Lemma example_chk_decodes : exists secs, chk_decode example_chk = Ok secs /\ length secs = 5%nat.
Proof. eexists. split; [vm_compute; reflexivity | reflexivity]. Qed.

