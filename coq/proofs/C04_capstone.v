(* C04, a capstone instance: one authored Center View action (type 10, one location argument) through save and the reload of
   the saved map - the record the save writes is read back by that load as a Center View action, with the same flags, whose
   location is the authored one: rectangle, name and elevation flags, carrying the number the save gave it. *)
From Coq Require Import String NArith List Bool Lia PeanoNat.
From RC Require Import lib.Result lib.Bytes model.Layout model.Str model.ChkIo model.Flags model.TrigTable model.RichCodec model.RichIo
  proofs.Layout_proofs proofs.C07_slots proofs.C07_triggers proofs.C04_readback proofs.C04_locations proofs.C04_reload
  proofs.C04_reload_locs gen.GenTrig gen.GenFlags gen.GenConsts.
Import ListNotations.
Local Open Scope string_scope.
Local Open Scope list_scope.
Local Open Scope N_scope.

Lemma center_view_entry : option_map te_dec (find_entry 10 gen_action_table) = Some [("_location", CLoc, "_location_id")].
Proof. vm_compute. reflexivity. Qed.

Theorem center_view_survives_save_and_reload wd r d' cx' ls mr sw up new_str SL l fl v i mv slot :
  save wd r = Ok d' -> decode_context d' = Ok cx' ->
  filter (named "MRGN") r = [RMrgn ls] -> rebuild_mrgn r = Ok mr ->
  rebuild_str r = Ok new_str -> build_str_lookup 2 new_str = Ok SL -> N.of_nat (length (sl_by_id SL)) <= 1000000 ->
  NoDup (map fst (by_idx ls)) -> (forall x, In x (fst mr) -> length (l_elev x) = 6%nat) ->
  (* the action as the save encodes it: under the save's own context *)
  let cx := save_context wd SL mr sw up in
  encode_entry_of cx gen_action_table action_flags_codec action_record_fields (ERich 10 [("_location", ALoc l)] fl) = Ok v ->
  length fl = 5%nat ->
  (* the number the location got, and its slot in the emitted table (not all zero) *)
  find_loc_id l (snd mr) None = Some i -> 1 <= i ->
  mrgn_encode SL (fst mr) = Ok mv -> nth_error (vlist "_locations" mv) (N.to_nat (i - 1)) = Some slot -> loc_is_unused slot = false ->
  exists k0 args',
    rloc_eqb l k0 = true /\
    decode_entry_of cx' gen_action_table "TriggerActionId" "_action_id" action_flags_codec action_record_fields v
      = Ok (Some (ERich 10 args' fl)) /\
    arg_get rarg "_location" args' =
      Ok (ALoc {| l_x1 := l_x1 k0; l_y1 := l_y1 k0; l_x2 := l_x2 k0; l_y2 := l_y2 k0; l_name := l_name k0;
                  l_idx := Some i; l_elev := l_elev k0; l_oid := 0 |}).
Proof.
  intros Hs Hc Hf Hmr Hstr HSL Hsmall Hnd Helev cx He Hlen Hfind Hi Hmv Hslot Hu.
  destruct (location_number_resolves_after_reload wd r d' cx' ls mr new_str SL l i mv slot
              Hs Hc Hf Hmr Hstr HSL Hsmall Hnd Helev Hfind Hi Hmv Hslot Hu) as (k0 & Hk0 & Hby).
  set (l' := {| l_x1 := l_x1 k0; l_y1 := l_y1 k0; l_x2 := l_x2 k0; l_y2 := l_y2 k0; l_name := l_name k0;
                l_idx := Some i; l_elev := l_elev k0; l_oid := 0 |}) in *.
  destruct (authored_action_reads_back_later cx cx' (fun x x' => x = ALoc l /\ x' = ALoc l') 10 [("_location", ALoc l)] fl v He Hlen)
    as (te & args' & Hte & Hd & Hargs).
  - intros te a c f x n Hte Hrow Hx Hn.
    pose proof center_view_entry as Hcv. rewrite Hte in Hcv. cbn [option_map] in Hcv. inversion Hcv as [Hdec]. rewrite Hdec in Hrow.
    destruct Hrow as [Heq|[]]. inversion Heq; subst a c f. cbn [arg_get String.eqb] in Hx. inversion Hx; subst x.
    cbn [enc_arg] in Hn. unfold id_by_loc in Hn. unfold cx in Hn. cbn [save_context cx_loc_ids] in Hn. rewrite Hfind in Hn.
    inversion Hn; subst n. exists (ALoc l'). split; [|split; reflexivity].
    cbn [dec_arg]. rewrite Hby. reflexivity.
  - exists k0, args'. split; [exact Hk0|]. split; [exact Hd|].
    pose proof center_view_entry as Hcv. rewrite Hte in Hcv. cbn [option_map] in Hcv. inversion Hcv as [Hdec].
    destruct (Hargs "_location" CLoc "_location_id") as (x' & Hx' & [(x & Hx & _ & ->)|(d & Hd' & _)]).
    + rewrite Hdec. left. reflexivity.
    + exact Hx'.
    + exfalso. unfold wav_duration in Hd'. cbn in Hd'. discriminate.
Qed.
