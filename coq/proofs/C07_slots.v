(* C07, location table: whatever new locations a save has to place, the slot of every location index that was occupied
   before still holds the location it held (the rebuilt list is the old list followed by the newly placed locations, and
   no new location is placed on an occupied index), so the emitted record for that slot is computed from the same rich
   location - and, by Save_strings, with the same string number for its name. *)
From Coq Require Import String NArith List Bool Lia PeanoNat.
From RC Require Import lib.Result lib.Bytes model.Layout model.Str model.StrEditor model.Alloc model.ChkIo model.TrigTable
  model.RichCodec model.RichIo proofs.Layout_proofs proofs.Alloc_proofs proofs.C09_proofs proofs.C08_proofs proofs.Save_strings.
Import ListNotations.
Local Open Scope list_scope.
Local Open Scope N_scope.

Definition by_idx (ls : list rloc) : list (N * rloc) :=
  flat_map (fun l => match l_idx l with Some i => [(i, l)] | None => [] end) ls.

Lemma by_idx_app a b : by_idx (a ++ b) = by_idx a ++ by_idx b.
Proof. unfold by_idx. apply flat_map_app. Qed.

Lemma assocN_last_app {A} k (a b : list (N * A)) :
  assocN_last k (a ++ b) = match assocN_last k b with Some x => Some x | None => assocN_last k a end.
Proof.
  induction a as [|[k' v] a IH]; simpl; [destruct (assocN_last k b); reflexivity|].
  rewrite IH. destruct (assocN_last k b); [reflexivity|]. reflexivity.
Qed.

Lemma assocN_last_none {A} k (l : list (N * A)) : ~ In k (map fst l) -> assocN_last k l = None.
Proof.
  induction l as [|[k' v] l IH]; simpl; intros H; [reflexivity|].
  rewrite IH by (intros Hc; apply H; right; assumption).
  destruct (k =? k') eqn:E; [|reflexivity]. apply N.eqb_eq in E. subst. exfalso. apply H. left. reflexivity.
Qed.

(* the indices of the placed outcomes, paired with their requests *)
Lemma placed_pairs_indices {A} (order : list A) : forall outs,
  map snd (flat_map (fun p : A * outcome => match snd p with Placed i => [(fst p, i)] | _ => [] end) (combine order outs))
  = placed_ids (firstn (length order) outs).
Proof.
  induction order as [|x order IH]; intros outs; [reflexivity|].
  destruct outs as [|o outs]; [reflexivity|]. simpl. rewrite flat_map_app || idtac.
  destruct o; simpl; rewrite ?IH; reflexivity.
Qed.

Lemma placed_ids_firstn_subset n outs i : In i (placed_ids (firstn n outs)) -> In i (placed_ids outs).
Proof.
  revert outs. induction n as [|n IH]; intros outs H; [destruct H|].
  destruct outs as [|o outs]; [destruct H|]. simpl in *. unfold placed_ids in *. simpl in *.
  apply in_app_iff in H as [H|H]; apply in_app_iff; [left; assumption | right; apply IH; assumption].
Qed.

Theorem existing_location_slots_are_kept r ls mr :
  filter (named "MRGN") r = [RMrgn ls] -> rebuild_mrgn r = Ok mr ->
  exists new, fst mr = ls ++ new /\
    forall i, In i (map fst (by_idx ls)) -> assocN_last i (by_idx (fst mr)) = assocN_last i (by_idx ls).
Proof.
  intros Hf H. unfold rebuild_mrgn in H. rewrite Hf in H. cbn [only bind] in H.
  destruct (existsb _ ls) eqn:Enone; [discriminate|].
  match type of H with bind (add_locations ?ex ?reqs) _ = _ => destruct (add_locations ex reqs) as [outs|e] eqn:Ea; [|discriminate] end.
  cbn [bind] in H. inversion H; subst mr. clear H. cbn [fst].
  eexists. split; [reflexivity|]. intros i Hi.
  rewrite by_idx_app, assocN_last_app. rewrite assocN_last_none; [reflexivity|].
  (* a newly placed index is never one that was occupied *)
  destruct (add_locations_sound _ _ _ Ea) as (_ & _ & Hfree & _).
  intros Hc. apply in_map_iff in Hc as ([k l] & Hk & Hin). simpl in Hk. subst k.
  unfold by_idx in Hin. apply in_flat_map in Hin as (l0 & Hl0 & Hin).
  apply in_map_iff in Hl0 as ([q j] & Hq & Hqin). subst l0. cbn [set_idx l_idx fst snd] in Hin.
  destruct Hin as [Heq|[]]. inversion Heq; subst j. clear Heq.
  assert (In i (placed_ids outs)) as Hp.
  { match type of Hqin with In _ (flat_map _ (combine ?order outs)) =>
      pose proof (placed_pairs_indices order outs) as Hpp end.
    eapply placed_ids_firstn_subset. rewrite <- Hpp. apply in_map_iff. exists (q, i). auto. }
  apply (Hfree i Hp).
  (* i is an index of an existing location *)
  apply in_map_iff in Hi as ([k l1] & Hk & Hin1). simpl in Hk. subst k.
  unfold by_idx in Hin1. apply in_flat_map in Hin1 as (l2 & Hl2 & Hin2).
  apply in_flat_map. exists l2. split; [assumption|].
  destruct (l_idx l2); [|destruct Hin2]. destruct Hin2 as [Heq|[]]. inversion Heq; subst. left. reflexivity.
Qed.
