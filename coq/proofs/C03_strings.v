(* C02 / C03, the string table of an UNEDITED map: everything decode_chk puts into the rich map mentions only texts the
   map's own string table resolves (every name and message is read through that table's lookup), so the rebuild that
   precedes a save has nothing to add: the STR section emitted is the STR section that was loaded, string number for
   string number. *)
From Coq Require Import String NArith List Bool Lia PeanoNat.
From RC Require Import lib.Result lib.Bytes model.Layout model.Str model.StrEditor model.ChkIo model.Flags model.TrigTable
  model.RichCodec model.RichIo proofs.Layout_proofs proofs.C08_proofs proofs.C11_proofs proofs.Save_strings proofs.C07_untouched
  gen.GenTrig gen.GenFlags gen.GenConsts gen.GenRichTables.
Import ListNotations.
Local Open Scope string_scope.
Local Open Scope list_scope.

Lemma flat_map_flat_map {A B C} (f : B -> list C) (g : A -> list B) l :
  flat_map f (flat_map g l) = flat_map (fun x => flat_map f (g x)) l.
Proof. induction l as [|x l IH]; simpl; [reflexivity | rewrite flat_map_app, IH; reflexivity]. Qed.

Section Known.
  Variable L : str_lookup.
  Let T := sl_by_id L.

  Definition kn (s : rstr) : Prop := known L s.
  Definition texts_known (ts : list (list N)) : Prop := Forall (fun t => In t T) ts.

  Lemma rstr_texts_known s : kn s -> texts_known (rstr_texts s).
  Proof. destruct s as [|t]; simpl; intros H; [constructor | constructor; [exact H | constructor]]. Qed.

  Lemma texts_known_app a b : texts_known a -> texts_known b -> texts_known (a ++ b).
  Proof. intros; apply Forall_app; split; assumption. Qed.

  Lemma texts_known_flat_map {A} (f : A -> list (list N)) l :
    (forall x, In x l -> texts_known (f x)) -> texts_known (flat_map f l).
  Proof.
    induction l as [|x l IH]; intros H; simpl; [constructor|].
    apply texts_known_app; [apply H; left; reflexivity | apply IH; intros y Hy; apply H; right; assumption].
  Qed.

  (* ---- the tables of the decode context -------------------------------------------------------------------------------- *)

  Lemma mrgn_decode_locs_known : forall vs i ls,
    mrgn_decode_locs L vs i = Ok ls -> forall l, In l ls -> kn (l_name l).
  Proof.
    induction vs as [|v vs IH]; intros i ls H l Hl; simpl in H.
    - inversion H; subst. destruct Hl.
    - inv_bind H as rest Hr Hk. destruct (loc_is_unused v).
      + inversion Hk; subst. eapply IH; eauto.
      + inv_bind Hk as el Hel Hk2. inversion Hk2; subst ls. destruct Hl as [<-|Hl]; [|eapply IH; eauto].
        cbn [l_name]. apply str_by_id_known.
  Qed.

  Lemma swnm_lookup_known v : forall k s, In (k, s) (swnm_lookup L v) -> kn (s_name s).
  Proof.
    unfold swnm_lookup.
    assert (forall ids k0 k s,
              In (k, s) ((fix go (ids : list N) (k : N) : list (N * rswitch) :=
                            match ids with
                            | [] => []
                            | sid :: r => (k, {| s_name := str_by_id L sid; s_idx := Some k; s_oid := 0 |}) :: go r (k + 1)%N
                            end) ids k0) -> kn (s_name s)) as G.
    { induction ids as [|sid r IH]; intros k0 k s H; [destruct H|].
      destruct H as [Heq|H]; [inversion Heq; subst; cbn [s_name]; apply str_by_id_known | eapply IH; eauto]. }
    intros k s H. eapply G. exact H.
  Qed.

  (* a context whose tables were read through L *)
  Definition ctx_known (cx : context) : Prop :=
    cx_str cx = L /\ (forall l, In l (cx_locs cx) -> kn (l_name l)) /\
    (forall k s, In (k, s) (cx_switch_by_id cx) -> kn (s_name s)).

  (* ---- trigger arguments ------------------------------------------------------------------------------------------------- *)

  Lemma dec_arg_known cx c v a : ctx_known cx -> dec_arg cx c v = Ok a -> texts_known (arg_strings a).
  Proof.
    intros (HL & Hlocs & Hsw) H. destruct c; cbn [dec_arg] in H.
    - inversion H; constructor.
    - destruct (enum_has E v); inversion H; constructor.
    - destruct (loc_by_id cx v) as [l|] eqn:El; [|discriminate]. inversion H; subst a. cbn [arg_strings].
      apply rstr_texts_known. apply Hlocs. unfold loc_by_id in El. destruct (N.eqb v 0); [discriminate|].
      apply assocN_last_in in El. apply in_flat_map in El as (l0 & Hl0 & Hin). destruct (l_idx l0); [|destruct Hin].
      destruct Hin as [Heq|[]]. inversion Heq; subst. exact Hl0.
    - destruct (loc_by_id cx v) as [l|] eqn:El; [|discriminate]. inversion H; subst a. cbn [arg_strings].
      apply rstr_texts_known. apply Hlocs. unfold loc_by_id in El. destruct (N.eqb v 0); [discriminate|].
      apply assocN_last_in in El. apply in_flat_map in El as (l0 & Hl0 & Hin). destruct (l_idx l0); [|destruct Hin].
      destruct Hin as [Heq|[]]. inversion Heq; subst. exact Hl0.
    - inversion H; subst a. cbn [arg_strings]. apply rstr_texts_known. rewrite HL. apply str_by_id_known.
    - inversion H; constructor.
    - destruct (cuwp_by_id cx v); inversion H; constructor.
    - destruct (assocN_last v (cx_switch_by_id cx)) as [s|] eqn:Es; inversion H; subst a; cbn [arg_strings s_name].
      + apply rstr_texts_known. apply assocN_last_in in Es. eapply Hsw; eauto.
      + constructor.
    - inv_bind H as n Hn Hk. inversion Hk; constructor.
  Qed.

  Lemma decode_entry_known cx e r args :
    ctx_known cx -> decode_entry rarg (dec_arg cx) e r = Ok args ->
    forall a x, In (a, x) args -> texts_known (arg_strings x).
  Proof.
    intros Hcx H a x Hin. unfold decode_entry in H.
    destruct (mapM_in _ _ _ _ H Hin) as (i & row & Hrow & Hf). destruct row as [[a0 c] f]. cbv beta iota in Hf.
    inv_bind Hf as v Hv Hk. inv_bind Hk as y Hy Hk2. inversion Hk2; subst. eapply dec_arg_known; eauto.
  Qed.

  Lemma arg_get_in a (args : list (string * rarg)) x : arg_get rarg a args = Ok x -> In (a, x) args.
  Proof.
    induction args as [|[b v] r IH]; simpl; intros H; [discriminate|].
    destruct (String.eqb_spec a b) as [->|Hne]; [inversion H; subst; left; reflexivity | right; apply IH; assumption].
  Qed.

  Lemma decode_entry_of_known cx table enum idf flagc fields v e tb :
    ctx_known cx -> decode_entry_of cx table enum idf flagc fields v = Ok (Some e) ->
    texts_known (flat_map arg_strings (ordered_args tb e)).
  Proof.
    intros Hcx H. unfold decode_entry_of in H.
    destruct (negb (enum_has enum (vint idf v))); [inversion H; subst; constructor|].
    destruct (N.eqb (vint idf v) NO_ENTRY); [discriminate|].
    destruct (find_entry (vint idf v) table) as [te|]; [|inversion H; subst; constructor].
    inv_bind H as args Ha Hk. inv_bind Hk as fl Hfl Hk2. inversion Hk2; subst e. cbn [ordered_args].
    apply texts_known_flat_map. intros x Hx. apply in_flat_map in Hx as (f & Hf & Hx).
    destruct (arg_get rarg f args) as [y|] eqn:Eg; [|destruct Hx]. destruct Hx as [<-|[]].
    eapply decode_entry_known; eauto. eapply arg_get_in; eauto.
  Qed.

  Lemma somes_in {A} (l : list (option A)) x : In x (somes l) -> In (Some x) l.
  Proof.
    induction l as [|[y|] l IH]; simpl; intros H; [destruct H | destruct H as [->|H]; auto | auto].
  Qed.

  Lemma trigger_decode_known cx v t :
    ctx_known cx -> trigger_decode cx v = Ok t -> texts_known (flat_map arg_strings (trigger_args t)).
  Proof.
    intros Hcx H. unfold trigger_decode in H. inv_bind H as cs Hcs Hk. inv_bind Hk as acts Hacts Hk2.
    destruct (vfield "_player_execution" v) as [pe|]; [|discriminate].
    destruct (negb (N.eqb (vint "_execution_flags" pe) 0)); [discriminate|].
    destruct (negb (N.eqb (vint "_current_action_index" pe) 0)); [discriminate|].
    destruct (existsb _ _); [discriminate|]. inversion Hk2; subst t. clear Hk2.
    unfold trigger_args. cbn [t_conds t_acts]. rewrite flat_map_app. apply texts_known_app.
    - rewrite flat_map_flat_map.
      apply texts_known_flat_map. intros e He. apply somes_in in He.
      destruct (mapM_in _ _ _ _ Hcs He) as (i & x & Hx & Hf). eapply decode_entry_of_known; eauto.
    - rewrite flat_map_flat_map.
      apply texts_known_flat_map. intros e He. apply somes_in in He.
      destruct (mapM_in _ _ _ _ Hacts He) as (i & x & Hx & Hf). eapply decode_entry_of_known; eauto.
  Qed.

  (* ---- sections ----------------------------------------------------------------------------------------------------------- *)

  Lemma load_section_known cx s r :
    ctx_known cx -> load_section cx s = Ok r -> texts_known (section_strings r).
  Proof.
    intros Hcx H. pose proof Hcx as (HL & Hlocs & Hsw).
    destruct s as [n w m|n v|n p]; cbn [load_section] in H; try (inversion H; subst; constructor).
    destruct (negb (is_rich_name n)); [inversion H; subst; constructor|].
    destruct (String.eqb n "MRGN").
    { inv_bind H as ls Hls Hk. inversion Hk; subst r. cbn [section_strings]. apply texts_known_flat_map.
      intros l Hl. apply rstr_texts_known. rewrite HL in Hls. eapply mrgn_decode_locs_known; eauto. }
    destruct (String.eqb n "TRIG").
    { inv_bind H as ts Hts Hk. inversion Hk; subst r. cbn [section_strings]. apply texts_known_flat_map.
      intros t Ht. unfold trig_decode in Hts. destruct (mapM_in _ _ _ _ Hts Ht) as (i & x & Hx & Hf).
      eapply trigger_decode_known; eauto. }
    destruct (String.eqb n "UNIS").
    { inversion H; subst r. cbn [section_strings]. apply texts_known_flat_map. intros u Hu. apply rstr_texts_known.
      unfold unis_decode in Hu. apply filter_In in Hu as [Hu _]. apply in_map_iff in Hu as (k & <- & _).
      cbn [unit_decode u_name]. rewrite HL. apply str_by_id_known. }
    destruct (String.eqb n "UNIx").
    { inversion H; subst r. cbn [section_strings]. apply texts_known_flat_map. intros u Hu. apply rstr_texts_known.
      unfold unis_decode in Hu. apply filter_In in Hu as [Hu _]. apply in_map_iff in Hu as (k & <- & _).
      cbn [unit_decode u_name]. rewrite HL. apply str_by_id_known. }
    destruct (String.eqb n "UPRP").
    { inv_bind H as cs Hcs Hk. inversion Hk; subst r. constructor. }
    destruct (String.eqb n "SWNM").
    { inv_bind H as ss Hss Hk. inversion Hk; subst r. cbn [section_strings]. apply texts_known_flat_map.
      intros x Hx. apply rstr_texts_known. unfold swnm_decode in Hss.
      destruct (mapM_in _ _ _ _ Hss Hx) as (i & k & Hk2 & Hf). cbv beta in Hf.
      destruct (assocN_last k (cx_switch_by_id cx)) as [s0|] eqn:Es; [|discriminate]. inversion Hf; subst s0.
      apply assocN_last_in in Es. eapply Hsw; eauto. }
    destruct (String.eqb n "WAV ").
    { inversion H; subst r. cbn [section_strings]. rewrite HL.
      pose proof (wav_decode_names_known L v) as G. cbn [names_known] in G.
      apply texts_known_flat_map. intros w Hw. apply rstr_texts_known. exact (G w Hw). }
    discriminate.
  Qed.
End Known.

(* ---- the context decode_chk builds is read through the lookup of the map's own STR section ------------------------------ *)

Lemma decode_context_known d cx :
  decode_context d = Ok cx -> ctx_known (cx_str cx) cx.
Proof.
  unfold decode_context. intros H.
  inv_bind H as str Hstr H. inv_bind H as L HL H. inv_bind H as mv Hmv H. inv_bind H as locs Hlocs H.
  inv_bind H as cw Hcw H. inversion H; subst cx. clear H. cbn [cx_str cx_locs cx_switch_by_id].
  split; [reflexivity|]. split.
  - intros l Hl. unfold mrgn_decode in Hlocs. eapply mrgn_decode_locs_known; eauto.
  - intros k s Hs. destruct (tabs_named "SWNM" d) as [|v [|v2 rest]]; try (destruct Hs).
    eapply swnm_lookup_known; eauto.
Qed.

Theorem loaded_maps_mention_only_known_texts d r cx :
  decode_context d = Ok cx -> load d = Ok r ->
  Forall (fun t => In t (sl_by_id (cx_str cx))) (flat_map section_strings r).
Proof.
  intros Hcx Hl. unfold load in Hl. rewrite Hcx in Hl. cbn [bind] in Hl.
  apply texts_known_flat_map. intros s Hs.
  destruct (mapM_in _ _ _ _ Hl Hs) as (i & x & Hx & Hf).
  eapply load_section_known; [apply (decode_context_known d); exact Hcx | exact Hf].
Qed.

(* THE UNEDITED SAVE ADDS NO STRING: the rebuilt STR section is the loaded one *)
Theorem unedited_save_keeps_the_string_table d r m bin :
  load d = Ok r -> strs_named "STR " d = [m] ->
  filter (named "STR ") r = [RDecodedStr "STR " 2 m] ->
  wf_table 2 m bin -> rebuild_str r = Ok m.
Proof.
  intros Hl Hd Hf Hwf.
  pose proof Hl as Hl2. unfold load in Hl2. inv_bind Hl2 as cx Hcx Hm.
  pose proof (loaded_maps_mention_only_known_texts d r cx Hcx Hl) as Hk.
  (* the context's lookup is the lookup of m *)
  pose proof Hcx as Hcx2. unfold decode_context in Hcx2. rewrite Hd in Hcx2. cbn [only bind] in Hcx2.
  inv_bind Hcx2 as L HL Hrest.
  assert (cx_str cx = L) as EL.
  { inv_bind Hrest as mv Hmv Hrest. inv_bind Hrest as locs Hlocs Hrest. inv_bind Hrest as cw Hcw Hrest. inversion Hrest; reflexivity. }
  unfold build_str_lookup in HL. inv_bind HL as T HT HkT. inversion HkT as [HLeq]. rewrite EL, <- HLeq in Hk. cbn [sl_by_id] in Hk.
  unfold rebuild_str. rewrite Hf. cbn [only bind].
  apply (add_noop_when_all_resolvable 2 _ m bin Hwf).
  intros s Hs. rewrite Forall_forall in Hk. specialize (Hk s Hs).
  unfold build_lookup in HT. rewrite (wf_enc _ _ _ Hwf) in HT. cbn [bind] in HT.
  destruct (mapM_in _ _ _ _ HT Hk) as (i & o & Hn & Hr). exists i, o. auto.
Qed.

(* ... so the STR section is emitted exactly as it was loaded, at its position *)
Theorem unedited_save_emits_the_loaded_str d r wd d' m bin i :
  load d = Ok r -> strs_named "STR " d = [m] ->
  filter (named "STR ") r = [RDecodedStr "STR " 2 m] -> wf_table 2 m bin ->
  save wd r = Ok d' -> nth_error d i = Some (DStr "STR " 2 m) ->
  nth_error d' i = Some (DStr "STR " 2 m).
Proof.
  intros Hl Hd Hf Hwf Hs Hn.
  pose proof (unedited_save_keeps_the_string_table d r m bin Hl Hd Hf Hwf) as Hreb.
  assert (nth_error r i = Some (RDecodedStr "STR " 2 m)) as Hr.
  { unfold load in Hl. inv_bind Hl as cx Hcx Hm. destruct (mapM_nth _ _ _ _ _ Hm Hn) as (y & Hy & Hny).
    cbn [load_section] in Hy. inversion Hy; subst y. exact Hny. }
  unfold save in Hs. rewrite Hreb in Hs. cbn [bind] in Hs.
  inv_bind Hs as mr H2 Hs. inv_bind Hs as sw H3 Hs. inv_bind Hs as up H4 Hs.
  inv_bind Hs as us H5 Hs. inv_bind Hs as SL H6 Hs. inv_bind Hs as chk H7 Hs. inv_bind Hs as secs Hm Hs.
  inv_bind Hs as e1 He1 Hs. inv_bind Hs as e2 He2 Hs. inversion Hs; subst d'. clear Hs.
  destruct (mapM_nth _ _ _ _ _ Hm Hr) as (y & Hy & Hny). cbv beta iota in Hy. rewrite String.eqb_refl in Hy.
  inversion Hy; subst y. rewrite nth_error_app1 by (apply nth_error_Some; congruence). exact Hny.
Qed.
