(* The other direction of the UTF-8 round trip: what the encoder writes, the strict decoder reads back as the same code
   points (all four length classes; the lower bounds the decoder puts on the second byte are exactly what rules out overlong
   forms and surrogates, and the encoder never produces those). *)
From Coq Require Import String NArith ZArith List Bool Lia ZifyN ZifyBool.
From RC Require Import lib.Result lib.Bytes lib.Utf8 proofs.Layout_proofs.
Import ListNotations.
Local Open Scope N_scope.

Ltac Zify.zify_post_hook ::= Z.div_mod_to_equations.
Local Arguments N.add : simpl never.
Local Arguments N.sub : simpl never.
Local Arguments N.mul : simpl never.
Local Arguments N.div : simpl never.
Local Arguments N.modulo : simpl never.
Local Arguments N.ltb : simpl never.
Local Arguments N.leb : simpl never.
Local Arguments N.eqb : simpl never.

Lemma decode_one_cp c a : utf8_encode_cp c = Ok a ->
  forall fuel r, utf8_decode_fuel (S fuel) (a ++ r) = (do t <- utf8_decode_fuel fuel r; Ok (c :: t)).
Proof.
  unfold utf8_encode_cp. intros H fuel r.
  destruct (c <? 128) eqn:E1.
  - injection H as <-. cbn [app utf8_decode_fuel]. rewrite E1. reflexivity.
  - destruct (c <? 2048) eqn:E2.
    + injection H as <-. cbn [app utf8_decode_fuel].
      assert ((192 + c / 64 <? 128) = false) as -> by lia.
      assert (((194 <=? 192 + c / 64) && (192 + c / 64 <? 224)) = true) as -> by lia.
      assert (is_cont (128 + c mod 64) = true) as -> by (unfold is_cont; lia).
      assert ((192 + c / 64 - 192) * 64 + (128 + c mod 64 - 128) = c) as -> by lia. reflexivity.
    + destruct (c <? 65536) eqn:E3.
      * destruct ((55296 <=? c) && (c <? 57344)) eqn:Es; [discriminate|]. injection H as <-. cbn [app utf8_decode_fuel].
        assert ((224 + c / 4096 <? 128) = false) as -> by lia.
        assert (((194 <=? 224 + c / 4096) && (224 + c / 4096 <? 224)) = false) as -> by lia.
        assert (((224 <=? 224 + c / 4096) && (224 + c / 4096 <? 240)) = true) as -> by lia.
        assert ((((if 224 + c / 4096 =? 224 then 160 else 128) <=? 128 + (c / 64) mod 64)
                 && (128 + (c / 64) mod 64 <? (if 224 + c / 4096 =? 237 then 160 else 192))
                 && is_cont (128 + c mod 64)) = true) as ->.
        { unfold is_cont. destruct (224 + c / 4096 =? 224) eqn:Ea; destruct (224 + c / 4096 =? 237) eqn:Eb; lia. }
        assert ((224 + c / 4096 - 224) * 4096 + (128 + (c / 64) mod 64 - 128) * 64 + (128 + c mod 64 - 128) = c) as -> by lia.
        reflexivity.
      * destruct (c <? 1114112) eqn:E4; [|discriminate]. injection H as <-. cbn [app utf8_decode_fuel].
        assert ((240 + c / 262144 <? 128) = false) as -> by lia.
        assert (((194 <=? 240 + c / 262144) && (240 + c / 262144 <? 224)) = false) as -> by lia.
        assert (((224 <=? 240 + c / 262144) && (240 + c / 262144 <? 240)) = false) as -> by lia.
        assert (((240 <=? 240 + c / 262144) && (240 + c / 262144 <? 245)) = true) as -> by lia.
        assert ((((if 240 + c / 262144 =? 240 then 144 else 128) <=? 128 + (c / 4096) mod 64)
                 && (128 + (c / 4096) mod 64 <? (if 240 + c / 262144 =? 244 then 144 else 192))
                 && is_cont (128 + (c / 64) mod 64) && is_cont (128 + c mod 64)) = true) as ->.
        { unfold is_cont. destruct (240 + c / 262144 =? 240) eqn:Ea; destruct (240 + c / 262144 =? 244) eqn:Eb; lia. }
        assert ((240 + c / 262144 - 240) * 262144 + (128 + (c / 4096) mod 64 - 128) * 4096
                + (128 + (c / 64) mod 64 - 128) * 64 + (128 + c mod 64 - 128) = c) as -> by lia.
        reflexivity.
Qed.

Lemma encode_cp_nonempty c a : utf8_encode_cp c = Ok a -> (1 <= length a)%nat.
Proof.
  unfold utf8_encode_cp. intros H.
  destruct (c <? 128); [inversion H; simpl; lia|]. destruct (c <? 2048); [inversion H; simpl; lia|].
  destruct (c <? 65536).
  - destruct (_ && _); [discriminate | inversion H; simpl; lia].
  - destruct (c <? 1114112); [inversion H; simpl; lia | discriminate].
Qed.

Lemma encode_cp_bytes c a : utf8_encode_cp c = Ok a -> Forall (fun b => b < 256) a.
Proof.
  unfold utf8_encode_cp. intros H.
  destruct (c <? 128) eqn:E1; [inversion H; repeat constructor; lia|].
  destruct (c <? 2048) eqn:E2; [inversion H; repeat constructor; lia|].
  destruct (c <? 65536) eqn:E3.
  - destruct (_ && _); [discriminate | inversion H; repeat constructor; lia].
  - destruct (c <? 1114112) eqn:E4; [inversion H; repeat constructor; lia | discriminate].
Qed.

Theorem utf8_encode_decode_fuel : forall s bs fuel,
  utf8_encode s = Ok bs -> (length s <= fuel)%nat -> utf8_decode_fuel fuel bs = Ok s.
Proof.
  induction s as [|c r IH]; intros bs fuel H Hf.
  - simpl in H. inversion H; subst bs. destruct fuel; reflexivity.
  - cbn [utf8_encode] in H. inv_bind H as a Ha Hk. inv_bind Hk as b Hb Hk2. inversion Hk2; subst bs. clear Hk2.
    destruct fuel as [|fuel]; [simpl in Hf; lia|].
    rewrite (decode_one_cp _ _ Ha). rewrite (IH b fuel Hb) by (simpl in Hf; lia). reflexivity.
Qed.

Lemma utf8_encode_length s bs : utf8_encode s = Ok bs -> (length s <= length bs)%nat.
Proof.
  revert bs. induction s as [|c r IH]; intros bs H; [simpl; lia|].
  cbn [utf8_encode] in H. inv_bind H as a Ha Hk. inv_bind Hk as b Hb Hk2. inversion Hk2; subst bs.
  rewrite app_length. pose proof (encode_cp_nonempty _ _ Ha). pose proof (IH _ Hb). simpl. lia.
Qed.

Theorem utf8_encode_decode s bs : utf8_encode s = Ok bs -> utf8_decode bs = Ok s.
Proof. intros H. unfold utf8_decode. apply utf8_encode_decode_fuel; [exact H | apply utf8_encode_length; exact H]. Qed.

Lemma utf8_encode_bytes s bs : utf8_encode s = Ok bs -> Forall (fun b => b < 256) bs.
Proof.
  revert bs. induction s as [|c r IH]; intros bs H; [simpl in H; inversion H; constructor|].
  cbn [utf8_encode] in H. inv_bind H as a Ha Hk. inv_bind Hk as b Hb Hk2. inversion Hk2; subst bs.
  apply Forall_app. split; [eapply encode_cp_bytes; eauto | apply IH; exact Hb].
Qed.
