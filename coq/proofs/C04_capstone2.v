(* C04, a second capstone, with every kind of argument at once: one authored Create-Units-with-Properties action (type 11:
   player and unit type - enumeration members -, amount - a plain number -, a location and a unit-property set) through save and
   the load of the saved map. *)
From Coq Require Import String NArith List Bool Lia PeanoNat.
From RC Require Import lib.Result lib.Bytes model.Layout model.Str model.ChkIo model.Flags model.TrigTable model.RichCodec model.RichIo
  proofs.Layout_proofs proofs.C07_slots proofs.C07_triggers proofs.C04_readback proofs.C04_locations proofs.C04_cuwps proofs.C04_reload
  proofs.C04_reload_locs proofs.C04_reload_cuwps gen.GenTrig gen.GenFlags gen.GenConsts.
Import ListNotations.
Local Open Scope string_scope.
Local Open Scope list_scope.
Local Open Scope N_scope.

Lemma create_units_entry :
  option_map te_dec (find_entry 11 gen_action_table) =
  Some [("_group", CEnum "PlayerId", "_first_group"); ("_amount", CRaw, "_quantifier_or_switch_or_order");
        ("_unit", CEnum "UnitId", "_action_argument_type"); ("_location", CLoc, "_location_id");
        ("_properties", CCuwp, "_second_group")].
Proof. vm_compute. reflexivity. Qed.

Definition fields_of_loc (k0 : rloc) (i : N) : rloc :=
  {| l_x1 := l_x1 k0; l_y1 := l_y1 k0; l_x2 := l_x2 k0; l_y2 := l_y2 k0; l_name := l_name k0; l_idx := Some i;
     l_elev := l_elev k0; l_oid := 0 |}.
Definition fields_of_cuwp (k : rcuwp) (j : N) : rcuwp :=
  {| c_hp := c_hp k; c_sh := c_sh k; c_en := c_en k; c_res := c_res k; c_hang := c_hang k; c_flags := c_flags k;
     c_vs := c_vs k; c_vu := c_vu k; c_unk := c_unk k; c_pad := c_pad k; c_idx := Some j |}.

Theorem create_units_survives_save_and_reload
        wd r d' cx' ls mr sw cs up new_str SL g n u l c fl v i mv slot j uv cslot :
  save wd r = Ok d' -> decode_context d' = Ok cx' ->
  (* strings *)
  rebuild_str r = Ok new_str -> build_str_lookup 2 new_str = Ok SL -> N.of_nat (length (sl_by_id SL)) <= 1000000 ->
  (* locations *)
  filter (named "MRGN") r = [RMrgn ls] -> rebuild_mrgn r = Ok mr ->
  NoDup (map fst (by_idx ls)) -> (forall x, In x (fst mr) -> length (l_elev x) = 6%nat) ->
  (* unit-property sets *)
  filter (named "UPRP") r = [RUprp cs] -> rebuild_uprp r = Ok up -> NoDup (map fst (cby_idx cs)) ->
  (forall s, In s r -> named "UPRP" s = true -> exists cs0, s = RUprp cs0) ->
  (forall x, In x up -> length (c_vs x) = 6%nat /\ length (c_vu x) = 7%nat /\ length (c_flags x) = 5%nat) ->
  (* the action as the save encodes it, under the save's own context; player and unit type are members of their enumerations *)
  let cx := save_context wd SL mr sw up in
  enum_has "PlayerId" g = true -> enum_has "UnitId" u = true ->
  encode_entry_of cx gen_action_table action_flags_codec action_record_fields
    (ERich 11 [("_group", AEnum g); ("_amount", AInt n); ("_unit", AEnum u); ("_location", ALoc l); ("_properties", ACuwp c)] fl) = Ok v ->
  length fl = 5%nat ->
  (* the numbers the location and the unit-property set got, and their slots in the emitted tables (not all zero) *)
  find_loc_id l (snd mr) None = Some i -> 1 <= i ->
  mrgn_encode SL (fst mr) = Ok mv -> nth_error (vlist "_locations" mv) (N.to_nat (i - 1)) = Some slot -> loc_is_unused slot = false ->
  id_by_cuwp cx c = Ok j -> 1 <= j ->
  uprp_encode up = Ok uv -> nth_error (vlist "_cuwp_slots" uv) (N.to_nat (j - 1)) = Some cslot -> cuwp_is_unused cslot = false ->
  exists k0 k args',
    rloc_eqb l k0 = true /\ rcuwp_eqb c k = true /\
    decode_entry_of cx' gen_action_table "TriggerActionId" "_action_id" action_flags_codec action_record_fields v
      = Ok (Some (ERich 11 args' fl)) /\
    arg_get rarg "_group" args' = Ok (AEnum g) /\ arg_get rarg "_amount" args' = Ok (AInt n) /\
    arg_get rarg "_unit" args' = Ok (AEnum u) /\
    arg_get rarg "_location" args' = Ok (ALoc (fields_of_loc k0 i)) /\
    arg_get rarg "_properties" args' = Ok (ACuwp (fields_of_cuwp k j)).
Proof.
  intros Hs Hc Hstr HSL Hsmall Hf Hmr Hnd Helev Hfu Hup Hndc Honly Hlens cx Hg Hu He Hlen Hfind Hi Hmv Hslot Hunused
         Hid Hj Huv Hcslot Hcunused.
  destruct (location_number_resolves_after_reload wd r d' cx' ls mr new_str SL l i mv slot
              Hs Hc Hf Hmr Hstr HSL Hsmall Hnd Helev Hfind Hi Hmv Hslot Hunused) as (k0 & Hk0 & Hby).
  destruct (cuwp_number_resolves_after_reload wd r d' cx' cs up cx c j uv cslot
              Hs Hc Hfu Hup eq_refl Hndc Honly Hlens Hid Hj Huv Hcslot Hcunused) as (k & Hk & Hcby).
  destruct (load_after_save_uses_the_saved_string_table _ _ _ _ Hs Hc) as (ns & L' & Hr' & HL' & Hcx').
  rewrite Hstr in Hr'. inversion Hr'; subst ns. rewrite HSL in HL'. inversion HL'; subst L'.
  set (R := fun x x' : rarg => match x with
                               | ALoc _ => x' = ALoc (fields_of_loc k0 i)
                               | ACuwp _ => x' = ACuwp (fields_of_cuwp k j)
                               | _ => x' = x
                               end).
  pose proof create_units_entry as Hcv.
  destruct (authored_action_reads_back_later cx cx' R 11 _ fl v He Hlen) as (te & args' & Hte & Hd & Hargs).
  - intros te a c0 f x m Hte Hrow Hx Hm. rewrite Hte in Hcv. cbn [option_map] in Hcv. inversion Hcv as [Hdec]. rewrite Hdec in Hrow.
    destruct Hrow as [Heq|[Heq|[Heq|[Heq|[Heq|[]]]]]]; inversion Heq; subst a c0 f; cbn [arg_get String.eqb] in Hx;
      inversion Hx; subst x; cbn [enc_arg] in Hm.
    + inversion Hm; subst m. exists (AEnum g). cbn [dec_arg]. rewrite Hg. split; reflexivity.
    + inversion Hm; subst m. exists (AInt n). split; reflexivity.
    + inversion Hm; subst m. exists (AEnum u). cbn [dec_arg]. rewrite Hu. split; reflexivity.
    + unfold id_by_loc in Hm. unfold cx in Hm. cbn [save_context cx_loc_ids] in Hm. rewrite Hfind in Hm. inversion Hm; subst m.
      exists (ALoc (fields_of_loc k0 i)). cbn [dec_arg]. unfold fields_of_loc. rewrite Hby. split; reflexivity.
    + rewrite Hid in Hm. inversion Hm; subst m.
      exists (ACuwp (fields_of_cuwp k j)). cbn [dec_arg]. unfold fields_of_cuwp. rewrite Hcby. split; reflexivity.
  - rewrite Hte in Hcv. cbn [option_map] in Hcv. inversion Hcv as [Hdec].
    assert (forall a c0 f x, In (a, c0, f) (te_dec te) -> arg_get rarg a
              [("_group", AEnum g); ("_amount", AInt n); ("_unit", AEnum u); ("_location", ALoc l); ("_properties", ACuwp c)] = Ok x ->
              exists x', arg_get rarg a args' = Ok x' /\ R x x') as Hget.
    { intros a c0 f x Hrow Hx. destruct (Hargs a c0 f Hrow) as (x' & Hx' & [(x0 & Hx0 & HR)|(d & Hd' & _)]).
      - rewrite Hx in Hx0. inversion Hx0; subst x0. eauto.
      - exfalso. unfold wav_duration in Hd'. cbn in Hd'. discriminate. }
    exists k0, k, args'. split; [exact Hk0|]. split; [exact Hk|]. split; [exact Hd|]. rewrite Hdec in Hget.
    repeat split.
    + destruct (Hget "_group" _ _ (AEnum g) ltac:(simpl; tauto) eq_refl) as (x' & Hx' & HR). cbn in HR. subst x'. exact Hx'.
    + destruct (Hget "_amount" _ _ (AInt n) ltac:(simpl; tauto) eq_refl) as (x' & Hx' & HR). cbn in HR. subst x'. exact Hx'.
    + destruct (Hget "_unit" _ _ (AEnum u) ltac:(simpl; tauto) eq_refl) as (x' & Hx' & HR). cbn in HR. subst x'. exact Hx'.
    + destruct (Hget "_location" _ _ (ALoc l) ltac:(simpl; tauto) eq_refl) as (x' & Hx' & HR). cbn in HR. subst x'. exact Hx'.
    + destruct (Hget "_properties" _ _ (ACuwp c) ltac:(simpl; tauto) eq_refl) as (x' & Hx' & HR). cbn in HR. subst x'. exact Hx'.
Qed.
