(* C04: an authored entry's arguments are written, through their codecs over the rebuilt lookups, into the record
   fields the specification assigns to them. *)
From Coq Require Import String NArith List Bool Lia.
From RC Require Import lib.Result lib.Bytes model.Layout model.Flags model.TrigTable model.RichCodec
  proofs.Layout_proofs proofs.C05_proofs proofs.C10_proofs gen.GenTrig spec.SpecTrig gen.GenFlags.
Import ListNotations.
Local Open Scope string_scope.
Local Open Scope list_scope.
Local Open Scope N_scope.

Lemma vint_rec_val fields : NoDup fields -> forall r f, In f fields ->
  vint f (rec_val fields r) = match rec_get f r with Ok n => n | Raise _ => 0 end.
Proof.
  unfold rec_val, vint. induction fields as [|g fs IH]; intros Hnd r f Hin; [destruct Hin|].
  inversion Hnd as [|? ? Hnotin Hnd']; subst. simpl.
  destruct (String.eqb_spec f g) as [->|Hne]; [reflexivity|].
  destruct Hin as [->|Hin]; [contradiction|]. apply IH; assumption.
Qed.

Lemma rec_get_map_flags f x r : f <> "_flags" ->
  rec_get f (map (fun p : string * N => if String.eqb (fst p) "_flags" then (fst p, x) else p) r) = rec_get f r.
Proof.
  intros Hne. induction r as [|[g v] r IH]; simpl; [reflexivity|].
  destruct (String.eqb_spec g "_flags") as [->|Hg]; simpl.
  - destruct (String.eqb_spec f "_flags"); [contradiction | exact IH].
  - destruct (String.eqb_spec f g); [reflexivity | exact IH].
Qed.

(* the public encode of a rich action: the record computed by the table interpreter, with only _flags replaced *)
Theorem authored_action_fields cx key args fl v te :
  find_entry key gen_action_table = Some te ->
  encode_entry_of cx gen_action_table action_flags_codec action_record_fields (ERich key args fl) = Ok v ->
  exists r, encode_entry rarg (enc_arg cx) (wav_duration cx) te args = Ok r /\
            forall f, In f action_record_fields -> f <> "_flags" ->
                      vint f v = match rec_get f r with Ok n => n | Raise _ => 0 end.
Proof.
  intros Hf H. cbn [encode_entry_of] in H. rewrite Hf in H.
  inv_bind H as r Hr Hk. inv_bind Hk as x Hx Hk2. inversion Hk2; subst v.
  exists r. split; [exact Hr|]. intros f Hin Hne.
  rewrite vint_rec_val by (apply record_fields_nodup || assumption).
  rewrite rec_get_map_flags by assumption. reflexivity.
Qed.

Lemma find_entry_in k t e : find_entry k t = Some e -> In e t /\ te_key e = k.
Proof.
  induction t as [|x t IH]; simpl; intros H; [discriminate|].
  destruct (te_key x =? k) eqn:E.
  - inversion H; subst. apply N.eqb_eq in E. auto.
  - destruct (IH H) as [Hin Hk]. auto.
Qed.

(* C04, field level: for every supported action type, under the rebuilt lookups cx, each authored argument a of codec c
   sits in the saved record in the field the SPECIFICATION names, holding enc_arg cx c a; the type byte is the type's own
   number; every field the specification leaves unused is zero *)
Theorem authored_action_reaches_the_spec_fields cx key args fl v :
  encode_entry_of cx gen_action_table action_flags_codec action_record_fields (ERich key args fl) = Ok v ->
  exists s, In s spec_action_table /\ se_id s = key /\
    forall f, In f action_record_fields -> f <> "_flags" ->
      match expected_src s f with
      | EZero => vint f v = 0
      | EOwnId => vint f v = key
      | EWavDuration => exists d, wav_duration cx args = Ok d /\ vint f v = d
      | EArg c a => exists x n, arg_get rarg a args = Ok x /\ enc_arg cx c x = Ok n /\ vint f v = n
      end.
Proof.
  intros H.
  destruct (find_entry key gen_action_table) as [te|] eqn:Hf; [|cbn [encode_entry_of] in H; rewrite Hf in H; discriminate].
  destruct (authored_action_fields _ _ _ _ _ _ Hf H) as (r & Hr & Hfields).
  destruct (find_entry_in _ _ _ Hf) as [Hin Hkey].
  destruct (every_generated_action_is_correct rarg (dec_arg cx) (enc_arg cx) (wav_duration cx) te Hin)
    as (s & Hs & Hk & Ho & Hm & Henc & _).
  exists s. split; [assumption|]. split; [congruence|].
  intros f Hinf Hne. specialize (Henc args r Hr f Hinf). rewrite (Hfields f Hinf Hne).
  destruct (expected_src s f).
  - rewrite Henc. reflexivity.
  - rewrite Henc. congruence.
  - destruct Henc as (d & Hd & Hg). exists d. rewrite Hg. auto.
  - destruct Henc as (x & n & Hx & Hn & Hg). exists x, n. rewrite Hg. auto.
Qed.
