(* C08: adding strings to a STR/STRx table — existing ids keep their text, every requested string
   gets an id that resolves to it, STR -> STRx preserves the id -> text map. *)
From Coq Require Import String NArith List Bool Lia PeanoNat.
From RC Require Import lib.Result lib.Bytes lib.Utf8 model.Str model.StrEditor
  proofs.Layout_proofs proofs.Str_proofs.
Import ListNotations.
Local Open Scope N_scope.

Definition clean (s : list N) : Prop := Forall (fun c => 0 < c /\ c < 128) s.

Lemma clean_ascii s : clean s -> Forall (fun c => c < 128) s.
Proof. intros H. eapply Forall_impl; [|exact H]. simpl. tauto. Qed.

(* ---- shape of the encoded table ---------------------------------------------------------------- *)

Lemma pack_length w v b : pack w v = Ok b -> length b = w.
Proof. intros H. apply pack_ok_inv in H as [_ ->]. apply le_encode_length. Qed.

Lemma enc_offsets_length w offs : forall n b,
  n = N.of_nat (length offs) -> enc_offsets w n offs = Ok b -> length b = (w * length offs)%nat.
Proof.
  induction offs as [|o r IH]; intros n b Hn H; simpl in *.
  - subst n. simpl in H. inversion H. simpl. lia.
  - destruct (n =? 0) eqn:E; [apply N.eqb_eq in E; lia|].
    inv_bind H as a Ha Hk. inv_bind Hk as b' Hb Hk2. inversion Hk2; subst.
    apply pack_length in Ha. apply IH in Hb; [|lia]. rewrite app_length. lia.
Qed.

Definition hdr_len (w : nat) (t : str_section) : nat := (w + w * length (ss_offsets t))%nat.

Lemma str_encode_shape w t bin :
  ss_num t = N.of_nat (length (ss_offsets t)) -> Forall clean (ss_strings t) ->
  str_encode w t = Ok bin ->
  exists H, bin = H ++ join (ss_strings t) /\ length H = hdr_len w t.
Proof.
  intros Hn Hc H. unfold str_encode in H.
  inv_bind H as h Hh Hk. inv_bind Hk as o Ho Hk2. inv_bind Hk2 as s Hs Hk3. inversion Hk3; subst bin.
  rewrite enc_strings_join in Hs by (exact Hc).
  inversion Hs; subst s. exists (h ++ o). split; [rewrite app_assoc; reflexivity|].
  apply pack_length in Hh. apply enc_offsets_length in Ho; [|assumption].
  rewrite app_length. unfold hdr_len. lia.
Qed.

(* ---- reading strings ---------------------------------------------------------------------------- *)

Lemma read_cstr_app a : forall b s, read_cstr a = Ok s -> read_cstr (a ++ b) = Ok s.
Proof.
  induction a as [|x a IH]; intros b s H; simpl in *; [discriminate|].
  destruct (128 <=? x); [discriminate|]. destruct (x =? 0); [assumption|].
  inv_bind H as t Ht Hk. inversion Hk; subst. rewrite (IH _ _ Ht). reflexivity.
Qed.

Lemma read_cstr_clean s rest : clean s -> read_cstr (s ++ 0 :: rest) = Ok s.
Proof.
  induction 1 as [|c r [Hc0 Hc1] Hr IH]; simpl; [reflexivity|].
  replace (128 <=? c) with false by (symmetry; apply N.leb_gt; assumption).
  replace (c =? 0) with false by (symmetry; apply N.eqb_neq; lia).
  rewrite IH. reflexivity.
Qed.

Lemma resolve_at H D j : (j < length D)%nat ->
  resolve (H ++ D) (N.of_nat (length H + j)) = read_cstr (skipn j D).
Proof.
  intros Hj. unfold resolve. rewrite app_length.
  replace (N.of_nat (length H + length D) <=? N.of_nat (length H + j)) with false
    by (symmetry; apply N.leb_gt; lia).
  rewrite Nat2N.id. rewrite skipn_app.
  rewrite skipn_all2 by lia. replace (length H + j - length H)%nat with j by lia. reflexivity.
Qed.

(* an offset into the data region that resolves *)
Definition in_data (w : nat) (t : str_section) (bin : bytes) (o : N) : Prop :=
  exists j, o = N.of_nat (hdr_len w t + j) /\ (hdr_len w t + j < length bin)%nat.

Record wf_table (w : nat) (t : str_section) (bin : bytes) : Prop := {
  wf_num : ss_num t = N.of_nat (length (ss_offsets t));
  wf_clean : Forall clean (ss_strings t);
  wf_enc : str_encode w t = Ok bin;
  wf_off : Forall (fun o => in_data w t bin o /\ exists s, resolve bin o = Ok s) (ss_offsets t);
}.

(* ---- make_unique ---------------------------------------------------------------------------------- *)

Lemma list_N_eqb_eq a : forall b, list_N_eqb a b = true <-> a = b.
Proof.
  induction a as [|x a IH]; intros [|y b]; simpl; split; intros H; try discriminate; try reflexivity.
  - apply andb_true_iff in H as [H1 H2]. apply N.eqb_eq in H1. apply IH in H2. subst. reflexivity.
  - inversion H; subst. rewrite N.eqb_refl. simpl. apply IH. reflexivity.
Qed.

Lemma mem_str_in s l : mem_str s l = true <-> In s l.
Proof.
  unfold mem_str. rewrite existsb_exists. split.
  - intros (x & Hx & He). apply list_N_eqb_eq in He. subst. assumption.
  - intros H. exists s. split; [assumption | apply list_N_eqb_eq; reflexivity].
Qed.

Lemma make_unique_spec req existing : forall acc,
  NoDup acc -> (forall s, In s acc -> ~ In s existing) ->
  let u := make_unique req existing acc in
  NoDup u /\ (forall s, In s u -> (In s acc \/ In s req) /\ ~ In s existing) /\
  (forall s, In s req -> In s existing \/ In s u) /\ (forall s, In s acc -> In s u).
Proof.
  induction req as [|x r IH]; intros acc Hnd Hacc; simpl.
  - split; [apply NoDup_rev; assumption|]. split; [|split].
    + intros s Hs. apply in_rev in Hs. split; [left; assumption | apply Hacc; assumption].
    + intros s [].
    + intros s Hs. apply in_rev. rewrite rev_involutive. assumption.
  - destruct (mem_str x existing || mem_str x acc) eqn:E.
    + destruct (IH acc Hnd Hacc) as (H1 & H2 & H3 & H4). split; [assumption|]. split; [|split].
      * intros s Hs. destruct (H2 s Hs) as [[Ha|Hr] Hne]; split; auto; right; right; assumption.
      * intros s [->|Hs]; [|apply H3; assumption].
        apply orb_true_iff in E as [E|E]; apply mem_str_in in E; [left; assumption | right; apply H4; assumption].
      * assumption.
    + apply orb_false_iff in E as [E1 E2].
      assert (~ In x existing) as Hx1 by (intros Hc; apply mem_str_in in Hc; congruence).
      assert (~ In x acc) as Hx2 by (intros Hc; apply mem_str_in in Hc; congruence).
      destruct (IH (x :: acc)) as (H1 & H2 & H3 & H4).
      * constructor; assumption.
      * intros s [<-|Hs]; [assumption | apply Hacc; assumption].
      * split; [assumption|]. split; [|split].
        -- intros s Hs. destruct (H2 s Hs) as [[[<-|Ha]|Hr] Hne]; (split; [|assumption]).
           ++ right. left. reflexivity.
           ++ left. assumption.
           ++ right. right. assumption.
        -- intros s [<-|Hs]; [right; apply H4; left; reflexivity | apply H3; assumption].
        -- intros s Hs. apply H4. right. assumption.
Qed.

(* ---- the new offsets point at the new strings ------------------------------------------------------- *)

Lemma join_app a b : join (a ++ b) = join a ++ join b.
Proof. unfold join. rewrite map_app, concat_app. reflexivity. Qed.

Lemma new_offsets_nth U : forall start t s,
  nth_error U t = Some s ->
  nth_error (new_offsets start U) t = Some (start + N.of_nat (length (join (firstn t U)))).
Proof.
  induction U as [|u r IH]; intros start t s H; destruct t as [|t]; simpl in *; try discriminate.
  - f_equal. lia.
  - rewrite (IH _ _ _ H). f_equal. unfold join. simpl. rewrite !app_length. simpl.
    fold (join (firstn t r)). lia.
Qed.

Lemma new_offsets_length U : forall start, length (new_offsets start U) = length U.
Proof. induction U as [|u r IH]; intros start; simpl; [reflexivity | rewrite IH; reflexivity]. Qed.

Lemma join_cons u r : join (u :: r) = (u ++ [0]) ++ join r.
Proof. reflexivity. Qed.

Lemma skipn_app_plus {A} (a b : list A) m : skipn (length a + m) (a ++ b) = skipn m b.
Proof.
  rewrite skipn_app. rewrite skipn_all2 by lia.
  replace (length a + m - length a)%nat with m by lia. reflexivity.
Qed.

Lemma join_skipn_nth U : forall t s, nth_error U t = Some s ->
  skipn (length (join (firstn t U))) (join U) = s ++ 0 :: join (skipn (S t) U).
Proof.
  induction U as [|u r IH]; intros t s H; destruct t as [|t]; try discriminate.
  - simpl in H. inversion H; subst. rewrite join_cons. simpl. rewrite <- app_assoc. reflexivity.
  - simpl in H. specialize (IH _ _ H).
    change (firstn (S t) (u :: r)) with (u :: firstn t r).
    rewrite !join_cons, app_length, skipn_app_plus. exact IH.
Qed.

Lemma join_firstn_lt U : forall t s, nth_error U t = Some s ->
  (length (join (firstn t U)) < length (join U))%nat.
Proof.
  intros t s H. pose proof (join_skipn_nth U t s H) as E.
  assert (length (skipn (length (join (firstn t U))) (join U)) > 0)%nat as Hl
    by (rewrite E, app_length; simpl; lia).
  rewrite skipn_length in Hl. lia.
Qed.

(* ---- main theorems ------------------------------------------------------------------------------------ *)

Section Add.
  Variables (w : nat) (req : list (list N)) (t t' : str_section) (bin : bytes).
  Hypothesis Hwf : wf_table w t bin.
  Hypothesis Hreq : Forall clean req.
  Hypothesis Hadd : add_strings w req t = Ok t'.

  Let existing_ok : exists existing, mapM (resolve bin) (ss_offsets t) = Ok existing.
  Proof.
    destruct Hwf as [_ _ _ Hoff]. induction Hoff as [|o r [_ [s Hs]] _ IH]; simpl; [eauto|].
    rewrite Hs. destruct IH as [e ->]. simpl. eauto.
  Qed.

  Definition uniq_of (existing : list (list N)) := make_unique req existing [].

  Lemma add_unfold : exists existing,
    mapM (resolve bin) (ss_offsets t) = Ok existing /\
    (uniq_of existing = [] /\ t' = t \/
     uniq_of existing <> [] /\
     t' = {| ss_num := ss_num t + N.of_nat (length (uniq_of existing));
             ss_offsets := map (fun o => o + N.of_nat w * N.of_nat (length (uniq_of existing))) (ss_offsets t)
                           ++ new_offsets (N.of_nat (length bin) + N.of_nat w * N.of_nat (length (uniq_of existing)))
                                          (uniq_of existing);
             ss_strings := ss_strings t ++ uniq_of existing |}).
  Proof.
    destruct existing_ok as [existing He]. exists existing. split; [assumption|].
    unfold add_strings in Hadd. rewrite (wf_enc _ _ _ Hwf) in Hadd. simpl in Hadd.
    rewrite He in Hadd. simpl in Hadd. unfold uniq_of.
    destruct (make_unique req existing []) as [|u0 ur] eqn:Eu.
    - left. inversion Hadd. auto.
    - right. split; [discriminate|]. inversion Hadd. reflexivity.
  Qed.
End Add.

(* ---- rebasing: same data region behind a different header, possibly followed by more data -------- *)

Lemma resolve_rebase H D H' X j s :
  (j < length D)%nat -> resolve (H ++ D) (N.of_nat (length H + j)) = Ok s ->
  resolve (H' ++ D ++ X) (N.of_nat (length H' + j)) = Ok s.
Proof.
  intros Hj Hr. rewrite resolve_at in Hr by assumption.
  rewrite resolve_at by (rewrite app_length; lia).
  rewrite skipn_app. replace (j - length D)%nat with 0%nat by lia. rewrite skipn_O.
  apply read_cstr_app. assumption.
Qed.

Lemma mapM_nth {A B} (f : A -> result B) l : forall l' i a,
  mapM f l = Ok l' -> nth_error l i = Some a -> exists b, f a = Ok b /\ nth_error l' i = Some b.
Proof.
  induction l as [|x r IH]; intros l' i a H Hn; [destruct i; discriminate|].
  simpl in H. inv_bind H as y Hy Hk. inv_bind Hk as ys Hys Hk2. inversion Hk2; subst.
  destruct i as [|i]; simpl in *.
  - inversion Hn; subst. eauto.
  - eapply IH; eauto.
Qed.

Lemma mapM_in {A B} (f : A -> result B) l : forall l' b,
  mapM f l = Ok l' -> In b l' -> exists i a, nth_error l i = Some a /\ f a = Ok b.
Proof.
  induction l as [|x r IH]; intros l' b H Hin; simpl in H.
  - inversion H; subst. destruct Hin.
  - inv_bind H as y Hy Hk. inv_bind Hk as ys Hys Hk2. inversion Hk2; subst.
    destruct Hin as [<-|Hin].
    + exists 0%nat, x. auto.
    + destruct (IH _ _ Hys Hin) as (i & a & Hn & Hf). exists (S i), a. auto.
Qed.

Lemma mapM_all_ok {A B} (f : A -> result B) l :
  Forall (fun a => exists b, f a = Ok b) l -> exists l', mapM f l = Ok l'.
Proof.
  induction 1 as [|a r [b Hb] _ [l' IH]]; simpl; [eauto|]. rewrite Hb, IH. simpl. eauto.
Qed.

Lemma make_unique_all_existing req existing : forall acc,
  (forall s, In s req -> In s existing) -> make_unique req existing acc = rev acc.
Proof.
  induction req as [|x r IH]; intros acc H; simpl; [reflexivity|].
  assert (mem_str x existing = true) as -> by (apply mem_str_in; apply H; left; reflexivity).
  simpl. apply IH. intros s Hs. apply H. right. assumption.
Qed.

(* what add_strings produces when something has to be added *)
Definition grown (w : nat) (t : str_section) (bin : bytes) (U : list (list N)) : str_section :=
  {| ss_num := ss_num t + N.of_nat (length U);
     ss_offsets := map (fun o => o + N.of_nat w * N.of_nat (length U)) (ss_offsets t)
                   ++ new_offsets (N.of_nat (length bin) + N.of_nat w * N.of_nat (length U)) U;
     ss_strings := ss_strings t ++ U |}.

Lemma grown_shape w t bin U bin' :
  wf_table w t bin -> Forall clean U -> str_encode w (grown w t bin U) = Ok bin' ->
  exists H H', bin = H ++ join (ss_strings t) /\ length H = hdr_len w t /\
               bin' = H' ++ join (ss_strings t) ++ join U /\
               length H' = (hdr_len w t + w * length U)%nat.
Proof.
  intros [Hn Hc He Ho] HU He'.
  destruct (str_encode_shape _ _ _ Hn Hc He) as (H & -> & HH).
  destruct (str_encode_shape w (grown w t (H ++ join (ss_strings t)) U) bin') as (H' & -> & HH').
  - simpl. rewrite app_length, map_length, new_offsets_length, Hn. lia.
  - simpl. apply Forall_app. split; assumption.
  - assumption.
  - exists H, H'. simpl. rewrite join_app. repeat split; try assumption.
    rewrite HH'. unfold hdr_len. simpl. rewrite app_length, map_length, new_offsets_length. lia.
Qed.

(* existing ids keep their text *)
Lemma grown_preserves w t bin U bin' i o s :
  wf_table w t bin -> Forall clean U -> str_encode w (grown w t bin U) = Ok bin' ->
  nth_error (ss_offsets t) i = Some o -> resolve bin o = Ok s ->
  exists o', nth_error (ss_offsets (grown w t bin U)) i = Some o' /\ resolve bin' o' = Ok s.
Proof.
  intros Hwf HU He' Hn Hr.
  destruct (grown_shape _ _ _ _ _ Hwf HU He') as (H & H' & Eb & HH & Eb' & HH').
  destruct Hwf as [Hnum Hc He Ho].
  rewrite Forall_forall in Ho. destruct (Ho o (nth_error_In _ _ Hn)) as [(j & Ej & Hj) _].
  exists (o + N.of_nat w * N.of_nat (length U)). split.
  - simpl. rewrite nth_error_app1 by (rewrite map_length; apply nth_error_Some; congruence).
    rewrite nth_error_map, Hn. reflexivity.
  - subst bin bin'. rewrite Ej in Hr |- *. rewrite <- HH in Hr.
    replace (N.of_nat (hdr_len w t + j) + N.of_nat w * N.of_nat (length U))
      with (N.of_nat (length H' + j)) by lia.
    rewrite app_length in Hj. eapply resolve_rebase; [|exact Hr]. lia.
Qed.

(* every new string has an id that resolves to it *)
Lemma grown_new_resolves w t bin U bin' k s :
  wf_table w t bin -> Forall clean U -> str_encode w (grown w t bin U) = Ok bin' ->
  nth_error U k = Some s ->
  exists o', nth_error (ss_offsets (grown w t bin U)) (length (ss_offsets t) + k) = Some o' /\
             resolve bin' o' = Ok s.
Proof.
  intros Hwf HU He' Hk.
  destruct (grown_shape _ _ _ _ _ Hwf HU He') as (H & H' & Eb & HH & Eb' & HH').
  eexists. split.
  - simpl. rewrite nth_error_app2 by (rewrite map_length; lia).
    rewrite map_length. replace (length (ss_offsets t) + k - length (ss_offsets t))%nat with k by lia.
    apply (new_offsets_nth _ _ _ _ Hk).
  - subst bin bin'.
    replace (N.of_nat (length (H ++ join (ss_strings t))) + N.of_nat w * N.of_nat (length U) +
             N.of_nat (length (join (firstn k U))))
      with (N.of_nat (length H' + (length (join (ss_strings t)) + length (join (firstn k U)))))
      by (rewrite app_length; lia).
    pose proof (join_firstn_lt _ _ _ Hk) as Hlt.
    rewrite resolve_at by (rewrite app_length; lia).
    rewrite skipn_app_plus. rewrite (join_skipn_nth _ _ _ Hk).
    apply read_cstr_clean. rewrite Forall_forall in HU. apply HU. eapply nth_error_In; eauto.
Qed.

(* the grown table is well-formed again *)
Lemma grown_wf w t bin U bin' :
  wf_table w t bin -> Forall clean U -> str_encode w (grown w t bin U) = Ok bin' ->
  wf_table w (grown w t bin U) bin'.
Proof.
  intros Hwf HU He'.
  destruct (grown_shape _ _ _ _ _ Hwf HU He') as (H & H' & Eb & HH & Eb' & HH').
  constructor.
  - simpl. rewrite app_length, map_length, new_offsets_length. rewrite (wf_num _ _ _ Hwf). lia.
  - simpl. apply Forall_app. split; [apply (wf_clean _ _ _ Hwf) | assumption].
  - assumption.
  - apply Forall_forall. intros o' Hin. apply In_nth_error in Hin as [i Hi].
    assert (hdr_len w (grown w t bin U) = (hdr_len w t + w * length U)%nat) as Hh
      by (unfold hdr_len; simpl; rewrite app_length, map_length, new_offsets_length; lia).
    destruct (Nat.lt_ge_cases i (length (ss_offsets t))) as [Hlt|Hge].
    + destruct (nth_error (ss_offsets t) i) as [o|] eqn:En; [|apply nth_error_None in En; lia].
      pose proof (wf_off _ _ _ Hwf) as Ho. rewrite Forall_forall in Ho.
      destruct (Ho o (nth_error_In _ _ En)) as [(j & Ej & Hj) [s Hs]].
      destruct (grown_preserves _ _ _ _ _ _ _ _ Hwf HU He' En Hs) as (o2 & Hn2 & Hr2).
      rewrite Hi in Hn2. inversion Hn2; subst o2. split; [|eauto].
      simpl in Hi. rewrite nth_error_app1 in Hi by (rewrite map_length; assumption).
      rewrite nth_error_map, En in Hi. inversion Hi; subst o'.
      exists j. rewrite Hh. split; [lia|]. subst bin bin'. rewrite !app_length in *. lia.
    + assert (i < length (ss_offsets (grown w t bin U)))%nat as Hb by (apply nth_error_Some; congruence).
      simpl in Hb. rewrite app_length, map_length, new_offsets_length in Hb.
      destruct (nth_error U (i - length (ss_offsets t))) as [s|] eqn:Ek; [|apply nth_error_None in Ek; lia].
      destruct (grown_new_resolves _ _ _ _ _ _ _ Hwf HU He' Ek) as (o2 & Hn2 & Hr2).
      replace (length (ss_offsets t) + (i - length (ss_offsets t)))%nat with i in Hn2 by lia.
      rewrite Hi in Hn2. inversion Hn2; subst o2. split; [|eauto].
      simpl in Hi. rewrite nth_error_app2 in Hi by (rewrite map_length; assumption).
      rewrite map_length in Hi. rewrite (new_offsets_nth _ _ _ _ Ek) in Hi. inversion Hi; subst o'.
      pose proof (join_firstn_lt _ _ _ Ek) as Hlt.
      exists (length (join (ss_strings t)) + length (join (firstn (i - length (ss_offsets t)) U)))%nat.
      rewrite Hh. subst bin bin'. rewrite !app_length in *. split; lia.
Qed.

(* ---- top level ------------------------------------------------------------------------------------ *)

Definition resolvable (t : str_section) (bin : bytes) (s : list N) : Prop :=
  exists i o, nth_error (ss_offsets t) i = Some o /\ resolve bin o = Ok s.

Lemma wf_mapM w t bin : wf_table w t bin -> exists e, mapM (resolve bin) (ss_offsets t) = Ok e.
Proof.
  intros Hwf. apply mapM_all_ok. eapply Forall_impl; [|exact (wf_off _ _ _ Hwf)]. simpl. tauto.
Qed.

Lemma add_noop_when_all_resolvable w req t bin :
  wf_table w t bin -> (forall s, In s req -> resolvable t bin s) -> add_strings w req t = Ok t.
Proof.
  intros Hwf Hall. unfold add_strings. rewrite (wf_enc _ _ _ Hwf). simpl.
  destruct (wf_mapM _ _ _ Hwf) as [e He]. rewrite He. simpl.
  rewrite make_unique_all_existing; [reflexivity|].
  intros s Hs. destruct (Hall s Hs) as (i & o & Hn & Hr).
  destruct (mapM_nth _ _ _ _ _ He Hn) as (b & Hb & Hnb). rewrite Hr in Hb. inversion Hb; subst.
  eapply nth_error_In; eauto.
Qed.

Theorem add_strings_correct w req t bin t' bin' :
  wf_table w t bin -> Forall clean req ->
  add_strings w req t = Ok t' -> str_encode w t' = Ok bin' ->
  wf_table w t' bin' /\
  (forall i o s, nth_error (ss_offsets t) i = Some o -> resolve bin o = Ok s ->
                 exists o', nth_error (ss_offsets t') i = Some o' /\ resolve bin' o' = Ok s) /\
  (forall s, In s req -> resolvable t' bin' s) /\
  (exists U, ss_strings t' = ss_strings t ++ U /\ NoDup U /\
             forall s, In s U -> In s req /\ ~ resolvable t bin s) /\
  add_strings w req t' = Ok t'.
Proof.
  intros Hwf Hreq Hadd He'.
  destruct (add_unfold w req t t' bin Hwf Hadd) as (existing & Hex & Hcase).
  pose proof (make_unique_spec req existing [] (NoDup_nil _) (fun s (H : In s []) => match H with end))
    as (Hnd & Hsub & Hcov & _).
  assert (forall s, In s existing -> resolvable t bin s) as Hex_res.
  { intros s Hs. destruct (mapM_in _ _ _ _ Hex Hs) as (i & o & Hn & Hr). exists i, o. auto. }
  assert (forall s, resolvable t bin s -> In s existing) as Hres_ex.
  { intros s (i & o & Hn & Hr). destruct (mapM_nth _ _ _ _ _ Hex Hn) as (b & Hb & Hnb).
    rewrite Hr in Hb. inversion Hb; subst. eapply nth_error_In; eauto. }
  destruct Hcase as [[Hu ->] | [Hu ->]].
  - (* nothing to add *)
    rewrite (wf_enc _ _ _ Hwf) in He'. inversion He'; subst bin'.
    split; [assumption|]. split; [eauto|]. split; [|split].
    + intros s Hs. destruct (Hcov s Hs) as [Hin|Hin]; [apply Hex_res; assumption|].
      unfold uniq_of in Hu. rewrite Hu in Hin. destruct Hin.
    + exists []. rewrite app_nil_r. split; [reflexivity|]. split; [constructor | intros s []].
    + assumption.
  - set (U := uniq_of req existing) in *. fold (grown w t bin U) in *.
    assert (Forall clean U) as HU.
    { apply Forall_forall. intros s Hs. destruct (Hsub s Hs) as [[[]|Hr] _].
      rewrite Forall_forall in Hreq. apply Hreq. assumption. }
    pose proof (grown_wf _ _ _ _ _ Hwf HU He') as Hwf'.
    assert (forall s, In s req -> resolvable (grown w t bin U) bin' s) as Hall.
    { intros s Hs. destruct (Hcov s Hs) as [Hin|Hin].
      - destruct (Hex_res s Hin) as (i & o & Hn & Hr).
        destruct (grown_preserves _ _ _ _ _ _ _ _ Hwf HU He' Hn Hr) as (o' & Hn' & Hr'). exists i, o'. auto.
      - apply In_nth_error in Hin as [k Hk].
        destruct (grown_new_resolves _ _ _ _ _ _ _ Hwf HU He' Hk) as (o' & Hn' & Hr'). eexists _, o'. eauto. }
    split; [assumption|]. split; [|split; [assumption|split]].
    + intros i o s Hn Hr. eapply grown_preserves; eauto.
    + exists U. split; [reflexivity|]. split; [assumption|].
      intros s Hs. destruct (Hsub s Hs) as [[[]|Hr] Hne]. split; [assumption|].
      intros Hc. apply Hne. apply Hres_ex. assumption.
    + apply (add_noop_when_all_resolvable _ _ _ _ Hwf' Hall).
Qed.

(* STR -> STRx keeps the id -> text map *)
Theorem strx_of_str_preserves t bin bin4 i o s :
  wf_table 2 t bin -> str_encode 4 (generate_strx t) = Ok bin4 ->
  nth_error (ss_offsets t) i = Some o -> resolve bin o = Ok s ->
  exists o', nth_error (ss_offsets (generate_strx t)) i = Some o' /\ resolve bin4 o' = Ok s.
Proof.
  intros [Hn Hc He Ho] He4 Hi Hr.
  destruct (str_encode_shape _ _ _ Hn Hc He) as (H & -> & HH).
  destruct (str_encode_shape 4 (generate_strx t) bin4) as (H4 & -> & HH4).
  - simpl. rewrite map_length. assumption.
  - assumption.
  - assumption.
  - rewrite Forall_forall in Ho. destruct (Ho o (nth_error_In _ _ Hi)) as [(j & Ej & Hj) _].
    exists (o + (2 + N.of_nat (length (ss_offsets t)) * 2)). split.
    + simpl. rewrite nth_error_map, Hi. reflexivity.
    + assert (length H4 = (4 + 4 * length (ss_offsets t))%nat) as HH4'
        by (rewrite HH4; unfold hdr_len; simpl; rewrite map_length; reflexivity).
      assert (length H = (2 + 2 * length (ss_offsets t))%nat) as HH' by (rewrite HH; reflexivity).
      assert (o = N.of_nat (length H + j)) as Ej' by (rewrite Ej, HH; reflexivity).
      rewrite Ej' in Hr.
      replace (o + (2 + N.of_nat (length (ss_offsets t)) * 2)) with (N.of_nat (length H4 + j)) by lia.
      rewrite app_length, HH in Hj.
      pose proof (resolve_rebase H (join (ss_strings t)) H4 [] j s) as R.
      rewrite app_nil_r in R. apply R; [lia | exact Hr].
Qed.

(* non-vacuity: the historical counterexample table is well-formed, and the theorem applies to it *)
Example wf_example :
  let t := {| ss_num := 1; ss_offsets := [4]; ss_strings := [[97]; [122; 122; 122]] |} in
  wf_table 2 t [1; 0; 4; 0; 97; 0; 122; 122; 122; 0].
Proof.
  constructor; simpl.
  - reflexivity.
  - repeat constructor; lia.
  - vm_compute. reflexivity.
  - repeat constructor.
    + exists 0%nat. split; [reflexivity | simpl; lia].
    + eexists. vm_compute. reflexivity.
Qed.
