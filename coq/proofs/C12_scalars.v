(* C12: hit points (fixed point) and AI-script tags are exact on their whole domain. *)
From Coq Require Import String NArith ZArith List Bool Lia ZifyN ZifyBool.
From RC Require Import lib.Result lib.Bytes lib.Utf8 model.Scalars gen.GenScalars proofs.Layout_proofs proofs.Utf8_proofs proofs.Utf8_inverse.
Import ListNotations.
Local Open Scope N_scope.
Ltac Zify.zify_post_hook ::= Z.div_mod_to_equations.

(* ---- hit points ------------------------------------------------------------------------------------- *)
(* 1 / HP_DIVISOR has a finite decimal expansion of 8 places: the Decimal quotient is exact *)
Lemma hp_quotient_exact : hp_scale mod HP_DIVISOR = 0 /\ HP_DIVISOR * (hp_scale / HP_DIVISOR) = hp_scale.
Proof. vm_compute. split; reflexivity. Qed.

Lemma hp_rate_is_divisor : HP_RATE = HP_DIVISOR.
Proof. reflexivity. Qed.

Lemma hp_number_to_rich_and_back raw : hp_encode (hp_decode raw) = raw.
Proof.
  unfold hp_encode, hp_decode. rewrite hp_rate_is_divisor.
  replace (raw * (hp_scale / HP_DIVISOR) * HP_DIVISOR) with (raw * hp_scale).
  - apply N.div_mul. vm_compute. discriminate.
  - destruct hp_quotient_exact as [_ H]. rewrite <- N.mul_assoc. rewrite (N.mul_comm (hp_scale / HP_DIVISOR)). rewrite H. reflexivity.
Qed.

(* a rich value that is a whole number of 1/HP_DIVISOR units (what decode produces; what a caller writes as
   e.g. Decimal("40") or Decimal("12.5")) survives encode then decode *)
Lemma hp_rich_to_number_and_back d : (hp_scale / HP_DIVISOR | d) -> hp_decode (hp_encode d) = d.
Proof.
  intros [k ->]. change (hp_encode (k * (hp_scale / HP_DIVISOR))) with (hp_encode (hp_decode k)).
  rewrite hp_number_to_rich_and_back. reflexivity.
Qed.

(* no rounding: for a u32 raw value the exact quotient has fewer than 28 significant digits, the precision of
   the default Decimal context *)
Lemma hp_within_decimal_precision raw : raw < 2 ^ 32 -> hp_decode raw < 10 ^ 28.
Proof.
  intros H. unfold hp_decode.
  assert (hp_scale / HP_DIVISOR = 390625) as -> by (vm_compute; reflexivity).
  assert (2 ^ 32 = 4294967296) as E by reflexivity. rewrite E in H.
  assert (10 ^ 28 = 10000000000000000000000000000) as -> by reflexivity. lia.
Qed.

Lemma hp_injective a b : hp_decode a = hp_decode b -> a = b.
Proof. intros H. rewrite <- (hp_number_to_rich_and_back a), <- (hp_number_to_rich_and_back b), H. reflexivity. Qed.

(* ---- AI scripts ------------------------------------------------------------------------------------- *)
Lemma list_N_eqb_eq a : forall b, list_N_eqb a b = true -> a = b.
Proof.
  induction a as [|x a IH]; intros [|y b] H; simpl in H; try discriminate; [reflexivity|].
  apply andb_true_iff in H as [H1 H2]. apply N.eqb_eq in H1. f_equal; auto.
Qed.

Lemma index_of_nth x t i : index_of x t = Some i -> nth_error t i = Some x.
Proof.
  revert i; induction t as [|y r IH]; intros i H; simpl in H; [discriminate|].
  destruct (list_N_eqb x y) eqn:E.
  - inversion H; subst. apply list_N_eqb_eq in E. subst. reflexivity.
  - destruct (index_of x r) as [j|] eqn:Ej; simpl in H; [|discriminate]. inversion H; subst. simpl. apply IH. reflexivity.
Qed.

Lemma pow256_4' : pow256 4 = 2 ^ 32.  Proof. reflexivity. Qed.

Theorem ai_number_to_rich_and_back n a : ai_decode n = Ok a -> ai_encode a = Ok n.
Proof.
  unfold ai_decode. destruct (n <? 2 ^ 32) eqn:En; [|discriminate]. apply N.ltb_lt in En.
  intros H. inv_bind H as s Hs Hk.
  assert (Henc : utf8_encode s = Ok (le_encode 4 n)) by (apply utf8_roundtrip; exact Hs).
  assert (Hfin : (do bs <- utf8_encode s; if Nat.eqb (length bs) 4 then Ok (le_decode bs) else Raise StructError) = Ok n).
  { rewrite Henc. cbn [bind]. rewrite le_encode_length. cbn [Nat.eqb]. f_equal. apply le_decode_encode. rewrite pow256_4'. exact En. }
  destruct (index_of (le_encode 4 n) gen_ai_tags) as [i|] eqn:Ei; inversion Hk; subst a; unfold ai_encode, ai_name_of.
  - rewrite (index_of_nth _ _ _ Ei). rewrite Hs. cbn [bind]. exact Hfin.
  - cbn [bind]. exact Hfin.
Qed.

(* a number is decoded to a member exactly when its four bytes ARE that member's tag *)
Theorem ai_known_iff_exact_tag n i :
  ai_decode n = Ok (AiKnown i) -> nth_error gen_ai_tags i = Some (le_encode 4 n).
Proof.
  unfold ai_decode. destruct (n <? 2 ^ 32); [|discriminate]. intros H. inv_bind H as s Hs Hk.
  destruct (index_of (le_encode 4 n) gen_ai_tags) as [j|] eqn:Ej; inversion Hk; subst. apply index_of_nth. exact Ej.
Qed.

Theorem ai_decode_injective n m a : ai_decode n = Ok a -> ai_decode m = Ok a -> n = m.
Proof.
  intros H1 H2. apply ai_number_to_rich_and_back in H1. apply ai_number_to_rich_and_back in H2. congruence.
Qed.

(* the table itself: every known tag is four bytes of valid UTF-8, all distinct, and each decodes to itself *)
Lemma ai_tags_wellformed :
  forallb (fun t => Nat.eqb (length t) 4 && match utf8_decode t with Ok _ => true | _ => false end) gen_ai_tags = true /\
  forallb (fun t => match ai_decode (le_decode t) with
                    | Ok (AiKnown i) => match nth_error gen_ai_tags i with Some t' => list_N_eqb t t' | None => false end
                    | _ => false end) gen_ai_tags = true /\
  (1 <= length gen_ai_tags)%nat.
Proof. split; [vm_compute; reflexivity|]. split; [vm_compute; reflexivity|]. vm_compute. repeat constructor. Qed.

(* not vacuous: an unknown but valid tag ("Ab1_") and a tag differing from a known one only in letter case
   ("jydg") decode to unknown scripts that keep their own bytes; an invalid UTF-8 tag is refused *)
Example ai_examples :
  ai_decode (le_decode [65; 98; 49; 95]) = Ok (AiUnknown [65; 98; 49; 95]) /\
  ai_decode (le_decode [106; 121; 100; 103]) = Ok (AiUnknown [106; 121; 100; 103]) /\
  ai_decode (le_decode [74; 89; 68; 103]) = Ok (AiKnown 0) /\
  ai_decode (le_decode [255; 65; 66; 67]) = Raise UnicodeError.
Proof. repeat split; vm_compute; reflexivity. Qed.

(* rich -> number -> rich: the number a script is written as decodes again, to a script of the same name *)
Theorem ai_rich_to_number_and_back a n :
  ai_encode a = Ok n -> exists a', ai_decode n = Ok a' /\ ai_name_of a' = ai_name_of a.
Proof.
  unfold ai_encode. intros H. inv_bind H as s Hs Hk. inv_bind Hk as bs Hbs Hk2.
  destruct (Nat.eqb (length bs) 4) eqn:El; [|discriminate]. inversion Hk2; subst n. clear Hk2.
  apply PeanoNat.Nat.eqb_eq in El. pose proof (Utf8_inverse.utf8_encode_bytes _ _ Hbs) as Hb.
  assert (bytes_ok bs) as Hok by exact Hb.
  pose proof (le_decode_bound bs Hok) as Hlt. rewrite El in Hlt.
  unfold ai_decode. assert ((le_decode bs <? 2 ^ 32) = true) as -> by (apply N.ltb_lt; exact Hlt).
  assert (le_encode 4 (le_decode bs) = bs) as Hrt by (rewrite <- El; apply le_encode_decode; exact Hok).
  cbv zeta. rewrite Hrt.
  rewrite (Utf8_inverse.utf8_encode_decode _ _ Hbs). cbn [bind].
  destruct (index_of bs gen_ai_tags) as [i|] eqn:Ei.
  - exists (AiKnown i). split; [reflexivity|]. unfold ai_name_of at 1. rewrite (index_of_nth _ _ _ Ei).
    rewrite (Utf8_inverse.utf8_encode_decode _ _ Hbs). symmetry. exact Hs.
  - exists (AiUnknown s). split; [reflexivity|]. symmetry. exact Hs.
Qed.
