(* C11, whole map: every table section that RichChkIo.encode_chk emits — re-encoded rich sections, the recomputed UPUS
   and the SWNM / UPRP / UPUS sections appended when the map had none — has exactly the size the format mandates
   (TRIG: a whole number of 2400-byte triggers), whatever the rich content is; otherwise some step raised. *)
From Coq Require Import String NArith List Bool Lia PeanoNat.
From RC Require Import lib.Result lib.Bytes model.Layout model.Str model.ChkIo model.Flags model.TrigTable model.RichCodec
  model.RichIo proofs.Layout_proofs proofs.C08_proofs proofs.C11_proofs gen.GenLayouts gen.GenConsts gen.GenTrig gen.GenFlags.
Import ListNotations.
Local Open Scope string_scope.
Local Open Scope list_scope.

(* ---- layouts whose every array is written by one struct.pack("{n}<code>", *xs): any value that encodes at all has the
        layout's size ------------------------------------------------------------------------------------------------ *)

Fixpoint all_strict (l : layout) : bool :=
  match l with
  | Prim _ => true
  | Arr _ st l' => st && all_strict l'
  | Seq a b => all_strict a && all_strict b
  | Named _ l' => all_strict l'
  | Unit => true
  | Many _ => false
  | Chunk _ _ => false
  end.

Theorem strict_encode_size l : forall v bs s,
  all_strict l = true -> size_l l = Some s -> encode_l l v = Ok bs -> length bs = s.
Proof.
  induction l as [w|n st l IH|a IHa b IHb|f l IH| |l IH|sz l IH]; intros v bs s Hst Hs H; simpl in *.
  - destruct v; try discriminate. inversion Hs; subst. apply pack_ok_inv in H as [_ ->]. apply le_encode_length.
  - destruct v as [|vs| | |]; try discriminate.
    apply andb_true_iff in Hst as [-> Hst]. simpl in H.
    destruct (size_l l) as [sl|] eqn:El; [|discriminate]. inversion Hs; subst.
    destruct (Nat.eqb (length vs) n) eqn:En; simpl in H; [|discriminate]. apply Nat.eqb_eq in En.
    rewrite (enc_list_length (encode_l l) sl vs bs); [lia | | assumption].
    intros x b0 _ Hb. eapply IH; eauto.
  - destruct v as [| |x y| |]; try discriminate. apply andb_true_iff in Hst as [Hsa Hsb].
    destruct (size_l a) as [sa|] eqn:Ea; [|discriminate]. destruct (size_l b) as [sb|] eqn:Eb; [|discriminate].
    inversion Hs; subst.
    inv_bind H as p Hp Hk. inv_bind Hk as q Hq Hk2. inversion Hk2; subst. rewrite app_length.
    rewrite (IHa _ _ _ Hsa eq_refl Hp), (IHb _ _ _ Hsb eq_refl Hq). reflexivity.
  - destruct v as [| | |g x|]; try discriminate. destruct (String.eqb f g); [|discriminate]. eapply IH; eauto.
  - destruct v; try discriminate. inversion H; inversion Hs; subst. reflexivity.
  - discriminate.
  - discriminate.
Qed.

(* ---- the size the format mandates, by section name ------------------------------------------------------------------ *)

Definition mandated (name : string) (len : nat) : Prop :=
  if String.eqb name "MRGN" then len = 5100
  else if String.eqb name "TRIG" then exists k, len = k * 2400
  else if String.eqb name "UNIS" then len = 4048
  else if String.eqb name "UNIx" then len = 4168
  else if String.eqb name "UPRP" then len = 1280
  else if String.eqb name "UPUS" then len = 64
  else if String.eqb name "SWNM" then len = 1024
  else if String.eqb name "WAV " then len = 2048
  else True.

Definition payload_ok (s : dsection) : Prop :=
  match s with
  | DTab name v =>
      forall dec enc payload, lookup_str name section_table = Some (KTab dec enc) ->
                              encode_l enc v = Ok payload -> mandated name (length payload)
  | _ => True
  end.

Lemma strict_sections :
  forall name dec enc, lookup_str name section_table = Some (KTab dec enc) ->
    name <> "MRGN" -> name <> "TRIG" -> name <> "UPRP" ->
    all_strict enc = true /\ exists s, size_l enc = Some s /\ forall len, len = s -> mandated name len.
Proof.
  intros name dec enc H N1 N2 N3. unfold section_table in H. cbn [gen_string_sections gen_layouts map app fst snd lookup_str] in H.
  repeat match type of H with
         | (if String.eqb name ?s then _ else _) = _ =>
             let E := fresh "E" in destruct (String.eqb name s) eqn:E;
             [apply String.eqb_eq in E; subst name; try discriminate H; try congruence|]
         end; try discriminate H;
  injection H as <- <-; (split; [reflexivity|]); eexists; (split; [reflexivity|]); intros len ->; reflexivity.
Qed.

(* ---- MRGN: 255 slots of 20 bytes ------------------------------------------------------------------------------------ *)

Definition loc_layout : layout :=
  match enc_MRGN with Seq (Named _ (Many l)) _ => l | _ => Unit end.

Lemma loc_layout_facts : wf_l loc_layout = true /\ size_l loc_layout = Some 20.
Proof. split; reflexivity. Qed.

Lemma loc_encode_fits L l v : loc_encode L l = Ok v -> fits loc_layout v = true.
Proof.
  unfold loc_encode. intros H. inv_bind H as sid Hs Hk. inv_bind Hk as fl Hf Hk2. inversion Hk2; subst. reflexivity.
Qed.

Theorem mrgn_section_is_5100 L ls v bs :
  mrgn_encode L ls = Ok v -> encode_l enc_MRGN v = Ok bs -> length bs = 5100.
Proof.
  unfold mrgn_encode. intros H He. inv_bind H as slots Hs Hk. inversion Hk; subst v.
  assert (forallb (fits loc_layout) slots = true) as Hall.
  { apply forallb_of_Forall. eapply mapM_forall; [|exact Hs]. intros i v Hv. cbv beta in Hv.
    destruct (assocN_last _ _); [eapply loc_encode_fits; eauto | inversion Hv; reflexivity]. }
  assert (length slots = 255) as Hlen.
  { rewrite (mapM_length _ _ _ Hs). rewrite seq_map_length. reflexivity. }
  assert (enc_MRGN = Seq (Named "_locations" (Many loc_layout)) Unit) as E by reflexivity.
  rewrite E in He. cbn [encode_l mk_struct] in He. rewrite String.eqb_refl in He.
  inv_bind He as p Hp Hk2. inv_bind Hk2 as q Hq Hk3. inversion Hq; subst q. inversion Hk3; subst bs. rewrite app_nil_r.
  change (enc_list (encode_l loc_layout) slots = Ok p) with (encode_l (Many loc_layout) (VList slots) = Ok p) in Hp.
  rewrite (encode_many_size loc_layout slots p 20 (proj1 loc_layout_facts) (proj2 loc_layout_facts) Hall Hp), Hlen.
  reflexivity.
Qed.

(* ---- UPRP: 64 slots of 20 bytes ------------------------------------------------------------------------------------- *)

Definition cuwp_layout : layout :=
  match enc_UPRP with Seq (Named _ (Arr _ _ l)) _ => l | _ => Unit end.

Lemma cuwp_encode_fits c v : cuwp_encode c = Ok v -> fits cuwp_layout v = true.
Proof.
  unfold cuwp_encode. intros H. inv_bind H as a Ha Hk. inv_bind Hk as b Hb Hk2. inv_bind Hk2 as f Hf Hk3.
  inversion Hk3; subst. reflexivity.
Qed.

Theorem uprp_section_is_1280 cs v bs :
  uprp_encode cs = Ok v -> encode_l enc_UPRP v = Ok bs -> length bs = 1280.
Proof.
  unfold uprp_encode. intros H He. destruct (existsb _ cs); [discriminate|].
  inv_bind H as slots Hs Hk. inversion Hk; subst v.
  assert (forallb (fits cuwp_layout) slots = true) as Hall.
  { apply forallb_of_Forall. eapply mapM_forall; [|exact Hs]. intros i v Hv. cbv beta in Hv.
    destruct (assocN_last _ _); [eapply cuwp_encode_fits; eauto | inversion Hv; reflexivity]. }
  assert (length slots = 64) as Hlen.
  { rewrite (mapM_length _ _ _ Hs). rewrite seq_map_length. reflexivity. }
  eapply (encode_size enc_UPRP); [reflexivity | reflexivity | | exact He].
  assert (enc_UPRP = Seq (Named "_cuwp_slots" (Arr 64 false cuwp_layout)) Unit) as E by reflexivity.
  rewrite E. cbn [fits mk_struct]. rewrite String.eqb_refl, Hlen, Hall. reflexivity.
Qed.

(* ---- the whole save --------------------------------------------------------------------------------------------------- *)

(* every section that has a rich model is held in its rich form, under its own name (what decode_chk produces and
   the editors keep; a hand-built DecodedTrigSection smuggled into a RichChk is outside "rich content") *)
Definition rich_form_sec (s : rsection) : bool :=
  match s with
  | RDecodedTab n _ => negb (is_rich_name n)
  | RUnis _ n _ => String.eqb n "UNIS" || String.eqb n "UNIx"
  | _ => true
  end.

Lemma mandated_trig len : (exists k, len = k * 2400) -> mandated "TRIG" len.
Proof. intros H. exact H. Qed.

Lemma payload_ok_strict name v :
  name <> "MRGN" -> name <> "TRIG" -> name <> "UPRP" -> payload_ok (DTab name v).
Proof.
  intros N1 N2 N3 dec enc payload Hl He.
  destruct (strict_sections name dec enc Hl N1 N2 N3) as (Hst & s & Hs & Hm).
  apply Hm. eapply strict_encode_size; eauto.
Qed.

Lemma payload_ok_mrgn L ls v : mrgn_encode L ls = Ok v -> payload_ok (DTab "MRGN" v).
Proof.
  intros H dec enc payload Hl He. vm_compute in Hl. injection Hl as <- <-.
  unfold mandated. cbn [String.eqb Ascii.eqb Bool.eqb]. eapply mrgn_section_is_5100; eauto.
Qed.

Lemma payload_ok_uprp cs v : uprp_encode cs = Ok v -> payload_ok (DTab "UPRP" v).
Proof.
  intros H dec enc payload Hl He. vm_compute in Hl. injection Hl as <- <-.
  change (length payload = 1280). eapply uprp_section_is_1280; eauto.
Qed.

Lemma payload_ok_trig cx ts v : trig_encode cx ts = Ok v -> payload_ok (DTab "TRIG" v).
Proof.
  intros H dec enc payload Hl He. vm_compute in Hl. injection Hl as <- <-.
  change (exists k, length payload = k * 2400). exists (length ts). eapply trig_section_is_whole_triggers; eauto.
Qed.

Theorem save_emits_mandated_sizes wd r d :
  forallb rich_form_sec r = true -> save wd r = Ok d -> Forall payload_ok d.
Proof.
  unfold save. intros Hrf H.
  inv_bind H as new_str H1 H. inv_bind H as mr H2 H. inv_bind H as sw H3 H. inv_bind H as up H4 H.
  inv_bind H as us H5 H. inv_bind H as SL H6 H. inv_bind H as chk H7 H. inv_bind H as secs Hm H.
  inv_bind H as e1 He1 H. inv_bind H as e2 He2 H. inversion H; subst d. clear H.
  assert (payload_ok (DTab "UPUS" us)) as Hupus by (apply payload_ok_strict; discriminate).
  apply Forall_app; split; [|apply Forall_app; split; [|apply Forall_app; split]].
  - (* the sections at their original positions *)
    apply Forall_forall. intros y Hy.
    destruct (mapM_in _ _ _ _ Hm Hy) as (ix & x & Hx & Hfx). apply nth_error_In in Hx.
    rewrite forallb_forall in Hrf. specialize (Hrf x Hx).
    destruct x as [ls|ts|nw n usx|cs|ss|ws|n w m|n v|n p]; cbn beta iota in Hfx.
    + inv_bind Hfx as v Hv Hk. inversion Hk; subst y. eapply payload_ok_mrgn; eauto.
    + inv_bind Hfx as v Hv Hk. inversion Hk; subst y. eapply payload_ok_trig; eauto.
    + inv_bind Hfx as v Hv Hk. inversion Hk; subst y. cbn [rich_form_sec] in Hrf.
      apply orb_true_iff in Hrf as [E|E]; apply String.eqb_eq in E; subst n; apply payload_ok_strict; discriminate.
    + inv_bind Hfx as v Hv Hk. inversion Hk; subst y. eapply payload_ok_uprp; eauto.
    + inv_bind Hfx as v Hv Hk. inversion Hk; subst y. apply payload_ok_strict; discriminate.
    + inv_bind Hfx as v Hv Hk. inversion Hk; subst y. apply payload_ok_strict; discriminate.
    + destruct (String.eqb n "STR "); inversion Hfx; subst y; exact I.
    + cbn [rich_form_sec] in Hrf. apply negb_true_iff in Hrf.
      destruct (String.eqb n "UPUS") eqn:Eu.
      * inversion Hfx; subst y. apply String.eqb_eq in Eu. subst n. exact Hupus.
      * inversion Hfx; subst y. apply payload_ok_strict; intros ->; vm_compute in Hrf; discriminate.
    + inversion Hfx; subst y. exact I.
  - match type of He1 with (if ?c then _ else _) = _ => destruct c end; [inversion He1; constructor|].
    inv_bind He1 as v Hv Hk. inversion Hk; subst e1. constructor; [|constructor]. apply payload_ok_strict; discriminate.
  - match type of He2 with (if ?c then _ else _) = _ => destruct c end; [inversion He2; constructor|].
    inv_bind He2 as v Hv Hk. inversion Hk; subst e2. constructor; [|constructor]. eapply payload_ok_uprp; eauto.
  - match goal with |- Forall _ (if ?c then _ else _) => destruct c end; constructor; [exact Hupus | constructor].
Qed.

(* the premise is satisfiable in a non-trivial way: whatever load produces is in rich form *)
Lemma load_section_rich_form cx s r : load_section cx s = Ok r -> rich_form_sec r = true.
Proof.
  destruct s as [n w m|n v|n p]; cbn [load_section]; intros H; try (inversion H; reflexivity).
  destruct (negb (is_rich_name n)) eqn:En; [inversion H; subst; exact En|].
  destruct (String.eqb n "MRGN"); [inv_bind H as x Hx Hk; inversion Hk; reflexivity|].
  destruct (String.eqb n "TRIG"); [inv_bind H as x Hx Hk; inversion Hk; reflexivity|].
  destruct (String.eqb n "UNIS") eqn:E1; [inversion H; subst; cbn [rich_form_sec]; rewrite E1; reflexivity|].
  destruct (String.eqb n "UNIx") eqn:E2; [inversion H; subst; cbn [rich_form_sec]; rewrite E2; apply orb_true_r|].
  destruct (String.eqb n "UPRP"); [inv_bind H as x Hx Hk; inversion Hk; reflexivity|].
  destruct (String.eqb n "SWNM"); [inv_bind H as x Hx Hk; inversion Hk; reflexivity|].
  destruct (String.eqb n "WAV "); [inversion H; reflexivity|discriminate].
Qed.

Theorem loaded_maps_are_in_rich_form d r : load d = Ok r -> forallb rich_form_sec r = true.
Proof.
  unfold load. intros H. inv_bind H as cx Hcx Hm. apply forallb_of_Forall.
  eapply mapM_forall; [|exact Hm]. intros a b Hab. eapply load_section_rich_form; eauto.
Qed.

(* the editors keep the rich form *)
Theorem add_triggers_keeps_rich_form new r r' :
  add_triggers new r = Ok r' -> forallb rich_form_sec r = true -> forallb rich_form_sec r' = true.
Proof.
  unfold add_triggers. destruct (flat_map _ r) as [|ts0 rest]; [discriminate|]. intros H Hr. inversion H; subst r'.
  rewrite forallb_forall in *. intros x Hx. apply in_map_iff in Hx as (y & <- & Hy). specialize (Hr y Hy).
  destruct y; assumption.
Qed.
