(* C06 facts: generated layouts = spec layouts; offsets theorem instantiated on the spec. *)
From Coq Require Import String NArith List Bool Lia PeanoNat.
From RC Require Import lib.Result lib.Bytes lib.Tree model.Layout
  proofs.Layout_proofs proofs.Layout_offsets proofs.ChkIo_proofs gen.GenLayouts spec.SpecLayouts.
Import ListNotations.
Local Open Scope N_scope.

(* generated decode layout = spec; generated encode layout = spec up to the strict-count flag *)
Definition matches_spec (g : string * (layout * layout)) (s : string * layout) : bool :=
  String.eqb (fst g) (fst s) && layout_eqb (fst (snd g)) (snd s) && layout_eqb (erase (snd (snd g))) (snd s)
  && wf_l (snd s).

Fixpoint all2 {A B} (f : A -> B -> bool) (a : list A) (b : list B) : bool :=
  match a, b with
  | [], [] => true
  | x :: a', y :: b' => f x y && all2 f a' b'
  | _, _ => false
  end.

Lemma gen_layouts_match_spec : all2 matches_spec gen_layouts spec_layouts = true.
Proof. vm_compute. reflexivity. Qed.

Lemma all2_in {A B} (f : A -> B -> bool) a b x :
  all2 f a b = true -> In x a -> exists y, In y b /\ f x y = true.
Proof.
  revert b; induction a as [|x0 a IH]; intros [|y0 b] H Hin; simpl in *; try discriminate; [tauto|].
  apply andb_true_iff in H as [H1 H2]. destruct Hin as [->|Hin].
  - exists y0. auto.
  - destruct (IH _ H2 Hin) as (y & Hy & Hf). exists y. auto.
Qed.

Lemma gen_layout_is_spec name dec enc :
  In (name, (dec, enc)) gen_layouts ->
  exists spec, In (name, spec) spec_layouts /\ dec = spec /\ erase enc = spec /\ wf_l spec = true.
Proof.
  intros Hin. destruct (all2_in _ _ _ _ gen_layouts_match_spec Hin) as ([n s] & Hs & Hm).
  unfold matches_spec in Hm. simpl in Hm.
  apply andb_true_iff in Hm as [Hm Hw]. apply andb_true_iff in Hm as [Hm He].
  apply andb_true_iff in Hm as [Hn Hd]. apply String.eqb_eq in Hn. subst n.
  apply layout_eqb_eq in Hd. apply layout_eqb_eq in He. exists s. auto.
Qed.

(* ---- C06: the spec layouts are well-formed, and the generated ones are the spec ones ------------ *)
Lemma spec_layouts_wf : forallb (fun e => wf_l (snd e)) spec_layouts = true.
Proof. vm_compute. reflexivity. Qed.

Lemma spec_field_at_offset name spec :
  In (name, spec) spec_layouts ->
  forall fuel bs v rest p o w x,
    decode_l fuel spec bs = Ok (v, rest) -> locate spec p = Some (o, Prim w) -> get spec v p = Some x ->
    x = VInt (le_decode (slice bs o w)).
Proof.
  intros Hin fuel bs v rest p o w x. apply field_at_offset.
  pose proof spec_layouts_wf as H. rewrite forallb_forall in H. apply (H _ Hin).
Qed.

Lemma spec_encode_at_offset name spec :
  In (name, spec) spec_layouts ->
  forall fuel bs v rest p o w x pre,
    bytes_ok bs -> decode_l fuel spec bs = Ok (v, rest) -> encode_l spec v = Ok pre ->
    locate spec p = Some (o, Prim w) -> get spec v p = Some (VInt x) -> (o + w <= length pre)%nat ->
    le_decode (slice pre o w) = x.
Proof.
  intros Hin fuel bs v rest p o w x pre Hok. apply encode_at_offset; [assumption|].
  pose proof spec_layouts_wf as H. rewrite forallb_forall in H. apply (H _ Hin).
Qed.

(* non-vacuity of the offset theorem: a concrete UPRP payload, slot 10's resource amount *)
Example uprp_field_example :
  let payload := (repeat 0 208 ++ [1; 2; 3; 4] ++ repeat 0 1068)%N in
  exists v, decode_l 2000 spec_UPRP payload = Ok (v, []) /\
            get spec_UPRP v [SField "_cuwp_slots"; SIndex 10; SField "_resource_amount"] = Some (VInt 67305985).
Proof. eexists. split; vm_compute; reflexivity. Qed.
