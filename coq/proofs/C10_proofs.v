(* C10: unmodelled content passes through both layers untouched and in place. *)
From Coq Require Import String NArith List Bool Lia.
From RC Require Import lib.Result lib.Bytes model.Layout model.Str model.ChkIo model.TrigTable model.RichCodec model.RichIo
  proofs.Layout_proofs proofs.C08_proofs proofs.C05_proofs.
Import ListNotations.
Local Open Scope string_scope.
Local Open Scope list_scope.
Local Open Scope N_scope.

(* what has no rich model: unknown names, STRx and any other string-section that is not "STR ", recognised table
   sections without a rich transcoder other than UPUS (which is recomputed) *)
Definition unmodelled (s : dsection) : bool :=
  match s with
  | DUnknown _ _ => true
  | DStr n _ _ => negb (String.eqb n "STR ")
  | DTab n _ => negb (is_rich_name n) && negb (String.eqb n "UPUS")
  end.

Definition as_rich (s : dsection) : rsection :=
  match s with
  | DUnknown n p => RUnknown n p
  | DStr n w m => RDecodedStr n w m
  | DTab n v => RDecodedTab n v
  end.

Lemma load_section_unmodelled cx s : unmodelled s = true -> load_section cx s = Ok (as_rich s).
Proof.
  destruct s as [n w m|n v|n p]; simpl; intros H; try reflexivity.
  apply andb_true_iff in H as [H _]. rewrite H. reflexivity.
Qed.

(* loading keeps every section at its position; an unmodelled one is carried over as it is *)
Theorem load_passthrough d r i s :
  load d = Ok r -> nth_error d i = Some s -> unmodelled s = true -> nth_error r i = Some (as_rich s).
Proof.
  unfold load. intros H Hn Hu. inv_bind H as cx Hcx Hm.
  destruct (mapM_nth _ _ _ _ _ Hm Hn) as (y & Hy & Hny).
  rewrite load_section_unmodelled in Hy by assumption. inversion Hy; subst. exact Hny.
Qed.

Lemma load_length d r : load d = Ok r -> length r = length d.
Proof. unfold load. intros H. inv_bind H as cx Hcx Hm. eapply mapM_length; eauto. Qed.

(* saving keeps every section at its position; the carried-over ones come out byte for byte *)
Theorem save_passthrough wd r d' i s :
  save wd r = Ok d' -> nth_error r i = Some (as_rich s) -> unmodelled s = true -> nth_error d' i = Some s.
Proof.
  unfold save. intros H Hn Hu.
  inv_bind H as new_str H1 H. inv_bind H as mr H2 H. inv_bind H as sw H3 H. inv_bind H as up H4 H.
  inv_bind H as us H5 H. inv_bind H as SL H6 H. inv_bind H as chk H7 H. inv_bind H as secs Hm H.
  inv_bind H as e1 He1 H. inv_bind H as e2 He2 H. inversion H; subst d'.
  destruct (mapM_nth _ _ _ _ _ Hm Hn) as (y & Hy & Hny).
  rewrite nth_error_app1 by (apply nth_error_Some; congruence).
  rewrite Hny. f_equal.
  destruct s as [n w m|n v|n p]; simpl in Hy, Hu.
  - apply negb_true_iff in Hu. rewrite Hu in Hy. inversion Hy; reflexivity.
  - apply andb_true_iff in Hu as [_ Hu]. apply negb_true_iff in Hu. rewrite Hu in Hy. inversion Hy; reflexivity.
  - inversion Hy; reflexivity.
Qed.

(* the trigger editor leaves every non-TRIG section where and as it was *)
Theorem add_triggers_keeps_other_sections new r r' i s :
  add_triggers new r = Ok r' -> nth_error r i = Some s ->
  (forall ts, s <> RTrig ts) -> nth_error r' i = Some s.
Proof.
  unfold add_triggers. destruct (flat_map _ r) as [|ts0 rest]; [discriminate|].
  intros H Hn Hs. inversion H; subst r'. rewrite nth_error_map, Hn. simpl.
  destruct s; try reflexivity. exfalso. eapply Hs; reflexivity.
Qed.

(* load -> any edits that keep position i -> save: an unmodelled section comes out unchanged, at position i *)
Corollary unmodelled_section_survives d r r' wd d' i s :
  load d = Ok r -> nth_error d i = Some s -> unmodelled s = true ->
  nth_error r' i = nth_error r i ->            (* the edits did not touch position i *)
  save wd r' = Ok d' -> nth_error d' i = Some s.
Proof.
  intros Hl Hn Hu Hsame Hs. eapply save_passthrough; eauto.
  rewrite Hsame. eapply load_passthrough; eauto.
Qed.

(* ---- raw trigger entries -------------------------------------------------------------------------------------- *)

Definition entry_val (fields : list string) (vals : list N) : val := mk_struct (combine fields (map VInt vals)).

Lemma vint_mk_struct_notin f fs : ~ In f (map fst fs) -> vint f (mk_struct fs) = 0.
Proof.
  unfold vint. induction fs as [|[g x] fs IH]; simpl; intros H; [reflexivity|].
  destruct (String.eqb_spec f g) as [->|Hne]; [exfalso; apply H; left; reflexivity|].
  apply IH. intros Hin. apply H. right. assumption.
Qed.

Lemma rec_val_val_rec fields : NoDup fields -> forall vals, length vals = length fields ->
  rec_val fields (val_rec fields (entry_val fields vals)) = entry_val fields vals.
Proof.
  intros Hnd vals Hlen. unfold rec_val, val_rec, entry_val. f_equal.
  (* field by field: looking a field up in the record of looked-up fields gives the field's value *)
  assert (forall fs vs all, length vs = length fs -> NoDup fs ->
            (forall f, In f fs -> vint f (mk_struct all) = vint f (mk_struct (combine fs (map VInt vs))) ) ->
            map (fun f => (f, VInt (match rec_get f (map (fun g => (g, vint g (mk_struct all))) fs) with
                                    | Ok n => n | Raise _ => 0 end))) fs
            = combine fs (map VInt vs)) as K.
  { induction fs as [|f fs IH]; intros vs all Hl Hn Hall; destruct vs as [|v vs]; simpl in Hl; try discriminate;
      [reflexivity|].
    inversion Hn as [|? ? Hnotin Hn']; subst. simpl. rewrite String.eqb_refl. f_equal.
    - f_equal. f_equal. rewrite Hall by (left; reflexivity). unfold vint. simpl. rewrite String.eqb_refl. reflexivity.
    - rewrite <- (IH vs all); [|lia|assumption|].
      + apply map_ext_in. intros g Hg. simpl.
        destruct (String.eqb_spec g f) as [->|Hne]; [contradiction | reflexivity].
      + intros g Hg. rewrite Hall by (right; assumption). unfold vint. simpl.
        destruct (String.eqb_spec g f) as [->|Hne]; [contradiction | reflexivity]. }
  apply K; [assumption | assumption | reflexivity].
Qed.

(* an entry whose type byte is outside the enumeration is kept raw and written back identically *)
Theorem unknown_entry_roundtrip cx cx' table enum idf flagc fields vals :
  NoDup fields -> length vals = length fields ->
  enum_has enum (vint idf (entry_val fields vals)) = false ->
  exists e, decode_entry_of cx table enum idf flagc fields (entry_val fields vals) = Ok (Some e) /\
            encode_entry_of cx' table flagc fields e = Ok (entry_val fields vals).
Proof.
  intros Hnd Hlen Hnot. unfold decode_entry_of. rewrite Hnot. simpl.
  eexists. split; [reflexivity|]. simpl. rewrite rec_val_val_rec by assumption. reflexivity.
Qed.

(* an entry whose type is in the enumeration but has no transcoder (transmission, comment, ...) likewise *)
Theorem unsupported_entry_roundtrip cx cx' table enum idf flagc fields vals :
  NoDup fields -> length vals = length fields ->
  let id := vint idf (entry_val fields vals) in
  id <> NO_ENTRY -> find_entry id table = None ->
  exists e, decode_entry_of cx table enum idf flagc fields (entry_val fields vals) = Ok (Some e) /\
            encode_entry_of cx' table flagc fields e = Ok (entry_val fields vals).
Proof.
  intros Hnd Hlen id Hid Hnone. unfold decode_entry_of. fold id.
  destruct (enum_has enum id); simpl.
  - replace (id =? NO_ENTRY) with false by (symmetry; apply N.eqb_neq; assumption).
    rewrite Hnone. eexists. split; [reflexivity|]. simpl. rewrite rec_val_val_rec by assumption. reflexivity.
  - eexists. split; [reflexivity|]. simpl. rewrite rec_val_val_rec by assumption. reflexivity.
Qed.

Lemma record_fields_nodup : NoDup action_record_fields /\ NoDup condition_record_fields.
Proof.
  split; apply C05_proofs.nodup_strs_spec; vm_compute; reflexivity.
Qed.
