(* C02, "every numeric setting keeps its value, every string reference resolves to the same text", for one trigger entry
   of ANY registered type through an unedited load and save: the record a supported condition / action is written back as
   holds, field by field, the same type number, the same flag bits (the five the format defines), the same number in every
   field read as a plain number or an enumeration member, a string number resolving to the same text in every field read
   as a string, and 0 in the fields the type does not use (the last is the recorded finding unused-fields-zeroed: those
   the format says the game ignores for this type). *)
From Coq Require Import String NArith List Bool Lia PeanoNat.
From RC Require Import lib.Result lib.Bytes model.Layout model.Flags model.TrigTable model.RichCodec model.Str
  proofs.Layout_proofs proofs.Flags_proofs proofs.C03_proofs proofs.C05_proofs proofs.C08_proofs proofs.C10_proofs
  proofs.C04_proofs proofs.C04_readback proofs.C12_proofs proofs.Save_strings gen.GenTrig spec.SpecTrig gen.GenFlags gen.GenEnums.
Import ListNotations.
Local Open Scope string_scope.
Local Open Scope list_scope.
Local Open Scope N_scope.

(* the one computed field is fed by the argument "_duration_ms" *)
Definition spec_wav_ok (s : spec_entry) : bool :=
  forallb (fun row => let '(a, c, f) := row in
             negb (src_eqb (expected_src s f) EWavDuration) || String.eqb a "_duration_ms") (se_args s).

Section Survive.
  Variable table : list trig_entry.
  Variable spec : list spec_entry.
  Variable fields : list string.
  Variable idf enum : string.
  Variable flagc : flag_codec.

  Hypothesis Hmatch : tables_match fields table spec = true.
  Hypothesis Hspec : forallb (spec_entry_ok fields idf) spec = true.
  Hypothesis Hwav : forallb spec_wav_ok spec = true.
  Hypothesis Hnd : NoDup fields.
  Hypothesis Hidf : In idf fields /\ idf <> "_flags".
  Hypothesis Hfl : In "_flags" fields.
  Hypothesis Hflags : forall x, x < 256 -> num_roundtrip flagc 5 x.

  Theorem rich_entry_values_survive cx cx' v key args fl v' :
    decode_entry_of cx table enum idf flagc fields v = Ok (Some (ERich key args fl)) ->
    encode_entry_of cx' table flagc fields (ERich key args fl) = Ok v' ->
    vint "_flags" v < 256 ->
    exists te s,
      find_entry key table = Some te /\ In s spec /\ se_id s = key /\
      vint idf v' = vint idf v /\
      vint "_flags" v' = vint "_flags" v mod 2 ^ 5 /\
      (forall a c f, In (a, c, f) (te_dec te) ->
         exists x, dec_arg cx c (vint f v) = Ok x /\
                   (enc_arg cx' c x = Ok (vint f v') \/ (c = CRaw /\ vint f v' = vint f v))) /\
      (forall f, In f fields -> f <> "_flags" -> expected_src s f = EZero -> vint f v' = 0) /\
      (forall x, In x (te_dec te) <-> In x (se_args s)) /\
      (exists r', v' = rec_val fields r').
  Proof.
    intros Hd He Hsmall. unfold decode_entry_of in Hd. cbv zeta in Hd.
    destruct (enum_has enum (vint idf v)) eqn:Hen; cbn [negb] in Hd; [|discriminate].
    destruct (vint idf v =? NO_ENTRY) eqn:Hnz; [discriminate|].
    destruct (find_entry (vint idf v) table) as [te|] eqn:Hf; [|discriminate].
    inv_bind Hd as args0 Hargs0 Hk. inv_bind Hk as fl0 Hfl0 Hk2. inversion Hk2; subst key args0 fl0. clear Hk2.
    cbn [encode_entry_of] in He. rewrite Hf in He.
    inv_bind He as r Hr Hk. inv_bind Hk as fx Hfx Hk2. inversion Hk2; subst v'. clear Hk2.
    destruct (find_entry_in _ _ _ Hf) as [Hin Hkey].
    destruct (tables_match_in _ _ _ _ Hmatch Hin) as (s & Hs & Hm).
    rewrite forallb_forall in Hspec. pose proof (Hspec _ Hs) as Hok. unfold spec_entry_ok in Hok.
    apply andb_true_iff in Hok as [Hown Hrows]. apply src_eqb_eq in Hown. rewrite forallb_forall in Hrows.
    rewrite forallb_forall in Hwav. pose proof (Hwav _ Hs) as Hw. unfold spec_wav_ok in Hw. rewrite forallb_forall in Hw.
    destruct (entry_matches_facts _ _ _ Hm) as (Hk & Ho & _ & Hdec & _ & _ & _ & _ & _).
    destruct (matched_entry_correct rarg (dec_arg cx) (enc_arg cx') (wav_duration cx') _ idf _ _ Hm Hown)
      as (_ & _ & _ & Henc & Hdecode & _ & _ & _).
    specialize (Henc args r Hr).
    set (r' := map (fun p : string * N => if String.eqb (fst p) "_flags" then (fst p, fx) else p) r).
    assert (forall f, In f fields -> f <> "_flags" -> forall n, rec_get f r = Ok n -> vint f (rec_val fields r') = n) as Hfield.
    { intros f Hinf Hne n Hn. rewrite vint_rec_val by assumption. unfold r'.
      rewrite rec_get_map_flags by assumption. rewrite Hn. reflexivity. }
    exists te, s. split; [exact Hf|]. split; [assumption|]. split; [congruence|]. split; [|split; [|split; [|split; [|split]]]].
    - destruct Hidf as [Hi1 Hi2]. apply Hfield; [assumption|assumption|].
      pose proof (Henc idf Hi1) as E. rewrite Hown in E. rewrite E. congruence.
    - rewrite vint_rec_val by assumption. unfold r'.
      pose proof (Henc "_flags" Hfl) as E.
      assert (exists y, rec_get "_flags" r = Ok y) as [y Hy].
      { destruct (expected_src s "_flags"); [eauto|eauto| |].
        - destruct E as (d & _ & E). eauto.
        - destruct E as (x & n & _ & _ & E). eauto. }
      rewrite (rec_get_map_flags_hit _ _ _ Hy).
      destruct (flags_roundtrip _ _ _ (Hflags _ Hsmall)) as (bs & Hbs & Hto).
      rewrite Hbs in Hfl0. inversion Hfl0; subst bs. rewrite Hto in Hfx. inversion Hfx. reflexivity.
    - intros a c f Hrow. pose proof (proj1 (Hdec _) Hrow) as Hsa.
      pose proof (Hrows _ Hsa) as Hb. cbv beta iota in Hb.
      apply andb_true_iff in Hb as [Hb Hnf]. apply andb_true_iff in Hb as [Hsrc Hinf].
      apply negb_true_iff in Hnf. apply String.eqb_neq in Hnf.
      apply existsb_exists in Hinf as (f' & Hinf & Ef). apply String.eqb_eq in Ef. subst f'.
      destruct (Hdecode _ _ Hargs0 a c f Hsa) as (v0 & x & Hv0 & Hx & Hget).
      rewrite rec_get_val_rec in Hv0 by assumption. inversion Hv0; subst v0. clear Hv0.
      exists x. split; [assumption|].
      pose proof (Henc f Hinf) as E.
      apply orb_true_iff in Hsrc as [Hsrc|Hsrc].
      + apply src_eqb_eq in Hsrc. rewrite Hsrc in E. destruct E as (x2 & n & Hx2 & Hn & Hg).
        rewrite Hget in Hx2. inversion Hx2; subst x2. left. rewrite (Hfield f Hinf Hnf n Hg). assumption.
      + apply andb_true_iff in Hsrc as [Hsrc Hc]. apply src_eqb_eq in Hsrc. apply codec_eqb_eq in Hc. subst c.
        rewrite Hsrc in E. destruct E as (d & Hd & Hg). right. split; [reflexivity|].
        rewrite (Hfield f Hinf Hnf d Hg).
        pose proof (Hw _ Hsa) as Hwa. cbv beta iota in Hwa. rewrite Hsrc in Hwa. cbn [src_eqb negb orb] in Hwa.
        apply String.eqb_eq in Hwa. subst a.
        cbn [dec_arg] in Hx. inversion Hx; subst x. unfold wav_duration in Hd. rewrite Hget in Hd. inversion Hd. reflexivity.
    - intros f Hinf Hne Hz. apply Hfield; [assumption|assumption|].
      pose proof (Henc f Hinf) as E. rewrite Hz in E. exact E.
    - exact Hdec.
    - exists r'. reflexivity.
  Qed.
End Survive.

Lemma action_wav_ok : forallb spec_wav_ok spec_action_table = true.
Proof. vm_compute. reflexivity. Qed.
Lemma condition_wav_ok : forallb spec_wav_ok spec_condition_table = true.
Proof. vm_compute. reflexivity. Qed.

Definition action_values_survive :=
  rich_entry_values_survive gen_action_table spec_action_table action_record_fields "_action_id" "TriggerActionId"
    action_flags_codec action_table_matches action_spec_ok action_wav_ok (proj1 record_fields_nodup)
    (conj (or_intror (or_intror (or_intror (or_intror (or_intror (or_intror (or_intror (or_introl eq_refl))))))))
          (fun H : "_action_id" = "_flags" => ltac:(discriminate H)))
    (or_intror (or_intror (or_intror (or_intror (or_intror (or_intror (or_intror (or_intror (or_intror (or_introl eq_refl))))))))))
    action_flags_num.

Definition condition_values_survive :=
  rich_entry_values_survive gen_condition_table spec_condition_table condition_record_fields "_condition_id" "TriggerConditionId"
    condition_flags_codec condition_table_matches condition_spec_ok condition_wav_ok (proj2 record_fields_nodup)
    (conj (or_intror (or_intror (or_intror (or_intror (or_intror (or_introl eq_refl))))))
          (fun H : "_condition_id" = "_flags" => ltac:(discriminate H)))
    (or_intror (or_intror (or_intror (or_intror (or_intror (or_intror (or_intror (or_introl eq_refl))))))))
    condition_flags_num.

(* ---- per codec: what "the same value" means ---------------------------------------------------------------------------- *)

(* a field read as a plain number or as an enumeration member is written back with the same number *)
Lemma numeric_codec_same_number cx cx' c n x n' :
  (c = CRaw \/ exists E, c = CEnum E) -> dec_arg cx c n = Ok x -> enc_arg cx' c x = Ok n' -> n' = n.
Proof.
  intros [->|[E ->]] Hd He; cbn [dec_arg] in Hd.
  - inversion Hd; subst x. cbn [enc_arg] in He. inversion He. reflexivity.
  - destruct (enum_has E n); [|discriminate]. inversion Hd; subst x. cbn [enc_arg] in He. inversion He. reflexivity.
Qed.

(* a field read as a string is written back with a number that resolves, in the table being written, to the same text *)
Lemma string_codec_same_text cx cx' n x n' :
  N.of_nat (length (sl_by_id (cx_str cx'))) <= 1000000 ->
  dec_arg cx CStr n = Ok x -> enc_arg cx' CStr x = Ok n' -> str_by_id (cx_str cx') n' = str_by_id (cx_str cx) n.
Proof.
  intros Hsmall Hd He. cbn [dec_arg] in Hd. inversion Hd; subst x. cbn [enc_arg] in He.
  destruct (id_by_str_resolves _ _ _ Hsmall He) as [H _]. exact H.
Qed.
