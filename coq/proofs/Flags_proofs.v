From Coq Require Import NArith List Bool String Lia.
From RC Require Import lib.Result lib.Finite model.Flags.
Import ListNotations.
Local Open Scope N_scope.

Lemma rich_eqb_eq a b : rich_eqb a b = true -> a = b.
Proof.
  revert b; induction a as [|[f x] a IH]; intros [|[g y] b]; simpl; intros H; try discriminate; [reflexivity|].
  apply andb_true_iff in H as [H H3]. apply andb_true_iff in H as [H1 H2].
  apply String.eqb_eq in H1. apply Bool.eqb_prop in H2. subst. f_equal. apply IH; assumption.
Qed.

Definition num_roundtrip (c : flag_codec) (nbits x : N) : Prop :=
  exists r, fdecode c x = Ok r /\ fencode c r = Ok (x mod 2 ^ nbits).

Definition rich_roundtrip (c : flag_codec) (nbits : N) (bs : list bool) : Prop :=
  exists x, fencode c (rich_of_bools c bs) = Ok x /\ x < 2 ^ nbits /\
            fdecode c x = Ok (rich_of_bools c bs).

Lemma num_roundtrip_sound c nb x : num_roundtrip_ok c nb x = true -> num_roundtrip c nb x.
Proof.
  unfold num_roundtrip_ok, num_roundtrip. destruct (fdecode c x) as [r|]; [|discriminate].
  unfold result_N_eqb. destruct (fencode c r) as [v|] eqn:E; [|discriminate].
  intros H. apply N.eqb_eq in H. subst. exists r. split; [reflexivity | exact E].
Qed.

Lemma rich_roundtrip_sound c nb bs : rich_roundtrip_ok c nb bs = true -> rich_roundtrip c nb bs.
Proof.
  unfold rich_roundtrip_ok, rich_roundtrip. destruct (fencode c (rich_of_bools c bs)) as [x|]; [|discriminate].
  intros H. apply andb_true_iff in H as [H1 H2]. apply N.ltb_lt in H1.
  destruct (fdecode c x) as [r'|] eqn:D; [|discriminate]. apply rich_eqb_eq in H2. subst.
  exists x. split; [reflexivity | split; [exact H1 | exact D]].
Qed.

Lemma num_sweep c nb bound :
  forall_below bound (num_roundtrip_ok c nb) = true -> forall x, x < bound -> num_roundtrip c nb x.
Proof. intros H x Hx. apply num_roundtrip_sound. eapply forall_below_spec; eauto. Qed.

Lemma rich_sweep c nb n :
  forallb (rich_roundtrip_ok c nb) (all_bools n) = true ->
  forall bs : list bool, List.length bs = n -> rich_roundtrip c nb bs.
Proof.
  intros H bs Hl. apply rich_roundtrip_sound. rewrite forallb_forall in H. apply H.
  apply all_bools_complete. assumption.
Qed.

(* injectivity of the rich -> number direction follows from the rich round trip *)
Lemma rich_injective c nb bs1 bs2 :
  rich_roundtrip c nb bs1 -> rich_roundtrip c nb bs2 ->
  fencode c (rich_of_bools c bs1) = fencode c (rich_of_bools c bs2) ->
  rich_of_bools c bs1 = rich_of_bools c bs2.
Proof.
  intros (x1 & E1 & _ & D1) (x2 & E2 & _ & D2) H. rewrite E1, E2 in H. inversion H; subst. congruence.
Qed.
