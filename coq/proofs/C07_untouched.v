(* C07: a section the edits give no reason to change is byte-identical to what saving the unedited map produces.
   Proved here for the sections whose encoding consults the map only through the string table (WAV, UNIS, UNIx): the base
   map r0 and ANY edited map r' that still holds the same decoded STR section and the same rich section at position i are
   saved (each with its own new strings, locations, switches, unit-property sets, with or without sound metadata); the
   two outputs hold the same section at position i.  The reason is Save_strings: both string tables are growths of the
   base table, and a growth never renumbers a text the base table knew. *)
From Coq Require Import String NArith List Bool Lia PeanoNat.
From RC Require Import lib.Result lib.Bytes model.Layout model.Str model.StrEditor model.ChkIo model.TrigTable model.RichCodec
  model.RichIo proofs.Layout_proofs proofs.C08_proofs proofs.Save_strings.
Import ListNotations.
Local Open Scope string_scope.
Local Open Scope list_scope.

(* every text the section mentions had an id in the base table *)
Definition names_known (T : list (list N)) (s : rsection) : Prop :=
  match s with
  | RWav ws => forall w, In w ws -> known {| sl_by_id := T |} (fst w)
  | RUnis _ _ us => forall u, In u us -> known {| sl_by_id := T |} (u_name u)
  | _ => False
  end.

Lemma only_singleton {A} (l : list A) x : l = [x] -> only l = Ok x.
Proof. intros ->. reflexivity. Qed.

(* the string lookup a save works with is a growth of the base table's lookup *)
Lemma save_lookup_is_a_growth r m bin T new_str L :
  filter (named "STR ") r = [RDecodedStr "STR " 2 m] ->
  wf_table 2 m bin -> build_lookup 2 m = Ok T -> Forall clean (flat_map section_strings r) ->
  rebuild_str r = Ok new_str -> build_str_lookup 2 new_str = Ok L ->
  exists U, L = {| sl_by_id := T ++ U |} /\ forall s, In s U -> ~ In s T.
Proof.
  intros Hf Hwf HT Hc Hr HL. unfold rebuild_str in Hr. rewrite Hf in Hr. cbn [only bind] in Hr.
  unfold build_str_lookup in HL. inv_bind HL as T' HT' Hk. inversion Hk; subst L.
  destruct (add_strings_lookup 2 _ m bin new_str T T' Hwf Hc Hr HT HT') as (U & -> & _ & HU & _).
  exists U. split; [reflexivity|]. intros s Hs. apply (HU s Hs).
Qed.

Theorem untouched_string_section_is_identical r0 r' wd0 wd' d0 d' m bin T i s :
  filter (named "STR ") r0 = [RDecodedStr "STR " 2 m] ->
  filter (named "STR ") r' = [RDecodedStr "STR " 2 m] ->
  wf_table 2 m bin -> build_lookup 2 m = Ok T ->
  Forall clean (flat_map section_strings r0) -> Forall clean (flat_map section_strings r') ->
  nth_error r0 i = Some s -> nth_error r' i = Some s -> names_known T s ->
  save wd0 r0 = Ok d0 -> save wd' r' = Ok d' ->
  nth_error d' i = nth_error d0 i.
Proof.
  intros Hf0 Hf' Hwf HT Hc0 Hc' Hn0 Hn' Hk Hs0 Hs'.
  unfold save in Hs0, Hs'.
  inv_bind Hs0 as ns0 A1 Hs0. inv_bind Hs0 as mr0 A2 Hs0. inv_bind Hs0 as sw0 A3 Hs0. inv_bind Hs0 as up0 A4 Hs0.
  inv_bind Hs0 as us0 A5 Hs0. inv_bind Hs0 as L0 A6 Hs0. inv_bind Hs0 as ck0 A7 Hs0. inv_bind Hs0 as secs0 Am Hs0.
  inv_bind Hs0 as e10 A8 Hs0. inv_bind Hs0 as e20 A9 Hs0. inversion Hs0; subst d0. clear Hs0.
  inv_bind Hs' as ns' B1 Hs'. inv_bind Hs' as mr' B2 Hs'. inv_bind Hs' as sw' B3 Hs'. inv_bind Hs' as up' B4 Hs'.
  inv_bind Hs' as us' B5 Hs'. inv_bind Hs' as L' B6 Hs'. inv_bind Hs' as ck' B7 Hs'. inv_bind Hs' as secs' Bm Hs'.
  inv_bind Hs' as e1' B8 Hs'. inv_bind Hs' as e2' B9 Hs'. inversion Hs'; subst d'. clear Hs'.
  destruct (save_lookup_is_a_growth _ _ _ _ _ _ Hf0 Hwf HT Hc0 A1 A6) as (U0 & -> & HU0).
  destruct (save_lookup_is_a_growth _ _ _ _ _ _ Hf' Hwf HT Hc' B1 B6) as (U' & -> & HU').
  pose proof (growths_agree T U0 U' HU0 HU') as Hag.
  destruct (mapM_nth _ _ _ _ _ Am Hn0) as (y0 & Hy0 & Hny0).
  destruct (mapM_nth _ _ _ _ _ Bm Hn') as (y' & Hy' & Hny').
  rewrite !nth_error_app1 by (apply nth_error_Some; congruence).
  rewrite Hny0, Hny'. f_equal.
  destruct s as [ls|ts|nw n us|cs|ss|ws|n w ms|n v|n p]; cbn [names_known] in Hk; try contradiction; cbv beta iota in Hy0, Hy'.
  - (* UNIS / UNIx *)
    assert (unis_encode {| sl_by_id := T ++ U' |} nw us = unis_encode {| sl_by_id := T ++ U0 |} nw us) as E.
    { apply unis_encode_agree. intros x Hx. apply in_map_iff in Hx as (u & <- & Hu). apply Hag. apply Hk. exact Hu. }
    rewrite E in Hy'. congruence.
  - (* WAV *)
    assert (wav_encode {| sl_by_id := T ++ U' |} ws = wav_encode {| sl_by_id := T ++ U0 |} ws) as E.
    { apply wav_encode_agree. intros x Hx. apply in_map_iff in Hx as (w & <- & Hw). apply Hag. apply Hk. exact Hw. }
    rewrite E in Hy'. congruence.
Qed.

(* what decode hands out satisfies the premise: the texts of a decoded WAV / unit-settings section are known to the table *)
Lemma wav_decode_names_known L v : names_known (sl_by_id L) (RWav (wav_decode L v)).
Proof.
  cbn [names_known]. unfold wav_decode.
  assert (forall ids k w, In w ((fix go (ids : list N) (k : N) : list (rstr * N) :=
             match ids with
             | [] => []
             | sid :: r => if N.eqb sid GenConsts.UNUSED_WAV_STRING_ID then go r (k + 1)%N else (str_by_id L sid, k) :: go r (k + 1)%N
             end) ids k) -> known {| sl_by_id := sl_by_id L |} (fst w)) as G.
  { induction ids as [|sid r IH]; intros k w Hw; [destruct Hw|].
    destruct (N.eqb sid GenConsts.UNUSED_WAV_STRING_ID); [eapply IH; eauto|].
    destruct Hw as [<-|Hw]; [|eapply IH; eauto]. simpl. destruct L. apply str_by_id_known. }
  intros w Hw. eapply G. exact Hw.
Qed.

Lemma unis_decode_names_known L nw n v : names_known (sl_by_id L) (RUnis nw n (unis_decode L v)).
Proof.
  cbn [names_known]. intros u Hu. unfold unis_decode in Hu. apply filter_In in Hu as [Hu _].
  apply in_map_iff in Hu as (k & <- & _). cbn [unit_decode u_name]. destruct L. apply str_by_id_known.
Qed.
