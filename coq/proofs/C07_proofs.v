(* C07: additive edits leave what exists alone — the model-level facts the property is composed of. *)
From Coq Require Import String NArith List Bool Lia.
From RC Require Import lib.Result lib.Bytes model.Layout model.Str model.StrEditor model.Alloc model.ChkIo model.TrigTable
  model.RichCodec model.RichIo proofs.Layout_proofs proofs.C08_proofs proofs.Alloc_proofs proofs.C09_proofs proofs.C10_proofs.
Import ListNotations.
Local Open Scope string_scope.
Local Open Scope list_scope.
Local Open Scope N_scope.

(* adding triggers appends: every pre-existing trigger of the (only) trigger section keeps its content and position *)
Theorem add_triggers_keeps_existing_triggers new r r' i ts :
  add_triggers new r = Ok r' -> nth_error r i = Some (RTrig ts) ->
  (forall j ts', nth_error r j = Some (RTrig ts') -> j = i) ->          (* one trigger section *)
  nth_error r' i = Some (RTrig (ts ++ new)) /\
  forall k t, nth_error ts k = Some t -> nth_error (ts ++ new) k = Some t.
Proof.
  unfold add_triggers. intros H Hn Huniq.
  assert (forall l, (forall j ts', nth_error l j = Some (RTrig ts') -> False) ->
                    flat_map (fun s => match s with RTrig x => [x] | _ => [] end) l = []) as Hnil.
  { induction l as [|s l IHl]; intros Hnone; [reflexivity|]. simpl.
    destruct s as [ls|ts0|nw nm us|cs|ss|ws|n w m|n v|n p];
      try (apply IHl; intros j ts' Hj; exact (Hnone (S j) ts' Hj)).
    exfalso. exact (Hnone 0%nat ts0 eq_refl). }
  assert (flat_map (fun s => match s with RTrig x => [x] | _ => [] end) r = [ts]) as E.
  { clear H. revert i Hn Huniq. induction r as [|s r IH]; intros i Hn Huniq; [destruct i; discriminate|].
    destruct i as [|i]; simpl in Hn.
    - inversion Hn; subst s. simpl. f_equal. apply Hnil.
      intros j ts' Hj. specialize (Huniq (S j) ts' Hj). discriminate.
    - simpl. destruct s as [ls|ts0|nw nm us|cs|ss|ws|n w m|n v|n p];
        try (apply (IH i Hn); intros j ts' Hj; specialize (Huniq (S j) ts' Hj); lia).
      exfalso. specialize (Huniq 0%nat ts0 eq_refl). discriminate. }
  rewrite E in H. inversion H; subst r'. split.
  - rewrite nth_error_map, Hn. reflexivity.
  - intros k t Hk. rewrite nth_error_app1; [assumption | apply nth_error_Some; congruence].
Qed.

(* the string table only grows by texts that no id resolved to; every existing id keeps its text (C08, instantiated
   on the save path's rebuild) *)
Theorem rebuild_str_keeps_every_string_id r m m' bin bin' :
  filter (named "STR ") r = [RDecodedStr "STR " 2 m] ->
  wf_table 2 m bin -> Forall clean (flat_map section_strings r) ->
  rebuild_str r = Ok m' -> str_encode 2 m' = Ok bin' ->
  forall i o s, nth_error (ss_offsets m) i = Some o -> resolve bin o = Ok s ->
    exists o', nth_error (ss_offsets m') i = Some o' /\ resolve bin' o' = Ok s.
Proof.
  intros Hf Hwf Hc Hr He. unfold rebuild_str in Hr. rewrite Hf in Hr. simpl in Hr.
  destruct (add_strings_correct 2 _ _ _ _ _ Hwf Hc Hr He) as (_ & Hkeep & _). exact Hkeep.
Qed.

(* the slots given to new locations / unit-property sets were empty: no existing slot is overwritten *)
Theorem new_location_slots_were_empty existing reqs outs :
  add_locations existing reqs = Ok outs -> forall i, In i (placed_ids outs) -> ~ In i existing.
Proof. intros H. destruct (add_locations_sound _ _ _ H) as (_ & _ & Hfree & _). exact Hfree. Qed.

Theorem new_unit_property_slots_were_empty existing reqs outs :
  add_cuwp_slots existing reqs = Ok outs -> forall i, In i (placed_ids outs) -> ~ In i existing.
Proof. intros H. destruct (add_cuwp_slots_sound _ _ _ H) as (_ & _ & Hfree & _). exact Hfree. Qed.

(* the known limitation, as a refutation on the model: with the trigger list split over two TRIG sections, adding one
   trigger replaces BOTH sections by the first one's extended list *)
Example split_trig_refuted :
  let t := {| t_conds := []; t_acts := []; t_players := [] |} in
  let t2 := {| t_conds := []; t_acts := []; t_players := [1] |} in
  add_triggers [t] [RTrig [t]; RTrig [t2]] = Ok [RTrig [t; t]; RTrig [t; t]].
Proof. reflexivity. Qed.
