(* C09 / C14: the four slot tables, with the constants read from the source. *)
From Coq Require Import String NArith List Bool Lia PeanoNat Permutation.
From RC Require Import lib.Result model.Alloc proofs.Alloc_proofs gen.GenConsts.
Import ListNotations.
Local Open Scope N_scope.

Definition table_sound (lo hi : N) (reserved : list N) (existing : list N) (reqs : list request) (outs : list outcome) : Prop :=
  Forall2 outcome_fits reqs outs /\                       (* objects that carry an index keep it, or are not placed *)
  NoDup (placed_ids outs) /\                              (* no slot is given to two objects *)
  (forall i, In i (placed_ids outs) -> ~ In i existing) /\   (* every slot used was empty *)
  (forall i, In i (fresh_ids reqs outs) ->                  (* new ids: inside the range, not reserved, free *)
     lo <= i /\ i <= hi /\ ~ In i reserved /\ ~ In i existing).

Lemma engine_table_sound b rg lo count reserved existing reqs outs :
  engine b true rg reqs existing (free_ids lo count reserved existing) = Ok outs ->
  table_sound lo (lo + count - 1) reserved existing reqs outs.
Proof.
  intros H.
  destruct (engine_sound b rg _ _ _ _ H (free_ids_nodup _ _ _ _)) as (F & N1 & N2 & N3 & N4).
  { intros i Hi. apply free_ids_spec in Hi. tauto. }
  repeat split; try assumption.
  - apply N3 in H0. apply free_ids_spec in H0. lia.
  - apply N3 in H0. apply free_ids_spec in H0. lia.
  - apply N3 in H0. apply free_ids_spec in H0. tauto.
  - apply N3 in H0. apply free_ids_spec in H0. tauto.
Qed.

Theorem add_locations_sound existing reqs outs :
  add_locations existing reqs = Ok outs ->
  table_sound 1 255 [64] existing (carried_first reqs) outs.
Proof.
  unfold add_locations. destruct (existsb _ _); [discriminate|]. intros H.
  apply (engine_table_sound true (Some (1, MAX_LOCATIONS)) 1 MAX_LOCATIONS [ANYWHERE_LOCATION_ID]) in H. exact H.
Qed.

Theorem add_cuwp_slots_sound existing reqs outs :
  add_cuwp_slots existing reqs = Ok outs ->
  table_sound 1 64 [] existing (carried_first reqs) outs.
Proof. intros H. apply (engine_table_sound false None 1 MAX_CUWP_SLOTS []) in H. exact H. Qed.

Theorem add_wav_files_sound existing reqs outs :
  add_wav_files existing reqs = Ok outs -> table_sound 0 511 [] existing reqs outs.
Proof. intros H. apply (engine_table_sound false None 0 MAX_WAV_FILES []) in H. exact H. Qed.

Theorem add_switches_sound existing reqs outs :
  add_switches existing reqs = Ok outs -> table_sound 0 255 [] existing (carried_first reqs) outs.
Proof. intros H. apply (engine_table_sound false None 0 MAX_SWITCHES []) in H. exact H. Qed.

(* SWNM rebuild: ids handed to unnamed-index switches are in range, distinct, and never an index that
   some used switch carries *)
Theorem rebuild_swnm_sound reqs outs :
  rebuild_swnm reqs = Ok outs ->
  NoDup (fresh_ids reqs outs) /\
  forall i, In i (fresh_ids reqs outs) -> i <= 255 /\ ~ In i (carried_ids reqs).
Proof.
  unfold rebuild_swnm. destruct (existsb _ _); [discriminate|]. intros H.
  destruct (engine_fresh_sound false false None _ _ _ _ H (free_ids_nodup _ _ _ _)) as [A B].
  split; [assumption|]. intros i Hi. apply A in Hi. apply free_ids_spec in Hi.
  unfold MAX_SWITCHES in Hi. split; [lia | tauto].
Qed.

Lemma count_fresh_carried_first reqs : count_fresh (carried_first reqs) = count_fresh reqs.
Proof.
  unfold carried_first, count_fresh. rewrite filter_app, app_length.
  induction reqs as [|r reqs IH]; simpl; [reflexivity|]. destruct r; simpl; lia.
Qed.

Lemma in_carried_first r reqs : In r (carried_first reqs) -> In r reqs.
Proof. unfold carried_first. rewrite in_app_iff, !filter_In. tauto. Qed.

(* exhaustion raises (CUWP, WAV, SWNM editor, SWNM rebuild); a table with nothing new to place is never blocked *)
Theorem cuwp_exhaustion_raises existing reqs :
  (length (free_ids 1 MAX_CUWP_SLOTS [] existing) < count_fresh (carried_first reqs))%nat ->
  exists e, add_cuwp_slots existing reqs = Raise e.
Proof. apply engine_exhausted. Qed.

Theorem wav_exhaustion_raises existing reqs :
  (length (free_ids 0 MAX_WAV_FILES [] existing) < count_fresh reqs)%nat ->
  exists e, add_wav_files existing reqs = Raise e.
Proof. apply engine_exhausted. Qed.

Theorem switches_exhaustion_raises existing reqs :
  (length (free_ids 0 MAX_SWITCHES [] existing) < count_fresh reqs)%nat ->
  exists e, add_switches existing reqs = Raise e.
Proof. intros H. apply engine_exhausted. rewrite count_fresh_carried_first. exact H. Qed.

Theorem full_table_never_blocks_a_noop existing reqs :
  count_fresh reqs = 0%nat ->
  ((forall k, In (RCarry k) reqs -> 1 <= k <= 255) -> (forall k, In k existing -> 1 <= k <= 255) ->
   exists o, add_locations existing reqs = Ok o) /\   (* location indices inside the table *)
  (exists o, add_cuwp_slots existing reqs = Ok o) /\
  (exists o, add_wav_files existing reqs = Ok o) /\ (exists o, add_switches existing reqs = Ok o).
Proof.
  intros H. split; [|repeat split; apply engine_no_fresh_ok; rewrite ?count_fresh_carried_first; try assumption;
                      intros; reflexivity].
  intros Hr He. unfold add_locations.
  assert (Hpre : existsb (fun k => (k <? 1) || (MAX_LOCATIONS <? k)) (existing ++ carried_ids reqs) = false).
  { apply not_true_is_false. intros Hx. apply existsb_exists in Hx as (k & Hin & Hk).
    assert (1 <= k <= 255) as Hb.
    { apply in_app_iff in Hin as [Hin|Hin]; [apply He; exact Hin|].
      apply Hr. unfold carried_ids in Hin. apply in_flat_map in Hin as (r & Hr1 & Hr2).
      destruct r; simpl in Hr2; try contradiction. destruct Hr2 as [->|[]]. exact Hr1. }
    unfold MAX_LOCATIONS in Hk. apply orb_true_iff in Hk as [Hk|Hk]; apply N.ltb_lt in Hk; lia. }
  rewrite Hpre. apply engine_no_fresh_ok; rewrite ?count_fresh_carried_first; try assumption.
  intros k Hk. apply in_carried_first in Hk. specialize (Hr k Hk). unfold MAX_LOCATIONS.
  apply orb_false_iff. split; apply N.ltb_ge; lia.
Qed.

(* an index outside the table is refused before anything is placed, however full the table is and wherever the
   location sits (in the section already, or only in a trigger) *)
Theorem out_of_range_location_is_refused existing reqs k :
  In k (existing ++ carried_ids reqs) -> k < 1 \/ 255 < k -> add_locations existing reqs = Raise ValueError.
Proof.
  intros Hin Hk. unfold add_locations.
  assert (existsb (fun k => (k <? 1) || (MAX_LOCATIONS <? k)) (existing ++ carried_ids reqs) = true) as ->; [|reflexivity].
  apply existsb_exists. exists k. split; [exact Hin|]. unfold MAX_LOCATIONS.
  destruct Hk as [Hk|Hk]; apply orb_true_iff; [left|right]; apply N.ltb_lt; exact Hk.
Qed.

(* MRGN does not raise when it runs out: the remaining locations are left unplaced (the save then raises
   when a trigger asks for their id — pipeline level) *)
Theorem mrgn_full_leaves_unplaced existing reqs outs :
  add_locations existing reqs = Ok outs ->
  forall r o, In (r, o) (combine (carried_first reqs) outs) -> r = RFresh ->
    (exists i, o = Placed i) \/ o = Unplaced.
Proof.
  intros H r o Hin ->. destruct (add_locations_sound _ _ _ H) as (F & _).
  clear H. revert Hin. induction F as [|r0 o0 rs os Hfit F IH]; simpl; [tauto|].
  intros [Heq|Hin]; [|auto]. inversion Heq; subst. destruct o; simpl in Hfit; try contradiction; eauto.
Qed.

(* non-vacuity / regression anchors on concrete tables *)
Example anywhere_is_never_allocated :
  add_locations (range_from 1 62) (repeat RFresh 3) = Ok [Placed 63; Placed 65; Placed 66].
Proof. vm_compute. reflexivity. Qed.

Example carried_index_is_respected :
  add_locations [] [RFresh; RCarry 1; RCarry 1] = Ok [Placed 1; Dropped; Placed 2].
Proof. vm_compute. reflexivity. Qed.

(* C14, UPRP allocator in full, MRGN while ids last: two iteration orders of the same objects give the same
   set of slot numbers, carried indices identical, fresh ids the same list *)
Theorem cuwp_order_independent existing ks ks' n :
  Permutation ks ks' -> NoDup ks -> (forall k, In k ks -> ~ In k existing) ->
  match add_cuwp_slots existing (map RCarry ks ++ repeat RFresh n),
        add_cuwp_slots existing (map RCarry ks' ++ repeat RFresh n) with
  | Ok o, Ok o' =>
      fresh_ids (map RCarry ks ++ repeat RFresh n) o = fresh_ids (map RCarry ks' ++ repeat RFresh n) o' /\
      Permutation (placed_ids o) (placed_ids o')
  | Raise _, Raise _ => True
  | _, _ => False
  end.
Proof.
  intros P Hnd Hun. unfold add_cuwp_slots.
  assert (forall l, carried_first (map RCarry l ++ repeat RFresh n) = map RCarry l ++ repeat RFresh n) as CF.
  { intros l. unfold carried_first. rewrite !filter_app.
    assert (filter (fun r => match r with RCarry _ => true | _ => false end) (map RCarry l) = map RCarry l) as ->
      by (induction l; simpl; [reflexivity | f_equal; assumption]).
    assert (filter (fun r => match r with RCarry _ => false | _ => true end) (map RCarry l) = []) as ->
      by (induction l; simpl; auto).
    assert (filter (fun r => match r with RCarry _ => true | _ => false end) (repeat RFresh n) = []) as ->
      by (induction n; simpl; auto).
    assert (filter (fun r => match r with RCarry _ => false | _ => true end) (repeat RFresh n) = repeat RFresh n) as ->
      by (induction n; simpl; [reflexivity | f_equal; assumption]).
    rewrite app_nil_r. reflexivity. }
  rewrite !CF.
  exact (raise_mode_order_independent ks ks' n _ _ existing _ P Hnd Hun eq_refl eq_refl).
Qed.

(* ---- MRGN and the SWNM editor: the same statement in their modes (the location table leaves the surplus unplaced) ------- *)

Lemma carried_first_canonical l n :
  carried_first (map RCarry l ++ repeat RFresh n) = map RCarry l ++ repeat RFresh n.
Proof.
  unfold carried_first. rewrite !filter_app.
  assert (filter (fun r => match r with RCarry _ => true | _ => false end) (map RCarry l) = map RCarry l) as ->
    by (induction l; simpl; [reflexivity | f_equal; assumption]).
  assert (filter (fun r => match r with RCarry _ => false | _ => true end) (map RCarry l) = []) as ->
    by (induction l; simpl; auto).
  assert (filter (fun r => match r with RCarry _ => true | _ => false end) (repeat RFresh n) = []) as ->
    by (induction n; simpl; auto).
  assert (filter (fun r => match r with RCarry _ => false | _ => true end) (repeat RFresh n) = repeat RFresh n) as ->
    by (induction n; simpl; [reflexivity | f_equal; assumption]).
  rewrite app_nil_r. reflexivity.
Qed.

Lemma carried_ids_canonical l n : carried_ids (map RCarry l ++ repeat RFresh n) = l.
Proof.
  unfold carried_ids. rewrite flat_map_app.
  assert (flat_map (fun r => match r with RCarry k => [k] | _ => [] end) (repeat RFresh n) = []) as ->
    by (induction n; simpl; auto).
  rewrite app_nil_r. induction l; simpl; [reflexivity | f_equal; assumption].
Qed.

Theorem locations_order_independent existing ks ks' n :
  Permutation ks ks' -> NoDup ks -> (forall k, In k ks -> ~ In k existing) ->
  match add_locations existing (map RCarry ks ++ repeat RFresh n),
        add_locations existing (map RCarry ks' ++ repeat RFresh n) with
  | Ok o, Ok o' =>
      fresh_ids (map RCarry ks ++ repeat RFresh n) o = fresh_ids (map RCarry ks' ++ repeat RFresh n) o' /\
      Permutation (placed_ids o) (placed_ids o') /\
      skipn (length ks) o = skipn (length ks') o'
  | Raise _, Raise _ => True
  | _, _ => False
  end.
Proof.
  intros P Hnd Hun. unfold add_locations. rewrite !carried_ids_canonical, !carried_first_canonical.
  assert (existsb (fun k => (k <? 1) || (MAX_LOCATIONS <? k)) (existing ++ ks') =
          existsb (fun k => (k <? 1) || (MAX_LOCATIONS <? k)) (existing ++ ks)) as ->.
  { rewrite !existsb_app. f_equal.
    destruct (existsb _ ks) eqn:E.
    - apply existsb_exists in E as (x & Hx & Hp). apply existsb_exists. exists x. split; [eapply Permutation_in; eauto | exact Hp].
    - apply not_true_is_false. intros E'. apply existsb_exists in E' as (x & Hx & Hp).
      assert (existsb (fun k => (k <? 1) || (MAX_LOCATIONS <? k)) ks = true) as Et; [|congruence].
      apply existsb_exists. exists x. split; [eapply Permutation_in; [apply Permutation_sym; eauto | exact Hx] | exact Hp]. }
  destruct (existsb (fun k => (k <? 1) || (MAX_LOCATIONS <? k)) (existing ++ ks)) eqn:Erange; [exact I|].
  apply (order_independent_gen true (Some (1, MAX_LOCATIONS)) ks ks' n existing _ P Hnd Hun).
  intros k Hk. unfold in_range. apply negb_true_iff.
  destruct ((k <? 1) || (MAX_LOCATIONS <? k)) eqn:Ek; [|reflexivity].
  assert (existsb (fun k => (k <? 1) || (MAX_LOCATIONS <? k)) (existing ++ ks) = true) as Et; [|congruence].
  apply existsb_exists. exists k. split; [apply in_or_app; right; exact Hk | exact Ek].
Qed.

Theorem switches_order_independent existing ks ks' n :
  Permutation ks ks' -> NoDup ks -> (forall k, In k ks -> ~ In k existing) ->
  match add_switches existing (map RCarry ks ++ repeat RFresh n),
        add_switches existing (map RCarry ks' ++ repeat RFresh n) with
  | Ok o, Ok o' =>
      fresh_ids (map RCarry ks ++ repeat RFresh n) o = fresh_ids (map RCarry ks' ++ repeat RFresh n) o' /\
      Permutation (placed_ids o) (placed_ids o') /\
      skipn (length ks) o = skipn (length ks') o'
  | Raise _, Raise _ => True
  | _, _ => False
  end.
Proof.
  intros P Hnd Hun. unfold add_switches. rewrite !carried_first_canonical.
  apply (order_independent_gen false None ks ks' n existing _ P Hnd Hun). intros; reflexivity.
Qed.

(* a location that carries a free index inside the table is placed there however full the table is (before the fix
   620b222 a full table - e.g. only the reserved slot 64 left - left it out and the save died) *)
Theorem carried_free_location_is_placed_even_when_full existing ks rest outs :
  NoDup ks -> (forall k, In k ks -> ~ In k existing) ->
  add_locations existing (map RCarry ks ++ rest) = Ok outs ->
  forallb (fun r => match r with RCarry _ => false | _ => true end) rest = true ->
  firstn (length ks) outs = map Placed ks.
Proof.
  intros Hnd Hun H Hrest. unfold add_locations in H.
  destruct (existsb _ _) eqn:Erange; [discriminate|].
  assert (carried_first (map RCarry ks ++ rest) = map RCarry ks ++ rest) as CF.
  { unfold carried_first. rewrite !filter_app.
    assert (filter (fun r => match r with RCarry _ => true | _ => false end) (map RCarry ks) = map RCarry ks) as ->
      by (clear; induction ks; simpl; [reflexivity | f_equal; assumption]).
    assert (filter (fun r => match r with RCarry _ => false | _ => true end) (map RCarry ks) = []) as ->
      by (clear; induction ks; simpl; auto).
    assert (filter (fun r => match r with RCarry _ => true | _ => false end) rest = []) as ->.
    { clear -Hrest. induction rest as [|r rest IH]; [reflexivity|]. simpl in *. apply andb_true_iff in Hrest as [Hr Hrest].
      destruct r; try discriminate; apply IH; assumption. }
    assert (filter (fun r => match r with RCarry _ => false | _ => true end) rest = rest) as ->.
    { clear -Hrest. induction rest as [|r rest IH]; [reflexivity|]. simpl in *. apply andb_true_iff in Hrest as [Hr Hrest].
      destruct r; try discriminate; f_equal; apply IH; assumption. }
    rewrite app_nil_r. reflexivity. }
  rewrite CF in H. rewrite engine_carried_prefix_gen in H; auto.
  - apply bind_ok_inv in H as (o & Ho & Hk). inversion Hk; subst outs.
    rewrite <- (map_length Placed ks) at 1. rewrite firstn_app, Nat.sub_diag, firstn_all. simpl. apply app_nil_r.
  - intros k Hk. unfold in_range. apply negb_true_iff.
    destruct ((k <? 1) || (MAX_LOCATIONS <? k)) eqn:Ek; [|reflexivity].
    assert (existsb (fun k => (k <? 1) || (MAX_LOCATIONS <? k)) (existing ++ carried_ids (map RCarry ks ++ rest)) = true) as Et; [|congruence].
    apply existsb_exists. exists k. split; [|exact Ek]. apply in_or_app. right.
    unfold carried_ids. rewrite flat_map_app. apply in_or_app. left. apply in_flat_map. exists (RCarry k). split; [apply in_map; exact Hk | left; reflexivity].
Qed.

Example carried_64_on_a_full_table : 
  add_locations (range_from 1 63 ++ range_from 65 191) [RCarry 64] = Ok [Placed 64].
Proof. vm_compute. reflexivity. Qed.
