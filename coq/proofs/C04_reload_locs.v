(* C04, end to end for LOCATION arguments: the number a save writes for a location is resolved, by the context a later load of
   the saved map builds, to a location with the authored rectangle, name and elevation flags.  The links: which number
   (C04_locations.saved_location_number_names_the_location), what the one MRGN section of the output is (here), what a later
   load decodes from it (C04_locations.saved_location_table_reads_back), and which string lookup that load uses (C04_reload). *)
From Coq Require Import String NArith List Bool Lia PeanoNat.
From RC Require Import lib.Result lib.Bytes model.Layout model.Str model.ChkIo model.RichCodec model.RichIo
  proofs.Layout_proofs proofs.C08_proofs proofs.Save_strings proofs.C07_slots proofs.C04_locations proofs.C04_reload gen.GenConsts.
Import ListNotations.
Local Open Scope string_scope.
Local Open Scope list_scope.
Local Open Scope N_scope.

Lemma tabs_named_app n a b : tabs_named n (a ++ b) = tabs_named n a ++ tabs_named n b.
Proof. unfold tabs_named. apply flat_map_app. Qed.

Lemma mapM_one_mrgn (F : rsection -> result dsection) v :
  (forall s d, F s = Ok d -> named "MRGN" s = false -> tabs_named "MRGN" [d] = []) ->
  (forall ls d, F (RMrgn ls) = Ok d -> tabs_named "MRGN" [d] = [v]) ->
  forall r secs ls, mapM F r = Ok secs -> filter (named "MRGN") r = [RMrgn ls] -> tabs_named "MRGN" secs = [v].
Proof.
  intros Hother Hm.
  assert (forall r secs, mapM F r = Ok secs -> filter (named "MRGN") r = [] -> tabs_named "MRGN" secs = []) as Hnone.
  { induction r as [|s r IH]; intros secs H Hf; simpl in H.
    - inversion H; reflexivity.
    - inv_bind H as d Hd Hk. inv_bind Hk as ds Hds Hk2. inversion Hk2; subst secs. cbn [filter] in Hf.
      destruct (named "MRGN" s) eqn:En; [discriminate|].
      change (d :: ds) with ([d] ++ ds). rewrite tabs_named_app, (Hother _ _ Hd En), (IH _ Hds Hf). reflexivity. }
  induction r as [|s r IH]; intros secs ls H Hf; [discriminate|]. simpl in H.
  inv_bind H as d Hd Hk. inv_bind Hk as ds Hds Hk2. inversion Hk2; subst secs. cbn [filter] in Hf.
  change (d :: ds) with ([d] ++ ds). rewrite tabs_named_app.
  destruct (named "MRGN" s) eqn:En.
  - inversion Hf as [[Hs Hrest]]. subst s. rewrite (Hm _ _ Hd), (Hnone _ _ Hds Hrest). reflexivity.
  - rewrite (Hother _ _ Hd En), (IH _ _ Hds Hf). reflexivity.
Qed.

Theorem the_saved_location_section wd r d' ls mr new_str SL :
  save wd r = Ok d' -> filter (named "MRGN") r = [RMrgn ls] -> rebuild_mrgn r = Ok mr ->
  rebuild_str r = Ok new_str -> build_str_lookup 2 new_str = Ok SL ->
  exists v, mrgn_encode SL (fst mr) = Ok v /\ tabs_named "MRGN" d' = [v].
Proof.
  unfold save. intros H Hf Hmr Hstr HSL.
  inv_bind H as new_str' H1 H. inv_bind H as mr' H2 H. inv_bind H as sw H3 H. inv_bind H as up H4 H.
  inv_bind H as us H5 H. inv_bind H as SL' H6 H. inv_bind H as chk H7 H. inv_bind H as secs Hm H.
  inv_bind H as e1 He1 H. inv_bind H as e2 He2 H.
  match type of H with Ok ?q = Ok _ => assert (d' = q) as -> by congruence end. clear H.
  rewrite Hstr in H1. inversion H1; subst new_str'. rewrite Hmr in H2. inversion H2; subst mr'.
  rewrite HSL in H6. inversion H6; subst SL'. clear H1 H2 H6.
  (* the encoding of the rebuilt table exists: the one MRGN section of r was encoded *)
  assert (In (RMrgn ls) r) as Hin.
  { assert (In (RMrgn ls) (filter (named "MRGN") r)) as Hx by (rewrite Hf; left; reflexivity). apply filter_In in Hx. tauto. }
  destruct (In_nth_error _ _ Hin) as [ix Hix]. destruct (mapM_nth _ _ _ _ _ Hm Hix) as (dm & Hdm & _). cbn beta iota in Hdm.
  inv_bind Hdm as v Hv Hk. exists v. split; [exact Hv|].
  rewrite !tabs_named_app.
  assert (tabs_named "MRGN" e1 = []) as ->.
  { match type of He1 with (if ?c then _ else _) = _ => destruct c end; [inversion He1; reflexivity|].
    inv_bind He1 as v1 Hv1 Hk1. inversion Hk1; reflexivity. }
  assert (tabs_named "MRGN" e2 = []) as ->.
  { match type of He2 with (if ?c then _ else _) = _ => destruct c end; [inversion He2; reflexivity|].
    inv_bind He2 as v2 Hv2 Hk2. inversion Hk2; reflexivity. }
  assert (forall (c : bool), tabs_named "MRGN" (if c then [] else [DTab "UPUS" us]) = []) as Hx3 by (intros [|]; reflexivity).
  rewrite Hx3, !app_nil_r.
  eapply (mapM_one_mrgn _ v); [| |exact Hm|exact Hf].
  - intros s d Hd Hn. destruct s as [ls0|ts|nw n usx|cs|ss|ws|n w m|n v0|n p]; cbn beta iota in Hd; cbn [named] in Hn.
    + rewrite String.eqb_refl in Hn. discriminate.
    + inv_bind Hd as x Hx Hkx. inversion Hkx; reflexivity.
    + inv_bind Hd as x Hx Hkx. inversion Hkx; subst d. unfold tabs_named. cbn [flat_map app]. rewrite String.eqb_sym, Hn. reflexivity.
    + inv_bind Hd as x Hx Hkx. inversion Hkx; reflexivity.
    + inv_bind Hd as x Hx Hkx. inversion Hkx; reflexivity.
    + inv_bind Hd as x Hx Hkx. inversion Hkx; reflexivity.
    + destruct (String.eqb n "STR "); inversion Hd; reflexivity.
    + destruct (String.eqb n "UPUS"); inversion Hd; subst d; unfold tabs_named; cbn [flat_map app]; rewrite String.eqb_sym, Hn; reflexivity.
    + inversion Hd; reflexivity.
  - intros ls0 d Hd. cbn beta iota in Hd. rewrite Hv in Hd. cbn [bind] in Hd. inversion Hd; reflexivity.
Qed.

(* end to end: the number written for a location, looked up in the context a later load of the saved map builds *)
Theorem location_number_resolves_after_reload wd r d' cx' ls mr new_str SL l i v slot :
  save wd r = Ok d' -> decode_context d' = Ok cx' ->
  filter (named "MRGN") r = [RMrgn ls] -> rebuild_mrgn r = Ok mr ->
  rebuild_str r = Ok new_str -> build_str_lookup 2 new_str = Ok SL ->
  N.of_nat (length (sl_by_id SL)) <= 1000000 ->
  NoDup (map fst (by_idx ls)) -> (forall x, In x (fst mr) -> length (l_elev x) = 6%nat) ->
  find_loc_id l (snd mr) None = Some i -> 1 <= i ->
  (* the slot of the emitted table that carries this number (it exists for every number up to 255), not all zero *)
  mrgn_encode SL (fst mr) = Ok v -> nth_error (vlist "_locations" v) (N.to_nat (i - 1)) = Some slot -> loc_is_unused slot = false ->
  exists k0,
    rloc_eqb l k0 = true /\
    loc_by_id cx' i = Some {| l_x1 := l_x1 k0; l_y1 := l_y1 k0; l_x2 := l_x2 k0; l_y2 := l_y2 k0; l_name := l_name k0;
                             l_idx := Some i; l_elev := l_elev k0; l_oid := 0 |}.
Proof.
  intros Hs Hc Hf Hmr Hstr HSL Hsmall Hnd Helev Hfind Hi Hv Hslot Hu.
  destruct (saved_location_number_names_the_location r ls mr l i Hf Hmr Hnd Hfind) as (k0 & He & Hslotk).
  destruct (the_saved_location_section _ _ _ _ _ _ _ Hs Hf Hmr Hstr HSL) as (v' & Hv' & Htabs).
  rewrite Hv in Hv'. inversion Hv'; subst v'.
  destruct (load_after_save_uses_the_saved_string_table _ _ _ _ Hs Hc) as (ns & L' & Hr' & HL' & Hcx').
  rewrite Hstr in Hr'. inversion Hr'; subst ns. rewrite HSL in HL'. inversion HL'; subst L'.
  destruct (saved_location_table_reads_back SL (fst mr) v Hsmall Hv Helev) as (ls' & Hdec & Hread).
  (* the context of the later load holds exactly ls' *)
  assert (cx_locs cx' = ls') as Hlocs.
  { unfold decode_context in Hc. inv_bind Hc as str Hstr' Hk. inv_bind Hk as L0 HL0 Hk2. inv_bind Hk2 as mv Hmv Hk3.
    inv_bind Hk3 as locs Hlocs Hk4. inv_bind Hk4 as cw Hcw Hk5. inversion Hk5; subst cx'. cbn [cx_locs cx_str] in *.
    rewrite Htabs in Hmv. cbn [only] in Hmv. inversion Hmv; subst mv. subst L0. rewrite Hdec in Hlocs. inversion Hlocs. reflexivity. }
  exists k0. split; [exact He|].
  unfold loc_by_id. replace (i =? 0) with false by (symmetry; apply N.eqb_neq; lia).
  rewrite Hlocs. fold (by_idx ls').
  pose proof (Hread (N.to_nat (i - 1)) (set_idx k0 i) slot) as Hr. rewrite N2Nat.id in Hr. replace (i - 1 + 1) with i in Hr by lia.
  fold (by_idx (fst mr)) in Hslotk. rewrite (Hr Hslotk Hslot Hu). reflexivity.
Qed.
