(* Finite, complete sweeps over the generated flag tables and the well-formedness of
   every generated enum table; all by vm_compute inside the kernel, lifted by lemmas. *)
From Coq Require Import NArith List Bool String Lia.
From RC Require Import lib.Result lib.Finite model.Flags model.Enums
  proofs.Flags_proofs proofs.Enums_proofs gen.GenFlags gen.GenEnums.
Import ListNotations.
Local Open Scope N_scope.

Lemma action_flags_num : forall x, x < 256 -> num_roundtrip action_flags_codec 5 x.
Proof. apply num_sweep. vm_compute. reflexivity. Qed.
Lemma action_flags_rich : forall bs : list bool, List.length bs = 5%nat -> rich_roundtrip action_flags_codec 5 bs.
Proof. apply rich_sweep. vm_compute. reflexivity. Qed.

Lemma condition_flags_num : forall x, x < 256 -> num_roundtrip condition_flags_codec 5 x.
Proof. apply num_sweep. vm_compute. reflexivity. Qed.
Lemma condition_flags_rich : forall bs : list bool, List.length bs = 5%nat -> rich_roundtrip condition_flags_codec 5 bs.
Proof. apply rich_sweep. vm_compute. reflexivity. Qed.

Lemma elevation_flags_num : forall x, x < 65536 -> num_roundtrip elevation_flags_codec 6 x.
Proof. apply num_sweep. vm_compute. reflexivity. Qed.
Lemma elevation_flags_rich : forall bs : list bool, List.length bs = 6%nat -> rich_roundtrip elevation_flags_codec 6 bs.
Proof. apply rich_sweep. vm_compute. reflexivity. Qed.

Lemma cuwp_unit_property_flags_num : forall x, x < 65536 -> num_roundtrip cuwp_unit_property_flags_codec 6 x.
Proof. apply num_sweep. vm_compute. reflexivity. Qed.
Lemma cuwp_unit_property_flags_rich : forall bs : list bool, List.length bs = 6%nat -> rich_roundtrip cuwp_unit_property_flags_codec 6 bs.
Proof. apply rich_sweep. vm_compute. reflexivity. Qed.

Lemma cuwp_valid_special_flags_num : forall x, x < 65536 -> num_roundtrip cuwp_valid_special_flags_codec 6 x.
Proof. apply num_sweep. vm_compute. reflexivity. Qed.
Lemma cuwp_valid_special_flags_rich : forall bs : list bool, List.length bs = 6%nat -> rich_roundtrip cuwp_valid_special_flags_codec 6 bs.
Proof. apply rich_sweep. vm_compute. reflexivity. Qed.

Lemma cuwp_valid_unit_flags_num : forall x, x < 65536 -> num_roundtrip cuwp_valid_unit_flags_codec 7 x.
Proof. apply num_sweep. vm_compute. reflexivity. Qed.
Lemma cuwp_valid_unit_flags_rich : forall bs : list bool, List.length bs = 7%nat -> rich_roundtrip cuwp_valid_unit_flags_codec 7 bs.
Proof. apply rich_sweep. vm_compute. reflexivity. Qed.

Lemma all_enums_wf : forallb (fun e => enum_wf (snd e)) all_enums = true.
Proof. vm_compute. reflexivity. Qed.

Definition enum_exact (E : enum_table) : Prop :=
  (forall i m, In (i, m) E -> enum_decode E i = Ok m /\ enum_encode E m = Ok i) /\
  (forall n, ~ In n (map fst E) -> enum_decode E n = Raise KeyError) /\
  (forall n m, enum_decode E n = Ok m -> In (n, m) E /\ enum_encode E m = Ok n) /\
  (forall i m1 m2, In (i, m1) E -> In (i, m2) E -> m1 = m2) /\
  (forall i1 i2 m, In (i1, m) E -> In (i2, m) E -> i1 = i2).

Lemma all_enums_exact : forall name E, In (name, E) all_enums -> enum_exact E.
Proof.
  intros name E Hin. apply enum_exact_wf.
  pose proof all_enums_wf as H. rewrite forallb_forall in H. apply (H (name, E) Hin).
Qed.

(* non-vacuity: the generated tables are the ones the library ships *)
Lemma enums_nonempty : (16 <= List.length all_enums)%nat /\ In (26, "NON_ALLIED_VICTORY_PLAYERS"%string) enum_PlayerId.
Proof. split; [vm_compute; lia | vm_compute; tauto]. Qed.
