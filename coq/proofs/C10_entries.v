(* C10, inside a trigger: the entries the rich layer does not model (type byte outside the enumeration, or inside it
   but without a transcoder) come out of decode -> encode field for field, in their original order, and - when no empty
   slot precedes them - at their original position; whatever the other entries are and whatever the two lookup contexts
   are.  Lifted to whole triggers, whole TRIG sections and the whole load -> edit elsewhere -> save path. *)
From Coq Require Import String NArith List Bool Lia PeanoNat.
From RC Require Import lib.Result lib.Bytes model.Layout model.Str model.ChkIo model.Flags model.TrigTable model.RichCodec
  model.RichIo proofs.Layout_proofs proofs.C05_proofs proofs.C08_proofs proofs.C10_proofs proofs.C04_proofs
  gen.GenTrig gen.GenFlags gen.GenConsts gen.GenLayouts.
Import ListNotations.
Local Open Scope string_scope.
Local Open Scope list_scope.
Local Open Scope N_scope.

Lemma rec_get_val_rec fields v f : In f fields -> rec_get f (val_rec fields v) = Ok (vint f v).
Proof.
  unfold val_rec. induction fields as [|g fs IH]; intros Hin; [destruct Hin|]. simpl.
  destruct (String.eqb_spec f g) as [->|Hne]; [reflexivity|].
  destruct Hin as [->|Hin]; [contradiction | apply IH; assumption].
Qed.

Definition src_is_own (s : enc_src) : bool := match s with EOwnId => true | _ => false end.

Lemma encode_entry_own_id {rval} (ec : codec -> rval -> result N) (wd : list (string * rval) -> result N)
      (e : trig_entry) (idf : string) args :
  forall rows r,
    In (idf, EOwnId) rows -> NoDup (map fst rows) ->
    mapM (fun row : string * enc_src =>
            let '(f, src) := row in
            match src with
            | EZero => Ok (f, 0)
            | EOwnId => Ok (f, te_own_id e)
            | EWavDuration => do d <- wd args; Ok (f, d)
            | EArg c a => do x <- arg_get rval a args; do v <- ec c x; Ok (f, v)
            end) rows = Ok r ->
    rec_get idf r = Ok (te_own_id e).
Proof.
  induction rows as [|[f src] rest IH]; intros r Hin Hnd H; [destruct Hin|].
  simpl in H. inv_bind H as y Hy Hk. inv_bind Hk as ys Hys Hk2. inversion Hk2; subst r. clear Hk2.
  simpl in Hnd. inversion Hnd as [|? ? Hnotin Hnd']; subst.
  assert (fst y = f) as Hfy.
  { destruct src; try (inversion Hy; reflexivity).
    - inv_bind Hy as d Hd Hk. inversion Hk; reflexivity.
    - inv_bind Hy as x Hx Hk. inv_bind Hk as v Hv Hk2. inversion Hk2; reflexivity. }
  destruct y as [g x]. simpl in Hfy. subst g. simpl.
  destruct (String.eqb_spec idf f) as [->|Hne].
  - destruct Hin as [Heq|Hin].
    + inversion Heq; subst src. inversion Hy; reflexivity.
    + exfalso. apply Hnotin. apply in_map_iff. exists (f, EOwnId). auto.
  - destruct Hin as [Heq|Hin]; [inversion Heq; congruence|]. eapply IH; eauto.
Qed.

Section Entries.
  Variable table : list trig_entry.
  Variable enum idf : string.
  Variable flagc : flag_codec.
  Variable fields : list string.

  Hypothesis fields_nodup : NoDup fields.
  Hypothesis idf_in : In idf fields.
  Hypothesis idf_not_flags : idf <> "_flags".

  Definition table_ids_ok : bool :=
    forallb (fun e => (te_own_id e =? te_key e)
                      && existsb (fun row => String.eqb (fst row) idf && src_is_own (snd row)) (te_enc e)
                      && nodup_strs (map fst (te_enc e))
                      && enum_has enum (te_key e) && negb (te_key e =? NO_ENTRY)) table
    && enum_has enum NO_ENTRY.
  Hypothesis table_ok : table_ids_ok = true.

  (* the entries this layer does not model *)
  Definition is_raw_val (v : val) : bool :=
    let id := vint idf v in
    negb (enum_has enum id)
    || (negb (id =? NO_ENTRY) && match find_entry id table with None => true | Some _ => false end).

  (* a record value with exactly the record's fields, in order (what the binary decoder produces) *)
  Definition norm (v : val) : val := rec_val fields (val_rec fields v).

  Lemma vint_norm v : vint idf (norm v) = vint idf v.
  Proof. unfold norm. rewrite vint_rec_val by assumption. rewrite rec_get_val_rec by assumption. reflexivity. Qed.

  Lemma is_raw_norm v : is_raw_val (norm v) = is_raw_val v.
  Proof. unfold is_raw_val. rewrite vint_norm. reflexivity. Qed.

  Lemma norm_entry_val vals : length vals = length fields -> norm (entry_val fields vals) = entry_val fields vals.
  Proof. intros H. unfold norm. apply rec_val_val_rec; assumption. Qed.

  Lemma empty_not_raw : is_raw_val (empty_entry fields) = false.
  Proof.
    unfold is_raw_val.
    assert (vint idf (empty_entry fields) = 0) as ->.
    { unfold empty_entry, vint. clear -idf_in. induction fields as [|g fs IH]; [destruct idf_in|]. simpl.
      destruct (String.eqb_spec idf g); [reflexivity|]. destruct idf_in as [->|Hin]; [contradiction|]. apply IH; assumption. }
    unfold table_ids_ok in table_ok. apply andb_true_iff in table_ok as [_ H0]. unfold NO_ENTRY in *. rewrite H0. reflexivity.
  Qed.

  Lemma table_entry_facts e :
    In e table ->
    te_own_id e = te_key e /\ In (idf, EOwnId) (te_enc e) /\ NoDup (map fst (te_enc e)) /\
    enum_has enum (te_key e) = true /\ te_key e <> NO_ENTRY.
  Proof.
    intros Hin. unfold table_ids_ok in table_ok. apply andb_true_iff in table_ok as [Hall _].
    rewrite forallb_forall in Hall. specialize (Hall e Hin).
    apply andb_true_iff in Hall as [Hall H5]. apply andb_true_iff in Hall as [Hall H4].
    apply andb_true_iff in Hall as [Hall H3]. apply andb_true_iff in Hall as [H1 H2].
    split; [apply N.eqb_eq; assumption|]. split; [|split; [apply nodup_strs_spec; assumption|split; [assumption|]]].
    - apply existsb_exists in H2 as ([f src] & Hrow & Hp). simpl in Hp. apply andb_true_iff in Hp as [Hf Hs].
      apply String.eqb_eq in Hf. subst f. destruct src; try discriminate. exact Hrow.
    - apply negb_true_iff in H5. apply N.eqb_neq. assumption.
  Qed.

  (* a supported entry is written back with its own type byte: never a raw entry *)
  Lemma rich_encodes_supported cx key args fl v :
    encode_entry_of cx table flagc fields (ERich key args fl) = Ok v -> is_raw_val v = false.
  Proof.
    cbn [encode_entry_of]. destruct (find_entry key table) as [te|] eqn:Hf; [|discriminate]. intros H.
    inv_bind H as r Hr Hk. inv_bind Hk as x Hx Hk2. inversion Hk2; subst v. clear Hk2.
    destruct (find_entry_in _ _ _ Hf) as [Hin Hkey].
    destruct (table_entry_facts te Hin) as (Hown & Hrow & Hnd & Hen & Hne).
    unfold encode_entry in Hr.
    pose proof (encode_entry_own_id (enc_arg cx) (wav_duration cx) te idf args (te_enc te) r Hrow Hnd Hr) as Hid.
    unfold is_raw_val. rewrite vint_rec_val by assumption. rewrite rec_get_map_flags by assumption. rewrite Hid.
    rewrite Hown, Hkey. rewrite <- Hkey at 1. rewrite Hen. rewrite Hf. cbn [negb orb]. rewrite andb_false_r. reflexivity.
  Qed.

  (* one entry through decode and encode *)
  Lemma entry_cycle cx cx' v o :
    decode_entry_of cx table enum idf flagc fields v = Ok o ->
    match o with
    | None => is_raw_val v = false /\ vint idf v = NO_ENTRY
    | Some e =>
        vint idf v <> NO_ENTRY \/ is_raw_val v = true ->
        forall v', encode_entry_of cx' table flagc fields e = Ok v' ->
                   if is_raw_val v then v' = norm v else is_raw_val v' = false
    end.
  Proof.
    unfold decode_entry_of. unfold is_raw_val.
    destruct (enum_has enum (vint idf v)) eqn:En; cbn [negb orb].
    - destruct (vint idf v =? NO_ENTRY) eqn:E0; cbn [negb andb].
      + intros H. inversion H; subst o. split; [reflexivity | apply N.eqb_eq; assumption].
      + destruct (find_entry (vint idf v) table) as [te|] eqn:Hf.
        * intros H. inv_bind H as args Ha Hk. inv_bind Hk as fl Hfl Hk2. inversion Hk2; subst o. clear Hk2.
          intros _ v' He. apply rich_encodes_supported in He. exact He.
        * intros H. inversion H; subst o. intros _ v' He. cbn [encode_entry_of] in He. inversion He. reflexivity.
    - intros H. inversion H; subst o. intros _ v' He. cbn [encode_entry_of] in He. inversion He. reflexivity.
  Qed.

  (* ORDER: the raw entries of the output are the raw entries of the input, one for one, in order; padding adds none *)
  Theorem raw_entries_keep_their_order cx cx' n : forall vs os vs',
    mapM (decode_entry_of cx table enum idf flagc fields) vs = Ok os ->
    mapM (encode_entry_of cx' table flagc fields) (somes os) = Ok vs' ->
    filter is_raw_val (pad_to n (empty_entry fields) vs') = map norm (filter is_raw_val vs).
  Proof.
    assert (forall k, filter is_raw_val (repeat (empty_entry fields) k) = []) as Hrep.
    { induction k as [|k IH]; [reflexivity|]. simpl. rewrite empty_not_raw. exact IH. }
    intros vs os vs' Hd He. unfold pad_to. rewrite filter_app, Hrep, app_nil_r. clear Hrep.
    revert os vs' Hd He. induction vs as [|v vs IH]; intros os vs' Hd He.
    - simpl in Hd. inversion Hd; subst os. simpl in He. inversion He; reflexivity.
    - simpl in Hd. inv_bind Hd as o Ho Hk. inv_bind Hk as os' Hos Hk2. inversion Hk2; subst os. clear Hk2.
      pose proof (entry_cycle cx cx' v o Ho) as Hc.
      destruct o as [e|].
      + cbn [somes] in He. simpl in He. inv_bind He as v' Hv' Hk. inv_bind Hk as rest Hrest Hk2. inversion Hk2; subst vs'. clear Hk2.
        assert (vint idf v <> NO_ENTRY \/ is_raw_val v = true) as Hpre.
        { destruct (is_raw_val v) eqn:Er; [right; reflexivity|]. left. intros H0.
          unfold decode_entry_of in Ho. unfold is_raw_val in Er. rewrite H0 in *.
          apply orb_false_iff in Er as [Er _]. apply negb_false_iff in Er. rewrite Er in Ho. cbn [negb] in Ho.
          rewrite N.eqb_refl in Ho. discriminate. }
        specialize (Hc Hpre v' Hv'). simpl.
        destruct (is_raw_val v) eqn:Er.
        * subst v'. rewrite is_raw_norm, Er. simpl. f_equal. eapply IH; eauto.
        * rewrite Hc. eapply IH; eauto.
      + destruct Hc as [Hc _]. cbn [somes] in He. simpl. rewrite Hc. eapply IH; eauto.
  Qed.

  (* POSITION: with no empty slot before it, a raw entry keeps its index *)
  Theorem raw_entry_keeps_its_position cx cx' n : forall vs os vs' k v,
    mapM (decode_entry_of cx table enum idf flagc fields) vs = Ok os ->
    mapM (encode_entry_of cx' table flagc fields) (somes os) = Ok vs' ->
    forallb (fun x => negb (vint idf x =? NO_ENTRY) || is_raw_val x) (firstn k vs) = true ->
    nth_error vs k = Some v -> is_raw_val v = true ->
    nth_error (pad_to n (empty_entry fields) vs') k = Some (norm v).
  Proof.
    intros vs os vs' k v Hd He Hpre Hn Hr. unfold pad_to.
    assert (nth_error vs' k = Some (norm v)) as H; [|rewrite nth_error_app1; [exact H | apply nth_error_Some; congruence]].
    revert os vs' k Hd He Hpre Hn. induction vs as [|x vs IH]; intros os vs' k Hd He Hpre Hn; [destruct k; discriminate|].
    simpl in Hd. inv_bind Hd as o Ho Hk. inv_bind Hk as os' Hos Hk2. inversion Hk2; subst os. clear Hk2.
    pose proof (entry_cycle cx cx' x o Ho) as Hc.
    destruct k as [|k].
    - simpl in Hn. inversion Hn; subst x. destruct o as [e|].
      + cbn [somes] in He. simpl in He. inv_bind He as v' Hv' Hk. inv_bind Hk as rest Hrest Hk2. inversion Hk2; subst vs'.
        specialize (Hc (or_intror Hr) v' Hv'). rewrite Hr in Hc. subst v'. reflexivity.
      + destruct Hc as [Hc _]. congruence.
    - simpl in Hpre, Hn. apply andb_true_iff in Hpre as [Hx Hpre].
      destruct o as [e|].
      + cbn [somes] in He. simpl in He. inv_bind He as v' Hv' Hk. inv_bind Hk as rest Hrest Hk2. inversion Hk2; subst vs'.
        simpl. eapply IH; eauto.
      + destruct Hc as [Hc0 Hc1]. rewrite Hc0, Hc1 in Hx. rewrite N.eqb_refl in Hx. discriminate.
  Qed.
End Entries.

(* ---- the two generated tables satisfy the hypotheses ----------------------------------------------------------------- *)

Lemma action_table_ids_ok : table_ids_ok gen_action_table "TriggerActionId" "_action_id" = true.
Proof. vm_compute. reflexivity. Qed.

Lemma condition_table_ids_ok : table_ids_ok gen_condition_table "TriggerConditionId" "_condition_id" = true.
Proof. vm_compute. reflexivity. Qed.

Definition raw_action : val -> bool := is_raw_val gen_action_table "TriggerActionId" "_action_id".
Definition raw_condition : val -> bool := is_raw_val gen_condition_table "TriggerConditionId" "_condition_id".

Lemma in_action_fields : In "_action_id" action_record_fields. Proof. simpl. tauto. Qed.
Lemma action_id_is_not_flags : "_action_id" <> "_flags". Proof. discriminate. Qed.
Lemma in_condition_fields : In "_condition_id" condition_record_fields. Proof. simpl. tauto. Qed.

(* ---- whole triggers ------------------------------------------------------------------------------------------------------ *)

Lemma vlist_mk_struct_head f l rest : vlist f (mk_struct ((f, VList l) :: rest)) = l.
Proof. unfold vlist. cbn [mk_struct vfield]. rewrite String.eqb_refl. reflexivity. Qed.

Theorem trigger_raw_entries_survive cx cx' v t v' :
  trigger_decode cx v = Ok t -> trigger_encode cx' t = Ok v' ->
  filter raw_action (vlist "_actions" v') = map (norm action_record_fields) (filter raw_action (vlist "_actions" v)) /\
  filter raw_condition (vlist "_conditions" v') = map (norm condition_record_fields) (filter raw_condition (vlist "_conditions" v)).
Proof.
  unfold trigger_decode, trigger_encode. intros Hd He.
  inv_bind Hd as cs Hcs Hk. inv_bind Hk as acts Hacts Hk2.
  destruct (vfield "_player_execution" v) as [pe|]; [|discriminate].
  destruct (negb (vint "_execution_flags" pe =? 0)); [discriminate|].
  destruct (negb (vint "_current_action_index" pe =? 0)); [discriminate|].
  destruct (existsb _ _); [discriminate|]. inversion Hk2; subst t. clear Hk2. cbn [t_conds t_acts t_players] in He.
  inv_bind He as cs' Hcs' Hk. inv_bind Hk as acts' Hacts' Hk2.
  destruct (Nat.ltb _ (length cs')); [discriminate|]. destruct (Nat.ltb _ (length acts')); [discriminate|].
  inversion Hk2; subst v'. clear Hk2.
  split.
  - match goal with
    | |- context [vlist "_actions" (VPair ?a (VPair (VNamed "_actions" (VList ?l)) ?r))] =>
        change (vlist "_actions" (VPair a (VPair (VNamed "_actions" (VList l)) r))) with l
    end.
    eapply (raw_entries_keep_their_order gen_action_table "TriggerActionId" "_action_id" action_flags_codec action_record_fields);
      eauto using in_action_fields, action_table_ids_ok; try (apply record_fields_nodup); discriminate.
  - match goal with
    | |- context [vlist "_conditions" (VPair (VNamed "_conditions" (VList ?l)) ?r)] =>
        change (vlist "_conditions" (VPair (VNamed "_conditions" (VList l)) r)) with l
    end.
    eapply (raw_entries_keep_their_order gen_condition_table "TriggerConditionId" "_condition_id" condition_flags_codec condition_record_fields);
      eauto using in_condition_fields, condition_table_ids_ok; try (apply record_fields_nodup); discriminate.
Qed.

(* ---- whole TRIG sections ---------------------------------------------------------------------------------------------------- *)

Definition raw_entries_preserved (tv tv' : val) : Prop :=
  filter raw_action (vlist "_actions" tv') = map (norm action_record_fields) (filter raw_action (vlist "_actions" tv)) /\
  filter raw_condition (vlist "_conditions" tv') = map (norm condition_record_fields) (filter raw_condition (vlist "_conditions" tv)).

Lemma mapM_app {A B} (f : A -> result B) l1 : forall l2 r,
  mapM f (l1 ++ l2) = Ok r -> exists r1 r2, mapM f l1 = Ok r1 /\ mapM f l2 = Ok r2 /\ r = r1 ++ r2.
Proof.
  induction l1 as [|x l1 IH]; intros l2 r H; simpl in *.
  - exists [], r. auto.
  - inv_bind H as y Hy Hk. inv_bind Hk as ys Hys Hk2. inversion Hk2; subst r.
    destruct (IH _ _ Hys) as (r1 & r2 & H1 & H2 & ->). exists (y :: r1), r2. rewrite Hy, H1. simpl. auto.
Qed.

(* decode a TRIG section, append any new triggers, encode under any other context: trigger k of the input is trigger k of
   the output, with its unmodelled entries preserved *)
Theorem trig_section_raw_entries_survive cx cx' v ts new v' :
  trig_decode cx v = Ok ts -> trig_encode cx' (ts ++ new) = Ok v' ->
  (length (vlist "_triggers" v) <= length (vlist "_triggers" v'))%nat /\
  forall k tv, nth_error (vlist "_triggers" v) k = Some tv ->
    exists tv', nth_error (vlist "_triggers" v') k = Some tv' /\ raw_entries_preserved tv tv'.
Proof.
  unfold trig_decode, trig_encode. intros Hd He. inv_bind He as vs Hvs Hk. inversion Hk; subst v'. clear Hk.
  match goal with
  | |- context [vlist "_triggers" (VPair (VNamed "_triggers" (VList ?l)) ?r)] =>
      change (vlist "_triggers" (VPair (VNamed "_triggers" (VList l)) r)) with l
  | |- context [vlist "_triggers" (mk_struct [("_triggers", VList ?l)])] =>
      change (vlist "_triggers" (mk_struct [("_triggers", VList l)])) with l
  end.
  destruct (mapM_app _ _ _ _ Hvs) as (r1 & r2 & H1 & H2 & ->).
  pose proof (mapM_length _ _ _ Hd) as L1. pose proof (mapM_length _ _ _ H1) as L2.
  split; [rewrite app_length; lia|].
  intros k tv Hn.
  destruct (mapM_nth _ _ _ _ _ Hd Hn) as (t & Ht & Hnt).
  destruct (mapM_nth _ _ _ _ _ H1 Hnt) as (tv' & Htv' & Hn').
  exists tv'. split.
  - rewrite nth_error_app1; [exact Hn' | apply nth_error_Some; congruence].
  - eapply trigger_raw_entries_survive; eauto.
Qed.

(* ---- the whole path: load, edit (append triggers here, anything elsewhere), save -------------------------------------------- *)

Theorem raw_trigger_entries_survive_load_edit_save d r r' wd d' i v ts new :
  load d = Ok r -> nth_error d i = Some (DTab "TRIG" v) ->
  nth_error r i = Some (RTrig ts) -> nth_error r' i = Some (RTrig (ts ++ new)) ->
  save wd r' = Ok d' ->
  exists v', nth_error d' i = Some (DTab "TRIG" v') /\
    forall k tv, nth_error (vlist "_triggers" v) k = Some tv ->
      exists tv', nth_error (vlist "_triggers" v') k = Some tv' /\ raw_entries_preserved tv tv'.
Proof.
  intros Hl Hn Hr Hr' Hs.
  (* what load did at position i *)
  unfold load in Hl. inv_bind Hl as cx Hcx Hm.
  destruct (mapM_nth _ _ _ _ _ Hm Hn) as (y & Hy & Hny). rewrite Hr in Hny. inversion Hny; subst y. clear Hny.
  cbn [load_section] in Hy.
  change (is_rich_name "TRIG") with true in Hy. cbn [negb] in Hy.
  change (String.eqb "TRIG" "MRGN") with false in Hy. change (String.eqb "TRIG" "TRIG") with true in Hy. cbv iota in Hy.
  inv_bind Hy as ts0 Hts Hk. inversion Hk; subst ts0. clear Hk.
  (* what save does at position i *)
  unfold save in Hs.
  inv_bind Hs as new_str H1 H. inv_bind H as mr H2 H. inv_bind H as sw H3 H. inv_bind H as up H4 H.
  inv_bind H as us H5 H. inv_bind H as SL H6 H. inv_bind H as chk H7 H. inv_bind H as secs Hms H.
  inv_bind H as e1 He1 H. inv_bind H as e2 He2 H. inversion H; subst d'. clear H.
  destruct (mapM_nth _ _ _ _ _ Hms Hr') as (y & Hy & Hny). cbv beta iota in Hy.
  inv_bind Hy as v' Hv' Hk. inversion Hk; subst y. clear Hk.
  exists v'. split.
  - rewrite nth_error_app1; [exact Hny | apply nth_error_Some; congruence].
  - eapply trig_section_raw_entries_survive; eauto.
Qed.
