(* Non-vacuity of C07_preexisting_triggers_are_unchanged_byte_for_byte: a concrete map (string table, one location, one
   unit-property slot, one trigger that shows a text, centres on the location, creates units with the property slot and
   sets switch 5) and a concrete edit (a new trigger with a NEW text, a NEW index-less location and a NEW nameless switch)
   meet every premise of the theorem; all of it is computed inside the kernel from the map's bytes. *)
From Coq Require Import String NArith List Bool Lia PeanoNat.
From RC Require Import lib.Result lib.Bytes lib.Tree model.Layout model.Str model.StrEditor model.Alloc model.ChkIo model.TrigTable
  model.RichCodec model.RichIo proofs.Alloc_proofs proofs.C08_proofs proofs.Save_strings proofs.C07_slots proofs.C07_triggers.
Import ListNotations.
Local Open Scope list_scope.
Local Open Scope N_scope.

(* ---- decidable versions of the premises ----------------------------------------------------------------------------------- *)

Definition rstr_beq (a b : rstr) : bool :=
  match a, b with RNull, RNull => true | RText x, RText y => list_N_eqb x y | _, _ => false end.

Lemma rstr_beq_eq a b : rstr_beq a b = true -> a = b.
Proof. destruct a, b; simpl; intros H; try discriminate; [reflexivity | apply list_N_eqb_eq in H; subst; reflexivity]. Qed.

Definition rsw_beq (a b : rswitch) : bool :=
  rstr_beq (s_name a) (s_name b) && optN_eqb (s_idx a) (s_idx b) && (s_oid a =? s_oid b).

Lemma rsw_beq_eq a b : rsw_beq a b = true -> a = b.
Proof.
  destruct a as [n1 i1 o1], b as [n2 i2 o2]. unfold rsw_beq. simpl. intros H.
  apply andb_true_iff in H as [H H3]. apply andb_true_iff in H as [H1 H2].
  apply rstr_beq_eq in H1. apply N.eqb_eq in H3. subst.
  destruct i1 as [x|], i2 as [y|]; simpl in H2; try discriminate; [apply N.eqb_eq in H2; subst|]; reflexivity.
Qed.

Lemma existsb_in_sw s l : existsb (rsw_beq s) l = true -> In s l.
Proof. intros H. apply existsb_exists in H as (x & Hx & He). apply rsw_beq_eq in He. subst. exact Hx. Qed.

Definition arg_okb (T : list (list N)) (ls : list rloc) (cs : list rcuwp) (r0 r' : list rsection) (x : rarg) : bool :=
  match x with
  | AStr RNull => true
  | AStr (RText t) => mem_str t T
  | AStrV p => mem_str p T
  | ALoc l => match l_idx l with Some i => memN i (map fst (by_idx ls)) | None => false end
  | ACuwp c => match c_idx c with
               | Some i => match assocN_last i (cby_idx cs) with Some c' => rcuwp_eqb c c' | None => false end
               | None => false
               end
  | ASwitch s => match s_idx s with
                 | Some _ => existsb (rsw_beq s) (flat_map section_switches r0) && existsb (rsw_beq s) (flat_map section_switches r')
                 | None => false
                 end
  | _ => true
  end.

Lemma arg_okb_ok T ls cs r0 r' x : arg_okb T ls cs r0 r' x = true -> arg_ok T ls cs r0 r' x.
Proof.
  destruct x as [n|id|l|s|p|c|sw|nm|]; cbn [arg_okb arg_ok]; intros H.
  - exact Logic.I.
  - exact Logic.I.
  - destruct (l_idx l) as [i|]; [|discriminate]. exists i. split; [reflexivity | apply memN_in; exact H].
  - destruct s as [|t]; [exact Logic.I | simpl; apply mem_str_in; exact H].
  - apply mem_str_in. exact H.
  - destruct (c_idx c) as [i|]; [|discriminate]. destruct (assocN_last i (cby_idx cs)) as [c'|] eqn:E; [|discriminate].
    exists i, c'. auto.
  - destruct (s_idx sw) as [k|]; [|discriminate]. apply andb_true_iff in H as [H1 H2].
    exists k. split; [reflexivity|]. split; apply existsb_in_sw; assumption.
  - exact Logic.I.
  - exact Logic.I.
Qed.

Definition entry_okb T ls cs r0 r' (e : rentry) : bool :=
  match e with ERaw _ => true | ERich _ args _ => forallb (fun ax => arg_okb T ls cs r0 r' (snd ax)) args end.

Definition trigger_okb T ls cs r0 r' (t : rtrigger) : bool :=
  forallb (entry_okb T ls cs r0 r') (t_conds t) && forallb (entry_okb T ls cs r0 r') (t_acts t).

Lemma trigger_okb_ok T ls cs r0 r' t : trigger_okb T ls cs r0 r' t = true -> trigger_ok T ls cs r0 r' t.
Proof.
  unfold trigger_okb. intros H. apply andb_true_iff in H as [Hc Ha]. rewrite forallb_forall in Hc, Ha.
  split; intros e He; [specialize (Hc e He) | specialize (Ha e He)];
    (destruct e as [r|key args fl]; [exact Logic.I|]; cbn [entry_okb entry_ok] in *;
     intros a x Hin; apply arg_okb_ok;
     match goal with H : forallb _ args = true |- _ => rewrite forallb_forall in H; exact (H (a, x) Hin) end).
Qed.

(* ---- the witness ---------------------------------------------------------------------------------------------------------------- *)

Definition le4 (n : N) : bytes := [n; 0; 0; 0].

Definition action (loc text wav time g1 g2 : N) (argtype id quant : N) : bytes :=
  le4 loc ++ le4 text ++ le4 wav ++ le4 time ++ le4 g1 ++ le4 g2 ++ [argtype; 0] ++ [id; quant; 0; 0; 0; 0].

Definition w_trigger : bytes :=
  (repeat 0 15 ++ [22] ++ repeat 0 4) ++ repeat 0 (15 * 20)                               (* conditions: Always *)
  ++ action 0 2 0 0 0 0 0 9 0          (* Display Text: string 2 *)
  ++ action 1 0 0 0 0 0 0 10 0         (* Center View: location 1 *)
  ++ action 1 0 0 0 0 1 0 11 3         (* Create 3 units (type 0) for player 0 at location 1 with property slot 1 *)
  ++ action 0 0 0 0 0 5 0 13 4         (* Set Switch 5 *)
  ++ repeat 0 (60 * 32)
  ++ le4 0 ++ [1] ++ repeat 0 26 ++ [0].

Definition w_map : bytes :=
  frame_all [(codes_of_string "STR ", [2; 0; 6; 0; 8; 0; 97; 0; 98; 0]);
             (codes_of_string "MRGN", le4 1 ++ le4 2 ++ le4 3 ++ le4 4 ++ [1; 0; 0; 0] ++ repeat 0 (254 * 20));
             (codes_of_string "UPRP", [1; 0; 1; 0; 0; 50; 0; 0; 0; 0; 0; 0; 0; 0; 0; 0; 0; 0; 0; 0] ++ repeat 0 (63 * 20));
             (codes_of_string "TRIG", w_trigger)].

Definition unwrapl {A} (r : result (list A)) : list A := match r with Ok l => l | Raise _ => [] end.

Definition w_r0 : list rsection := unwrapl (do d <- chk_decode w_map; load d).

Definition w_new : rtrigger :=
  {| t_conds := [];
     t_acts := [ERich 9 [("_text"%string, AStr (RText [99]))] [false; false; false; false; false];
                ERich 10 [("_location"%string,
                           ALoc {| l_x1 := 5; l_y1 := 6; l_x2 := 7; l_y2 := 8; l_name := RText [100]; l_idx := None;
                                   l_elev := [true; true; true; true; true; true]; l_oid := 7 |})]
                      [false; false; false; false; false];
                ERich 13 [("_switch"%string, ASwitch {| s_name := RNull; s_idx := None; s_oid := 9 |});
                          ("_switch_action"%string, AEnum 4)] [false; false; false; false; false]];
     t_players := [0] |}.

Definition w_r' : list rsection := unwrapl (add_triggers [w_new] w_r0).

Definition w_m : str_section := {| ss_num := 2; ss_offsets := [6; 8]; ss_strings := [[97]; [98]] |}.
Definition w_ls : list rloc := flat_map (fun s => match s with RMrgn ls => ls | _ => [] end) w_r0.
Definition w_cs : list rcuwp := flat_map (fun s => match s with RUprp cs => cs | _ => [] end) w_r0.
Definition w_ts : list rtrigger := flat_map (fun s => match s with RTrig ts => ts | _ => [] end) w_r0.

Definition cleanb (s : list N) : bool := forallb (fun c => (0 <? c) && (c <? 128)) s.
Lemma cleanb_clean l : forallb cleanb l = true -> Forall clean l.
Proof.
  intros H. apply Forall_forall. intros s Hs. rewrite forallb_forall in H. specialize (H s Hs).
  apply Forall_forall. intros c Hc. unfold cleanb in H. rewrite forallb_forall in H. specialize (H c Hc).
  apply andb_true_iff in H as [A B]. apply N.ltb_lt in A, B. split; assumption.
Qed.

Lemma w_wf : wf_table 2 w_m [2; 0; 6; 0; 8; 0; 97; 0; 98; 0].
Proof.
  constructor; simpl.
  - reflexivity.
  - repeat constructor; lia.
  - vm_compute. reflexivity.
  - repeat constructor.
    + exists 0%nat. split; [reflexivity | simpl; lia].
    + eexists. vm_compute. reflexivity.
    + exists 2%nat. split; [reflexivity | simpl; lia].
    + eexists. vm_compute. reflexivity.
Qed.

(* every premise of the theorem holds of the witness (and the old trigger really has all four kinds of reference) *)
Example the_premises_hold :
  filter (named "STR ") w_r0 = [RDecodedStr "STR " 2 w_m] /\ filter (named "STR ") w_r' = [RDecodedStr "STR " 2 w_m] /\
  build_lookup 2 w_m = Ok [[97]; [98]] /\
  Forall clean (flat_map section_strings w_r0) /\ Forall clean (flat_map section_strings w_r') /\
  filter (named "MRGN") w_r0 = [RMrgn w_ls] /\ filter (named "MRGN") w_r' = [RMrgn w_ls] /\
  filter (named "UPRP") w_r0 = [RUprp w_cs] /\ filter (named "UPRP") w_r' = [RUprp w_cs] /\
  nth_error w_r0 3 = Some (RTrig w_ts) /\ nth_error w_r' 3 = Some (RTrig (w_ts ++ [w_new])) /\
  Forall (trigger_ok [[97]; [98]] w_ls w_cs w_r0 w_r') w_ts /\
  length w_ts = 1%nat /\ length (flat_map (fun t => t_acts t) w_ts) = 4%nat /\
  is_ok (save [] w_r0) = true /\ is_ok (save [] w_r') = true.
Proof.
  repeat match goal with |- _ /\ _ => split end;
    try match goal with |- @eq _ _ _ => vm_compute; reflexivity end.
  - apply cleanb_clean. vm_compute. reflexivity.
  - apply cleanb_clean. vm_compute. reflexivity.
  - apply Forall_forall. intros t Ht. apply trigger_okb_ok.
    assert (forallb (trigger_okb [[97]; [98]] w_ls w_cs w_r0 w_r') w_ts = true) as H by (vm_compute; reflexivity).
    rewrite forallb_forall in H. exact (H t Ht).
Qed.

Definition w_d0 : list dsection := unwrapl (save [] w_r0).
Definition w_d' : list dsection := unwrapl (save [] w_r').
Lemma w_save0 : save [] w_r0 = Ok w_d0. Proof. vm_compute. reflexivity. Qed.
Lemma w_save' : save [] w_r' = Ok w_d'. Proof. vm_compute. reflexivity. Qed.

(* hence, for this map and this edit, the theorem's conclusion: the old trigger's 2400 bytes are where they were *)
Example the_old_trigger_is_unchanged :
  exists v0 v', nth_error w_d0 3 = Some (DTab "TRIG" v0) /\ nth_error w_d' 3 = Some (DTab "TRIG" v') /\
    forall k tv, nth_error (vlist "_triggers" v0) k = Some tv -> nth_error (vlist "_triggers" v') k = Some tv.
Proof.
  destruct the_premises_hold as (P1 & P2 & P3 & P4 & P5 & P6 & P7 & P8 & P9 & P10 & P11 & P12 & _).
  exact (preexisting_triggers_survive_edits_bytewise w_r0 w_r' [] w_d0 w_d' w_m _ _ w_ls w_cs 3 w_ts [w_new]
           P1 P2 w_wf P3 P4 P5 P6 P7 P8 P9 P10 P11 P12 w_save0 w_save').
Qed.
