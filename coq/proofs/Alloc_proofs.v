(* Soundness of the slot allocators for every iteration order, and independence from that order. *)
From Coq Require Import String NArith List Bool Lia PeanoNat Permutation.
From RC Require Import lib.Result model.Alloc proofs.Layout_proofs.
Import ListNotations.
Local Open Scope N_scope.

Lemma memN_in k l : memN k l = true <-> In k l.
Proof.
  unfold memN. rewrite existsb_exists. split.
  - intros (x & Hx & He). apply N.eqb_eq in He. subst. assumption.
  - intros H. exists k. split; [assumption | apply N.eqb_refl].
Qed.

Lemma memN_false k l : memN k l = false <-> ~ In k l.
Proof. rewrite <- memN_in. destruct (memN k l); split; intros; congruence. Qed.

Lemma removeN_in k l x : In x (removeN k l) <-> In x l /\ x <> k.
Proof.
  unfold removeN. rewrite filter_In. rewrite negb_true_iff, N.eqb_neq. tauto.
Qed.

Lemma removeN_nodup k l : NoDup l -> NoDup (removeN k l).
Proof. apply NoDup_filter. Qed.

(* the per-request contract *)
Definition outcome_fits (r : request) (o : outcome) : Prop :=
  match r, o with
  | RCarry k, Placed i => i = k
  | RCarry _, Dropped | RCarry _, Unplaced => True
  | RFresh, Placed _ | RFresh, Unplaced => True
  | RSkip, Reused | RSkip, Unplaced => True
  | _, _ => False
  end.

Lemma unplaced_placed (reqs : list request) : placed_ids (map (fun _ => Unplaced) reqs) = [].
Proof. induction reqs; simpl; auto. Qed.

Lemma unplaced_fresh (reqs : list request) : fresh_ids reqs (map (fun _ => Unplaced) reqs) = [].
Proof. induction reqs as [|r reqs IH]; simpl; [reflexivity | destruct r; exact IH]. Qed.

Lemma unplaced_fits (reqs : list request) : Forall2 outcome_fits reqs (map (fun _ => Unplaced) reqs).
Proof. induction reqs as [|r reqs IH]; simpl; constructor; [destruct r; exact I | exact IH]. Qed.

Section Sound.
  Variable b : bool.
  Variable rg : option (N * N).

  (* editors (carried index placed only when unused) *)
  Lemma engine_sound : forall reqs used free outs,
    engine b true rg reqs used free = Ok outs ->
    NoDup free -> (forall i, In i free -> ~ In i used) ->
    Forall2 outcome_fits reqs outs /\
    NoDup (placed_ids outs) /\
    (forall i, In i (placed_ids outs) -> ~ In i used) /\
    (forall i, In i (fresh_ids reqs outs) -> In i free) /\
    NoDup (fresh_ids reqs outs).
  Proof.
    induction reqs as [|r rest IH]; intros used free outs H Hnd Hdisj.
    - simpl in H. inversion H; subst. simpl. repeat split; try constructor; intros i [].
    - cbn [engine] in H.
      + destruct r as [k| |].
        * cbn [andb] in H.
          destruct (match rg with Some (lo, hi) => (k <? lo) || (hi <? k) | None => false end); [discriminate|].
          destruct (memN k used) eqn:Ek.
          -- inv_bind H as o Ho Hk. inversion Hk; subst outs.
             destruct (IH _ _ _ Ho Hnd Hdisj) as (F & N1 & N2 & N3 & N4).
             simpl. repeat split; auto. constructor; [exact I | assumption].
          -- inv_bind H as o Ho Hk. inversion Hk; subst outs.
             apply memN_false in Ek.
             destruct (IH (k :: used) (removeN k free) o Ho) as (F & N1 & N2 & N3 & N4).
             { apply removeN_nodup; assumption. }
             { intros i Hi [<-|Hu]; apply removeN_in in Hi as [Hi Hne]; [congruence | eapply Hdisj; eauto]. }
             simpl. repeat split.
             ++ constructor; [reflexivity | assumption].
             ++ constructor; [|assumption]. intros Hin. apply N2 in Hin. apply Hin. left. reflexivity.
             ++ intros i [<-|Hi]; [assumption|]. intros Hu. apply (N2 i Hi). right. assumption.
             ++ intros i Hi. apply N3 in Hi. apply removeN_in in Hi. tauto.
             ++ assumption.
        * destruct free as [|f free'].
          { destruct b; [|discriminate]. inversion H; subst outs.
            change (Unplaced :: map (fun _ : request => Unplaced) rest) with (map (fun _ : request => Unplaced) (RFresh :: rest)).
            rewrite unplaced_placed, unplaced_fresh. repeat split; try constructor; try (intros i []).
            - exact I.
            - apply unplaced_fits. }
          inv_bind H as o Ho Hk. inversion Hk; subst outs.
          inversion Hnd as [|? ? Hf Hnd']; subst.
          destruct (IH (f :: used) free' o Ho Hnd') as (F & N1 & N2 & N3 & N4).
          { intros i Hi [<-|Hu]; [contradiction | eapply Hdisj; [right; exact Hi | exact Hu]]. }
          simpl. repeat split.
          -- constructor; [exact I | assumption].
          -- constructor; [|assumption]. intros Hin. apply N2 in Hin. apply Hin. left. reflexivity.
          -- intros i [<-|Hi]; [apply Hdisj; left; reflexivity|]. intros Hu. apply (N2 i Hi). right. assumption.
          -- intros i [<-|Hi]; [left; reflexivity | right; apply N3; assumption].
          -- constructor; [|assumption]. intros Hin. apply N3 in Hin. contradiction.
        * inv_bind H as o Ho Hk. inversion Hk; subst outs.
          destruct (IH _ _ _ Ho Hnd Hdisj) as (F & N1 & N2 & N3 & N4).
          simpl. repeat split; auto. constructor; [exact I | assumption].
  Qed.
End Sound.

(* ---- free_ids: what "free" means for a table ------------------------------------------------------------ *)

Lemma range_from_in lo n x : In x (range_from lo n) <-> lo <= x /\ x < lo + N.of_nat n.
Proof.
  revert lo; induction n as [|n IH]; intros lo; simpl.
  - split; [intros [] | lia].
  - rewrite IH. split.
    + intros [<-|[H1 H2]]; lia.
    + intros [H1 H2]. destruct (N.eq_dec lo x) as [->|Hne]; [left; reflexivity | right; lia].
Qed.

Lemma range_from_nodup lo n : NoDup (range_from lo n).
Proof.
  revert lo; induction n as [|n IH]; intros lo; simpl; constructor; [|apply IH].
  rewrite range_from_in. lia.
Qed.

Lemma free_ids_spec lo count reserved used x :
  In x (free_ids lo count reserved used) <->
  lo <= x /\ x < lo + count /\ ~ In x used /\ ~ In x reserved.
Proof.
  unfold free_ids. rewrite filter_In, range_from_in, andb_true_iff, !negb_true_iff, !memN_false.
  rewrite N2Nat.id. tauto.
Qed.

Lemma free_ids_nodup lo count reserved used : NoDup (free_ids lo count reserved used).
Proof. unfold free_ids. apply NoDup_filter. apply range_from_nodup. Qed.

(* ---- order independence ------------------------------------------------------------------------------------ *)

Definition is_carry (r : request) : bool := match r with RCarry _ => true | _ => false end.

(* a run over requests without carried indices hands out the free list front to back *)
Lemma engine_no_carry_fresh b c rg : forall reqs used free outs,
  forallb (fun r => negb (is_carry r)) reqs = true ->
  engine b c rg reqs used free = Ok outs ->
  exists n, fresh_ids reqs outs = firstn n free.
Proof.
  induction reqs as [|r rest IH]; intros used free outs Hnc H.
  - simpl in H. inversion H; subst. exists 0%nat. reflexivity.
  - simpl in Hnc. apply andb_true_iff in Hnc as [Hr Hnc]. cbn [engine] in H.
    + destruct r as [k| |]; [discriminate| |].
      * destruct free as [|f free'].
        { destruct b; [|discriminate]. inversion H; subst outs. exists 0%nat. simpl.
          clear. induction rest as [|r0 rest IHr]; [reflexivity | destruct r0; simpl; auto]. }
        inv_bind H as o Ho Hk. inversion Hk; subst outs.
        destruct (IH _ _ _ Hnc Ho) as [n Hn]. exists (S n). simpl. rewrite Hn. reflexivity.
      * inv_bind H as o Ho Hk. inversion Hk; subst outs.
        destruct (IH _ _ _ Hnc Ho) as [n Hn]. exists n. simpl. exact Hn.
Qed.

(* removing the carried indices from the free list does not depend on the order they are met in *)
Lemma removeN_comm a b l : removeN a (removeN b l) = removeN b (removeN a l).
Proof.
  unfold removeN. induction l as [|x l IH]; simpl; [reflexivity|].
  destruct (x =? b) eqn:Eb; destruct (x =? a) eqn:Ea; simpl; rewrite ?Ea, ?Eb; simpl; rewrite ?IH; reflexivity.
Qed.

Definition remove_all (ks : list N) (l : list N) : list N := fold_left (fun acc k => removeN k acc) ks l.

Lemma remove_all_filter ks : forall l, remove_all ks l = filter (fun x => negb (memN x ks)) l.
Proof.
  induction ks as [|k ks IH]; intros l; simpl.
  - induction l as [|x l IHl]; simpl; [reflexivity | rewrite <- IHl; reflexivity].
  - rewrite IH. unfold removeN. clear IH.
    induction l as [|x l IHl]; simpl; [reflexivity|].
    rewrite N.eqb_sym. destruct (k =? x) eqn:E; simpl.
    + exact IHl.
    + destruct (memN x ks); simpl; rewrite IHl; reflexivity.
Qed.

Lemma remove_all_perm ks ks' l : Permutation ks ks' -> remove_all ks l = remove_all ks' l.
Proof.
  intros P. rewrite !remove_all_filter. apply filter_ext. intros x. f_equal.
  destruct (memN x ks) eqn:E.
  - symmetry. apply memN_in. apply memN_in in E. eapply Permutation_in; eauto.
  - symmetry. apply memN_false. apply memN_false in E. intros H. apply E.
    eapply Permutation_in; [apply Permutation_sym; eauto | assumption].
Qed.

(* running the engine over distinct, unused carried indices: all are placed; free loses exactly them *)
Lemma engine_carried_prefix : forall ks rest used free,
  NoDup ks -> (forall k, In k ks -> ~ In k used) ->
  engine false true None (map RCarry ks ++ rest) used free =
  (do o <- engine false true None rest (rev ks ++ used) (remove_all ks free); Ok (map Placed ks ++ o)).
Proof.
  induction ks as [|k ks IH]; intros rest used free Hnd Hun.
  - simpl. destruct (engine false true None rest used free); reflexivity.
  - inversion Hnd as [|? ? Hk Hnd']; subst. cbn [map app engine]. simpl.
    assert (memN k used = false) as -> by (apply memN_false; apply Hun; left; reflexivity).
    rewrite IH; auto.
    + simpl. rewrite <- app_assoc. simpl.
      destruct (engine false true None rest (rev ks ++ k :: used) (remove_all ks (removeN k free))); reflexivity.
    + intros k' Hk' [<-|Hu]; [contradiction | eapply Hun; [right; exact Hk' | exact Hu]].
Qed.

(* membership-equivalent "used" lists give the same run *)
Lemma engine_used_ext b c rg : forall reqs used used' free,
  (forall x, In x used <-> In x used') -> engine b c rg reqs used free = engine b c rg reqs used' free.
Proof.
  induction reqs as [|r rest IH]; intros used used' free Heq; [reflexivity|].
  cbn [engine].
  destruct r as [k| |].
  - destruct (match rg with Some (lo, hi) => (k <? lo) || (hi <? k) | None => false end); [reflexivity|].
    assert (memN k used = memN k used') as ->.
    { destruct (memN k used') eqn:E; [apply memN_in; apply Heq; apply memN_in; assumption|].
      apply memN_false. apply memN_false in E. intros H. apply E. apply Heq. assumption. }
    destruct (c && memN k used').
    + rewrite (IH used used' free Heq). reflexivity.
    + rewrite (IH (k :: used) (k :: used') _); [reflexivity|]. intros x. simpl. rewrite Heq. tauto.
  - destruct free as [|f free']; [reflexivity|].
    rewrite (IH (f :: used) (f :: used') _); [reflexivity|]. intros x. simpl. rewrite Heq. tauto.
  - rewrite (IH used used' free Heq). reflexivity.
Qed.

Definition count_fresh (reqs : list request) : nat :=
  length (filter (fun r => match r with RFresh => true | _ => false end) reqs).

(* any mode: distinct, unused, in-range carried indices at the front are all placed, whatever is left of the free list *)
Definition in_range (rg : option (N * N)) (k : N) : bool :=
  match rg with Some (lo, hi) => negb ((k <? lo) || (hi <? k)) | None => true end.

Lemma engine_carried_prefix_gen b rg : forall ks rest used free,
  NoDup ks -> (forall k, In k ks -> ~ In k used) -> (forall k, In k ks -> in_range rg k = true) ->
  engine b true rg (map RCarry ks ++ rest) used free =
  (do o <- engine b true rg rest (rev ks ++ used) (remove_all ks free); Ok (map Placed ks ++ o)).
Proof.
  induction ks as [|k ks IH]; intros rest used free Hnd Hun Hrg.
  - simpl. destruct (engine b true rg rest used free); reflexivity.
  - inversion Hnd as [|? ? Hk Hnd']; subst. cbn [map app engine].
    assert ((match rg with Some (lo, hi) => (k <? lo) || (hi <? k) | None => false end) = false) as ->.
    { specialize (Hrg k (or_introl eq_refl)). unfold in_range in Hrg. destruct rg as [[lo hi]|]; [|reflexivity].
      apply negb_true_iff in Hrg. exact Hrg. }
    assert (memN k used = false) as -> by (apply memN_false; apply Hun; left; reflexivity).
    cbn [andb]. rewrite IH; auto.
    + simpl. rewrite <- app_assoc. simpl.
      destruct (engine b true rg rest (rev ks ++ k :: used) (remove_all ks (removeN k free))); reflexivity.
    + intros k' Hk' [<-|Hu]; [contradiction | eapply Hun; [right; exact Hk' | exact Hu]].
    + intros k' Hk'. apply Hrg. right. assumption.
Qed.

(* every table, every mode (raise when full / leave unplaced when full): two iteration orders of the same objects -
   distinct unused in-range carried indices, then n index-less objects - give the same verdict (both Ok or both Raise),
   the same list of new ids, the same set of occupied slots, and the same number of objects left unplaced *)
Theorem order_independent_gen b rg ks ks' n used free :
  Permutation ks ks' -> NoDup ks -> (forall k, In k ks -> ~ In k used) -> (forall k, In k ks -> in_range rg k = true) ->
  match engine b true rg (map RCarry ks ++ repeat RFresh n) used free,
        engine b true rg (map RCarry ks' ++ repeat RFresh n) used free with
  | Ok o, Ok o' =>
      fresh_ids (map RCarry ks ++ repeat RFresh n) o = fresh_ids (map RCarry ks' ++ repeat RFresh n) o' /\
      Permutation (placed_ids o) (placed_ids o') /\
      skipn (length ks) o = skipn (length ks') o'
  | Raise _, Raise _ => True
  | _, _ => False
  end.
Proof.
  intros P Hnd Hun Hrg.
  assert (NoDup ks') as Hnd' by (eapply Permutation_NoDup; eauto).
  assert (forall k, In k ks' -> ~ In k used) as Hun'
    by (intros k Hk; apply Hun; eapply Permutation_in; [apply Permutation_sym; eauto | assumption]).
  assert (forall k, In k ks' -> in_range rg k = true) as Hrg'
    by (intros k Hk; apply Hrg; eapply Permutation_in; [apply Permutation_sym; eauto | assumption]).
  rewrite (engine_carried_prefix_gen b rg ks) by auto.
  rewrite (engine_carried_prefix_gen b rg ks') by auto.
  rewrite (remove_all_perm ks ks' free P).
  rewrite (engine_used_ext b true rg (repeat RFresh n) (rev ks ++ used) (rev ks' ++ used)).
  2:{ intros x. rewrite !in_app_iff, <- !in_rev. split; intros [H|H]; auto; left;
      [eapply Permutation_in; eauto | eapply Permutation_in; [apply Permutation_sym; eauto | assumption]]. }
  destruct (engine b true rg (repeat RFresh n) (rev ks' ++ used) (remove_all ks' free)) as [o|e]; simpl; [|exact I].
  split; [|split].
  - assert (forall l (o0 : list outcome) r, fresh_ids (map RCarry l ++ r) (map Placed l ++ o0) = fresh_ids r o0) as F
      by (induction l as [|x l IHl]; intros; simpl; auto).
    rewrite !F. reflexivity.
  - assert (forall l (o0 : list outcome), placed_ids (map Placed l ++ o0) = l ++ placed_ids o0) as G
      by (induction l as [|x l IHl]; intros; simpl; [reflexivity | rewrite IHl; reflexivity]).
    rewrite !G. apply Permutation_app_tail. assumption.
  - assert (forall l (o0 : list outcome), skipn (length l) (map Placed l ++ o0) = o0) as S
      by (induction l as [|x l IHl]; intros; simpl; auto).
    rewrite !S. reflexivity.
Qed.

(* the UPRP allocator (raise mode): for two iteration orders of the same requests with distinct, unused
   carried indices, both runs succeed or both raise, every carried object keeps its index in both, and
   the ids handed to the fresh requests are the SAME list of ids (the smallest free ones), only
   distributed over the objects in iteration order: the outputs differ by a bijection on new slot numbers *)
Theorem raise_mode_order_independent ks ks' n rest rest' used free :
  Permutation ks ks' -> NoDup ks -> (forall k, In k ks -> ~ In k used) ->
  rest = repeat RFresh n -> rest' = repeat RFresh n ->
  match engine false true None (map RCarry ks ++ rest) used free,
        engine false true None (map RCarry ks' ++ rest') used free with
  | Ok o, Ok o' =>
      fresh_ids (map RCarry ks ++ rest) o = fresh_ids (map RCarry ks' ++ rest') o' /\
      Permutation (placed_ids o) (placed_ids o')
  | Raise _, Raise _ => True
  | _, _ => False
  end.
Proof.
  intros P Hnd Hun -> ->.
  assert (NoDup ks') as Hnd' by (eapply Permutation_NoDup; eauto).
  assert (forall k, In k ks' -> ~ In k used) as Hun'
    by (intros k Hk; apply Hun; eapply Permutation_in; [apply Permutation_sym; eauto | assumption]).
  rewrite (engine_carried_prefix ks) by auto.
  rewrite (engine_carried_prefix ks') by auto.
  rewrite (remove_all_perm ks ks' free P).
  rewrite (engine_used_ext false true None (repeat RFresh n) (rev ks ++ used) (rev ks' ++ used)).
  2:{ intros x. rewrite !in_app_iff, <- !in_rev. split; intros [H|H]; auto; left;
      [eapply Permutation_in; eauto | eapply Permutation_in; [apply Permutation_sym; eauto | assumption]]. }
  destruct (engine false true None (repeat RFresh n) (rev ks' ++ used) (remove_all ks' free)) as [o|e]; simpl; [|exact I].
  split.
  - assert (forall l (o0 : list outcome) r, fresh_ids (map RCarry l ++ r) (map Placed l ++ o0) = fresh_ids r o0) as F
      by (induction l as [|x l IHl]; intros; simpl; auto).
    rewrite !F. reflexivity.
  - assert (forall l (o0 : list outcome), placed_ids (map Placed l ++ o0) = l ++ placed_ids o0) as G
      by (induction l as [|x l IHl]; intros; simpl; [reflexivity | rewrite IHl; reflexivity]).
    rewrite !G. apply Permutation_app_tail. assumption.
Qed.

(* ---- fresh ids are sound in every mode (also for the SWNM rebuilder, whose carried indices always win) *)
Lemma engine_fresh_sound b c rg : forall reqs used free outs,
  engine b c rg reqs used free = Ok outs -> NoDup free ->
  (forall i, In i (fresh_ids reqs outs) -> In i free) /\ NoDup (fresh_ids reqs outs).
Proof.
  induction reqs as [|r rest IH]; intros used free outs H Hnd.
  - simpl in H. inversion H; subst. simpl. split; [intros i [] | constructor].
  - cbn [engine] in H.
    + destruct r as [k| |].
      * destruct (match rg with Some (lo, hi) => (k <? lo) || (hi <? k) | None => false end); [discriminate|].
        destruct (c && memN k used).
        -- inv_bind H as o Ho Hk. inversion Hk; subst outs. simpl. eapply IH; eauto.
        -- inv_bind H as o Ho Hk. inversion Hk; subst outs. simpl.
           destruct (IH _ _ _ Ho (removeN_nodup k free Hnd)) as [A B]. split; [|assumption].
           intros i Hi. apply A in Hi. apply removeN_in in Hi. tauto.
      * destruct free as [|f free'].
        { destruct b; [|discriminate]. inversion H; subst outs.
          change (Unplaced :: map (fun _ : request => Unplaced) rest) with (map (fun _ : request => Unplaced) (RFresh :: rest)).
          rewrite unplaced_fresh. split; [intros i [] | constructor]. }
        inv_bind H as o Ho Hk. inversion Hk; subst outs. inversion Hnd as [|? ? Hf Hnd']; subst.
        destruct (IH _ _ _ Ho Hnd') as [A B]. simpl. split.
        -- intros i [<-|Hi]; [left; reflexivity | right; apply A; assumption].
        -- constructor; [|assumption]. intros Hin. apply A in Hin. contradiction.
      * inv_bind H as o Ho Hk. inversion Hk; subst outs. simpl. eapply IH; eauto.
Qed.

(* raise mode: more fresh requests than free ids => the call raises *)
Lemma removeN_length k l : (length (removeN k l) <= length l)%nat.
Proof. unfold removeN. induction l as [|x l IH]; simpl; [lia | destruct (negb (x =? k)); simpl; lia]. Qed.

Lemma count_fresh_cons r rest :
  count_fresh (r :: rest) = ((match r with RFresh => 1 | _ => 0 end) + count_fresh rest)%nat.
Proof. unfold count_fresh. destruct r; reflexivity. Qed.

Lemma engine_exhausted c rg : forall reqs used free,
  (length free < count_fresh reqs)%nat -> exists e, engine false c rg reqs used free = Raise e.
Proof.
  induction reqs as [|r rest IH]; intros used free Hlt; [unfold count_fresh in Hlt; simpl in Hlt; lia|].
  rewrite count_fresh_cons in Hlt. cbn [engine]. simpl. destruct r as [k| |].
  - destruct (match rg with Some (lo, hi) => (k <? lo) || (hi <? k) | None => false end); [eauto|].
    destruct (c && memN k used).
    + destruct (IH used free) as [e ->]; [lia | simpl; eauto].
    + destruct (IH (k :: used) (removeN k free)) as [e ->];
        [pose proof (removeN_length k free); lia | simpl; eauto].
  - destruct free as [|f free']; [eauto|].
    destruct (IH (f :: used) free') as [e ->]; [simpl in Hlt; lia | simpl; eauto].
  - destruct (IH used free) as [e ->]; [lia | simpl; eauto].
Qed.

(* nothing fresh to place => never blocked, however full the table is *)
Lemma engine_no_fresh_ok b c rg : forall reqs used free,
  (forall k, In (RCarry k) reqs -> match rg with Some (lo, hi) => (k <? lo) || (hi <? k) | None => false end = false) ->
  count_fresh reqs = 0%nat -> exists outs, engine b c rg reqs used free = Ok outs.
Proof.
  induction reqs as [|r rest IH]; intros used free Hrg H0; [simpl; eauto|].
  assert (forall k, In (RCarry k) rest -> match rg with Some (lo, hi) => (k <? lo) || (hi <? k) | None => false end = false) as Hrg'
    by (intros k Hk; apply Hrg; right; assumption).
  cbn [engine].
  rewrite count_fresh_cons in H0. destruct r as [k| |]; simpl in H0; try discriminate.
  - rewrite (Hrg k (or_introl eq_refl)). destruct (c && memN k used).
    + destruct (IH used free Hrg' H0) as [o ->]. simpl. eauto.
    + destruct (IH (k :: used) (removeN k free) Hrg' H0) as [o ->]. simpl. eauto.
  - destruct (IH used free Hrg' H0) as [o ->]. simpl. eauto.
Qed.
