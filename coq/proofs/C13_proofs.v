(* C13 on the table generated from /repo/src: the ownership check accepts every function, so the
   soundness theorem of Heap_proofs.v applies to every one of them. *)
From Coq Require Import NArith List Bool Arith Lia.
From RC Require Import model.Heap proofs.Heap_proofs gen.GenHeap.
Import ListNotations.

Definition c13_sums0 : list fsum := map (fun fn => mksum (f_pfresh fn) true) gen_heap_table.
Definition c13_sums : list fsum := summarise gen_heap_rounds gen_heap_fuel gen_heap_table c13_sums0.

Lemma c13_table_ok : table_ok gen_heap_fuel gen_heap_table c13_sums = true.
Proof. vm_compute. reflexivity. Qed.

Definition entry_ok (g : nat) : bool :=
  match nth_error gen_heap_table g, nth_error c13_sums g with
  | Some fn, Some sm => forallb negb (f_pfresh fn) && s_ret sm
  | _, _ => false
  end.

Lemma c13_entries_ok : forallb entry_ok gen_heap_entries = true.
Proof. vm_compute. reflexivity. Qed.

Lemma c13_entries_nonempty : 20 <= length gen_heap_entries.
Proof. vm_compute. repeat constructor. Qed.

Lemma entry_public g : In g gen_heap_entries -> public_fn gen_heap_table g.
Proof.
  intros Hin fn Hfn. pose proof c13_entries_ok as H. rewrite forallb_forall in H.
  specialize (H g Hin). unfold entry_ok in H. rewrite Hfn in H.
  destruct (nth_error c13_sums g); [|discriminate].
  apply andb_true_iff in H. tauto.
Qed.

Lemma no_operation_writes_to_an_existing_object g fuel h args o :
  In g gen_heap_entries -> frame h (hp (run gen_heap_table fuel g h args o)).
Proof.
  intros Hin. eapply run_frame; [exact c13_table_ok|]. apply entry_public; exact Hin.
Qed.

(* the same for every function none of whose parameters is reserved for the caller's own new objects *)
Lemma no_public_function_writes_to_an_existing_object g fuel h args o :
  public_fn gen_heap_table g -> frame h (hp (run gen_heap_table fuel g h args o)).
Proof. intros Hp. eapply run_frame; [exact c13_table_ok|exact Hp]. Qed.

Lemma operations_return_new_objects g fuel h args o :
  In g gen_heap_entries ->
  halt (run gen_heap_table fuel g h args o) = 1 ->
  vfresh (length h) (ret (run gen_heap_table fuel g h args o)).
Proof.
  intros Hin. pose proof c13_entries_ok as H. rewrite forallb_forall in H.
  specialize (H g Hin). unfold entry_ok in H.
  destruct (nth_error gen_heap_table g) as [fn|] eqn:Efn; [|discriminate].
  destruct (nth_error c13_sums g) as [sm|] eqn:Esm; [|discriminate].
  apply andb_true_iff in H. destruct H as [Hp Hr].
  eapply run_returns_new; eauto. exact c13_table_ok.
Qed.

Lemma histories_never_change_an_object cs h :
  Forall (fun c => In (c_fn c) gen_heap_entries) cs -> frame h (fold_left (after gen_heap_table) cs h).
Proof.
  intros Hc. eapply history_frame; [exact c13_table_ok|].
  eapply Forall_impl; [|exact Hc]. intros c Hin. apply entry_public; exact Hin.
Qed.

Lemma histories_keep_every_intermediate_value cs1 cs2 h :
  Forall (fun c => In (c_fn c) gen_heap_entries) (cs1 ++ cs2) ->
  frame (fold_left (after gen_heap_table) cs1 h) (fold_left (after gen_heap_table) (cs1 ++ cs2) h).
Proof.
  intros Hc. eapply history_frame_between; [exact c13_table_ok|].
  eapply Forall_impl; [|exact Hc]. intros c Hin. apply entry_public; exact Hin.
Qed.

(* ---- the statements are not vacuous ---------------------------------------------------------------- *)
(* the checker does reject programs that write to what they were given, and such programs do change it *)
Definition bad_fn : func := mkfunc 3 [false; false] [SRead 2 0; SWrite 2 [1]; SRet 2].
Example checker_rejects_a_mutating_function :
  check [] 10 (f_body bad_fn) (init_aenv bad_fn) = None.
Proof. vm_compute. reflexivity. Qed.
Example and_that_function_does_mutate :
  hp (run [bad_fn] 10 0 [[VAtom]] [VLoc 0; VAtom] [0; 0]) = [[VAtom; VAtom]].
Proof. vm_compute. reflexivity. Qed.

(* dropping the copy is what the checker is sensitive to *)
Definition copying_fn : func := mkfunc 3 [false; false] [SCopy 2 0; SWrite 2 [1]; SRet 2].
Example checker_accepts_the_copying_version :
  exists g, check [] 10 (f_body copying_fn) (init_aenv copying_fn) = Some g /\ rfresh g = true.
Proof. eexists. vm_compute. split; reflexivity. Qed.
Example and_it_leaves_its_argument_alone :
  hp (run [copying_fn] 10 0 [[VAtom]] [VLoc 0; VAtom] [0; 0]) = [[VAtom]; [VAtom; VAtom]].
Proof. vm_compute. reflexivity. Qed.

(* real runs of generated operations reach their return statement, allocate, and hand back a new object
   (oracle []: every choice is 0 - no exception, first alternative, loops not entered, the object itself) *)
Definition sample_run (g : nat) : state :=
  run gen_heap_table (30 * gen_heap_fuel) g [[VAtom]; [VLoc 0]] [VLoc 1; VLoc 1; VLoc 1; VLoc 1] [].
Definition returning_entries : list nat :=
  filter (fun g => Nat.eqb (halt (sample_run g)) 1 && Nat.ltb 2 (length (hp (sample_run g)))) gen_heap_entries.
Example many_generated_operations_run_to_their_return : 12 <= length returning_entries.
Proof. vm_compute. repeat constructor. Qed.
