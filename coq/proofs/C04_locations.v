(* C04, "every new reference resolves to the authored object", locations, through the save's own rebuild: the number the save
   hands to the trigger encoders for a location l (RichMrgnLookup.get_id_by_location over the REBUILT table) names a slot of
   the rebuilt table that holds a location Python considers equal to l, carrying exactly that number.  Covers locations that
   were in the map (found among the table's own entries) and authored ones (placed by the allocation engine). *)
From Coq Require Import String NArith List Bool Lia PeanoNat.
From RC Require Import lib.Result lib.Bytes model.Layout model.RichCodec model.RichIo model.Alloc
  proofs.Layout_proofs proofs.C08_proofs proofs.C09_proofs proofs.Save_strings proofs.C07_slots proofs.C07_triggers gen.GenConsts.
Import ListNotations.
Local Open Scope string_scope.
Local Open Scope list_scope.
Local Open Scope N_scope.

Lemma find_loc_id_some l : forall t acc i,
  find_loc_id l t acc = Some i -> acc = Some i \/ exists k, In (k, i) t /\ rloc_eqb l k = true.
Proof.
  induction t as [|[k j] t IH]; intros acc i H; simpl in H; [left; exact H|].
  apply IH in H as [H|(k' & Hin & He)].
  - destruct (rloc_eqb l k) eqn:E; [|left; exact H]. inversion H; subst j. right. exists k. split; [left; reflexivity | exact E].
  - right. exists k'. split; [right; exact Hin | exact He].
Qed.

Lemma assocN_last_unique {A} k (v : A) (l : list (N * A)) :
  NoDup (map fst l) -> In (k, v) l -> assocN_last k l = Some v.
Proof.
  induction l as [|[k' v'] l IH]; intros Hnd Hin; [destruct Hin|]. simpl in Hnd. inversion Hnd as [|? ? Hnot Hnd']; subst.
  simpl. destruct Hin as [Heq|Hin].
  - inversion Heq; subst k' v'. rewrite assocN_last_none by exact Hnot. rewrite N.eqb_refl. reflexivity.
  - rewrite (IH Hnd' Hin). reflexivity.
Qed.

Lemma placed_ids_app a b : placed_ids (a ++ b) = placed_ids a ++ placed_ids b.
Proof. unfold placed_ids. apply flat_map_app. Qed.

Lemma placed_ids_firstn_nodup n outs : NoDup (placed_ids outs) -> NoDup (placed_ids (firstn n outs)).
Proof.
  intros H. rewrite <- (firstn_skipn n outs), placed_ids_app in H. revert H.
  generalize (placed_ids (firstn n outs)) as a. generalize (placed_ids (skipn n outs)) as b.
  intros b a. induction a as [|x a IH]; simpl; intros H; [constructor|].
  inversion H as [|? ? Hnot Hnd]; subst. constructor; [|apply IH; exact Hnd].
  intros Hc. apply Hnot. apply in_or_app. left. exact Hc.
Qed.

Lemma set_idx_self l i : l_idx l = Some i -> set_idx l i = l.
Proof. destruct l; simpl; intros ->; reflexivity. Qed.

Theorem saved_location_number_names_the_location r ls mr l i :
  filter (named "MRGN") r = [RMrgn ls] -> rebuild_mrgn r = Ok mr ->
  NoDup (map fst (by_idx ls)) ->                       (* the loaded table has one location per number (decode gives that) *)
  find_loc_id l (snd mr) None = Some i ->
  exists k0, rloc_eqb l k0 = true /\ assocN_last i (by_idx (fst mr)) = Some (set_idx k0 i).
Proof.
  intros Hf H Hnd Hfind. unfold rebuild_mrgn in H. rewrite Hf in H. cbn [only bind] in H.
  destruct (existsb _ ls) eqn:Enone; [discriminate|].
  match type of H with bind (add_locations ?ex ?reqs) _ = _ => destruct (add_locations ex reqs) as [outs|e] eqn:Ea; [|discriminate] end.
  cbn [bind] in H. inversion H; subst mr. clear H. cbn [fst snd] in *.
  destruct (add_locations_sound _ _ _ Ea) as (_ & Hnodup & Hfree & _).
  match type of Hfind with context [flat_map _ (flat_map _ (combine ?order outs))] => set (order0 := order) in * end.
  set (placed := flat_map (fun p : rloc * outcome => match snd p with Placed i0 => [(fst p, i0)] | _ => [] end) (combine order0 outs)) in *.
  assert (by_idx (map (fun p : rloc * N => set_idx (fst p) (snd p)) placed)
          = map (fun p : rloc * N => (snd p, set_idx (fst p) (snd p))) placed) as Hnew.
  { unfold by_idx. clear. induction placed as [|[q j] t IH]; simpl; [reflexivity|]. rewrite IH. reflexivity. }
  assert (NoDup (map snd placed)) as Hndp.
  { unfold placed. rewrite placed_pairs_indices. apply placed_ids_firstn_nodup. exact Hnodup. }
  assert (forall j, In j (map snd placed) -> In j (placed_ids outs)) as Hsub.
  { intros j Hj. unfold placed in Hj. rewrite placed_pairs_indices in Hj. eapply placed_ids_firstn_subset. exact Hj. }
  apply find_loc_id_some in Hfind as [Hc|(k0 & Hin & He)]; [discriminate|].
  rewrite by_idx_app, assocN_last_app, Hnew.
  apply in_app_iff in Hin as [Hin|Hin].
  - (* one of the table's own entries *)
    apply in_map_iff in Hin as (k1 & Heq & Hk1). injection Heq as Hk Hi. subst k0.
    assert (l_idx k1 = Some i) as Hidx.
    { destruct (l_idx k1) as [j|] eqn:E; [subst j; reflexivity|].
      exfalso. apply Bool.not_true_iff_false in Enone. apply Enone. apply existsb_exists. exists k1. rewrite E. auto. }
    exists k1. split; [exact He|]. rewrite set_idx_self by exact Hidx.
    assert (In (i, k1) (by_idx ls)) as Hik.
    { unfold by_idx. apply in_flat_map. exists k1. split; [exact Hk1|]. rewrite Hidx. left. reflexivity. }
    rewrite assocN_last_none.
    + apply assocN_last_unique; assumption.
    + (* no newly placed location has the number of an occupied slot *)
      rewrite map_map. cbn [fst]. intros Hc. apply Hsub in Hc. apply (Hfree i Hc).
      apply in_flat_map. exists k1. split; [exact Hk1|]. rewrite Hidx. left. reflexivity.
  - (* one the engine placed *)
    apply in_flat_map in Hin as ([q j] & Hq & Hpair). cbn [fst snd] in Hpair.
    assert (assocN_last j (map (fun p : rloc * N => (snd p, set_idx (fst p) (snd p))) placed) = Some (set_idx q j)) as Hslot.
    { apply assocN_last_unique.
      - rewrite map_map. cbn [fst]. exact Hndp.
      - apply in_map_iff. exists (q, j). split; [reflexivity | exact Hq]. }
    destruct Hpair as [Heq|[Heq|[]]]; inversion Heq; subst k0 i; clear Heq; rewrite Hslot.
    + exists (set_idx q j). split; [exact He|]. reflexivity.
    + exists q. split; [exact He|]. reflexivity.
Qed.

(* the premise holds of every location table decode_chk returns: slot k gives the one location numbered k+1 *)
Lemma mrgn_decode_locs_indices L : forall vs i0 ls,
  mrgn_decode_locs L vs i0 = Ok ls ->
  (forall j, In j (map fst (by_idx ls)) -> i0 < j) /\ NoDup (map fst (by_idx ls)).
Proof.
  induction vs as [|v r IH]; intros i0 ls H.
  - simpl in H. inversion H; subst. split; [intros j []|constructor].
  - cbn [mrgn_decode_locs] in H. inv_bind H as rest Hrest Hk. destruct (IH _ _ Hrest) as [Hgt Hnd].
    destruct (loc_is_unused v).
    + inversion Hk; subst ls. split; [|exact Hnd]. intros j Hj. specialize (Hgt j Hj). lia.
    + inv_bind Hk as el Hel Hk2. inversion Hk2; subst ls. clear Hk2.
      unfold by_idx. cbn [flat_map l_idx app map fst]. fold (by_idx rest). split.
      * intros j [<-|Hj]; [lia|]. specialize (Hgt j Hj). lia.
      * constructor; [|exact Hnd]. intros Hc. specialize (Hgt _ Hc). lia.
Qed.

Theorem loaded_location_table_has_one_location_per_number L v ls :
  mrgn_decode L v = Ok ls -> NoDup (map fst (by_idx ls)).
Proof. intros H. exact (proj2 (mrgn_decode_locs_indices L _ _ _ H)). Qed.

(* ---- and the slot itself, read back by a later load: the location with the authored rectangle, name and elevation flags,
        carrying the slot's number ------------------------------------------------------------------------------------------------ *)
From RC Require Import model.Flags proofs.Flags_proofs proofs.C12_proofs proofs.C04_readback gen.GenFlags.

Theorem an_emitted_location_slot_reads_back L l slot i0 :
  loc_encode L l = Ok slot -> length (l_elev l) = 6%nat -> N.of_nat (length (sl_by_id L)) <= 1000000 ->
  loc_is_unused slot = false ->                          (* content equal to an empty slot is the recorded C11 finding *)
  mrgn_decode_locs L [slot] i0 =
    Ok [{| l_x1 := l_x1 l; l_y1 := l_y1 l; l_x2 := l_x2 l; l_y2 := l_y2 l; l_name := l_name l; l_idx := Some (i0 + 1);
           l_elev := l_elev l; l_oid := 0 |}].
Proof.
  intros H Hlen Hsmall Hused. unfold loc_encode in H. inv_bind H as sid Hsid Hk. inv_bind Hk as fl Hfl Hk2.
  assert (slot = mk_struct [("_left_x1", VInt (l_x1 l)); ("_top_y1", VInt (l_y1 l)); ("_right_x2", VInt (l_x2 l));
                            ("_bottom_y2", VInt (l_y2 l)); ("_string_id", VInt sid); ("_elevation_flags", VInt fl)]) as ->
    by congruence.
  clear Hk2. cbn [mrgn_decode_locs bind]. rewrite Hused.
  change (vint "_elevation_flags" (mk_struct _)) with fl. change (vint "_left_x1" (mk_struct _)) with (l_x1 l).
  change (vint "_top_y1" (mk_struct _)) with (l_y1 l). change (vint "_right_x2" (mk_struct _)) with (l_x2 l).
  change (vint "_bottom_y2" (mk_struct _)) with (l_y2 l). change (vint "_string_id" (mk_struct _)) with sid.
  destruct (id_by_str_resolves _ _ _ Hsmall Hsid) as [-> _].
  unfold flags_to in Hfl. unfold flags_of.
  destruct (elevation_flags_rich (l_elev l) Hlen) as (x0 & E0 & _ & D0). rewrite E0 in Hfl. inversion Hfl; subst x0.
  rewrite D0. cbn [bind]. unfold rich_of_bools. rewrite map_snd_combine; [reflexivity|]. rewrite map_length, Hlen. reflexivity.
Qed.
