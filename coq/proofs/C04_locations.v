(* C04, "every new reference resolves to the authored object", locations, through the save's own rebuild: the number the save
   hands to the trigger encoders for a location l (RichMrgnLookup.get_id_by_location over the REBUILT table) names a slot of
   the rebuilt table that holds a location Python considers equal to l, carrying exactly that number.  Covers locations that
   were in the map (found among the table's own entries) and authored ones (placed by the allocation engine). *)
From Coq Require Import String NArith List Bool Lia PeanoNat.
From RC Require Import lib.Result lib.Bytes model.Layout model.RichCodec model.RichIo model.Alloc
  proofs.Layout_proofs proofs.C08_proofs proofs.C09_proofs proofs.Save_strings proofs.C07_slots proofs.C07_triggers gen.GenConsts.
Import ListNotations.
Local Open Scope string_scope.
Local Open Scope list_scope.
Local Open Scope N_scope.

Lemma find_loc_id_some l : forall t acc i,
  find_loc_id l t acc = Some i -> acc = Some i \/ exists k, In (k, i) t /\ rloc_eqb l k = true.
Proof.
  induction t as [|[k j] t IH]; intros acc i H; simpl in H; [left; exact H|].
  apply IH in H as [H|(k' & Hin & He)].
  - destruct (rloc_eqb l k) eqn:E; [|left; exact H]. inversion H; subst j. right. exists k. split; [left; reflexivity | exact E].
  - right. exists k'. split; [right; exact Hin | exact He].
Qed.

Lemma assocN_last_unique {A} k (v : A) (l : list (N * A)) :
  NoDup (map fst l) -> In (k, v) l -> assocN_last k l = Some v.
Proof.
  induction l as [|[k' v'] l IH]; intros Hnd Hin; [destruct Hin|]. simpl in Hnd. inversion Hnd as [|? ? Hnot Hnd']; subst.
  simpl. destruct Hin as [Heq|Hin].
  - inversion Heq; subst k' v'. rewrite assocN_last_none by exact Hnot. rewrite N.eqb_refl. reflexivity.
  - rewrite (IH Hnd' Hin). reflexivity.
Qed.

Lemma placed_ids_app a b : placed_ids (a ++ b) = placed_ids a ++ placed_ids b.
Proof. unfold placed_ids. apply flat_map_app. Qed.

Lemma placed_ids_firstn_nodup n outs : NoDup (placed_ids outs) -> NoDup (placed_ids (firstn n outs)).
Proof.
  intros H. rewrite <- (firstn_skipn n outs), placed_ids_app in H. revert H.
  generalize (placed_ids (firstn n outs)) as a. generalize (placed_ids (skipn n outs)) as b.
  intros b a. induction a as [|x a IH]; simpl; intros H; [constructor|].
  inversion H as [|? ? Hnot Hnd]; subst. constructor; [|apply IH; exact Hnd].
  intros Hc. apply Hnot. apply in_or_app. left. exact Hc.
Qed.

Lemma set_idx_self l i : l_idx l = Some i -> set_idx l i = l.
Proof. destruct l; simpl; intros ->; reflexivity. Qed.

Theorem saved_location_number_names_the_location r ls mr l i :
  filter (named "MRGN") r = [RMrgn ls] -> rebuild_mrgn r = Ok mr ->
  NoDup (map fst (by_idx ls)) ->                       (* the loaded table has one location per number (decode gives that) *)
  find_loc_id l (snd mr) None = Some i ->
  exists k0, rloc_eqb l k0 = true /\ assocN_last i (by_idx (fst mr)) = Some (set_idx k0 i).
Proof.
  intros Hf H Hnd Hfind. unfold rebuild_mrgn in H. rewrite Hf in H. cbn [only bind] in H.
  destruct (existsb _ ls) eqn:Enone; [discriminate|].
  match type of H with bind (add_locations ?ex ?reqs) _ = _ => destruct (add_locations ex reqs) as [outs|e] eqn:Ea; [|discriminate] end.
  cbn [bind] in H. inversion H; subst mr. clear H. cbn [fst snd] in *.
  destruct (add_locations_sound _ _ _ Ea) as (_ & Hnodup & Hfree & _).
  match type of Hfind with context [flat_map _ (flat_map _ (combine ?order outs))] => set (order0 := order) in * end.
  set (placed := flat_map (fun p : rloc * outcome => match snd p with Placed i0 => [(fst p, i0)] | _ => [] end) (combine order0 outs)) in *.
  assert (by_idx (map (fun p : rloc * N => set_idx (fst p) (snd p)) placed)
          = map (fun p : rloc * N => (snd p, set_idx (fst p) (snd p))) placed) as Hnew.
  { unfold by_idx. clear. induction placed as [|[q j] t IH]; simpl; [reflexivity|]. rewrite IH. reflexivity. }
  assert (NoDup (map snd placed)) as Hndp.
  { unfold placed. rewrite placed_pairs_indices. apply placed_ids_firstn_nodup. exact Hnodup. }
  assert (forall j, In j (map snd placed) -> In j (placed_ids outs)) as Hsub.
  { intros j Hj. unfold placed in Hj. rewrite placed_pairs_indices in Hj. eapply placed_ids_firstn_subset. exact Hj. }
  apply find_loc_id_some in Hfind as [Hc|(k0 & Hin & He)]; [discriminate|].
  rewrite by_idx_app, assocN_last_app, Hnew.
  apply in_app_iff in Hin as [Hin|Hin].
  - (* one of the table's own entries *)
    apply in_map_iff in Hin as (k1 & Heq & Hk1). injection Heq as Hk Hi. subst k0.
    assert (l_idx k1 = Some i) as Hidx.
    { destruct (l_idx k1) as [j|] eqn:E; [subst j; reflexivity|].
      exfalso. apply Bool.not_true_iff_false in Enone. apply Enone. apply existsb_exists. exists k1. rewrite E. auto. }
    exists k1. split; [exact He|]. rewrite set_idx_self by exact Hidx.
    assert (In (i, k1) (by_idx ls)) as Hik.
    { unfold by_idx. apply in_flat_map. exists k1. split; [exact Hk1|]. rewrite Hidx. left. reflexivity. }
    rewrite assocN_last_none.
    + apply assocN_last_unique; assumption.
    + (* no newly placed location has the number of an occupied slot *)
      rewrite map_map. cbn [fst]. intros Hc. apply Hsub in Hc. apply (Hfree i Hc).
      apply in_flat_map. exists k1. split; [exact Hk1|]. rewrite Hidx. left. reflexivity.
  - (* one the engine placed *)
    apply in_flat_map in Hin as ([q j] & Hq & Hpair). cbn [fst snd] in Hpair.
    assert (assocN_last j (map (fun p : rloc * N => (snd p, set_idx (fst p) (snd p))) placed) = Some (set_idx q j)) as Hslot.
    { apply assocN_last_unique.
      - rewrite map_map. cbn [fst]. exact Hndp.
      - apply in_map_iff. exists (q, j). split; [reflexivity | exact Hq]. }
    destruct Hpair as [Heq|[Heq|[]]]; inversion Heq; subst k0 i; clear Heq; rewrite Hslot.
    + exists (set_idx q j). split; [exact He|]. reflexivity.
    + exists q. split; [exact He|]. reflexivity.
Qed.

(* the premise holds of every location table decode_chk returns: slot k gives the one location numbered k+1 *)
Lemma mrgn_decode_locs_indices L : forall vs i0 ls,
  mrgn_decode_locs L vs i0 = Ok ls ->
  (forall j, In j (map fst (by_idx ls)) -> i0 < j) /\ NoDup (map fst (by_idx ls)).
Proof.
  induction vs as [|v r IH]; intros i0 ls H.
  - simpl in H. inversion H; subst. split; [intros j []|constructor].
  - cbn [mrgn_decode_locs] in H. inv_bind H as rest Hrest Hk. destruct (IH _ _ Hrest) as [Hgt Hnd].
    destruct (loc_is_unused v).
    + inversion Hk; subst ls. split; [|exact Hnd]. intros j Hj. specialize (Hgt j Hj). lia.
    + inv_bind Hk as el Hel Hk2. inversion Hk2; subst ls. clear Hk2.
      unfold by_idx. cbn [flat_map l_idx app map fst]. fold (by_idx rest). split.
      * intros j [<-|Hj]; [lia|]. specialize (Hgt j Hj). lia.
      * constructor; [|exact Hnd]. intros Hc. specialize (Hgt _ Hc). lia.
Qed.

Theorem loaded_location_table_has_one_location_per_number L v ls :
  mrgn_decode L v = Ok ls -> NoDup (map fst (by_idx ls)).
Proof. intros H. exact (proj2 (mrgn_decode_locs_indices L _ _ _ H)). Qed.

(* ---- and the slot itself, read back by a later load: the location with the authored rectangle, name and elevation flags,
        carrying the slot's number ------------------------------------------------------------------------------------------------ *)
From RC Require Import model.Flags proofs.Flags_proofs proofs.C12_proofs proofs.C04_readback proofs.Save_refs gen.GenFlags.

Theorem an_emitted_location_slot_reads_back L l slot i0 :
  loc_encode L l = Ok slot -> length (l_elev l) = 6%nat -> N.of_nat (length (sl_by_id L)) <= 1000000 ->
  loc_is_unused slot = false ->                          (* content equal to an empty slot is the recorded C11 finding *)
  mrgn_decode_locs L [slot] i0 =
    Ok [{| l_x1 := l_x1 l; l_y1 := l_y1 l; l_x2 := l_x2 l; l_y2 := l_y2 l; l_name := l_name l; l_idx := Some (i0 + 1);
           l_elev := l_elev l; l_oid := 0 |}].
Proof.
  intros H Hlen Hsmall Hused. unfold loc_encode in H. inv_bind H as sid Hsid Hk. inv_bind Hk as fl Hfl Hk2.
  assert (slot = mk_struct [("_left_x1", VInt (l_x1 l)); ("_top_y1", VInt (l_y1 l)); ("_right_x2", VInt (l_x2 l));
                            ("_bottom_y2", VInt (l_y2 l)); ("_string_id", VInt sid); ("_elevation_flags", VInt fl)]) as ->
    by congruence.
  clear Hk2. cbn [mrgn_decode_locs bind]. rewrite Hused.
  change (vint "_elevation_flags" (mk_struct _)) with fl. change (vint "_left_x1" (mk_struct _)) with (l_x1 l).
  change (vint "_top_y1" (mk_struct _)) with (l_y1 l). change (vint "_right_x2" (mk_struct _)) with (l_x2 l).
  change (vint "_bottom_y2" (mk_struct _)) with (l_y2 l). change (vint "_string_id" (mk_struct _)) with sid.
  destruct (id_by_str_resolves _ _ _ Hsmall Hsid) as [-> _].
  unfold flags_to in Hfl. unfold flags_of.
  destruct (elevation_flags_rich (l_elev l) Hlen) as (x0 & E0 & _ & D0). rewrite E0 in Hfl. inversion Hfl; subst x0.
  rewrite D0. cbn [bind]. unfold rich_of_bools. rewrite map_snd_combine; [reflexivity|]. rewrite map_length, Hlen. reflexivity.
Qed.

(* ---- the whole emitted table, read back: slot by slot, the list a later load decodes holds at number k+1 exactly what slot k
        decodes to on its own ------------------------------------------------------------------------------------------------------ *)

Lemma mrgn_decode_cons L s r i0 :
  mrgn_decode_locs L (s :: r) i0 =
  (do rest <- mrgn_decode_locs L r (i0 + 1); do hd <- mrgn_decode_locs L [s] i0; Ok (hd ++ rest)).
Proof.
  cbn [mrgn_decode_locs]. destruct (mrgn_decode_locs L r (i0 + 1)) as [rest|e]; [|reflexivity]. cbn [bind].
  destruct (loc_is_unused s); [reflexivity|].
  destruct (flags_of elevation_flags_codec (vint "_elevation_flags" s)); reflexivity.
Qed.

Lemma single_slot_indices L s i0 p : mrgn_decode_locs L [s] i0 = Ok p -> forall j, In j (map fst (by_idx p)) -> j = i0 + 1.
Proof.
  cbn [mrgn_decode_locs bind]. destruct (loc_is_unused s); intros H j Hj.
  - inversion H; subst p. destruct Hj.
  - inv_bind H as el Hel Hk. inversion Hk; subst p. unfold by_idx in Hj. cbn in Hj. destruct Hj as [<-|[]]. reflexivity.
Qed.

Theorem emitted_location_table_reads_back_slotwise L : forall slots i0,
  (forall k s, nth_error slots k = Some s -> exists p, mrgn_decode_locs L [s] (i0 + N.of_nat k) = Ok p) ->
  exists ls', mrgn_decode_locs L slots i0 = Ok ls' /\
    forall k s p, nth_error slots k = Some s -> mrgn_decode_locs L [s] (i0 + N.of_nat k) = Ok p ->
      assocN_last (i0 + N.of_nat k + 1) (by_idx ls') = assocN_last (i0 + N.of_nat k + 1) (by_idx p).
Proof.
  induction slots as [|s r IH]; intros i0 Hall.
  - exists []. split; [reflexivity|]. intros k s p Hk. destruct k; discriminate.
  - destruct (Hall 0%nat s eq_refl) as [p0 Hp0]. rewrite N.add_0_r in Hp0.
    destruct (IH (i0 + 1)) as (rest & Hrest & Hslots).
    { intros k s' Hk. destruct (Hall (S k) s' Hk) as [p Hp]. exists p.
      replace (i0 + 1 + N.of_nat k) with (i0 + N.of_nat (S k)) by lia. exact Hp. }
    exists (p0 ++ rest). split; [rewrite mrgn_decode_cons, Hrest; cbn [bind]; rewrite Hp0; reflexivity|].
    destruct (mrgn_decode_locs_indices L _ _ _ Hrest) as [Hgt _].
    intros k s' p Hk Hp. rewrite by_idx_app, assocN_last_app.
    destruct k as [|k]; cbn [nth_error] in Hk.
    + inversion Hk; subst s'. rewrite N.add_0_r in Hp. rewrite Hp0 in Hp. inversion Hp; subst p. rewrite N.add_0_r.
      rewrite (assocN_last_none (i0 + 1) (by_idx rest)); [reflexivity|].
      intros Hc. specialize (Hgt _ Hc). lia.
    + replace (i0 + N.of_nat (S k) + 1) with (i0 + 1 + N.of_nat k + 1) by lia.
      replace (i0 + N.of_nat (S k)) with (i0 + 1 + N.of_nat k) in Hp by lia.
      rewrite (Hslots k s' p Hk Hp).
      destruct (assocN_last (i0 + 1 + N.of_nat k + 1) (by_idx p)) as [x|] eqn:E; [reflexivity|].
      apply assocN_last_none. intros Hc. pose proof (single_slot_indices L s i0 p0 Hp0 _ Hc). lia.
Qed.

Lemma by_idx_in ls l i : In l ls -> l_idx l = Some i -> In (i, l) (by_idx ls).
Proof. intros Hin Hi. unfold by_idx. apply in_flat_map. exists l. split; [exact Hin|]. rewrite Hi. left. reflexivity. Qed.

Lemma by_idx_member ls i l : In (i, l) (by_idx ls) -> In l ls.
Proof.
  unfold by_idx. intros H. apply in_flat_map in H as (l0 & Hl0 & Hin). destruct (l_idx l0); [|destruct Hin].
  destruct Hin as [Heq|[]]. inversion Heq; subst. exact Hl0.
Qed.

(* the table a save emits, decoded again by a later load: it decodes, and at every number whose slot is not all zero the load
   finds the location that was written there - rectangle, name and elevation flags - carrying that number *)
Theorem saved_location_table_reads_back L ls v :
  N.of_nat (length (sl_by_id L)) <= 1000000 -> mrgn_encode L ls = Ok v ->
  (forall l, In l ls -> length (l_elev l) = 6%nat) ->
  exists ls', mrgn_decode L v = Ok ls' /\
    forall k l slot, assocN_last (N.of_nat k + 1) (by_idx ls) = Some l ->
      nth_error (vlist "_locations" v) k = Some slot -> loc_is_unused slot = false ->
      assocN_last (N.of_nat k + 1) (by_idx ls') =
        Some {| l_x1 := l_x1 l; l_y1 := l_y1 l; l_x2 := l_x2 l; l_y2 := l_y2 l; l_name := l_name l;
                l_idx := Some (N.of_nat k + 1); l_elev := l_elev l; l_oid := 0 |}.
Proof.
  intros Hsmall H Helev. unfold mrgn_encode in H. cbv zeta in H. fold (by_idx ls) in H. inv_bind H as slots Hs Hk.
  match type of Hk with Ok ?q = Ok _ => assert (v = q) as -> by congruence end. clear Hk.
  unfold mrgn_decode. change (vlist "_locations" (mk_struct [("_locations", VList slots)])) with slots.
  pose proof (mapM_length _ _ _ Hs) as Hlen. rewrite map_length, seq_length in Hlen.
  (* what slot k is *)
  assert (forall k s, nth_error slots k = Some s ->
            match assocN_last (N.of_nat k + 1) (by_idx ls) with
            | Some l => loc_encode L l = Ok s
            | None => s = empty_loc_val
            end) as Hslot.
  { intros k s Hk. assert (k < N.to_nat MRGN_TRANSCODER_MAX_LOCATIONS)%nat as Hlt by (rewrite <- Hlen; apply nth_error_Some; congruence).
    assert (nth_error (map N.of_nat (seq 0 (N.to_nat MRGN_TRANSCODER_MAX_LOCATIONS))) k = Some (N.of_nat k)) as Hseq
      by (rewrite nth_error_map, nth_error_seq_lt by exact Hlt; reflexivity).
    destruct (mapM_nth _ _ _ _ _ Hs Hseq) as (b & Hb & Hnb). rewrite Hk in Hnb. inversion Hnb; subst b. cbv beta in Hb.
    destruct (assocN_last (N.of_nat k + 1) (by_idx ls)); [exact Hb | inversion Hb; reflexivity]. }
  destruct (emitted_location_table_reads_back_slotwise L slots 0) as (ls' & Hdec & Hpieces).
  { intros k s Hk. specialize (Hslot k s Hk). rewrite N.add_0_l.
    destruct (assocN_last (N.of_nat k + 1) (by_idx ls)) as [l|] eqn:El.
    - destruct (loc_is_unused s) eqn:Eu.
      + exists []. cbn [mrgn_decode_locs bind]. rewrite Eu. reflexivity.
      + eexists. apply (an_emitted_location_slot_reads_back L l s (N.of_nat k) Hslot); [|exact Hsmall|exact Eu].
        apply Helev. eapply by_idx_member. eapply assocN_last_in. exact El.
    - subst s. exists []. reflexivity. }
  exists ls'. split; [exact Hdec|].
  intros k l slot El Hk Hu. pose proof (Hslot k slot Hk) as Hs'. rewrite El in Hs'.
  assert (length (l_elev l) = 6%nat) as Hl by (apply Helev; eapply by_idx_member; eapply assocN_last_in; exact El).
  pose proof (an_emitted_location_slot_reads_back L l slot (N.of_nat k) Hs' Hl Hsmall Hu) as Hone.
  match type of Hone with _ = Ok ?pp => pose proof (Hpieces k slot pp Hk) as Hp end. rewrite !N.add_0_l in Hp. rewrite (Hp Hone).
  unfold by_idx. cbn [flat_map l_idx app assocN_last]. rewrite N.eqb_refl. reflexivity.
Qed.
