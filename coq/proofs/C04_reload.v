(* C04, "loading the saved map ...": the string lookup a LATER load of the saved map works with is the very lookup the save
   encoded against (the one STR section of the output is the rebuilt table, and the load builds its lookup from exactly that
   section).  With C04_readback this gives: an authored action whose arguments are plain numbers, enumeration members, strings
   and AI scripts is read back by that load with exactly the authored arguments. *)
From Coq Require Import String NArith List Bool Lia PeanoNat.
From RC Require Import lib.Result lib.Bytes model.Layout model.Str model.ChkIo model.RichCodec model.RichIo
  model.Flags model.TrigTable proofs.Layout_proofs proofs.C08_proofs proofs.C04_readback gen.GenTrig gen.GenFlags.
Import ListNotations.
Local Open Scope string_scope.
Local Open Scope list_scope.
Local Open Scope N_scope.

Lemma strs_named_app n a b : strs_named n (a ++ b) = strs_named n a ++ strs_named n b.
Proof. unfold strs_named. apply flat_map_app. Qed.

(* what a section contributes to the output's list of "STR " string sections *)
Definition str_part (new_str : str_section) (s : rsection) : list str_section :=
  match s with RDecodedStr n _ _ => if String.eqb n "STR " then [new_str] else [] | _ => [] end.

Lemma mapM_strs_named (F : rsection -> result dsection) new_str :
  (forall s d, F s = Ok d -> strs_named "STR " [d] = str_part new_str s) ->
  forall r secs, mapM F r = Ok secs -> strs_named "STR " secs = flat_map (str_part new_str) r.
Proof.
  intros HF. induction r as [|s r IH]; intros secs H; simpl in H.
  - inversion H; reflexivity.
  - inv_bind H as d Hd Hk. inv_bind Hk as ds Hds Hk2. inversion Hk2; subst secs.
    change (d :: ds) with ([d] ++ ds). rewrite strs_named_app, (HF _ _ Hd), (IH _ Hds). reflexivity.
Qed.

Lemma one_str_section new_str : forall r nm w m,
  filter (named "STR ") r = [RDecodedStr nm w m] -> flat_map (str_part new_str) r = [new_str].
Proof.
  induction r as [|s r IH]; intros nm w m H; [discriminate|]. cbn [filter] in H. cbn [flat_map].
  destruct (named "STR " s) eqn:En.
  - inversion H as [[Hs Hrest]]. subst s. cbn [named] in En. cbn [str_part].
    rewrite String.eqb_sym in En. rewrite En. cbn [app]. f_equal.
    (* nothing else is named "STR " *)
    clear -Hrest. induction r as [|s r IH]; [reflexivity|]. cbn [filter] in Hrest. destruct (named "STR " s) eqn:En; [discriminate|].
    cbn [flat_map]. rewrite (IH Hrest), app_nil_r.
    destruct s; try reflexivity. cbn [named] in En. cbn [str_part]. rewrite String.eqb_sym in En. rewrite En. reflexivity.
  - rewrite (IH _ _ _ H).
    destruct s; try reflexivity. cbn [named] in En. cbn [str_part]. rewrite String.eqb_sym in En. rewrite En. reflexivity.
Qed.

Theorem load_after_save_uses_the_saved_string_table wd r d' cx' :
  save wd r = Ok d' -> decode_context d' = Ok cx' ->
  exists new_str L, rebuild_str r = Ok new_str /\ build_str_lookup 2 new_str = Ok L /\ cx_str cx' = L.
Proof.
  unfold save. intros H Hc.
  inv_bind H as new_str H1 H. inv_bind H as mr H2 H. inv_bind H as sw H3 H. inv_bind H as up H4 H.
  inv_bind H as us H5 H. inv_bind H as SL H6 H. inv_bind H as chk H7 H. inv_bind H as secs Hm H.
  inv_bind H as e1 He1 H. inv_bind H as e2 He2 H. inversion H; subst d'. clear H.
  exists new_str, SL. split; [exact H1|]. split; [exact H6|].
  assert (strs_named "STR " secs = [new_str]) as Hsecs.
  { match type of Hm with mapM ?F r = _ =>
      assert (forall s d, F s = Ok d -> strs_named "STR " [d] = str_part new_str s) as HF end.
    { intros s d Hd. destruct s as [ls|ts|nw n usx|cs|ss|ws|n w m|n v|n p]; cbn beta iota in Hd; cbn [str_part].
      + inv_bind Hd as v Hv Hk. inversion Hk; reflexivity.
      + inv_bind Hd as v Hv Hk. inversion Hk; reflexivity.
      + inv_bind Hd as v Hv Hk. inversion Hk; reflexivity.
      + inv_bind Hd as v Hv Hk. inversion Hk; reflexivity.
      + inv_bind Hd as v Hv Hk. inversion Hk; reflexivity.
      + inv_bind Hd as v Hv Hk. inversion Hk; reflexivity.
      + destruct (String.eqb n "STR ") eqn:En; inversion Hd; subst d; unfold strs_named; cbn [flat_map app]; rewrite En; reflexivity.
      + destruct (String.eqb n "UPUS"); inversion Hd; reflexivity.
      + inversion Hd; reflexivity. }
    rewrite (mapM_strs_named _ new_str HF r secs Hm).
    unfold rebuild_str in H1. inv_bind H1 as x Hx Hk. destruct x; try discriminate.
    unfold only in Hx. destruct (filter (named "STR ") r) as [|y [|z t]] eqn:Ef; try discriminate. inversion Hx; subst y.
    eapply one_str_section. exact Ef. }
  assert (strs_named "STR " e1 = []) as Hx1.
  { match type of He1 with (if ?c then _ else _) = _ => destruct c end; [inversion He1; reflexivity|].
    inv_bind He1 as v Hv Hk. inversion Hk; reflexivity. }
  assert (strs_named "STR " e2 = []) as Hx2.
  { match type of He2 with (if ?c then _ else _) = _ => destruct c end; [inversion He2; reflexivity|].
    inv_bind He2 as v Hv Hk. inversion Hk; reflexivity. }
  unfold decode_context in Hc. rewrite !strs_named_app, Hsecs, Hx1, Hx2 in Hc.
  match type of Hc with context [strs_named "STR " (if ?c then _ else _)] => destruct c end;
    cbn [strs_named flat_map app only bind] in Hc; rewrite H6 in Hc; cbn [bind] in Hc;
    inv_bind Hc as mv Hmv Hk; inv_bind Hk as locs Hlocs Hk2; inv_bind Hk2 as cw Hcw Hk3; inversion Hk3; reflexivity.
Qed.

(* end to end for plain arguments: an authored action encoded by a save (any context whose string lookup is the save's) is read
   back, by the load of the saved map, as the same action with exactly the authored arguments *)
Theorem plain_action_survives_save_and_reload wd r d' cx' cx new_str L key args fl v :
  save wd r = Ok d' -> decode_context d' = Ok cx' ->
  rebuild_str r = Ok new_str -> build_str_lookup 2 new_str = Ok L -> cx_str cx = L ->
  N.of_nat (length (sl_by_id L)) <= 1000000 ->
  encode_entry_of cx gen_action_table action_flags_codec action_record_fields (ERich key args fl) = Ok v ->
  length fl = 5%nat ->
  (forall te a c f, find_entry key gen_action_table = Some te -> In (a, c, f) (te_dec te) -> plain_codec c = true) ->
  (forall te a c f x, find_entry key gen_action_table = Some te -> In (a, c, f) (te_dec te) -> arg_get rarg a args = Ok x ->
     arg_member c x) ->
  exists te args',
    find_entry key gen_action_table = Some te /\
    decode_entry_of cx' gen_action_table "TriggerActionId" "_action_id" action_flags_codec action_record_fields v
      = Ok (Some (ERich key args' fl)) /\
    forall a c f, In (a, c, f) (te_dec te) ->
      arg_get rarg a args' = arg_get rarg a args \/
      (exists d, wav_duration cx args = Ok d /\ arg_get rarg a args' = Ok (AInt d)).
Proof.
  intros Hs Hc Hr HL Hcx Hsmall He Hlen Hplain Hmem.
  destruct (load_after_save_uses_the_saved_string_table _ _ _ _ Hs Hc) as (ns & L' & Hr' & HL' & Hcx').
  rewrite Hr in Hr'. inversion Hr'; subst ns. rewrite HL in HL'. inversion HL'; subst L'.
  apply (authored_plain_action_reads_back_after_reload cx cx' key args fl v He Hlen); try assumption.
  - rewrite Hcx. exact Hsmall.
  - congruence.
Qed.
