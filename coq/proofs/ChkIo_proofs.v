(* The chunk loop: decode then encode is the identity on every well-formed CHK. *)
From Coq Require Import String NArith List Bool Lia PeanoNat.
From RC Require Import lib.Result lib.Bytes lib.Tree model.Layout model.Str model.ChkIo
  proofs.Layout_proofs proofs.Str_proofs gen.GenLayouts.
Import ListNotations.
Local Open Scope N_scope.

(* ---- erase: the decoder does not look at the strictness flag ------------------------------ *)

Lemma size_erase l : size_l (erase l) = size_l l.
Proof.
  induction l as [w|n st l IH|a IHa b IHb|f l IH| |l IH|sz l IH]; simpl; try reflexivity.
  - rewrite IH. reflexivity.
  - rewrite IHa, IHb. reflexivity.
  - exact IH.
Qed.

Lemma wf_erase l : wf_l (erase l) = wf_l l.
Proof.
  induction l as [w|n st l IH|a IHa b IHb|f l IH| |l IH|sz l IH]; simpl; try reflexivity.
  - exact IH.
  - rewrite IHa, IHb. reflexivity.
  - exact IH.
  - rewrite IH, size_erase. reflexivity.
  - rewrite IH, size_erase. reflexivity.
Qed.

Lemma rep_dec_ext d1 d2 n : (forall bs, d1 bs = d2 bs) -> forall bs, rep_dec d1 n bs = rep_dec d2 n bs.
Proof.
  intros H. induction n as [|n IH]; intros bs; simpl; [reflexivity|].
  rewrite H. destruct (d2 bs) as [[v r]|e]; simpl; [|reflexivity]. rewrite IH. reflexivity.
Qed.

Lemma many_dec_ext d1 d2 fu : (forall bs, d1 bs = d2 bs) -> forall bs, many_dec d1 fu bs = many_dec d2 fu bs.
Proof.
  intros H. induction fu as [|fu IH]; intros bs; destruct bs; simpl; try reflexivity.
  rewrite H. destruct (d2 (n :: bs)) as [[v r]|e]; simpl; [|reflexivity]. rewrite IH. reflexivity.
Qed.

Lemma decode_erase l : forall fuel bs, decode_l fuel (erase l) bs = decode_l fuel l bs.
Proof.
  induction l as [w|n st l IH|a IHa b IHb|f l IH| |l IH|sz l IH]; intros fuel bs; simpl; try reflexivity.
  - rewrite (rep_dec_ext _ (decode_l fuel l)); [reflexivity | intros; apply IH].
  - rewrite IHa. destruct (decode_l fuel a bs) as [[v r]|e]; simpl; [|reflexivity]. rewrite IHb. reflexivity.
  - rewrite IH. reflexivity.
  - rewrite (many_dec_ext _ (decode_l fuel l)); [reflexivity | intros; apply IH].
  - rewrite IH. reflexivity.
Qed.

Lemma layout_eqb_eq a : forall b, layout_eqb a b = true -> a = b.
Proof.
  induction a as [w|n st l IH|a1 IH1 a2 IH2|f l IH| |l IH|sz l IH]; intros b H; destruct b; simpl in H;
    try discriminate.
  - apply Nat.eqb_eq in H. subst. reflexivity.
  - apply andb_true_iff in H as [H H3]. apply andb_true_iff in H as [H1 H2].
    apply Nat.eqb_eq in H1. apply Bool.eqb_prop in H2. subst. f_equal. apply IH. assumption.
  - apply andb_true_iff in H as [H1 H2]. f_equal; [apply IH1 | apply IH2]; assumption.
  - apply andb_true_iff in H as [H1 H2]. apply String.eqb_eq in H1. subst. f_equal. apply IH. assumption.
  - reflexivity.
  - f_equal. apply IH. assumption.
  - apply andb_true_iff in H as [H1 H2]. apply Nat.eqb_eq in H1. subst. f_equal. apply IH. assumption.
Qed.

(* ---- the section table ---------------------------------------------------------------------- *)

Definition kind_ok (k : kind) : bool :=
  match k with
  | KStr w => Nat.eqb w 2 || Nat.eqb w 4
  | KTab d e => layout_eqb (erase e) d && wf_l e
  end.

Definition table_ok (t : list (string * kind)) : bool :=
  forallb (fun e => kind_ok (snd e) && Nat.eqb (length (codes_of_string (fst e))) 4) t.

Lemma bytes_eqb_eq a : forall b, bytes_eqb a b = true -> a = b.
Proof.
  induction a as [|x a IH]; intros [|y b] H; simpl in H; try discriminate; [reflexivity|].
  apply andb_true_iff in H as [H1 H2]. apply N.eqb_eq in H1. subst. f_equal. apply IH. assumption.
Qed.

Lemma bytes_eqb_refl a : bytes_eqb a a = true.
Proof. induction a as [|x a IH]; simpl; [reflexivity|]. rewrite N.eqb_refl, IH. reflexivity. Qed.

Lemma lookup_name_in name t s k :
  lookup_name name t = Some (s, k) -> In (s, k) t /\ name = codes_of_string s.
Proof.
  induction t as [|[s' k'] r IH]; simpl; intros H; [discriminate|].
  destruct (bytes_eqb name (codes_of_string s')) eqn:E.
  - inversion H; subst. split; [left; reflexivity | apply bytes_eqb_eq; assumption].
  - destruct (IH H) as [Hin Hn]. split; [right; assumption | assumption].
Qed.

Lemma lookup_name_str name t s k :
  lookup_name name t = Some (s, k) -> lookup_str s t = Some k.
Proof.
  induction t as [|[s' k'] r IH]; simpl; intros H; [discriminate|].
  destruct (bytes_eqb name (codes_of_string s')) eqn:E.
  - inversion H; subst. rewrite String.eqb_refl. reflexivity.
  - destruct (String.eqb_spec s s') as [->|Hne]; [|apply IH; assumption].
    exfalso. destruct (lookup_name_in _ _ _ _ H) as [_ Hn]. subst name.
    rewrite bytes_eqb_refl in E. discriminate.
Qed.

Lemma table_ok_in t s k : table_ok t = true -> In (s, k) t ->
  kind_ok k = true /\ length (codes_of_string s) = 4%nat.
Proof.
  unfold table_ok. rewrite forallb_forall. intros H Hin. specialize (H _ Hin). simpl in H.
  apply andb_true_iff in H as [H1 H2]. apply Nat.eqb_eq in H2. auto.
Qed.

(* ---- well-formed CHK byte strings ----------------------------------------------------------- *)

(* the layout's decoder leaves nothing over *)
Fixpoint consumes_all (l : layout) : bool :=
  match l with
  | Many _ => true
  | Named _ l' => consumes_all l'
  | Seq a Unit => consumes_all a
  | _ => false
  end.

Lemma consumes_all_rest l : forall fuel bs v r,
  consumes_all l = true -> decode_l fuel l bs = Ok (v, r) -> r = [].
Proof.
  induction l as [w|n st l IH|a IHa b IHb|f l IH| |l IH|sz l IH]; intros fuel bs v r Hc H; simpl in *;
    try discriminate.
  - destruct b; try discriminate.
    inv_bind H as p1 Ha Hk. destruct p1 as [va ra]. inv_bind Hk as p2 Hb Hk2. destruct p2 as [vb rb].
    simpl in *. inversion Hb; subst. inversion Hk2; subst. eapply IHa; eauto.
  - inv_bind H as p1 Ha Hk. destruct p1 as [x r1]. inversion Hk; subst. simpl. eapply IH; eauto.
  - inv_bind H as vs Ha Hk. inversion Hk; subst. reflexivity.
Qed.

(* "a size StarCraft accepts": fixed-size sections have exactly their size;
   record sections (MRGN, TRIG) are whatever the record loop consumes completely *)
Definition legal_payload (name payload : bytes) : Prop :=
  match lookup_name name section_table with
  | Some (_, KTab dec _) => consumes_all dec = true \/ size_l dec = Some (length payload)
  | _ => True
  end.

Inductive wf_chk : bytes -> Prop :=
| wf_chk_nil : wf_chk []
| wf_chk_cons name payload rest :
    length name = 4%nat -> N.of_nat (length payload) < 2 ^ 32 ->
    legal_payload name payload -> wf_chk rest ->
    wf_chk (frame name payload ++ rest).

Lemma pow256_4 : pow256 4 = 2 ^ 32.
Proof. reflexivity. Qed.

Lemma read_n_exact (p rest : bytes) : read_n (N.of_nat (length p)) (p ++ rest) = (p, rest).
Proof.
  unfold read_n. rewrite app_length, Nat2N.inj_add, N.min_l by lia. rewrite Nat2N.id.
  rewrite firstn_app, Nat.sub_diag, firstn_all, firstn_O, app_nil_r.
  rewrite skipn_app, Nat.sub_diag, skipn_all, skipn_O. reflexivity.
Qed.

Lemma header_ok name n : N.of_nat n < 2 ^ 32 -> header name n = Ok (name ++ le_encode 4 (N.of_nat n)).
Proof.
  intros H. unfold header, pack. rewrite pow256_4. apply N.ltb_lt in H. rewrite H. reflexivity.
Qed.

Lemma decode_one_encode_one name payload sec :
  table_ok section_table = true ->
  length name = 4%nat -> N.of_nat (length payload) < 2 ^ 32 -> bytes_ok payload ->
  legal_payload name payload ->
  decode_one name payload = Ok sec -> encode_one sec = Ok (frame name payload).
Proof.
  intros Htab Hn Hlen Hok Hlegal H. unfold decode_one in H. unfold legal_payload in Hlegal.
  destruct (lookup_name name section_table) as [[s k]|] eqn:El.
  - destruct (lookup_name_in _ _ _ _ El) as [Hin Hname].
    destruct (table_ok_in _ _ _ Htab Hin) as [Hk _].
    pose proof (lookup_name_str _ _ _ _ El) as Hls.
    destruct k as [w|dec enc].
    + inv_bind H as m Hd Hk2. inversion Hk2; subst sec. simpl.
      rewrite (str_roundtrip _ _ _ Hok Hd). simpl. rewrite header_ok by assumption. simpl.
      unfold frame. rewrite <- Hname, <- app_assoc. reflexivity.
    + simpl in Hk. apply andb_true_iff in Hk as [He Hwf]. apply layout_eqb_eq in He.
      unfold decode_section in H. inv_bind H as v Hd Hk2. inversion Hk2; subst sec. clear Hk2.
      inv_bind Hd as vr Hd Hk3. destruct vr as [v' r]. simpl in Hk3. inversion Hk3; subst v'. clear Hk3.
      rewrite <- He, decode_erase in Hd.
      assert (r = []) as ->.
      { destruct Hlegal as [Hc | Hs].
        - rewrite <- He in Hc.
          assert (consumes_all enc = true) as Hc'.
          { clear -Hc. induction enc as [w|n st l IH|a IHa b IHb|f l IH| |l IH|sz l IH]; simpl in *; try discriminate; auto.
            destruct b; simpl in *; try discriminate. auto. }
          eapply consumes_all_rest; eauto.
        - rewrite <- He, size_erase in Hs.
          pose proof (decode_size _ _ _ _ _ _ Hwf Hs Hd) as Hl.
          destruct r; [reflexivity | simpl in Hl; lia]. }
      cbn [encode_one]. rewrite Hls.
      rewrite (section_roundtrip _ _ _ Hok Hwf Hd). cbn [bind]. rewrite header_ok by assumption. cbn [bind].
      unfold frame. rewrite <- Hname, <- app_assoc. reflexivity.
  - inversion H; subst sec. simpl. rewrite header_ok by assumption. simpl.
    unfold frame. rewrite <- app_assoc. reflexivity.
Qed.

Lemma chk_decode_frame fuel name payload rest :
  length name = 4%nat -> N.of_nat (length payload) < 2 ^ 32 ->
  chk_decode_fuel (S fuel) (frame name payload ++ rest) =
  (do sec <- decode_one name payload; do secs <- chk_decode_fuel fuel rest; Ok (sec :: secs)).
Proof.
  intros Hn Hlen. unfold frame.
  destruct name as [|n0 [|n1 [|n2 [|n3 [|n4 name]]]]]; simpl in Hn; try discriminate.
  cbn [chk_decode_fuel app].
  replace (Nat.ltb _ 4) with false
    by (symmetry; apply Nat.ltb_ge; cbn [length]; lia).
  cbn [skipn firstn app].
  set (len := N.of_nat (length payload)) in *.
  assert (unpack 4 (le_encode 4 len ++ payload ++ rest) = Ok (len, payload ++ rest)) as Hu.
  { apply pack_unpack. unfold pack. rewrite pow256_4. apply N.ltb_lt in Hlen. rewrite Hlen. reflexivity. }
  change ((le_encode 4 len ++ payload) ++ rest) with ((le_encode 4 len ++ payload) ++ rest).
  rewrite <- app_assoc. rewrite Hu. cbn [bind fst snd].
  unfold len. rewrite read_n_exact. cbn [fst snd]. reflexivity.
Qed.

Theorem chk_roundtrip_wf bs :
  table_ok section_table = true -> wf_chk bs -> bytes_ok bs ->
  forall fuel secs, chk_decode_fuel fuel bs = Ok secs -> chk_encode secs = Ok bs.
Proof.
  intros Htab Hwf. induction Hwf as [|name payload rest Hn Hlen Hlegal Hwf IH]; intros Hok fuel secs H.
  - destruct fuel; simpl in H; inversion H; reflexivity.
  - destruct fuel as [|fuel].
    + unfold frame in H. destruct name; simpl in *; [discriminate | discriminate].
    + rewrite chk_decode_frame in H by assumption.
      inv_bind H as sec Hd Hk. inv_bind Hk as secs' Hr Hk2. inversion Hk2; subst secs.
      apply bytes_ok_app_inv in Hok as [Hokf Hokr].
      assert (bytes_ok payload) as Hokp.
      { unfold frame in Hokf. apply bytes_ok_app_inv in Hokf as [_ Hx].
        apply bytes_ok_app_inv in Hx as [_ Hx]. exact Hx. }
      simpl. rewrite (decode_one_encode_one _ _ _ Htab Hn Hlen Hokp Hlegal Hd). simpl.
      rewrite (IH Hokr _ _ Hr). reflexivity.
Qed.
