(* C02 / C03, one whole trigger through an unedited load and save: when its condition and action lists have no gap (no empty
   entry in front of a used one - the form every editor writes; the gap case is the recorded finding interior-gap-compacted),
   every entry is written back AT ITS OWN POSITION as the encoding of what was decoded from that position, and every empty
   position is written back as the all-zero entry.  Together with C02_entries (what one entry keeps) this gives the values
   of all 16 + 64 entries of the trigger. *)
From Coq Require Import String NArith List Bool Lia PeanoNat.
From RC Require Import lib.Result lib.Bytes model.Layout model.Flags model.TrigTable model.RichCodec
  proofs.Layout_proofs proofs.C08_proofs proofs.C11_proofs gen.GenTrig gen.GenFlags gen.GenConsts.
Import ListNotations.
Local Open Scope string_scope.
Local Open Scope list_scope.
Local Open Scope N_scope.

Definition gap_free {A} (os : list (option A)) : Prop :=
  forall j k, (j < k)%nat -> nth_error os j = Some None -> forall e, nth_error os k <> Some (Some e).

Lemma gap_free_tail {A} (o : option A) r : gap_free (o :: r) -> gap_free r.
Proof. intros H j k Hjk Hj e. apply (H (S j) (S k)); [lia | exact Hj]. Qed.

Lemma somes_all_none {A} (r : list (option A)) : (forall k e, nth_error r k <> Some (Some e)) -> somes r = [].
Proof.
  induction r as [|o r IH]; intros H; [reflexivity|]. destruct o as [x|].
  - exfalso. apply (H 0%nat x). reflexivity.
  - simpl. apply IH. intros k e. apply (H (S k) e).
Qed.

Lemma somes_nth_used {A} : forall (os : list (option A)) k e,
  gap_free os -> nth_error os k = Some (Some e) -> nth_error (somes os) k = Some e.
Proof.
  induction os as [|o r IH]; intros k e Hg Hn; [destruct k; discriminate|].
  destruct k as [|k]; simpl in Hn.
  - inversion Hn; subst o. reflexivity.
  - destruct o as [x|].
    + simpl. apply IH; [eapply gap_free_tail; exact Hg | exact Hn].
    + exfalso. apply (Hg 0%nat (S k) ltac:(lia) eq_refl e). exact Hn.
Qed.

Lemma somes_length_le {A} (os : list (option A)) : (length (somes os) <= length os)%nat.
Proof. induction os as [|[x|] r IH]; simpl; lia. Qed.

Lemma somes_short_at_gap {A} : forall (os : list (option A)) k,
  gap_free os -> nth_error os k = Some None -> (length (somes os) <= k)%nat.
Proof.
  induction os as [|o r IH]; intros k Hg Hn; [destruct k; discriminate|].
  destruct k as [|k]; simpl in Hn.
  - inversion Hn; subst o. simpl. rewrite somes_all_none; [simpl; lia|].
    intros k e. apply (Hg 0%nat (S k) ltac:(lia) eq_refl e).
  - destruct o as [x|]; simpl.
    + pose proof (IH k (gap_free_tail _ _ Hg) Hn). lia.
    + rewrite somes_all_none; [simpl; lia|]. intros k' e. apply (Hg 0%nat (S k') ltac:(lia) eq_refl e).
Qed.

Lemma nth_error_repeat {A} (x : A) m j : (j < m)%nat -> nth_error (repeat x m) j = Some x.
Proof. revert j. induction m as [|m IH]; intros j H; [lia|]. destruct j; simpl; [reflexivity | apply IH; lia]. Qed.

Section Entries.
  Variable A : Type.
  Variable D : val -> result (option A).
  Variable E : A -> result val.
  Variable empty : val.

  Lemma entries_stay_in_place vs os ws n :
    mapM D vs = Ok os -> gap_free os -> mapM E (somes os) = Ok ws -> length vs = n ->
    forall k slot, nth_error vs k = Some slot ->
      exists o, D slot = Ok o /\
        match o with
        | Some e => exists slot', nth_error (pad_to n empty ws) k = Some slot' /\ E e = Ok slot'
        | None => nth_error (pad_to n empty ws) k = Some empty
        end.
  Proof.
    intros Hd Hg He Hlen k slot Hk.
    destruct (mapM_nth _ _ _ _ _ Hd Hk) as (o & Ho & Hok). exists o. split; [exact Ho|].
    pose proof (mapM_length _ _ _ He) as Hlw. pose proof (mapM_length _ _ _ Hd) as Hlo.
    destruct o as [e|].
    - pose proof (somes_nth_used _ _ _ Hg Hok) as Hs.
      destruct (mapM_nth _ _ _ _ _ He Hs) as (slot' & Hslot' & Hn). exists slot'. split; [|exact Hslot'].
      unfold pad_to. rewrite nth_error_app1; [exact Hn|]. apply nth_error_Some. congruence.
    - pose proof (somes_short_at_gap _ _ Hg Hok) as Hshort.
      assert (k < n)%nat as Hkn by (rewrite <- Hlen; apply nth_error_Some; congruence).
      unfold pad_to. rewrite nth_error_app2 by lia. apply nth_error_repeat. lia.
  Qed.
End Entries.

Definition dec_cond cx := decode_entry_of cx gen_condition_table "TriggerConditionId" "_condition_id" condition_flags_codec condition_record_fields.
Definition dec_act cx := decode_entry_of cx gen_action_table "TriggerActionId" "_action_id" action_flags_codec action_record_fields.
Definition enc_cond cx := encode_entry_of cx gen_condition_table condition_flags_codec condition_record_fields.
Definition enc_act cx := encode_entry_of cx gen_action_table action_flags_codec action_record_fields.

Theorem trigger_entries_stay_in_place cx cx' v t v' :
  trigger_decode cx v = Ok t -> trigger_encode cx' t = Ok v' ->
  length (vlist "_conditions" v) = N.to_nat NUM_CONDITIONS_PER_TRIGGER ->
  length (vlist "_actions" v) = N.to_nat NUM_ACTIONS_PER_TRIGGER ->
  (forall os, mapM (dec_cond cx) (vlist "_conditions" v) = Ok os -> gap_free os) ->
  (forall os, mapM (dec_act cx) (vlist "_actions" v) = Ok os -> gap_free os) ->
  (forall k slot, nth_error (vlist "_conditions" v) k = Some slot ->
     exists o, dec_cond cx slot = Ok o /\
       match o with
       | Some e => exists slot', nth_error (vlist "_conditions" v') k = Some slot' /\ enc_cond cx' e = Ok slot'
       | None => nth_error (vlist "_conditions" v') k = Some (empty_entry condition_record_fields)
       end) /\
  (forall k slot, nth_error (vlist "_actions" v) k = Some slot ->
     exists o, dec_act cx slot = Ok o /\
       match o with
       | Some e => exists slot', nth_error (vlist "_actions" v') k = Some slot' /\ enc_act cx' e = Ok slot'
       | None => nth_error (vlist "_actions" v') k = Some (empty_entry action_record_fields)
       end).
Proof.
  intros Hd He Hlc Hla Hgc Hga. unfold trigger_decode in Hd.
  inv_bind Hd as cs Hcs Hk. inv_bind Hk as acts Hacts Hk2.
  destruct (vfield "_player_execution" v) as [pe|]; [|discriminate].
  destruct (negb (vint "_execution_flags" pe =? 0)); [discriminate|].
  destruct (negb (vint "_current_action_index" pe =? 0)); [discriminate|].
  destruct (existsb _ _); [discriminate|]. inversion Hk2; subst t. clear Hk2.
  unfold trigger_encode in He. cbn [t_conds t_acts t_players] in He.
  inv_bind He as wc Hwc Hk. inv_bind Hk as wa Hwa Hk2.
  destruct (Nat.ltb _ (length wc)); [discriminate|]. destruct (Nat.ltb _ (length wa)); [discriminate|].
  assert (vlist "_conditions" v' = pad_to (N.to_nat NUM_CONDITIONS_PER_TRIGGER) (empty_entry condition_record_fields) wc) as ->
    by (inversion Hk2; reflexivity).
  assert (vlist "_actions" v' = pad_to (N.to_nat NUM_ACTIONS_PER_TRIGGER) (empty_entry action_record_fields) wa) as ->
    by (inversion Hk2; reflexivity).
  clear Hk2.
  split.
  - exact (entries_stay_in_place _ (dec_cond cx) (enc_cond cx') _ _ _ _ _ Hcs (Hgc _ Hcs) Hwc Hlc).
  - exact (entries_stay_in_place _ (dec_act cx) (enc_act cx') _ _ _ _ _ Hacts (Hga _ Hacts) Hwa Hla).
Qed.

(* the premise is met by the editor form (used entries first) and not by a list with an interior gap *)
Example gap_free_editor_form : gap_free [Some 7%nat; Some 8%nat; None; None] /\ ~ gap_free [Some 7%nat; None; Some 8%nat].
Proof.
  split.
  - intros j k Hjk Hj e Hk.
    destruct j as [|[|[|[|j]]]]; simpl in Hj; try discriminate; try (destruct j; discriminate);
      destruct k as [|[|[|[|k]]]]; simpl in Hk; try discriminate; try lia; destruct k; discriminate.
  - intros H. apply (H 1%nat 2%nat ltac:(lia) eq_refl 8%nat). reflexivity.
Qed.

(* the section level: trigger k of the written section is the encoding of what was decoded from trigger k of the read section,
   and the section keeps its number of triggers *)
Theorem trig_section_triggerwise cx cx' v ts v' :
  trig_decode cx v = Ok ts -> trig_encode cx' ts = Ok v' ->
  length (vlist "_triggers" v') = length (vlist "_triggers" v) /\
  forall k tv, nth_error (vlist "_triggers" v) k = Some tv ->
    exists t tv', trigger_decode cx tv = Ok t /\ trigger_encode cx' t = Ok tv' /\ nth_error (vlist "_triggers" v') k = Some tv'.
Proof.
  unfold trig_decode, trig_encode. intros Hd He. inv_bind He as vs Hvs Hk.
  assert (vlist "_triggers" v' = vs) as -> by (inversion Hk; reflexivity). clear Hk.
  split.
  - pose proof (mapM_length _ _ _ Hvs) as L1. pose proof (mapM_length _ _ _ Hd) as L2. congruence.
  - intros k tv Hk. destruct (mapM_nth _ _ _ _ _ Hd Hk) as (t & Ht & Hnt).
    destruct (mapM_nth _ _ _ _ _ Hvs Hnt) as (tv' & Htv' & Hn'). exists t, tv'. auto.
Qed.
