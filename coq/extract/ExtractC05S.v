From RC Require Import model.RunC05S.
Require Extraction.
Require Import ExtrOcamlBasic.
Extraction "model_C05S.ml" run.
