From RC Require Import model.RunRich.
Require Extraction.
Require Import ExtrOcamlBasic.
Extraction "model_Rich.ml" run.
