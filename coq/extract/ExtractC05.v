From RC Require Import model.RunC05.
Require Extraction.
Require Import ExtrOcamlBasic.
Extraction "model_C05.ml" run.
