From RC Require Import model.RunC09.
Require Extraction.
Require Import ExtrOcamlBasic.
Extraction "model_C09.ml" run.
