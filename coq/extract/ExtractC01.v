From RC Require Import model.RunC01.
Require Extraction.
Require Import ExtrOcamlBasic.
Extraction "model_C01.ml" run.
