From RC Require Import model.RunC16.
Require Extraction.
Require Import ExtrOcamlBasic.
Extraction "model_C16.ml" run.
