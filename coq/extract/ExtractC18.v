From RC Require Import model.RunC18.
Require Extraction.
Require Import ExtrOcamlBasic.
Extraction "model_C18.ml" run.
