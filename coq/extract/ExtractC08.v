From RC Require Import model.RunC08.
Require Extraction.
Require Import ExtrOcamlBasic.
Extraction "model_C08.ml" run.
