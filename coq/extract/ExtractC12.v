From RC Require Import model.RunC12.
Require Extraction.
Require Import ExtrOcamlBasic.
Extraction "model_C12.ml" run.
