(* Byte strings as [list N] (each < 256) and the little-endian integer codec that
   models struct.pack / struct.unpack with the single-type native formats B, H, I. *)
From Coq Require Import NArith List Lia Bool.
From RC Require Import lib.Result.
Import ListNotations.
Local Open Scope N_scope.

Definition bytes := list N.

Definition byte_okb (b : N) : bool := b <? 256.
Definition bytes_okb (bs : bytes) : bool := forallb byte_okb bs.
Definition bytes_ok (bs : bytes) : Prop := Forall (fun b => b < 256) bs.

Lemma bytes_okb_spec bs : bytes_okb bs = true <-> bytes_ok bs.
Proof.
  unfold bytes_okb, bytes_ok, byte_okb. rewrite forallb_forall, Forall_forall.
  split; intros H x Hx; specialize (H x Hx); [apply N.ltb_lt | apply N.ltb_lt]; assumption.
Qed.

Fixpoint le_encode (w : nat) (n : N) : bytes :=
  match w with
  | O => []
  | S w' => (n mod 256) :: le_encode w' (n / 256)
  end.

Fixpoint le_decode (bs : bytes) : N :=
  match bs with
  | [] => 0
  | b :: r => b + 256 * le_decode r
  end.

Definition pow256 (w : nat) : N := 256 ^ (N.of_nat w).

(* struct.pack("<code>", v): raises struct.error when v does not fit. *)
Definition pack (w : nat) (v : N) : result bytes :=
  if v <? pow256 w then Ok (le_encode w v) else Raise StructError.

Lemma le_encode_length w n : length (le_encode w n) = w.
Proof. revert n; induction w as [|w IH]; simpl; intros n; [reflexivity | rewrite IH; reflexivity]. Qed.

Lemma pow256_S w : pow256 (S w) = 256 * pow256 w.
Proof. unfold pow256. rewrite Nat2N.inj_succ, N.pow_succ_r'. reflexivity. Qed.

Lemma pow256_pos w : 0 < pow256 w.
Proof. unfold pow256. apply N.neq_0_lt_0. apply N.pow_nonzero. discriminate. Qed.

Lemma le_decode_encode w n : n < pow256 w -> le_decode (le_encode w n) = n.
Proof.
  revert n; induction w as [|w IH]; intros n Hn.
  - unfold pow256 in Hn; simpl in Hn. simpl. lia.
  - cbn [le_encode le_decode]. rewrite pow256_S in Hn.
    rewrite IH.
    + pose proof (N.div_mod n 256). lia.
    + apply N.div_lt_upper_bound; lia.
Qed.

Lemma le_encode_ok w n : bytes_ok (le_encode w n).
Proof.
  revert n; induction w as [|w IH]; intros n; simpl; constructor.
  - apply N.mod_lt; discriminate.
  - apply IH.
Qed.

Lemma le_decode_bound bs : bytes_ok bs -> le_decode bs < pow256 (length bs).
Proof.
  induction 1 as [|b r Hb Hr IH]; cbn [le_decode length].
  - unfold pow256; simpl; lia.
  - rewrite pow256_S. lia.
Qed.

Lemma le_encode_decode bs : bytes_ok bs -> le_encode (length bs) (le_decode bs) = bs.
Proof.
  induction 1 as [|b r Hb Hr IH]; cbn [le_decode length le_encode]; [reflexivity|].
  f_equal.
  - rewrite N.mul_comm, N.mod_add by discriminate. apply N.mod_small; assumption.
  - rewrite N.mul_comm, N.div_add by discriminate.
    rewrite (N.div_small b 256) by assumption. rewrite N.add_0_l. exact IH.
Qed.

Lemma pack_ok_inv w v bs : pack w v = Ok bs -> v < pow256 w /\ bs = le_encode w v.
Proof.
  unfold pack. destruct (v <? pow256 w) eqn:E; intros H; [|discriminate].
  inversion H; subst. split; [apply N.ltb_lt; assumption | reflexivity].
Qed.

Lemma pack_decode w bs : bytes_ok bs -> length bs = w -> pack w (le_decode bs) = Ok bs.
Proof.
  intros Hok Hlen. unfold pack. subst w.
  pose proof (le_decode_bound bs Hok) as Hb.
  apply N.ltb_lt in Hb. rewrite Hb. rewrite le_encode_decode by assumption. reflexivity.
Qed.

(* Python's stream.read(n): at most n bytes, never an error. *)
Definition take_bytes (n : nat) (bs : bytes) : bytes * bytes := (firstn n bs, skipn n bs).

(* struct.unpack("<code>", stream.read(w))[0] *)
Definition unpack (w : nat) (bs : bytes) : result (N * bytes) :=
  if Nat.leb w (length bs) then Ok (le_decode (firstn w bs), skipn w bs) else Raise StructError.

Lemma unpack_ok_inv w bs v rest :
  unpack w bs = Ok (v, rest) -> (w <= length bs)%nat /\ v = le_decode (firstn w bs) /\ rest = skipn w bs.
Proof.
  unfold unpack. destruct (Nat.leb w (length bs)) eqn:E; intros H; [|discriminate].
  apply PeanoNat.Nat.leb_le in E. inversion H; auto.
Qed.

Lemma bytes_ok_firstn n bs : bytes_ok bs -> bytes_ok (firstn n bs).
Proof.
  unfold bytes_ok. revert bs; induction n as [|n IH]; intros bs H; simpl; [constructor|].
  destruct bs as [|b r]; [constructor|]. inversion H; subst. constructor; auto.
Qed.

Lemma bytes_ok_skipn n bs : bytes_ok bs -> bytes_ok (skipn n bs).
Proof.
  unfold bytes_ok. revert bs; induction n as [|n IH]; intros bs H; simpl; [assumption|].
  destruct bs as [|b r]; [constructor|]. inversion H; subst. auto.
Qed.

Lemma bytes_ok_app a b : bytes_ok a -> bytes_ok b -> bytes_ok (a ++ b).
Proof. intros; apply Forall_app; split; assumption. Qed.

Lemma bytes_ok_app_inv a b : bytes_ok (a ++ b) -> bytes_ok a /\ bytes_ok b.
Proof. intros H; apply Forall_app in H; exact H. Qed.

(* The key round-trip step: what unpack read is what pack writes back. *)
Lemma unpack_pack w bs v rest :
  bytes_ok bs -> unpack w bs = Ok (v, rest) ->
  exists pre, pack w v = Ok pre /\ pre ++ rest = bs /\ length pre = w.
Proof.
  intros Hok H. apply unpack_ok_inv in H as (Hlen & -> & ->).
  exists (firstn w bs). split; [|split].
  - apply pack_decode; [apply bytes_ok_firstn; assumption | apply firstn_length_le; assumption].
  - apply firstn_skipn.
  - apply firstn_length_le; assumption.
Qed.

Lemma pack_unpack w v pre rest :
  pack w v = Ok pre -> unpack w (pre ++ rest) = Ok (v, rest).
Proof.
  intros H. apply pack_ok_inv in H as (Hv & ->).
  unfold unpack. rewrite app_length, le_encode_length.
  replace (Nat.leb w (w + length rest)) with true by (symmetry; apply PeanoNat.Nat.leb_le; lia).
  rewrite <- (le_encode_length w v) at 1 3.
  rewrite firstn_app, PeanoNat.Nat.sub_diag, firstn_all, firstn_O, app_nil_r.
  rewrite skipn_app, PeanoNat.Nat.sub_diag, skipn_all, skipn_O. simpl.
  rewrite le_decode_encode by assumption. reflexivity.
Qed.
