(* UTF-8 as CPython implements bytes(s, "utf-8") / bytes.decode("utf-8") (strict). *)
From Coq Require Import String NArith List Bool Lia.
From RC Require Import lib.Result.
Import ListNotations.
Local Open Scope N_scope.

(* one code point -> bytes; lone surrogates raise UnicodeEncodeError, > 0x10FFFF cannot occur in a str *)
Definition utf8_encode_cp (c : N) : result (list N) :=
  if c <? 128 then Ok [c]
  else if c <? 2048 then Ok [192 + c / 64; 128 + c mod 64]
  else if c <? 65536 then
    if (55296 <=? c) && (c <? 57344) then Raise UnicodeError
    else Ok [224 + c / 4096; 128 + (c / 64) mod 64; 128 + c mod 64]
  else if c <? 1114112 then
    Ok [240 + c / 262144; 128 + (c / 4096) mod 64; 128 + (c / 64) mod 64; 128 + c mod 64]
  else Raise ValueError.

Fixpoint utf8_encode (s : list N) : result (list N) :=
  match s with
  | [] => Ok []
  | c :: r => do a <- utf8_encode_cp c; do b <- utf8_encode r; Ok (a ++ b)
  end.

Definition is_cont (b : N) : bool := (128 <=? b) && (b <? 192).

(* strict decoder: returns the code points or UnicodeDecodeError *)
Fixpoint utf8_decode_fuel (fuel : nat) (bs : list N) : result (list N) :=
  match fuel with
  | O => match bs with [] => Ok [] | _ => Raise OutOfFuel end
  | S fuel' =>
    match bs with
    | [] => Ok []
    | b0 :: r0 =>
      if b0 <? 128 then do t <- utf8_decode_fuel fuel' r0; Ok (b0 :: t)
      else if (194 <=? b0) && (b0 <? 224) then
        match r0 with
        | b1 :: r1 =>
            if is_cont b1 then do t <- utf8_decode_fuel fuel' r1; Ok ((b0 - 192) * 64 + (b1 - 128) :: t)
            else Raise UnicodeError
        | _ => Raise UnicodeError
        end
      else if (224 <=? b0) && (b0 <? 240) then
        match r0 with
        | b1 :: b2 :: r2 =>
            let lo := if b0 =? 224 then 160 else 128 in
            let hi := if b0 =? 237 then 160 else 192 in
            if (lo <=? b1) && (b1 <? hi) && is_cont b2 then
              do t <- utf8_decode_fuel fuel' r2;
              Ok ((b0 - 224) * 4096 + (b1 - 128) * 64 + (b2 - 128) :: t)
            else Raise UnicodeError
        | _ => Raise UnicodeError
        end
      else if (240 <=? b0) && (b0 <? 245) then
        match r0 with
        | b1 :: b2 :: b3 :: r3 =>
            let lo := if b0 =? 240 then 144 else 128 in
            let hi := if b0 =? 244 then 144 else 192 in
            if (lo <=? b1) && (b1 <? hi) && is_cont b2 && is_cont b3 then
              do t <- utf8_decode_fuel fuel' r3;
              Ok ((b0 - 240) * 262144 + (b1 - 128) * 4096 + (b2 - 128) * 64 + (b3 - 128) :: t)
            else Raise UnicodeError
        | _ => Raise UnicodeError
        end
      else Raise UnicodeError
    end
  end.

Definition utf8_decode (bs : list N) : result (list N) := utf8_decode_fuel (length bs) bs.

Definition ascii_okb (s : list N) : bool := forallb (fun c => c <? 128) s.

Lemma utf8_encode_ascii s : ascii_okb s = true -> utf8_encode s = Ok s.
Proof.
  induction s as [|c r IH]; simpl; intros H; [reflexivity|].
  apply andb_true_iff in H as [Hc Hr]. unfold utf8_encode_cp. rewrite Hc. simpl.
  rewrite IH by assumption. reflexivity.
Qed.
