(* Complete finite sweeps that run inside the kernel: [forall_below n p] checks p on
   0 .. n-1 by N.iter (binary recursion depth, no nat literal), and the lemma lifts
   the boolean result to the universally quantified statement. *)
From Coq Require Import NArith List Lia Bool.
Import ListNotations.
Local Open Scope N_scope.

Definition sweep_step (p : N -> bool) (st : N * bool) : N * bool :=
  let '(k, acc) := st in (N.succ k, acc && p k).

Definition forall_below (n : N) (p : N -> bool) : bool :=
  snd (N.iter n (sweep_step p) (0, true)).

Lemma sweep_iter_fst n p : fst (N.iter n (sweep_step p) (0, true)) = n.
Proof.
  induction n as [|n IH] using N.peano_ind; [reflexivity|].
  rewrite N.iter_succ. destruct (N.iter n (sweep_step p) (0, true)) as [k acc].
  simpl in *. subst. reflexivity.
Qed.

Lemma forall_below_spec n p :
  forall_below n p = true -> forall k, k < n -> p k = true.
Proof.
  unfold forall_below. induction n as [|n IH] using N.peano_ind; intros H k Hk; [lia|].
  rewrite N.iter_succ in H. pose proof (sweep_iter_fst n p) as Hf.
  destruct (N.iter n (sweep_step p) (0, true)) as [j acc]. simpl in *. subst j.
  apply andb_true_iff in H as [Hacc Hp].
  destruct (N.eq_dec k n) as [->|Hne]; [assumption|]. apply IH; [assumption|lia].
Qed.

Lemma forall_below_complete n p :
  (forall k, k < n -> p k = true) -> forall_below n p = true.
Proof.
  unfold forall_below. induction n as [|n IH] using N.peano_ind; intros H; [reflexivity|].
  rewrite N.iter_succ. pose proof (sweep_iter_fst n p) as Hf.
  destruct (N.iter n (sweep_step p) (0, true)) as [j acc]. simpl in *. subst j.
  rewrite IH by (intros; apply H; lia). rewrite H by lia. reflexivity.
Qed.

(* All boolean vectors of a given length (2^n of them; n is tiny: <= 16 here). *)
Fixpoint all_bools (n : nat) : list (list bool) :=
  match n with
  | O => [[]]
  | S n' => map (cons false) (all_bools n') ++ map (cons true) (all_bools n')
  end.

Lemma all_bools_complete n l : length l = n -> In l (all_bools n).
Proof.
  revert l; induction n as [|n IH]; intros l H.
  - destruct l; [left; reflexivity | discriminate].
  - destruct l as [|b r]; [discriminate|]. simpl in H. injection H as H.
    simpl. apply in_or_app. destruct b; [right|left]; apply in_map; apply IH; assumption.
Qed.

(* index of the first k below n that fails p (for counterexample extraction) *)
Definition first_failing (n : N) (p : N -> bool) : option N :=
  snd (N.iter n (fun st : N * option N =>
                   let '(k, r) := st in
                   (N.succ k, match r with Some _ => r | None => if p k then None else Some k end))
              (0, None)).
