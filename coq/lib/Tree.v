(* The one wire format of the correspondence protocol: s-expressions over N. *)
From Coq Require Import NArith List Bool String Ascii.
From RC Require Import lib.Result.
Import ListNotations.
Local Open Scope N_scope.

Inductive tree : Set :=
| I (n : N)
| L (l : list tree).

Definition t_bool (b : bool) : tree := I (if b then 1 else 0).
Definition t_list {A} (f : A -> tree) (l : list A) : tree := L (map f l).
Definition t_bytes (l : list N) : tree := L (map I l).
Definition t_err (e : err) : tree :=
  I (match e with
     | StructError => 1 | UnicodeError => 2 | IndexError => 3 | KeyError => 4
     | ValueError => 5 | AssertionError => 6 | NotImplementedErr => 7 | FileExists => 8
     | FileNotFound => 9 | OsError => 10 | TypeError => 11 | ImportErr => 12 | OutOfFuel => 99 end).
(* result printed as (1 v) for Ok and (0 code) for Raise *)
Definition t_result {A} (f : A -> tree) (r : result A) : tree :=
  match r with Ok a => L [I 1; f a] | Raise e => L [I 0; t_err e] end.
Definition t_option {A} (f : A -> tree) (o : option A) : tree :=
  match o with Some a => L [f a] | None => L [] end.

Definition p_N (t : tree) : option N := match t with I n => Some n | L _ => None end.
Definition p_bool (t : tree) : option bool :=
  match t with I 0 => Some false | I _ => Some true | L _ => None end.
Fixpoint p_all {A} (l : list (option A)) : option (list A) :=
  match l with
  | [] => Some []
  | None :: _ => None
  | Some a :: r => match p_all r with Some r' => Some (a :: r') | None => None end
  end.
Definition p_list {A} (f : tree -> option A) (t : tree) : option (list A) :=
  match t with L l => p_all (map f l) | I _ => None end.
Definition p_bytes : tree -> option (list N) := p_list p_N.
Definition p_option {A} (f : tree -> option A) (t : tree) : option (option A) :=
  match t with
  | L [] => Some None
  | L [x] => match f x with Some a => Some (Some a) | None => None end
  | _ => None
  end.

(* malformed request: printed as (0 98) so that the harness sees it as a protocol error *)
Definition t_bad : tree := L [I 0; I 98].

(* strings travel as lists of code points *)
Definition string_of_codes (l : list N) : string :=
  fold_right (fun c s => String (ascii_of_N c) s) EmptyString l.
Fixpoint codes_of_string (s : string) : list N :=
  match s with EmptyString => [] | String a r => N_of_ascii a :: codes_of_string r end.
