(* Result type used by every executable model: Python exceptions become [Raise e]. *)
From Coq Require Import List.
Import ListNotations.

Inductive err : Set :=
| StructError | UnicodeError | IndexError | KeyError | ValueError | AssertionError
| NotImplementedErr | FileExists | FileNotFound | OsError | TypeError | ImportErr | OutOfFuel.

Inductive result (A : Type) : Type :=
| Ok (a : A)
| Raise (e : err).
Arguments Ok {A} a.
Arguments Raise {A} e.

Definition bind {A B} (r : result A) (f : A -> result B) : result B :=
  match r with Ok a => f a | Raise e => Raise e end.

Notation "'do' x <- r ; k" := (bind r (fun x => k))
  (at level 200, x pattern, r at level 100, k at level 200, right associativity).

Definition is_ok {A} (r : result A) : bool := match r with Ok _ => true | Raise _ => false end.

Fixpoint mapM {A B} (f : A -> result B) (l : list A) : result (list B) :=
  match l with
  | [] => Ok []
  | x :: xs => do y <- f x; do ys <- mapM f xs; Ok (y :: ys)
  end.

Definition of_option {A} (e : err) (o : option A) : result A :=
  match o with Some a => Ok a | None => Raise e end.

Lemma bind_ok_inv {A B} (r : result A) (f : A -> result B) b :
  bind r f = Ok b -> exists a, r = Ok a /\ f a = Ok b.
Proof. destruct r; simpl; intros H; [eauto | discriminate]. Qed.

Lemma mapM_length {A B} (f : A -> result B) l l' : mapM f l = Ok l' -> length l' = length l.
Proof.
  revert l'; induction l as [|x xs IH]; simpl; intros l' H.
  - inversion H; reflexivity.
  - destruct (f x); simpl in H; [|discriminate].
    destruct (mapM f xs); simpl in H; [|discriminate].
    inversion H; simpl; f_equal; apply IH; reflexivity.
Qed.
