"""Translator: the four bit-string flag codecs of richchk -> coq/gen/GenFlags.v.

Accepted subset (fail-closed, TranslatorError otherwise):
  decode:  S = "{:0Wb}".format(x)          one format assignment
           v = <bit expr>                    local names, inlined
           if <cond>: <logging calls only>   ignored (no effect on the result)
           return C(kw=<bit expr>, ...)      bit expr ::= [not] bool(int(S[-k]))
  encode:  return int(f"{int(<a>)}...{int(<a>)}", base=2)   <a> ::= obj.attr | (not obj.attr)
  CuwpFlagsTranscoder: the generic loop over dataclasses.fields, recognised by its exact AST
  shape (tools/expected/cuwp_flags.ast); tables come from the live dataclasses.
"""
from __future__ import annotations

import ast
import dataclasses
import importlib
import inspect
import re
import textwrap
from pathlib import Path

from vlib import GEN_HEADER, PKG, TranslatorError, coq_bool, coq_list, coq_N, coq_string

OUTPUTS = ["gen/GenFlags.v"]
HERE = Path(__file__).resolve().parent


def _func(path: Path, cls: str, name: str) -> ast.FunctionDef:
    tree = ast.parse(path.read_text())
    for node in tree.body:
        if isinstance(node, ast.ClassDef) and node.name == cls:
            for f in node.body:
                if isinstance(f, ast.FunctionDef) and f.name == name:
                    return f
    raise TranslatorError(f"{path}: {cls}.{name} not found")


def _is_logging_only(stmts) -> bool:
    for s in stmts:
        if not (isinstance(s, ast.Expr) and isinstance(s.value, ast.Call)):
            return False
        f = s.value.func
        if not (isinstance(f, ast.Attribute) and f.attr in ("warning", "info", "debug", "error")):
            return False
    return True


def _bit_expr(e: ast.expr, svar: str, env: dict) -> tuple[int, bool]:
    """[not] bool(int(S[-k])) -> (k, negated)"""
    neg = False
    while True:
        if isinstance(e, ast.Name) and e.id in env:
            e = env[e.id]
            continue
        if isinstance(e, ast.UnaryOp) and isinstance(e.op, ast.Not):
            neg = not neg
            e = e.operand
            continue
        break
    if not (isinstance(e, ast.Call) and isinstance(e.func, ast.Name) and e.func.id == "bool"
            and len(e.args) == 1 and not e.keywords):
        raise TranslatorError("bit expression is not bool(...): " + ast.dump(e))
    e = e.args[0]
    if not (isinstance(e, ast.Call) and isinstance(e.func, ast.Name) and e.func.id == "int"
            and len(e.args) == 1 and not e.keywords):
        raise TranslatorError("bit expression is not bool(int(...)): " + ast.dump(e))
    e = e.args[0]
    if not (isinstance(e, ast.Subscript) and isinstance(e.value, ast.Name) and e.value.id == svar):
        raise TranslatorError("bit expression does not index the bit string: " + ast.dump(e))
    idx = e.slice
    if (isinstance(idx, ast.UnaryOp) and isinstance(idx.op, ast.USub)
            and isinstance(idx.operand, ast.Constant) and isinstance(idx.operand.value, int)
            and idx.operand.value >= 1):
        return idx.operand.value, neg
    raise TranslatorError("index is not a negative literal: " + ast.dump(idx))


def translate_decode(fn: ast.FunctionDef):
    svar = None
    width = None
    env: dict[str, ast.expr] = {}
    ret = None
    for st in fn.body:
        if isinstance(st, ast.Expr) and isinstance(st.value, ast.Constant) and isinstance(st.value.value, str):
            continue  # docstring
        if isinstance(st, ast.Assign) and len(st.targets) == 1 and isinstance(st.targets[0], ast.Name):
            v = st.value
            if (isinstance(v, ast.Call) and isinstance(v.func, ast.Attribute) and v.func.attr == "format"
                    and isinstance(v.func.value, ast.Constant) and isinstance(v.func.value.value, str)):
                m = re.fullmatch(r"\{:0(\d+)b\}", v.func.value.value)
                if not m or svar is not None or len(v.args) != 1 or v.keywords:
                    raise TranslatorError("unrecognised format call: " + ast.dump(v))
                svar, width = st.targets[0].id, int(m.group(1))
                continue
            env[st.targets[0].id] = v
            continue
        if isinstance(st, ast.If) and _is_logging_only(st.body) and not st.orelse:
            continue
        if isinstance(st, ast.Return):
            ret = st.value
            continue
        raise TranslatorError(f"{fn.name}: statement outside the accepted subset: " + ast.dump(st)[:200])
    if svar is None or ret is None or not isinstance(ret, ast.Call) or ret.args:
        raise TranslatorError(f"{fn.name}: no format assignment / keyword-constructor return")
    dec = []
    for kw in ret.keywords:
        if kw.arg is None:
            raise TranslatorError("**kwargs in constructor")
        k, neg = _bit_expr(kw.value, svar, env)
        dec.append((kw.arg.lstrip("_"), k, neg))
    return width, dec


def translate_encode(fn: ast.FunctionDef):
    body = [s for s in fn.body
            if not (isinstance(s, ast.Expr) and isinstance(s.value, ast.Constant))]
    if len(body) != 1 or not isinstance(body[0], ast.Return):
        raise TranslatorError(f"{fn.name}: body is not a single return")
    c = body[0].value
    if not (isinstance(c, ast.Call) and isinstance(c.func, ast.Name) and c.func.id == "int"
            and len(c.args) == 1 and len(c.keywords) == 1 and c.keywords[0].arg == "base"
            and isinstance(c.keywords[0].value, ast.Constant) and c.keywords[0].value.value == 2):
        raise TranslatorError(f"{fn.name}: return is not int(<f-string>, base=2)")
    js = c.args[0]
    if not isinstance(js, ast.JoinedStr):
        raise TranslatorError(f"{fn.name}: argument is not an f-string")
    enc = []
    for part in js.values:
        if not (isinstance(part, ast.FormattedValue) and part.conversion == -1 and part.format_spec is None):
            raise TranslatorError(f"{fn.name}: literal text or conversion inside the f-string")
        e = part.value
        if not (isinstance(e, ast.Call) and isinstance(e.func, ast.Name) and e.func.id == "int"
                and len(e.args) == 1 and not e.keywords):
            raise TranslatorError(f"{fn.name}: f-string part is not int(...)")
        e = e.args[0]
        neg = False
        while isinstance(e, ast.UnaryOp) and isinstance(e.op, ast.Not):
            neg = not neg
            e = e.operand
        if not (isinstance(e, ast.Attribute) and isinstance(e.value, ast.Name)):
            raise TranslatorError(f"{fn.name}: f-string part is not obj.attr")
        enc.append((e.attr.lstrip("_"), neg))
    return enc


def _codec_text(name: str, width: int, dec, enc) -> str:
    d = coq_list(f"({coq_string(f)}, {coq_N(k)}, {coq_bool(n)})" for f, k, n in dec)
    e = coq_list(f"({coq_string(f)}, {coq_bool(n)})" for f, n in enc)
    return (f"Definition {name} : flag_codec :=\n  {{| fc_width := {coq_N(width)};\n"
            f"     fc_dec := {d};\n     fc_enc := {e} |}}.\n")


def _norm_dump(fn: ast.FunctionDef) -> str:
    body = [s for s in fn.body
            if not (isinstance(s, ast.Expr) and isinstance(s.value, ast.Constant))]
    return "\n".join(ast.dump(s) for s in body)


def tables():
    """Return {codec_name: (width, dec, enc)} read from the current source tree."""
    out = {}
    helpers = PKG / "transcoder/richchk/transcoders/helpers"
    p = helpers / "trigger_action_flags_transcoder.py"
    w, d = translate_decode(_func(p, "TriggerActionFlagsTranscoder", "decode_flags"))
    out["action_flags_codec"] = (w, d, translate_encode(_func(p, "TriggerActionFlagsTranscoder", "encode_flags")))
    p = helpers / "trigger_condition_flags_transcoder.py"
    w, d = translate_decode(_func(p, "TriggerConditionFlagsTranscoder", "decode_flags"))
    out["condition_flags_codec"] = (w, d, translate_encode(_func(p, "TriggerConditionFlagsTranscoder", "encode_flags")))
    p = PKG / "transcoder/richchk/transcoders/richchk_mrgn_transcoder.py"
    w, d = translate_decode(_func(p, "RichChkMrgnTranscoder", "_decode_elevation_flags"))
    out["elevation_flags_codec"] = (w, d, translate_encode(_func(p, "RichChkMrgnTranscoder", "_encode_elevation_flags")))
    # generic CUWP codec: exact shape, tables from the live dataclasses
    p = helpers / "cuwp_flags_transcoder.py"
    got = (_norm_dump(_func(p, "CuwpFlagsTranscoder", "decode_flags")) + "\n#\n"
           + _norm_dump(_func(p, "CuwpFlagsTranscoder", "encode_flags")))
    exp = (HERE / "expected" / "cuwp_flags.ast").read_text()
    if got.strip() != exp.strip():
        raise TranslatorError("CuwpFlagsTranscoder left the recognised shape (tools/expected/cuwp_flags.ast)")
    for mod, cls, nm in [
        ("unit_property_flags", "UnitPropertyFlags", "cuwp_unit_property_flags_codec"),
        ("valid_special_property_flags", "ValidSpecialPropertyFlags", "cuwp_valid_special_flags_codec"),
        ("valid_unit_property_flags", "ValidUnitPropertyFlags", "cuwp_valid_unit_flags_codec"),
    ]:
        m = importlib.import_module(f"richchk.model.richchk.uprp.flags.{mod}")
        c = getattr(m, cls)
        fields = [f.name.lstrip("_") for f in dataclasses.fields(c)]
        for f in dataclasses.fields(c):
            if f.type not in (bool, "bool"):
                raise TranslatorError(f"{cls}.{f.name} is not a bool field")
        width = c.flags_bit_size()
        if not isinstance(width, int):
            raise TranslatorError("flags_bit_size is not an int")
        dec = [(f, i + 1, False) for i, f in enumerate(fields)]
        enc = [(f, False) for f in reversed(fields)]
        out[nm] = (width, dec, enc)
    return out


def generate() -> dict[str, str]:
    t = tables()
    txt = GEN_HEADER.format(tool="translate_flags.py")
    txt += ("From Coq Require Import NArith List String.\nFrom RC Require Import model.Flags.\n"
            "Import ListNotations.\nLocal Open Scope string_scope.\n\n")
    for name, (w, d, e) in t.items():
        txt += _codec_text(name, w, d, e) + "\n"
    txt += "Definition all_flag_codecs : list (string * flag_codec) :=\n  " + coq_list(
        f"({coq_string(n)}, {n})" for n in t) + ".\n"
    return {"gen/GenFlags.v": txt}


if __name__ == "__main__":
    import sys
    if len(sys.argv) > 1 and sys.argv[1] == "--write-expected":
        p = PKG / "transcoder/richchk/transcoders/helpers/cuwp_flags_transcoder.py"
        got = (_norm_dump(_func(p, "CuwpFlagsTranscoder", "decode_flags")) + "\n#\n"
               + _norm_dump(_func(p, "CuwpFlagsTranscoder", "encode_flags")))
        (HERE / "expected").mkdir(exist_ok=True)
        (HERE / "expected" / "cuwp_flags.ast").write_text(got + "\n")
    else:
        print(generate()["gen/GenFlags.v"])
