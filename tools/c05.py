"""C05 — every trigger action and condition uses the CHK-spec fields."""
from __future__ import annotations

import dataclasses
import json
import struct
import typing
from pathlib import Path

import vlib
from vlib import T

PROP = "C05"
NSTR = 300
ACTION_FIELDS = ["_location_id", "_text_string_id", "_wav_string_id", "_time", "_first_group", "_second_group",
                 "_action_argument_type", "_action_id", "_quantifier_or_switch_or_order", "_flags", "_padding",
                 "_mask_flag"]
ACTION_WIDTH = dict(zip(ACTION_FIELDS, [4, 4, 4, 4, 4, 4, 2, 1, 1, 1, 1, 2]))
COND_FIELDS = ["_location_id", "_group", "_quantity", "_unit_id", "_numeric_comparison_operation", "_condition_id",
               "_numeric_comparand_type", "_flags", "_mask_flag"]
COND_WIDTH = dict(zip(COND_FIELDS, [4, 4, 4, 2, 1, 1, 1, 1, 2]))


class Probe:
    """contexts in which every reference id denotes an object that carries the id in a visible place"""

    def __init__(self):
        from richchk.model.richchk.mrgn.rich_location import RichLocation
        from richchk.model.richchk.mrgn.rich_mrgn_lookup import RichMrgnLookup
        from richchk.model.richchk.richchk_decode_context import RichChkDecodeContext
        from richchk.model.richchk.richchk_encode_context import RichChkEncodeContext
        from richchk.model.richchk.str.rich_str_lookup import RichStrLookup
        from richchk.model.richchk.str.rich_string import RichNullString, RichString
        from richchk.model.richchk.swnm.rich_switch import RichSwitch
        from richchk.model.richchk.swnm.rich_swnm_lookup import RichSwnmLookup
        from richchk.model.richchk.trig.enums.ai_script import AiScript, UnknownAiScript
        from richchk.model.richchk.uprp.rich_cuwp_lookup import RichCuwpLookup
        from richchk.model.richchk.uprp.rich_cuwp_slot import RichCuwpSlot
        self.RichLocation, self.RichString, self.RichNullString = RichLocation, RichString, RichNullString
        self.RichSwitch, self.RichCuwpSlot, self.AiScript, self.UnknownAiScript = RichSwitch, RichCuwpSlot, AiScript, UnknownAiScript
        self.strs = {k: RichString(f"s{k}") for k in range(1, NSTR + 1)}
        self.locs = {k: self.loc(k) for k in range(1, 256)}
        self.cuwps = {k: self.cuwp(k) for k in range(1, 65)}
        self.sws = {k: RichSwitch(_custom_name=RichString(f"sw{k}"), _index=k) for k in range(0, 256)}
        sl = RichStrLookup(_string_by_id_lookup=dict(self.strs),
                           _id_by_string_lookup={v.value: k for k, v in self.strs.items()})
        ml = RichMrgnLookup(_location_by_id_lookup=dict(self.locs),
                            _id_by_location_lookup={v: k for k, v in self.locs.items()})
        cl = RichCuwpLookup(_cuwp_by_id_lookup=dict(self.cuwps), _id_by_cuwp_lookup={v: k for k, v in self.cuwps.items()})
        wl = RichSwnmLookup(_switch_by_id_lookup=dict(self.sws), _id_by_switch_lookup={v: k for k, v in self.sws.items()})
        self.dctx = RichChkDecodeContext(_rich_str_lookup=sl, _rich_mrgn_lookup=ml, _rich_swnm_lookup=wl,
                                         _rich_cuwp_lookup=cl)
        self.ectx = RichChkEncodeContext(_rich_str_lookup=sl, _rich_mrgn_lookup=ml, _rich_swnm_lookup=wl,
                                         _rich_cuwp_lookup=cl)
        # the same context as the MPQ save builds it: with sound metadata for every string that could be a sound path
        # (durations far above any probed value: an encoder that lets metadata override an explicit argument shows)
        from richchk.model.mpq.stormlib.wav.stormlib_wav import StormLibWav
        from richchk.model.richchk.wav.rich_wav_metadata_lookup import RichWavMetadataLookup
        wm = RichWavMetadataLookup(_metadata_by_wav_path={v.value: StormLibWav(v.value, 4000000000 - k)
                                                          for k, v in self.strs.items()})
        self.ectx_w = RichChkEncodeContext(_rich_str_lookup=sl, _rich_mrgn_lookup=ml, _rich_swnm_lookup=wl,
                                           _rich_cuwp_lookup=cl, _wav_metadata_lookup=wm)

    def loc(self, k):
        return self.RichLocation(_left_x1=k, _top_y1=k, _right_x2=k, _bottom_y2=k,
                                 _custom_location_name=self.RichNullString(), _index=k)

    def cuwp(self, k):
        return self.RichCuwpSlot(_hitpoints_percentage=k % 256, _shieldpoints_percentage=k // 256,
                                 _energypoints_percentage=7, _index=k)

    # ---- rich value -> number it stands for (type driven, independent of any table) ----
    def observe(self, v):
        from richchk.model.richchk.richchk_enum import RichChkEnum
        if isinstance(v, bool):
            return int(v)
        if isinstance(v, int):
            return v
        if v is None:
            return 0
        if isinstance(v, RichChkEnum):
            return v.id
        if isinstance(v, self.RichLocation):
            return v.index
        if isinstance(v, self.RichNullString):
            return 0
        if isinstance(v, self.RichString):
            return int(v.value[1:]) if v.value[:1] == "s" and v.value[1:].isdigit() else 10 ** 9
        if isinstance(v, str):
            return int(v[1:]) if v[:1] == "s" and v[1:].isdigit() else 0
        if isinstance(v, self.RichCuwpSlot):
            return v.index
        if isinstance(v, self.RichSwitch):
            return v.index
        if isinstance(v, self.AiScript):
            return struct.unpack("I", v.name.encode("utf-8"))[0]
        raise TypeError(type(v))

    # ---- number -> rich value of the annotated type ----
    def construct(self, tp, n):
        from richchk.model.richchk.richchk_enum import RichChkEnum
        origin = typing.get_origin(tp)
        if origin is typing.Union:
            args = [a for a in typing.get_args(tp) if a is not type(None)]
            return self.construct(args[0], n)
        if tp is int:
            return n
        if isinstance(tp, type) and issubclass(tp, RichChkEnum):
            for m in tp:
                if m.id == n:
                    return m
            raise LookupError("not a member")
        if tp is self.RichLocation:
            return self.locs.get(n) or self.loc(n)
        if tp is self.RichString:
            return self.RichNullString() if n == 0 else self.RichString(f"s{n}")
        if tp is str:
            return "" if n == 0 else f"s{n}"
        if tp is self.RichCuwpSlot:
            return self.cuwps.get(n) or self.cuwp(n)
        if tp is self.RichSwitch:
            return self.sws.get(n) or self.RichSwitch(_custom_name=self.RichString(f"sw{n}"), _index=n)
        if tp is self.AiScript:
            return self.UnknownAiScript(_name=struct.pack("I", n).decode("utf-8"), _description="x")
        raise TypeError(tp)


def registries():
    from richchk.transcoder.richchk.transcoders.trig.rich_trigger_action_transcoder_factory import (
        RichTriggerActionTranscoderFactory as AF)
    from richchk.transcoder.richchk.transcoders.trig.rich_trigger_condition_transcoder_factory import (
        RichTriggerConditionTranscoderFactory as CF)
    return {k.id: v for k, v in AF.transcoders.items()}, {k.id: v for k, v in CF.transcoders.items()}


def mk_record(kind, fields):
    from richchk.model.chk.trig.decoded_trigger_action import DecodedTriggerAction
    from richchk.model.chk.trig.decoded_trigger_condition import DecodedTriggerCondition
    return (DecodedTriggerAction if kind == 0 else DecodedTriggerCondition)(**fields)


def pairs_text(d):
    return "(" + " ".join(f"({T(k)} {v})" for k, v in d) + ")"


def impl_decode(probe, kind, tcls, fields):
    def f():
        rich = tcls().decode(mk_record(kind, fields), probe.dctx)
        out = []
        for fl in dataclasses.fields(rich):
            if fl.name == "_flags":
                continue
            out.append((fl.name, probe.observe(getattr(rich, fl.name))))
        return sorted(out)
    return vlib.impl_result(f)


def sorted_result_text(line: str) -> str:
    t = vlib.parse_tree(line)
    if t[0] == 1:
        rows = sorted((("".join(chr(c) for c in k), v) for k, v in t[1]))
        return "(1 " + pairs_text(rows) + ")"
    return line


def model_hints(model_cls):
    hints = typing.get_type_hints(model_cls)
    return {f.name: hints[f.name] for f in dataclasses.fields(model_cls) if f.name != "_flags"}


def gen_value_for(rng, probe, tp, in_range=True):
    from richchk.model.richchk.richchk_enum import RichChkEnum
    origin = typing.get_origin(tp)
    if origin is typing.Union:
        tp = [a for a in typing.get_args(tp) if a is not type(None)][0]
    if tp is int:
        return rng.choice([0, 1, 255, rng.randrange(256), rng.randrange(2 ** 32)])
    if isinstance(tp, type) and issubclass(tp, RichChkEnum):
        return rng.choice(list(tp)).id
    if tp is probe.RichLocation:
        return rng.randrange(1, 256) if in_range else rng.choice([0, 256, 1000])
    if tp is probe.RichString:
        return rng.choice([0, 1, NSTR, rng.randrange(1, NSTR + 1)]) if in_range else NSTR + 5
    if tp is str:
        return rng.randrange(1, NSTR + 1) if in_range else rng.choice([0, NSTR + 5])
    if tp is probe.RichCuwpSlot:
        return rng.randrange(1, 65) if in_range else rng.choice([0, 65, 300])
    if tp is probe.RichSwitch:
        return rng.randrange(0, 256) if in_range else 300
    if tp is probe.AiScript:
        return struct.unpack("I", bytes(rng.randrange(32, 127) for _ in range(4)))[0]
    raise TypeError(tp)


def other_hash_seeds(ck):
    """the whole comparison again, in fresh interpreters under other string-hash seeds (a field order that comes out of a set
    or an unordered dict differs between processes, and is the same in both directions within one process)"""
    import os
    import subprocess
    import sys
    out = []
    if os.environ.get("VERIF_SUBRUN"):
        return out
    for hs in ((1, 2) if ck.tier == "quick" else (1, 2, 3, 5, 8, 13)):
        env = dict(os.environ, PYTHONHASHSEED=str(hs), VERIF_SUBRUN="1", VERIF_SEED=str(ck.seed + hs))
        p = subprocess.run([sys.executable, str(Path(__file__).resolve().parent / "check.py"), PROP, "--tier", "quick"], env=env,
                           stdout=subprocess.PIPE, stderr=subprocess.DEVNULL, text=True, timeout=3000)
        lines = [l for l in p.stdout.splitlines() if l.startswith("VIOLATION")]
        out.append((hs, p.returncode, lines))
    return out


def run(ck: vlib.Check):
    sub = other_hash_seeds(ck)
    try:
        run_one(ck)
    finally:
        for hs, rc, lines in sub:
            ck.evaluations += 1
            ck.note_case(f"hashseed-subrun:{hs}")
            if rc != 0:
                first = lines[0] if lines else "the run failed without a VIOLATION line"
                rp = first.split("replay=")[1].split()[0] if "replay=" in first else None
                ck.violation(f"under PYTHONHASHSEED={hs} the comparison fails: {first}",
                             {"kind": "hashseed-subrun", "hashseed": hs, "sub_replay": rp},
                             "no-failing-input-found" not in first and bool(lines))
        ck.extra["runs_under_other_hash_seeds"] = [hs for hs, _, _ in sub]


def run_one(ck: vlib.Check):
    reps = 12 if ck.tier == "quick" else 400
    ck.rule = ("sentinel probing of every registered transcoder: records whose fields hold distinct values (reference "
               "fields inside and outside the existing id ranges, enum-typed fields over every member and some "
               "non-members) decoded by the real transcoder under a context where each id denotes an object carrying "
               "that id; rich objects built from numbers encoded by the real transcoder; both compared with the "
               "extracted table interpreter over the generated table (correspondence) and over the SPECIFICATION table "
               "(the property). Distinct = distinct (type, direction, values).")
    st = ck.regen(["trig", "enums"])
    with vlib.build_lock():
        spec_built = ck.build(["model/RunC05S.vo"])
        sdrv_ok = False
        if spec_built:
            sdrv_ok, out = vlib.build_driver("C05S")
            ck.oblige("extraction+driver:C05S", sdrv_ok, out)
        built = st.get("trig") is None and ck.build(["model/RunC05.vo"])
        drv_ok = False
        if built:
            drv_ok, out = vlib.build_driver(PROP)
            ck.oblige("extraction+driver:C05", drv_ok, out)
        proofs_ok = built and ck.build(["proofs/C05_proofs.vo"])
        props_ok = proofs_ok and ck.check_props("props/C05.v")
    if not sdrv_ok:
        ck.notes.append("specification driver unavailable: property not evaluated on the implementation")
        return
    rng = ck.rng
    probe = Probe()
    acts, conds = registries()
    try:
        tables = json.loads((vlib.BUILD / "trig_tables.json").read_text()) if st.get("trig") is None else None
    except Exception:
        tables = None
    if tables is None:  # translator failed: probe with the shapes of the last good table shipped with the tools
        tables = json.loads((Path(__file__).resolve().parent / "expected" / "trig_tables.json").read_text())
    by_key = {0: {r["key"]: r for r in tables["actions"]}, 1: {r["key"]: r for r in tables["conditions"]}}
    cases = []  # (kind, key, direction, payload dict, impl text)
    for kind, reg, flds, widths, idf in ((0, acts, ACTION_FIELDS, ACTION_WIDTH, "_action_id"),
                                         (1, conds, COND_FIELDS, COND_WIDTH, "_condition_id")):
        for key, tcls in sorted(reg.items()):
            row = by_key[kind].get(key)
            enum_fields = {x[3]: x[2] for x in row["dec"] if x[1] == "enum"} if row else {}
            ref_fields = {x[3]: x[1] for x in row["dec"] if x[1] in ("loc", "locthrow", "cuwp", "str", "strvalue",
                                                                     "switch", "aiscript")} if row else {}
            import translate_enums
            enums = translate_enums.enums()
            for rep in range(reps):
                fields = {}
                for i, f in enumerate(flds):
                    hi = 2 ** (8 * widths[f])
                    if f in enum_fields and rep % 4 != 3:
                        members = [i_ for i_, _ in enums[enum_fields[f]][1]]
                        fields[f] = members[rep % len(members)] if rep < len(members) else rng.choice(members)
                    elif f in ref_fields and rep % 5 != 4:
                        c = ref_fields[f]
                        if c == "aiscript":
                            fields[f] = struct.unpack("I", bytes(rng.randrange(32, 127) for _ in range(4)))[0]
                        else:
                            top = {"loc": 255, "locthrow": 255, "cuwp": 64, "str": NSTR, "strvalue": NSTR, "switch": 255}[c]
                            fields[f] = rng.randrange(1, min(top, hi - 1) + 1)
                    else:
                        fields[f] = (17 * (i + 1) + 3 * rep) % min(hi, 250) if rep % 3 else rng.randrange(hi)
                fields[idf] = key
                fields["_flags"] = rng.randrange(32)
                cases.append((kind, key, "dec", fields, impl_decode(probe, kind, tcls, fields)))
            # encode direction
            if row:
                model_cls = getattr(__import__(tcls.__module__, fromlist=["x"]), row["model"])
                hints = model_hints(model_cls)
                for rep in range(reps):
                    nums = {a: gen_value_for(rng, probe, tp, in_range=(rep % 6 != 5)) for a, tp in hints.items()}
                    if rep in (1, 2):
                        # an OPTIONAL number given explicitly as 0, once with and once without sound metadata in the
                        # context: 0 is a value, not "missing"
                        for a, tp in hints.items():
                            if typing.get_origin(tp) is typing.Union and int in typing.get_args(tp):
                                nums[a] = 0

                    def f(nums=nums, model_cls=model_cls, hints=hints, tcls=tcls, flds=flds, rep=rep):
                        rich = model_cls(**{a: probe.construct(hints[a], n) for a, n in nums.items()})
                        rec = tcls().encode(rich, probe.ectx_w if rep % 2 else probe.ectx)
                        return [(fl, getattr(rec, fl)) for fl in flds if fl != "_flags"]
                    cases.append((kind, key, "enc", nums, vlib.impl_result(f)))
    # state independence: a record that differs from another ONLY in fields its type does not use (EUD mask flag "SC",
    # bitmask in the location field, padding) is decoded and KEPT ALIVE; decoding / encoding the plain twin before and
    # after must give the same record (nothing remembered about one object may leak into an equal one)
    keep_alive = []
    for kind, reg, flds, widths, idf in ((0, acts, ACTION_FIELDS, ACTION_WIDTH, "_action_id"),
                                         (1, conds, COND_FIELDS, COND_WIDTH, "_condition_id")):
        for key, tcls in sorted(reg.items()):
            row = by_key[kind].get(key)
            good = next((c for c in cases if c[0] == kind and c[1] == key and c[2] == "dec" and c[4][0] == 1), None)
            if not row or not good:
                continue
            used = {x[3] for x in row["dec"]} | {idf, "_flags"}
            plain = {f: (v if f in used else 0) for f, v in good[3].items()}
            masked = dict(plain)
            for f in flds:
                if f not in used:
                    masked[f] = 0x4353 if f == "_mask_flag" else min(0x100, 2 ** (8 * widths[f]) - 1)

            def enc(rec, tcls=tcls, flds=flds):
                return [(fl, getattr(rec, fl)) for fl in flds]

            def f(tcls=tcls, kind=kind, plain=plain, masked=masked):
                b = tcls().decode(mk_record(kind, plain), probe.dctx)
                e1 = enc(tcls().encode(b, probe.ectx))
                try:
                    keep_alive.append(tcls().decode(mk_record(kind, masked), probe.dctx))
                except Exception:  # noqa  (a transcoder may refuse the masked record; nothing to compare then)
                    return None
                b2 = tcls().decode(mk_record(kind, plain), probe.dctx)
                e2, e3 = enc(tcls().encode(b2, probe.ectx)), enc(tcls().encode(b, probe.ectx))
                return None if e1 == e2 == e3 else [e1, e2, e3]
            r = vlib.impl_result(f)
            ck.evaluations += 1
            if r[0] == 1 and r[1]:
                diff = [(a, b_) for a, b_ in zip(r[1][0], r[1][1] if r[1][1] != r[1][0] else r[1][2]) if a != b_]
                ck.violation(f"{'action' if kind == 0 else 'condition'} type {key}: after a record that differs only in unused "
                             f"fields was decoded (and is still alive), encoding the plain twin gives different fields: {diff[:3]}",
                             {"kind": "state", "which": kind, "key": key, "plain": plain, "masked": masked, "difference": diff}, True)
            # ... and a twin that differs in a USED field, the flags byte: the first object, kept by the caller, must still
            # encode to its own record after the twin was decoded (no two decoded entries may share state)
            other = dict(plain)
            other["_flags"] = plain.get("_flags", 0) ^ 0x1F

            def g(tcls=tcls, kind=kind, plain=plain, other=other):
                b = tcls().decode(mk_record(kind, plain), probe.dctx)
                e1 = enc(tcls().encode(b, probe.ectx))
                keep_alive.append(tcls().decode(mk_record(kind, other), probe.dctx))
                e2 = enc(tcls().encode(b, probe.ectx))
                o2 = enc(tcls().encode(keep_alive[-1], probe.ectx))
                b3 = tcls().decode(mk_record(kind, plain), probe.dctx)
                o3 = enc(tcls().encode(keep_alive[-1], probe.ectx))
                return None if (e1 == e2 and o2 == o3) else [e1, e2, o2, o3]
            r = vlib.impl_result(g)
            ck.evaluations += 1
            if r[0] == 1 and r[1]:
                x, y = (r[1][0], r[1][1]) if r[1][0] != r[1][1] else (r[1][2], r[1][3])
                diff = [(a, b_) for a, b_ in zip(x, y) if a != b_]
                ck.violation(f"{'action' if kind == 0 else 'condition'} type {key}: an entry decoded earlier and still held by the "
                             f"caller encodes differently after another record of the same type (other flags byte) was decoded: {diff[:3]}",
                             {"kind": "state", "which": kind, "key": key, "plain": plain, "masked": other, "difference": diff}, True)
    lines_gen, lines_spec, expect = [], [], []
    for kind, key, direction, payload, res in cases:
        op = 1 if direction == "dec" else 2
        body = pairs_text(sorted(payload.items()))
        lines_gen.append(f"({op} {kind} {key} {body})")
        lines_spec.append(f"({op} {kind + 2} {key} {body})")
        if res[0] == 1:
            rows = [(k, v) for k, v in res[1] if k != "_flags"]
            expect.append("(1 " + pairs_text(sorted(rows)) + ")")
        else:
            expect.append("(0)")  # which exception comes first is an evaluation-order detail, not compared
        ck.note_case(lines_gen[-1])
    got_spec = vlib.run_model("C05S", lines_spec)
    got_gen = vlib.run_model(PROP, lines_gen) if drv_ok else list(got_spec)

    def norm(line, direction):
        t = vlib.parse_tree(line)
        if t[0] == 1:
            rows = [("".join(chr(c) for c in k), v) for k, v in t[1] if "".join(chr(c) for c in k) != "_flags"]
            return "(1 " + pairs_text(sorted(rows)) + ")"
        return "(0)"
    mism_gen, mism_spec = [], []
    for i, (c, e) in enumerate(zip(cases, expect)):
        g, s = norm(got_gen[i], c[2]), norm(got_spec[i], c[2])
        if g != e:
            mism_gen.append(i)
        if s != e:
            mism_spec.append(i)
    if drv_ok:
        ck.corr_count("transcoders vs extracted interpreter over the GENERATED table", len(cases), len(mism_gen))
    else:
        mism_gen = []
    ck.evaluations += len(cases)
    if mism_gen:
        i = mism_gen[0]
        ck.notes.append(f"first generated-table mismatch: {lines_gen[i][:300]} impl {expect[i][:300]} model {norm(got_gen[i], cases[i][2])[:300]}")
    if mism_spec:
        i = mism_spec[0]
        kind, key, direction, payload, res = cases[i]
        ck.violation(
            f"{'action' if kind == 0 else 'condition'} type {key}: the real transcoder's {direction}ode differs from the "
            f"specification table",
            {"kind": "spec-field", "which": kind, "key": key, "direction": direction, "input": payload,
             "implementation": expect[i], "specification": norm(got_spec[i], direction)}, True)
    ck.extra["types_probed"] = {"actions": len(acts), "conditions": len(conds)}
    ck.sample({"case": lines_gen[0][:300], "impl": expect[0][:300]})
    ck.sample({"case": lines_gen[-1][:300], "impl": expect[-1][:300]})


def replay(path: str) -> int:
    rp = json.loads(Path(path).read_text())
    if rp.get("kind") == "hashseed-subrun" and rp.get("sub_replay"):
        import os
        import subprocess
        import sys
        p = subprocess.run([sys.executable, str(Path(__file__).resolve().parent / "check.py"), PROP, "--replay", rp["sub_replay"]],
                           env=dict(os.environ, PYTHONHASHSEED=str(rp["hashseed"])))
        return p.returncode
    print("replaying:", rp.get("what"))
    if rp.get("kind") == "spec-field":
        probe = Probe()
        acts, conds = registries()
        tcls = (acts if rp["which"] == 0 else conds)[rp["key"]]
        if rp["direction"] == "dec":
            res = impl_decode(probe, rp["which"], tcls, rp["input"])
            now = "(1 " + pairs_text(sorted((k, v) for k, v in res[1])) + ")" if res[0] == 1 else f"(0 {res[1]})"
            print("implementation now:", now)
            print("specification     :", rp["specification"])
            return 0 if now == rp["specification"] else 1
    print(json.dumps(rp, indent=1)[:3000])
    return 1
