#!/venv/bin/python
"""Real-StormLib round trips.  stdin: list of jobs; stdout: list of observations."""
import hashlib, json, logging, os, shutil, sys, tempfile, wave
from pathlib import Path
sys.path.insert(0, str(Path(__file__).resolve().parent))
logging.disable(logging.CRITICAL)
import vlib  # noqa: E402
import scenarios as SC  # noqa: E402

RES = vlib.REPO / "test/resources/stormlib"
BASES = {"scm0": RES / "example-starcraft-map.scm", "scx1": RES / "example-stacraft-map.scx", "scx3": RES / "test-chkjson-transcoder.scx"}
AUDIO = {"wav": RES / "wavs/monitorhumming5.wav", "ogg": RES / "wavs/bandit1.ogg"}
CHK = "staredit\\scenario.chk"


def members(wrapper, path):
    """{member name: sha1 of its extracted bytes} for every member the archive lists"""
    from richchk.model.mpq.stormlib.stormlib_archive_mode import StormLibArchiveMode
    from richchk.mpq.stormlib.stormlib_file_searcher import StormLibFileSearcher
    h = wrapper.open_archive(str(path), StormLibArchiveMode.STORMLIB_READ_ONLY)
    try:
        names = StormLibFileSearcher(stormlib_reference=wrapper.stormlib, open_mpq_handle=h).find_all_files_matching_pattern("*")
        out = {}
        d = tempfile.mkdtemp(dir=str(vlib.BUILD))
        for i, n in enumerate(sorted(set(names))):
            if n in ("(attributes)", "(signature)"):
                continue
            o = os.path.join(d, f"m{i}")
            wrapper.extract_file(h, n, o, overwrite_existing=True)
            out[n] = hashlib.sha1(open(o, "rb").read()).hexdigest()
        shutil.rmtree(d, ignore_errors=True)
        return out
    finally:
        wrapper.close_archive(h)


def edit(rich, how, seed):
    """unedited / bigger (extra triggers) / smaller (triggers removed)"""
    import random
    from richchk.editor.richchk.rich_chk_editor import RichChkEditor
    from richchk.model.richchk.trig.rich_trig_section import RichTrigSection
    if how == "unedited":
        return rich
    trig = next(s for s in rich.chk_sections if isinstance(s, RichTrigSection))
    if how == "smaller":
        return RichChkEditor().replace_chk_section(RichTrigSection(_triggers=trig.triggers[: len(trig.triggers) // 2]), rich)
    from richchk.model.richchk.str.rich_string import RichString
    from richchk.model.richchk.trig.actions.display_text_message_action import DisplayTextMessageAction
    from richchk.model.richchk.trig.conditions.always_condition import AlwaysCondition
    from richchk.model.richchk.trig.player_id import PlayerId
    from richchk.model.richchk.trig.rich_trigger import RichTrigger
    rng = random.Random(seed)
    extra = [RichTrigger(_conditions=[AlwaysCondition()],
                         _actions=[DisplayTextMessageAction(_text=RichString(f"verif message {seed} {i} " + "x" * rng.randrange(200)))],
                         _players={PlayerId.ALL_PLAYERS}) for i in range(rng.choice([1, 5, 40]))]
    return RichChkEditor().replace_chk_section(RichTrigSection(_triggers=trig.triggers + extra), rich)


def true_duration_ms(path):
    if str(path).endswith(".wav"):
        with wave.open(str(path), "rb") as w:
            return w.getnframes() * 1000 // w.getframerate()      # exact whole milliseconds (no floating point)
    # Ogg Vorbis: the granule position of the last page is the number of samples, the identification header holds the rate
    import oggtool
    samples, rate = oggtool.info(Path(path).read_bytes())
    return samples * 1000 // rate


def job_save(j):
    from richchk.io.chk.chk_io import ChkIo
    from richchk.io.mpq.starcraft_mpq_io_helper import StarCraftMpqIoHelper
    from richchk.io.richchk.richchk_io import RichChkIo
    from richchk.mpq.stormlib.stormlib_helper import StormLibHelper
    work = Path(tempfile.mkdtemp(prefix="verif-c17-", dir=str(vlib.BUILD)))
    try:
        base = work / "base.scx"
        shutil.copyfile(BASES[j["base"]], base)
        mpq_io = StarCraftMpqIoHelper.create_mpq_io()
        wrapper = StormLibHelper.load_stormlib()
        rich = edit(mpq_io.read_chk_from_mpq(str(base)), j["edit"], j.get("seed", 0))
        expected_chk = ChkIo().encode_chk_to_bytes(RichChkIo().encode_chk(rich, mpq_io._build_wav_metadata_lookup(str(base))))
        out = work / "out.scx"
        mpq_io.save_chk_to_mpq(rich, str(base), str(out))
        mb, mo = members(wrapper, base), members(wrapper, out)
        problems = []
        if set(mb) != set(mo):
            problems.append(f"member listing differs: only in base {sorted(set(mb) - set(mo))}, only in new {sorted(set(mo) - set(mb))}")
        for n in mb:
            if n != CHK and n != "(listfile)" and n in mo and mb[n] != mo[n]:
                problems.append(f"member {n!r} changed")
        if mo.get(CHK) != hashlib.sha1(expected_chk).hexdigest():
            problems.append("stored scenario.chk is not the encoder's bytes")
        back = mpq_io.read_chk_from_mpq(str(out))
        again = ChkIo().encode_chk_to_bytes(RichChkIo().encode_chk(back, mpq_io._build_wav_metadata_lookup(str(out))))
        if again != expected_chk:
            problems.append("the map read back does not save to the same CHK")
        if hashlib.sha1(base.read_bytes()).hexdigest() != hashlib.sha1(BASES[j["base"]].read_bytes()).hexdigest():
            problems.append("base archive changed")
        return {"problems": problems, "members": len(mo), "chk_len": len(expected_chk)}
    finally:
        shutil.rmtree(work, ignore_errors=True)


def job_audio(j):
    from richchk.editor.richchk.rich_chk_editor import RichChkEditor
    from richchk.io.mpq.starcraft_mpq_io_helper import StarCraftMpqIoHelper
    from richchk.model.richchk.trig.actions.play_wav_action import PlayWavAction
    from richchk.model.richchk.trig.conditions.always_condition import AlwaysCondition
    from richchk.model.richchk.trig.player_id import PlayerId
    from richchk.model.richchk.trig.rich_trig_section import RichTrigSection
    from richchk.model.richchk.trig.rich_trigger import RichTrigger
    from richchk.mpq.stormlib.stormlib_helper import StormLibHelper
    work = Path(tempfile.mkdtemp(prefix="verif-c17-", dir=str(vlib.BUILD)))
    try:
        base = work / "base.scx"
        shutil.copyfile(BASES[j["base"]], base)
        files = []
        for i, kind in enumerate(j["files"]):
            p = work / (j["names"][i] if j.get("names") else f"import {i} {kind}{AUDIO[kind].suffix}")
            shutil.copyfile(AUDIO[kind], p)
            if kind == "ogg" and j.get("ogg_granule"):
                # the same sound cut to a given number of samples (last page's granule position, checksum recomputed)
                import oggtool
                p.write_bytes(oggtool.with_granule(p.read_bytes(), j["ogg_granule"]))
            files.append(p)
        mpq_io = StarCraftMpqIoHelper.create_mpq_io()
        wav_io = StarCraftMpqIoHelper.create_wav_io()
        wrapper = StormLibHelper.load_stormlib()
        out = work / "out.scx"
        wav_io.add_audio_files_to_mpq([str(f) for f in files], str(base), str(out))
        mb, mo = members(wrapper, base), members(wrapper, out)
        problems = []
        for n in mb:
            if n not in (CHK, "(listfile)") and mo.get(n) != mb[n]:
                problems.append(f"member {n!r} lost or changed")
        v = SC.SpecView(SC.save(mpq_io.read_chk_from_mpq(str(out))))
        wav_table = [v.text(int.from_bytes(v.by_name[b"WAV "][-1][4 * k: 4 * k + 4], "little")) for k in range(512)] \
            if b"WAV " in v.by_name else []
        for f in files:
            member = "staredit\\wav\\" + f.name
            if mo.get(member) != hashlib.sha1(f.read_bytes()).hexdigest():
                problems.append(f"{member!r} is not stored with the file's bytes")
            if member not in wav_table:
                problems.append(f"{member!r} is not listed in the map's sound table")
        # a PlayWav without duration gets the file's true duration
        rich = mpq_io.read_chk_from_mpq(str(out))
        trig = next(s for s in rich.chk_sections if isinstance(s, RichTrigSection))
        acts = [PlayWavAction(_path_to_wav_in_mpq="staredit\\wav\\" + f.name) for f in files]
        # ... and an explicit duration (0 and the u32 bounds included) is written as given
        explicit = [0, 1, 4144, 2 ** 32 - 1][: max(1, 8 - len(files))]
        acts_explicit = [PlayWavAction(_path_to_wav_in_mpq="staredit\\wav\\" + files[0].name, _duration_ms=d) for d in explicit] \
            if files else []
        acts = acts + acts_explicit
        t = RichTrigger(_conditions=[AlwaysCondition()], _actions=acts, _players={PlayerId.PLAYER_1})
        rich2 = RichChkEditor().replace_chk_section(RichTrigSection(_triggers=trig.triggers + [t]), rich)
        out2 = work / "out2.scx"
        try:
            mpq_io.save_chk_to_mpq(rich2, str(out), str(out2))
        except Exception as ex:  # noqa
            problems.append(f"a PlayWav of the imported sound under its canonical path cannot be saved: {type(ex).__name__}: {str(ex)[:120]}")
            return {"problems": problems, "members": len(mo)}
        v2 = SC.SpecView(SC.save(mpq_io.read_chk_from_mpq(str(out2))))
        last = v2.triggers()[-1]["actions"][: len(files)]
        for f, a in zip(files, last):
            if not isinstance(a, dict) or a.get("type") != 8:
                problems.append("the authored PlayWav action is not where it was put")
                continue
            if a["_duration_ms"] != true_duration_ms(f):
                problems.append(f"PlayWav duration {a['_duration_ms']} != true duration {true_duration_ms(f)} of {f.name}")
            if a["_path_to_wav_in_mpq"] != "staredit\\wav\\" + f.name:
                problems.append("PlayWav path does not resolve to the imported file")
        for d, a in zip(explicit if files else [], v2.triggers()[-1]["actions"][len(files): len(files) + len(explicit)]):
            if not isinstance(a, dict) or a.get("type") != 8 or a["_duration_ms"] != d:
                problems.append(f"PlayWav with explicit duration {d} ms is saved as {a.get('_duration_ms') if isinstance(a, dict) else a}")
        # the same IO objects used for a whole session on ONE path: save, import sounds into that very file, save
        # again - anything remembered about the archive from before the import must not be used afterwards
        if files:
            sess = work / "session.scx"
            shutil.copyfile(BASES[j["base"]], sess)
            rich0 = mpq_io.read_chk_from_mpq(str(sess))
            mpq_io.save_chk_to_mpq(rich0, str(sess), str(work / "session-copy.scx"))
            staged = work / "session-with-sounds.scx"
            wav_io.add_audio_files_to_mpq([str(f) for f in files], str(sess), str(staged))
            os.replace(str(staged), str(sess))
            rich1 = mpq_io.read_chk_from_mpq(str(sess))
            trig1 = next(s for s in rich1.chk_sections if isinstance(s, RichTrigSection))
            t1 = RichTrigger(_conditions=[AlwaysCondition()], _players={PlayerId.PLAYER_1},
                             _actions=[PlayWavAction(_path_to_wav_in_mpq="staredit\\wav\\" + f.name) for f in files])
            rich3 = RichChkEditor().replace_chk_section(RichTrigSection(_triggers=trig1.triggers + [t1]), rich1)
            try:
                mpq_io.save_chk_to_mpq(rich3, str(sess), str(work / "session-final.scx"))
                v3 = SC.SpecView(SC.save(mpq_io.read_chk_from_mpq(str(work / "session-final.scx"))))
                for f, a in zip(files, v3.triggers()[-1]["actions"][: len(files)]):
                    if not isinstance(a, dict) or a.get("type") != 8 or a["_duration_ms"] != true_duration_ms(f):
                        problems.append(f"same-session save after import: PlayWav duration "
                                        f"{a.get('_duration_ms') if isinstance(a, dict) else a} != true duration {true_duration_ms(f)}")
            except Exception as ex:  # noqa
                problems.append(f"same-session save after import raised {type(ex).__name__}: {str(ex)[:120]}")
        return {"problems": problems, "members": len(mo)}
    finally:
        shutil.rmtree(work, ignore_errors=True)


def make_wav(path, ms):
    with wave.open(str(path), "wb") as w:
        w.setnchannels(1)
        w.setsampwidth(1)
        w.setframerate(8000)
        w.writeframes(bytes([128]) * (8 * ms))


def job_same_basename(j):
    """the base archive holds sounds with the SAME file name in different archive directories and different lengths;
    PlayWav actions without a duration refer to each of them: each must get the true duration of ITS member"""
    from richchk.editor.richchk.rich_chk_editor import RichChkEditor
    from richchk.io.mpq.starcraft_mpq_io_helper import StarCraftMpqIoHelper
    from richchk.model.mpq.stormlib.stormlib_archive_mode import StormLibArchiveMode
    from richchk.model.richchk.trig.actions.play_wav_action import PlayWavAction
    from richchk.model.richchk.trig.conditions.always_condition import AlwaysCondition
    from richchk.model.richchk.trig.player_id import PlayerId
    from richchk.model.richchk.trig.rich_trig_section import RichTrigSection
    from richchk.model.richchk.trig.rich_trigger import RichTrigger
    from richchk.mpq.stormlib.stormlib_helper import StormLibHelper
    work = Path(tempfile.mkdtemp(prefix="verif-c17-", dir=str(vlib.BUILD)))
    try:
        base = work / "base.scx"
        shutil.copyfile(BASES[j["base"]], base)
        wrapper = StormLibHelper.load_stormlib()
        sounds = {}
        h = wrapper.open_archive(str(base), StormLibArchiveMode.STORMLIB_WRITE_ONLY)
        try:
            for k, (member, ms) in enumerate(j["members"]):
                f = work / f"src{k}.wav"
                make_wav(f, ms)
                wrapper.add_file(h, str(f), member, overwrite_existing=True)
                sounds[member] = ms
        finally:
            wrapper.close_archive(h)
        mpq_io = StarCraftMpqIoHelper.create_mpq_io()
        rich = mpq_io.read_chk_from_mpq(str(base))
        trig = next(s for s in rich.chk_sections if isinstance(s, RichTrigSection))
        order = list(sounds)
        t = RichTrigger(_conditions=[AlwaysCondition()], _players={PlayerId.PLAYER_1},
                        _actions=[PlayWavAction(_path_to_wav_in_mpq=m) for m in order])
        # the sounds are listed in the map's sound table (as the import does), so their paths are strings of the map
        from richchk.editor.richchk.rich_wav_editor import RichWavEditor
        from richchk.model.richchk.wav.rich_wav_section import RichWavSection
        wavsec = next((s_ for s_ in rich.chk_sections if isinstance(s_, RichWavSection)), None)
        rich1 = RichChkEditor().replace_chk_section(RichWavEditor().add_wav_files(order, wavsec), rich) if wavsec is not None else rich
        rich2 = RichChkEditor().replace_chk_section(RichTrigSection(_triggers=trig.triggers + [t]), rich1)
        out = work / "out.scx"
        problems = []
        mpq_io.save_chk_to_mpq(rich2, str(base), str(out))
        v = SC.SpecView(SC.save(mpq_io.read_chk_from_mpq(str(out))))
        for m, a in zip(order, v.triggers()[-1]["actions"][: len(order)]):
            if not isinstance(a, dict) or a.get("type") != 8:
                problems.append("the authored PlayWav action is not where it was put")
            elif a["_duration_ms"] != sounds[m]:
                problems.append(f"PlayWav of member {m!r}: duration {a['_duration_ms']} ms, the member is {sounds[m]} ms long")
        mb, mo = members(wrapper, base), members(wrapper, out)
        for n in mb:
            if n not in (CHK, "(listfile)") and mo.get(n) != mb[n]:
                problems.append(f"member {n!r} lost or changed")
        return {"problems": problems, "members": len(mo)}
    finally:
        shutil.rmtree(work, ignore_errors=True)


def job_reimport(j):
    """history: import a sound, save an EARLIER map value over that archive (the member stays, the map no longer lists
    it), import the same sound again: after an import the sound is listed in the map's sound table, whatever the archive
    already held"""
    from richchk.io.mpq.starcraft_mpq_io_helper import StarCraftMpqIoHelper
    from richchk.mpq.stormlib.stormlib_helper import StormLibHelper
    work = Path(tempfile.mkdtemp(prefix="verif-c17-", dir=str(vlib.BUILD)))
    try:
        base = work / "base.scx"
        shutil.copyfile(BASES[j["base"]], base)
        snd = work / ("alarm" + AUDIO[j["file"]].suffix)
        shutil.copyfile(AUDIO[j["file"]], snd)
        mpq_io = StarCraftMpqIoHelper.create_mpq_io()
        wav_io = StarCraftMpqIoHelper.create_wav_io()
        wrapper = StormLibHelper.load_stormlib()
        rich0 = mpq_io.read_chk_from_mpq(str(base))
        m1, m2, m3 = work / "m1.scx", work / "m2.scx", work / "m3.scx"
        wav_io.add_audio_files_to_mpq([str(snd)], str(base), str(m1))
        mpq_io.save_chk_to_mpq(rich0, str(m1), str(m2))
        wav_io.add_audio_files_to_mpq([str(snd)], str(m2), str(m3))
        problems = []
        member = "staredit\\wav\\" + snd.name
        mo = members(wrapper, m3)
        if mo.get(member) != hashlib.sha1(snd.read_bytes()).hexdigest():
            problems.append(f"{member!r} is not stored with the file's bytes")
        v = SC.SpecView(SC.save(mpq_io.read_chk_from_mpq(str(m3))))
        wav_table = [v.text(int.from_bytes(v.by_name[b"WAV "][-1][4 * k: 4 * k + 4], "little")) for k in range(512)] \
            if b"WAV " in v.by_name else []
        if member not in wav_table:
            problems.append(f"after the second import {member!r} is not listed in the map's sound table")
        return {"problems": problems, "members": len(mo)}
    finally:
        shutil.rmtree(work, ignore_errors=True)


if __name__ == "__main__":
    out = []
    for j in json.loads(sys.stdin.read()):
        try:
            out.append(job_save(j) if j["kind"] == "save" else job_same_basename(j) if j["kind"] == "same-basename" else job_reimport(j) if j["kind"] == "reimport" else job_audio(j))
        except Exception as ex:  # noqa
            import traceback
            out.append({"harness_error": traceback.format_exc()[-900:]})
    print(json.dumps(out))
