"""Translator: the import-time behaviour of every module of the package -> coq/gen/GenImports.v.

Per module (packages included, keyed by their __init__), the ordered top-level events:
    Import m [names]     from m import names / import m      (m inside the package; submodule imports are resolved)
    Def n                class / def / assignment defining n
    Register r k n       class n(..., <registrable base of registry r>, <kw>=<key expr>): key k evaluated from the
                         model classes (never read from the live registries)
    ImportAll [m...]     import_all_modules_in_subpackage(P, S): the NON-recursive, sorted listing of P.S
Anything else at module level (try, if other than TYPE_CHECKING, with, loops, calls) is a TranslatorError.
Also emits the expected keys of the four registries, computed from the model classes alone."""
from __future__ import annotations

import ast
import importlib
import inspect
import json
import pkgutil
from pathlib import Path

from vlib import BUILD, GEN_HEADER, PKG, TranslatorError, coq_list, coq_N, coq_string

OUTPUTS = ["gen/GenImports.v"]

REGISTRABLE = {  # base class name -> (registry number, factory class, module)
    "_RegistrableTranscoder": (0, "ChkSectionTranscoderFactory", "richchk.transcoder.chk.chk_section_transcoder_factory"),
    "_RichChkRegistrableTranscoder": (1, "RichChkSectionTranscoderFactory",
                                      "richchk.transcoder.richchk.richchk_section_transcoder_factory"),
    "_RichTriggerActionRegistrableTranscoder": (
        2, "RichTriggerActionTranscoderFactory",
        "richchk.transcoder.richchk.transcoders.trig.rich_trigger_action_transcoder_factory"),
    "_RichTriggerConditionRegistrableTranscoder": (
        3, "RichTriggerConditionTranscoderFactory",
        "richchk.transcoder.richchk.transcoders.trig.rich_trigger_condition_transcoder_factory"),
}


def err(msg, node=None):
    if node is not None:
        msg += " :: " + ast.unparse(node)[:160]
    raise TranslatorError(msg)


def all_modules():
    """{module name: (path, is_package)} for the whole package, from the tree"""
    out = {}
    for p in sorted(PKG.rglob("*.py")):
        rel = p.relative_to(PKG.parent).with_suffix("")
        parts = list(rel.parts)
        if parts[-1] == "__init__":
            out[".".join(parts[:-1])] = (p, True)
        else:
            out[".".join(parts)] = (p, False)
    return out


def key_number(v):
    """registry key -> natural number: enum ids, or the 4 characters of a section name"""
    if hasattr(v, "id") and isinstance(v.id, int):
        return v.id
    val = getattr(v, "value", None)
    if isinstance(val, str):
        return int.from_bytes(val.encode("ascii")[:8].ljust(8, b"\0"), "little")
    err(f"registry key {v!r} is neither an id enum nor a section name")


def check_registrable_bases(mods):
    """each registrable base's __init_subclass__ must call <its factory>.register(key, cls)"""
    for base, (reg, factory, modname) in REGISTRABLE.items():
        path = mods[modname][0]
        tree = ast.parse(path.read_text())
        cls = next((n for n in tree.body if isinstance(n, ast.ClassDef) and n.name == base), None)
        if cls is None:
            err(f"{base} not defined in {modname}")
        fn = next((f for f in cls.body if isinstance(f, ast.FunctionDef) and f.name == "__init_subclass__"), None)
        if fn is None or len(fn.body) != 1:
            err(f"{base}.__init_subclass__ left the recognised shape")
        call = fn.body[0].value if isinstance(fn.body[0], ast.Expr) else None
        kwname = [a.arg for a in fn.args.args if a.arg != "cls"]
        if not (isinstance(call, ast.Call) and ast.unparse(call.func) == f"{factory}.register" and len(call.args) == 2
                and len(kwname) == 1 and ast.unparse(call.args[0]) == kwname[0] and ast.unparse(call.args[1]) == "cls"):
            err(f"{base}.__init_subclass__ does not call {factory}.register(key, cls)")
        REGISTRABLE[base] = (reg, factory, modname, kwname[0])
        # and register must store cls under the key in the class-level dict
        fcls = next((n for n in tree.body if isinstance(n, ast.ClassDef) and n.name == factory), None)
        rfn = next((f for f in fcls.body if isinstance(f, ast.FunctionDef) and f.name == "register"), None)
        stores = [s for s in ast.walk(rfn) if isinstance(s, ast.Assign) and isinstance(s.targets[0], ast.Subscript)
                  and ast.unparse(s.targets[0].value) == "cls.transcoders"]
        if len(stores) != 1:
            err(f"{factory}.register does not store exactly once into cls.transcoders")


def resolve_from(modname, is_pkg, level, target):
    if level == 0:
        return target
    base = modname.split(".") if is_pkg else modname.split(".")[:-1]
    if level > 1:
        base = base[: len(base) - (level - 1)]
    return ".".join(base + ([target] if target else []))


def module_events(modname, path, is_pkg, mods):
    tree = ast.parse(path.read_text())
    live = importlib.import_module(modname)
    consts = {}
    events = []
    for st in tree.body:
        if isinstance(st, ast.Expr) and isinstance(st.value, ast.Constant):
            continue
        if isinstance(st, ast.ImportFrom):
            src = resolve_from(modname, is_pkg, st.level, st.module or "")
            if not (src == "richchk" or src.startswith("richchk.")):
                for a in st.names:
                    events.append(("def", a.asname or a.name))
                continue
            if src not in mods:
                err(f"{modname}: import from unknown module {src}", st)
            plain = []
            for a in st.names:
                sub = f"{src}.{a.name}"
                if sub in mods:
                    events.append(("import", sub, []))
                else:
                    plain.append(a.name)
                events.append(("def", a.asname or a.name))
            if plain:
                events.insert(len(events) - len(st.names), ("import", src, plain))
            continue
        if isinstance(st, ast.Import):
            for a in st.names:
                if a.name == "richchk" or a.name.startswith("richchk."):
                    if a.name not in mods:
                        err(f"{modname}: import of unknown module {a.name}", st)
                    events.append(("import", a.name, []))
                events.append(("def", (a.asname or a.name).split(".")[0]))
            continue
        if isinstance(st, ast.ClassDef):
            regs = [b.id for b in st.bases if isinstance(b, ast.Name) and b.id in REGISTRABLE]
            if regs:
                if len(regs) != 1:
                    err("class with two registrable bases", st)
                reg, factory, fmod, kwname = REGISTRABLE[regs[0]]
                kws = [k for k in st.keywords if k.arg == kwname]
                if len(kws) != 1:
                    err(f"registrable class without `{kwname}=`", st)
                try:
                    keyv = eval(compile(ast.Expression(kws[0].value), "<key>", "eval"), dict(vars(live)))
                except Exception as ex:  # noqa
                    err(f"cannot evaluate registry key: {ex}", st)
                events.append(("register", reg, key_number(keyv), st.name))
            events.append(("def", st.name))
            continue
        if isinstance(st, (ast.FunctionDef, ast.AsyncFunctionDef)):
            events.append(("def", st.name))
            continue
        if isinstance(st, (ast.Assign, ast.AnnAssign)):
            tg = st.targets if isinstance(st, ast.Assign) else [st.target]
            for t in tg:
                for n in ast.walk(t):
                    if isinstance(n, ast.Name):
                        events.append(("def", n.id))
                        v = st.value
                        if isinstance(v, ast.Constant) and isinstance(v.value, str):
                            consts[n.id] = v.value
            continue
        if isinstance(st, ast.If) and ast.unparse(st.test) in ("TYPE_CHECKING", "typing.TYPE_CHECKING"):
            continue
        if (isinstance(st, ast.Expr) and isinstance(st.value, ast.Call)
                and ast.unparse(st.value.func) == "import_all_modules_in_subpackage" and len(st.value.args) == 2):
            vals = []
            for a in st.value.args:
                if isinstance(a, ast.Constant) and isinstance(a.value, str):
                    vals.append(a.value)
                elif isinstance(a, ast.Name) and a.id in consts:
                    vals.append(consts[a.id])
                else:
                    err("import_all_modules_in_subpackage argument is not a string constant", st)
            pkgname = "richchk" + vals[0] + "." + vals[1] if vals[0].startswith(".") else vals[0] + "." + vals[1]
            if pkgname not in mods or not mods[pkgname][1]:
                err(f"{pkgname} is not a package", st)
            pdir = mods[pkgname][0].parent
            listing = sorted(name for _, name, _ in pkgutil.iter_modules([str(pdir)]))
            events.append(("import", pkgname, []))
            events.append(("importall", [f"{pkgname}.{n}" for n in listing]))
            continue
        err(f"{modname}: module-level statement outside the accepted subset", st)
    return events


def expected_keys():
    """what each registry must hold, from the model classes alone"""
    import richchk.model as M
    for m in pkgutil.walk_packages(M.__path__, M.__name__ + "."):
        importlib.import_module(m.name)
    from richchk.model.chk.decoded_chk_section import DecodedChkSection
    from richchk.model.chk_section_name import ChkSectionName
    from richchk.model.richchk.rich_chk_section import RichChkSection
    from richchk.model.richchk.trig.rich_trigger_action import RichTriggerAction
    from richchk.model.richchk.trig.rich_trigger_condition import RichTriggerCondition
    from richchk.model.richchk.trig.trigger_condition_id import TriggerConditionId

    def subs(c):
        for s in c.__subclasses__():
            yield s
            yield from subs(s)

    def concrete(c):
        return not inspect.isabstract(c) and not c.__name__.startswith("_")
    out = {
        0: sorted({key_number(c.section_name()) for c in subs(DecodedChkSection)
                   if concrete(c) and c.section_name() is not ChkSectionName.UNKNOWN}),
        1: sorted({key_number(c.section_name()) for c in subs(RichChkSection) if concrete(c)}),
        2: sorted({c.action_id().id for c in subs(RichTriggerAction) if concrete(c)}),
        # NO_CONDITION is the padding placeholder the trigger transcoder drops / generates itself
        3: sorted({c.condition_id().id for c in subs(RichTriggerCondition)
                   if concrete(c) and c.condition_id() is not TriggerConditionId.NO_CONDITION}),
    }
    return out


def tables():
    mods = all_modules()
    check_registrable_bases(mods)
    names = sorted(mods)
    mid = {n: i for i, n in enumerate(names)}
    name_ids: dict[str, int] = {}

    def nid(s):
        return name_ids.setdefault(s, len(name_ids))
    rows = []
    for n in names:
        path, is_pkg = mods[n]
        evs = module_events(n, path, is_pkg, mods)
        parents = [".".join(n.split(".")[:k]) for k in range(1, len(n.split(".")))]
        rows.append((n, [mid[p] for p in parents], evs))
    return names, mid, nid, rows, {f[2]: f[0] for f in REGISTRABLE.values()}


def generate() -> dict[str, str]:
    names, mid, nid, rows, factory_modules = tables()
    exp = expected_keys()
    txt = GEN_HEADER.format(tool="translate_imports.py")
    txt += ("From Coq Require Import NArith List.\nFrom RC Require Import model.Imports.\nImport ListNotations.\n"
            "Local Open Scope N_scope.\n\n")
    mod_rows = []
    js = {}
    for n, parents, evs in rows:
        ce = []
        for e in evs:
            if e[0] == "import":
                ce.append(f"EImport {coq_N(mid[e[1]])} {coq_list(coq_N(nid(x)) for x in e[2])}")
            elif e[0] == "def":
                ce.append(f"EDef {coq_N(nid(e[1]))}")
            elif e[0] == "register":
                ce.append(f"ERegister {coq_N(e[1])} {coq_N(e[2])} {coq_N(nid(e[3]))}")
            elif e[0] == "importall":
                ce.append(f"EImportAll {coq_list(coq_N(mid[x]) for x in e[1])}")
        mod_rows.append(f"(* {mid[n]} {n} *) ({coq_list(coq_N(p) for p in parents)}, {coq_list(ce)})")
        js[n] = {"id": mid[n], "events": evs}
    txt += "Definition gen_modules : list (list N * list event) :=\n  [" + ";\n   ".join(mod_rows) + "].\n\n"
    txt += "Definition gen_factory_modules : list (N * N) :=   (* registry, module that defines its factory *)\n  " + coq_list(
        f"({coq_N(r)}, {coq_N(mid[m])})" for m, r in sorted(factory_modules.items(), key=lambda x: x[1])) + ".\n\n"
    txt += "Definition gen_expected_keys : list (N * list N) :=\n  " + coq_list(
        f"({coq_N(r)}, {coq_list(coq_N(k) for k in ks)})" for r, ks in sorted(exp.items())) + ".\n"
    BUILD.mkdir(exist_ok=True)
    (BUILD / "imports.json").write_text(json.dumps({"modules": js, "expected": exp, "names": names,
                                                    "factory_modules": factory_modules}))
    return {"gen/GenImports.v": txt}


if __name__ == "__main__":
    t = generate()["gen/GenImports.v"]
    print(len(t), t[:1500])
