"""Translator: every RichChkEnum subclass (live members, in iteration order) and KnownAiScript
-> coq/gen/GenEnums.v as tables [(id, member name)].  Fail-closed on non-integer / negative ids."""
from __future__ import annotations

import importlib
import pkgutil
import re

from vlib import GEN_HEADER, TranslatorError, coq_list, coq_N, coq_string

OUTPUTS = ["gen/GenEnums.v"]


def enums():
    import richchk.model.richchk as mr
    from richchk.model.richchk.richchk_enum import RichChkEnum

    for m in pkgutil.walk_packages(mr.__path__, mr.__name__ + "."):
        importlib.import_module(m.name)

    def subs(c):
        for s in c.__subclasses__():
            yield s
            yield from subs(s)

    out = {}
    for s in sorted(set(subs(RichChkEnum)), key=lambda c: c.__name__):
        rows = []
        for member in s:  # iteration order = the order RichChkEnumTranscoder fills its map
            i = member.id
            if not isinstance(i, int) or isinstance(i, bool) or i < 0:
                raise TranslatorError(f"{s.__name__}.{member._name_}: id {i!r} is not a natural number")
            rows.append((i, member._name_))
        if s.__name__ in out:
            raise TranslatorError(f"two enums named {s.__name__}")
        out[s.__name__] = (s, rows)
    return out


def ai_scripts():
    from richchk.model.richchk.trig.enums.ai_script import KnownAiScript
    rows = []
    for member in KnownAiScript:
        nm = member.value.name
        if not isinstance(nm, str):
            raise TranslatorError("AI script name is not a string")
        rows.append((nm, member._name_))
    return rows


def generate() -> dict[str, str]:
    es = enums()
    txt = GEN_HEADER.format(tool="translate_enums.py")
    txt += ("From Coq Require Import NArith List String.\nImport ListNotations.\n"
            "Local Open Scope string_scope.\n\n")
    for name, (_, rows) in es.items():
        txt += f"Definition enum_{name} : list (N * string) :=\n  " + coq_list(
            f"({coq_N(i)}, {coq_string(n)})" for i, n in rows) + ".\n\n"
    txt += "Definition all_enums : list (string * list (N * string)) :=\n  " + coq_list(
        f"({coq_string(n)}, enum_{n})" for n in es) + ".\n\n"
    ai = ai_scripts()
    txt += "(* KnownAiScript: (code points of the 4-character tag, member name) *)\n"
    txt += "Definition known_ai_scripts : list (list N * string) :=\n  " + coq_list(
        "(" + coq_list(coq_N(ord(c)) for c in nm) + f", {coq_string(mem)})" for nm, mem in ai) + ".\n"
    return {"gen/GenEnums.v": txt}


if __name__ == "__main__":
    print(generate()["gen/GenEnums.v"][:3000])
