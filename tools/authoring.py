"""Authored scenarios: JSON-able specs of new objects and edit operations, applied (a) to the real library and
(b) serialised for the extracted pipeline model; plus the generator of scenarios and what an independent reader
must find in the saved bytes for each authored entry."""
from __future__ import annotations

import dataclasses
import importlib
import random
import struct
import typing
from decimal import Decimal

import richcorr as RC
import scenarios as SC
import vlib
from vlib import T


# ---- spec -> s-expression for the model ---------------------------------------------------------------------------

def _opt(x):
    return "()" if x is None else f"({x})"


def _rstr(x):
    return "()" if x is None else f"({T(x)})"


def _bools(bs):
    return "(" + " ".join("1" if b else "0" for b in bs) + ")"


def val_tree(v):
    tag = v[0]
    if tag in (0, 1, 2, 3, 6, 7, 8, 9):
        return f"({tag} {v[1]})"
    if tag in (4, 10, 12):
        return f"({tag} {T(v[1])})"
    return f"({tag})"


def entry_tree(e):
    if e[0] == "raw":
        return "(1 (" + " ".join(str(x) for x in e[1]) + "))"
    _, key, args, flags = e
    return f"(0 {key} (" + " ".join(f"({T(n)} {val_tree(v)})" for n, v in args) + f") {_bools(flags)})"


def trigger_tree(t):
    return ("((" + " ".join(entry_tree(e) for e in t["conds"]) + ") (" + " ".join(entry_tree(e) for e in t["acts"])
            + ") (" + " ".join(str(p) for p in t["players"]) + "))")


def unit_tree(u):
    return (f"({u['id']} {u['hp']} {u['sh']} {u['ar']} {u['bt']} {u['mi']} {u['ga']} {_rstr(u['name'])} ("
            + " ".join(f"({w[0]} {w[1]} {w[2]})" for w in u["weapons"]) + f") {int(u['default'])})")


def op_tree(o):
    if o[0] == "add_triggers":
        return "(1 (" + " ".join(trigger_tree(t) for t in o[1]) + "))"
    if o[0] == "save_reload":
        return "(2)"
    if o[0] == "upsert_units":
        return f"(3 {T(o[1])} (" + " ".join(unit_tree(u) for u in o[2]) + "))"
    raise ValueError(o[0])


def scenario_tree(base: bytes, spec) -> str:
    p = spec["pool"]
    locs = "(" + " ".join(f"({l[0]} {l[1]} {l[2]} {l[3]} {_rstr(l[4])} {_opt(l[5])} {_bools(l[6])})" for l in p["locs"]) + ")"
    cuwps = "(" + " ".join(f"({c[0]} {c[1]} {c[2]} {c[3]} {c[4]} {_bools(c[5])} {_bools(c[6])} {_bools(c[7])} {int(c[8])} {c[9]} {_opt(c[10])})"
                           for c in p["cuwps"]) + ")"
    sws = "(" + " ".join(f"({_rstr(s[0])} {_opt(s[1])})" for s in p["switches"]) + ")"
    ops = "(" + " ".join(op_tree(o) for o in spec["ops"]) + ")"
    if spec.get("wav_meta") is not None:
        wm = "(" + " ".join(f"({T(pth)} {d})" for pth, d in spec["wav_meta"]) + ")"
        return f"(4 {T(base)} ({locs} {cuwps} {sws}) {ops} {wm})"
    return f"(3 {T(base)} ({locs} {cuwps} {sws}) {ops})"


# ---- spec -> real objects --------------------------------------------------------------------------------------------

class Builder:
    def __init__(self, spec):
        from richchk.model.richchk.mrgn.rich_location import RichLocation
        from richchk.model.richchk.str.rich_string import RichNullString, RichString
        from richchk.model.richchk.swnm.rich_switch import RichSwitch
        from richchk.model.richchk.uprp.flags.valid_special_property_flags import ValidSpecialPropertyFlags
        from richchk.model.richchk.uprp.flags.valid_unit_property_flags import ValidUnitPropertyFlags
        from richchk.model.richchk.uprp.rich_cuwp_slot import RichCuwpSlot, _RichCuwpSlotFlagsData
        self.RS, self.RNS, self.RichSwitch = RichString, RichNullString, RichSwitch
        rs = lambda x: RichNullString() if x is None else RichString(x)  # noqa
        p = spec["pool"]
        self.locs = [RichLocation(l[0], l[1], l[2], l[3], rs(l[4]), l[5], *l[6]) for l in p["locs"]]
        self.cuwps = [RichCuwpSlot(c[0], c[1], c[2], c[3], c[4], *c[5],
                                   _flags_data=_RichCuwpSlotFlagsData(ValidSpecialPropertyFlags(*c[6]),
                                                                      ValidUnitPropertyFlags(*c[7]), c[8], c[9]),
                                   _index=c[10]) for c in p["cuwps"]]
        self.switches = [RichSwitch(_custom_name=rs(s[0]), _index=s[1]) for s in p["switches"]]
        self.tables = None

    def models(self):
        if self.tables is None:
            import c05
            acts, conds = c05.registries()
            import json
            t = json.loads((vlib.BUILD / "trig_tables.json").read_text())
            self.tables = {}
            for kind, reg, rows in (("a", acts, t["actions"]), ("c", conds, t["conditions"])):
                for r in rows:
                    tcls = reg[r["key"]]
                    mcls = getattr(importlib.import_module(tcls.__module__), r["model"])
                    self.tables[(kind, r["key"])] = (mcls, typing.get_type_hints(mcls))
        return self.tables

    def existing(self, rich, cls):
        for s in rich.chk_sections:
            if isinstance(s, cls):
                return s
        return None

    def value(self, rich, tp, v):
        from richchk.model.richchk.mrgn.rich_mrgn_section import RichMrgnSection
        from richchk.model.richchk.richchk_enum import RichChkEnum
        from richchk.model.richchk.swnm.rich_swnm_section import RichSwnmSection
        from richchk.model.richchk.trig.enums.ai_script import UnknownAiScript
        from richchk.model.richchk.uprp.rich_uprp_section import RichUprpSection
        tag = v[0]
        if tag == 0:
            return v[1]
        if tag == 1:
            if typing.get_origin(tp) is typing.Union:
                tp = [a for a in typing.get_args(tp) if a is not type(None)][0]
            return next(m for m in tp if m.id == v[1])
        if tag == 2:
            return self.locs[v[1]]
        if tag == 3:
            return next(l for l in self.existing(rich, RichMrgnSection).locations if l.index == v[1])
        if tag == 4:
            return self.RS(v[1])
        if tag == 5:
            return self.RNS()
        if tag == 6:
            return self.cuwps[v[1]]
        if tag == 7:
            return next(c for c in self.existing(rich, RichUprpSection).cuwp_slots if c.index == v[1])
        if tag == 8:
            return self.switches[v[1]]
        if tag == 9:
            sec = self.existing(rich, RichSwnmSection)
            found = [s for s in (sec.switches if sec else []) if s.index == v[1]]
            return found[0] if found else self.RichSwitch(_custom_name=self.RNS(), _index=v[1])
        if tag == 10:
            return UnknownAiScript(_name=v[1], _description="authored")
        if tag == 11:
            return None
        if tag == 12:
            return v[1]
        raise ValueError(tag)

    def entry(self, rich, kind, e):
        from richchk.model.chk.trig.decoded_trigger_action import DecodedTriggerAction
        from richchk.model.chk.trig.decoded_trigger_condition import DecodedTriggerCondition
        from richchk.model.richchk.trig.actions.flags.trigger_action_flags import TriggerActionFlags
        from richchk.model.richchk.trig.conditions.flags.trigger_condition_flags import TriggerConditionFlags
        if e[0] == "raw":
            fields = SC.ACTION_FIELDS if kind == "a" else SC.COND_FIELDS
            return (DecodedTriggerAction if kind == "a" else DecodedTriggerCondition)(**dict(zip(fields, e[1])))
        _, key, args, flags = e
        mcls, hints = self.models()[(kind, key)]
        kw = {n: self.value(rich, hints[n], v) for n, v in args}
        kw["_flags"] = (TriggerActionFlags if kind == "a" else TriggerConditionFlags)(*flags)
        return mcls(**kw)

    def trigger(self, rich, t):
        from richchk.model.richchk.trig.player_id import PlayerId
        from richchk.model.richchk.trig.rich_trigger import RichTrigger
        return RichTrigger(_conditions=[self.entry(rich, "c", e) for e in t["conds"]],
                           _actions=[self.entry(rich, "a", e) for e in t["acts"]],
                           _players={p for p in PlayerId if p.id in t["players"]})

    def unit(self, u):
        from richchk.model.richchk.unis.unit_id import UnitId
        from richchk.model.richchk.unis.unit_setting import UnitSetting
        from richchk.model.richchk.unis.weapon_id import WeaponId
        from richchk.model.richchk.unis.weapon_setting import WeaponSetting
        return UnitSetting(
            _unit_id=next(x for x in UnitId if x.id == u["id"]), _hitpoints=Decimal(u["hp"]) / Decimal(256),
            _shieldpoints=u["sh"], _armorpoints=u["ar"], _build_time=u["bt"], _mineral_cost=u["mi"], _gas_cost=u["ga"],
            _custom_unit_name=self.RNS() if u["name"] is None else self.RS(u["name"]),
            _weapons=[WeaponSetting(_weapon_id=next(x for x in WeaponId if x.id == w[0]), _base_damage=w[1],
                                    _upgrade_damage=w[2]) for w in u["weapons"]],
            _use_default_unit_settings=u["default"])

    def apply(self, rich, op):
        from richchk.editor.richchk.rich_chk_editor import RichChkEditor
        from richchk.editor.richchk.rich_trig_editor import RichTrigEditor
        from richchk.editor.richchk.rich_unis_editor import RichUnisEditor
        from richchk.editor.richchk.rich_unix_editor import RichUnixEditor
        from richchk.model.richchk.trig.rich_trig_section import RichTrigSection
        from richchk.model.richchk.unis.rich_unis_section import RichUnisSection
        from richchk.model.richchk.unix.rich_unix_section import RichUnixSection
        if op[0] == "add_triggers":
            trig = self.existing(rich, RichTrigSection)
            if trig is None:
                raise ValueError("no TRIG")
            new = RichTrigEditor.add_triggers([self.trigger(rich, t) for t in op[1]], trig)
            return RichChkEditor().replace_chk_section(new, rich)
        if op[0] == "save_reload":
            return SC.load(SC.save(rich))
        if op[0] == "put_in_sections":
            # implementation-only (no model counterpart): the caller builds rich sections by hand, holding pool
            # objects exactly as they are (whatever index they carry), and swaps them in
            from richchk.model.richchk.mrgn.rich_mrgn_section import RichMrgnSection
            from richchk.model.richchk.swnm.rich_swnm_section import RichSwnmSection
            from richchk.model.richchk.uprp.rich_uprp_section import RichUprpSection
            want = op[1]
            for cls, key, mk in ((RichMrgnSection, "locs", lambda sec, objs: RichMrgnSection(_locations=list(sec.locations) + objs)),
                                 (RichUprpSection, "cuwps", lambda sec, objs: RichUprpSection(_cuwp_slots=list(sec.cuwp_slots) + objs)),
                                 (RichSwnmSection, "switches", lambda sec, objs: RichSwnmSection(_switches=list(sec.switches) + objs))):
                if want.get(key):
                    sec = self.existing(rich, cls)
                    if sec is None:
                        raise ValueError("no section for " + key)
                    objs = [getattr(self, key)[i] for i in want[key]]
                    rich = RichChkEditor().replace_chk_section(mk(sec, objs), rich)
            return rich
        if op[0] == "upsert_units":
            cls, ed = (RichUnisSection, RichUnisEditor) if op[1] == "UNIS" else (RichUnixSection, RichUnixEditor)
            sec = self.existing(rich, cls)
            if sec is None:
                raise ValueError("no " + op[1])
            new = ed().upsert_all_unit_settings([self.unit(u) for u in op[2]], sec)
            return RichChkEditor().replace_chk_section(new, rich)
        raise ValueError(op[0])


def run_impl(base: bytes, spec):
    """[1, bytes] | [0, error code]; the library's sets iterate in first-occurrence order"""
    def f():
        with RC.forced_orders():
            b = Builder(spec)
            rich = SC.load(base)
            for op in spec["ops"]:
                rich = b.apply(rich, op)
            return list(SC.save(rich, spec.get("wav_meta")))
    return vlib.impl_result(f)


def run_impl_with_base(base: bytes, spec):
    """like run_impl, and afterwards the object the scenario STARTED from is saved again: (result, resave result)"""
    kept = {}

    def f():
        with RC.forced_orders():
            b = Builder(spec)
            rich0 = SC.load(base)
            kept["rich0"] = rich0
            rich = rich0
            for op in spec["ops"]:
                rich = b.apply(rich, op)
            return list(SC.save(rich, spec.get("wav_meta")))
    r = vlib.impl_result(f)

    def g():
        with RC.forced_orders():
            return list(SC.save(kept["rich0"]))
    return r, (vlib.impl_result(g) if "rich0" in kept else [0, 97])


# ---- generator ---------------------------------------------------------------------------------------------------------

def base_inventory(base: bytes):
    v = SC.SpecView(base)
    locs = [i + 1 for i, l in enumerate(v.locs) if any(l.values())]
    cuwps = [i + 1 for i, c in enumerate(v.cuwps or []) if any(c.values())]
    n = int.from_bytes(v.str_payload[:2], "little")
    texts = [t for t in (v.text(i) for i in range(1, n + 1)) if t]
    wavs = []
    if b"WAV " in v.by_name and len(v.by_name[b"WAV "][-1]) == 2048:
        w = v.by_name[b"WAV "][-1]
        wavs = [v.text(int.from_bytes(w[4 * k:4 * k + 4], "little")) for k in range(512)]
        wavs = [x for x in wavs if x]
    switch_names = [v.switch(k)[1] for k in range(256)] if v.swnm else []
    return {"locs": locs, "cuwps": cuwps, "cuwp_raw": {i: v.cuwps[i - 1] for i in cuwps},
            "switch_names": [x for x in switch_names if x],
            "named_switch_ids": [k for k, x in enumerate(switch_names) if x],
            "texts": texts, "wavs": wavs, "has_unis": b"UNIS" in v.by_name,
            "has_unix": b"UNIx" in v.by_name, "nloc": len(v.locs)}


def gen_scenario(rng: random.Random, base: bytes, kind="mixed"):
    inv = base_inventory(base)
    spec = SC.spec_tables()
    enums = SC._enum_ids()
    nl, nc, ns = rng.choice([0, 1, 2, 4]), rng.choice([0, 1, 2]), rng.choice([0, 1, 3, 8])
    used = set(inv["locs"])
    free = [i for i in range(1, inv["nloc"] + 1) if i not in used and i != 64]
    pool = {"locs": [], "cuwps": [], "switches": []}
    twin_index = None
    for k in range(nl):
        carry = rng.choice(free) if (free and rng.random() < 0.15) else None
        if carry:
            free.remove(carry)
        pool["locs"].append([rng.randrange(4096), rng.randrange(4096), rng.randrange(4096), rng.randrange(4096),
                             (f"authored loc {k} " + "".join(chr(rng.randrange(65, 91)) for _ in range(3))) if rng.random() < 0.7 else None,
                             carry, [rng.random() < 0.8 for _ in range(6)]])
    for k in range(nc):
        pool["cuwps"].append([rng.randrange(1, 101), rng.randrange(101), rng.randrange(101), rng.choice([0, 5000]),
                              rng.randrange(9), [rng.random() < 0.3 for _ in range(5)],
                              [True] * 5 + [False], [True] * 6 + [False], False, 0, None])
    # twins of slots the map already has: identical (must reuse the slot) or differing in exactly one field
    # (must NOT be taken for the existing slot)
    if inv["cuwp_raw"] and rng.random() < 0.5:
        raw = inv["cuwp_raw"][rng.choice(sorted(inv["cuwp_raw"]))]
        bits = lambda x, n: [bool((x >> i) & 1) for i in range(n)]  # noqa
        tw = [raw["_hitpoints_percentage"], raw["_shieldpoints_percentage"], raw["_energypoints_percentage"],
              raw["_resource_amount"], raw["_units_in_hangar"], bits(raw["_flags"], 5),
              bits(raw["_valid_special_properties_flags"], 6), bits(raw["_valid_unit_properties_flags"], 7),
              bool((raw["_flags"] >> 5) & 1), raw["_padding"], None]
        which = rng.choice(["same", "hp", "sh", "en", "res", "hangar", "flag", "vs", "vu"])
        if which in ("hp", "sh", "en"):
            i = ["hp", "sh", "en"].index(which)
            tw[i] = tw[i] + 1 if tw[i] < 100 else tw[i] - 1
        elif which == "res":
            tw[3] += 1
        elif which == "hangar":
            tw[4] = (tw[4] + 1) % 100
        elif which == "flag":
            tw[5][rng.randrange(5)] ^= True
        elif which == "vs":
            tw[6][rng.randrange(5)] ^= True
        elif which == "vu":
            tw[7][rng.randrange(6)] ^= True
        if tw[0] >= 1 and raw["_padding"] == 0 and raw["_valid_special_properties_flags"] < 64 and raw["_valid_unit_properties_flags"] < 128:
            pool["cuwps"].append(tw)
            twin_index = len(pool["cuwps"]) - 1
    for k in range(ns):
        if inv.get("named_switch_ids") and rng.random() < 0.25:
            # referred to BY NUMBER only (no name), the number being that of a switch the map has a name for
            pool["switches"].append([None, rng.choice(inv["named_switch_ids"])])
            continue
        if inv.get("switch_names") and rng.random() < 0.3:
            # referred to BY NAME only, with the exact name of a switch the map already has (used by a trigger or not)
            pool["switches"].append([rng.choice(inv["switch_names"]), None])
            continue
        pool["switches"].append([f"authored switch {k}" if rng.random() < 0.8 else None, None])
    # a switch without name and index is fine too (identity), keep at most one such
    def arg(codec, enum, field, widths):
        hi = 2 ** (8 * widths[field])
        if codec == "raw":
            return [0, rng.choice([0, 1, hi - 1, rng.randrange(hi)])]
        if codec == "enum":
            return [1, rng.choice([i for i in enums[enum] if i < hi])]
        if codec in ("loc", "locthrow"):
            if pool["locs"] and (rng.random() < 0.6 or not inv["locs"]):
                return [2, rng.randrange(len(pool["locs"]))]
            return [3, rng.choice(inv["locs"])] if inv["locs"] else None
        if codec == "str":
            m = rng.random()
            if m < 0.1:
                return [5]
            if m < 0.3 and inv["texts"]:
                return [4, rng.choice(inv["texts"])]
            return [4, rng.choice(["authored text", "authored text 2", "x", "".join(chr(rng.randrange(33, 127)) for _ in range(rng.choice([1, 9, 40])))])]
        if codec == "strvalue":
            return [12, rng.choice(inv["wavs"])] if inv["wavs"] else None
        if codec == "cuwp":
            if pool["cuwps"] and (rng.random() < 0.7 or not inv["cuwps"]):
                return [6, rng.randrange(len(pool["cuwps"]))]
            return [7, rng.choice(inv["cuwps"])] if inv["cuwps"] else None
        if codec == "switch":
            if pool["switches"] and rng.random() < 0.6:
                return [8, rng.randrange(len(pool["switches"]))]
            return [9, rng.randrange(256)]
        if codec == "aiscript":
            return [10, rng.choice(["JYDg", "EnBk", "+Vi0", "Zz9_", "Ab12"])]
        raise ValueError(codec)

    def entry(kind_):
        table, widths = (spec["actions"], SC.ACTION_W) if kind_ == "a" else (spec["conditions"], SC.COND_W)
        m = rng.random()
        if m < 0.08:
            fields = SC.ACTION_FIELDS if kind_ == "a" else SC.COND_FIELDS
            idf = "_action_id" if kind_ == "a" else "_condition_id"
            vals = [rng.randrange(2 ** (8 * widths[f])) for f in fields]
            vals[fields.index(idf)] = rng.choice(SC.UNSUPPORTED_ACTIONS + [77, 200]) if kind_ == "a" else rng.choice([13, 99])
            return ["raw", vals]
        for _ in range(20):
            key = rng.choice(sorted(table))
            args = []
            ok = True
            for a, c, e, f in table[key]["args"]:
                v = arg(c, e, f, widths)
                if a == "_duration_ms":
                    # Play WAV: no duration (taken from the WAV metadata at save time) or an explicit one, incl. 0 and
                    # values shorter / longer than the file
                    v = [11] if rng.random() < 0.35 else [0, rng.choice([0, 1, 1200, 2500, 2 ** 32 - 1])]
                if v is None:
                    ok = False
                    break
                args.append([a, v])
            if ok:
                nf = 5
                return ["rich", key, args, [rng.random() < 0.2 for _ in range(nf)]]
        return ["rich", 1 if kind_ == "a" else 22, [], [False] * 5]

    def trigger():
        return {"conds": [entry("c") for _ in range(rng.choice([0, 1, 2, 4]))],
                "acts": [entry("a") for _ in range(rng.choice([1, 2, 5, 12]))],
                "players": sorted(rng.sample(range(27), k=rng.choice([0, 1, 3])))}
    ops = []
    for _ in range(rng.choice([1, 1, 2, 3])):
        m = rng.random()
        if m < 0.65:
            ops.append(["add_triggers", [trigger() for _ in range(rng.choice([1, 2, 4]))]])
        elif m < 0.8 and (inv["has_unis"] or inv["has_unix"]):
            name = "UNIS" if (inv["has_unis"] and (not inv["has_unix"] or rng.random() < 0.5)) else "UNIx"
            nw = 100 if name == "UNIS" else 130
            units = []
            for _u in range(rng.choice([1, 2, 5])):
                uid = rng.randrange(228)
                ws = [w for w in SC_unit_weapons().get(uid, []) if w < nw]
                units.append({"id": uid, "hp": rng.choice([256, 256 * rng.randrange(1, 10000), rng.randrange(2 ** 32)]),
                              "sh": rng.randrange(65536), "ar": rng.randrange(256), "bt": rng.randrange(65536),
                              "mi": rng.randrange(65536), "ga": rng.randrange(65536),
                              "name": rng.choice([None, "authored unit name", "x"]),
                              "weapons": [[w, rng.randrange(65536), rng.randrange(65536)] for w in ws],
                              "default": rng.random() < 0.2})
            ops.append(["upsert_units", name, units])
        else:
            ops.append(["save_reload"])
    if ns >= 3 and rng.random() < 0.7:
        # every authored switch is used by an authored action, so each needs a slot
        ops.insert(rng.randrange(len(ops) + 1), ["add_triggers", [{"conds": [], "players": [0], "acts": [
            ["rich", 13, [["_switch", [8, i]], ["_switch_action", [1, 4]]], [False] * 5] for i in range(len(pool["switches"]))]}]])
    if twin_index is not None:
        # the twin is referred to by an authored action (otherwise it would never reach the file)
        if not pool["locs"]:
            pool["locs"].append([1, 1, 2, 2, None, None, [True] * 6])
        ops.insert(rng.randrange(len(ops) + 1), ["add_triggers", [{"conds": [], "players": [0], "acts": [
            ["rich", 11, [["_group", [1, 0]], ["_amount", [0, 1]], ["_unit", [1, 0]], ["_location", [2, 0]],
                          ["_properties", [6, twin_index]]], [False] * 5]]}]])
    out = {"pool": pool, "ops": ops}
    if inv["wavs"] and rng.random() < 0.6:
        # the save is given WAV metadata (as StarCraftMpqIo.save_chk_to_mpq does): durations of most of the map's sounds
        out["wav_meta"] = [[w, 2000 + 37 * i] for i, w in enumerate(sorted(set(inv["wavs"]))) if rng.random() < 0.85]
        # ... and some authored Play WAV action relies on it (no explicit duration) while another overrides it
        pw = next((k for k in sorted(spec["actions"]) if any(a == "_duration_ms" for a, _, _, _ in spec["actions"][k]["args"])), None)
        if pw is not None and out["wav_meta"]:
            acts = []
            for dur in ([11], [0, 0], [0, 1200], [0, 2 ** 32 - 1]):
                w = rng.choice(out["wav_meta"])[0]
                args = []
                for a, c, e, f in spec["actions"][pw]["args"]:
                    args.append([a, dur if a == "_duration_ms" else ([12, w] if c == "strvalue" else arg(c, e, f, SC.ACTION_W))])
                if all(v is not None for _, v in args):
                    acts.append(["rich", pw, args, [False] * 5])
            if acts:
                ops.insert(rng.randrange(len(ops) + 1), ["add_triggers", [{"conds": [], "players": [0], "acts": acts}]])
    return out


_UW = None


def SC_unit_weapons():
    global _UW
    if _UW is None:
        import translate_unitweapons
        _UW = translate_unitweapons.unit_weapons()
    return _UW
