"""C14 — saving is deterministic up to the numbering of new slots."""
from __future__ import annotations

import json
import os
import subprocess
import sys
from concurrent.futures import ThreadPoolExecutor
from pathlib import Path

import vlib

PROP = "C14"
WORKER = str(Path(__file__).resolve().parent / "c14_worker.py")
F18 = str(Path(__file__).resolve().parent / "c14_f18.py")


def one(seed, hashseed, pad, full=False, script=WORKER):
    env = dict(os.environ, PYTHONHASHSEED=str(hashseed))
    if full:
        env["C14_FULL"] = "1"
    p = subprocess.run(["/venv/bin/python", script, str(seed), str(pad)], env=env, stdout=subprocess.PIPE,
                       stderr=subprocess.DEVNULL, text=True, timeout=600)
    try:
        return json.loads(p.stdout.strip().splitlines()[-1])
    except Exception:
        return {"raised": "worker-failed", "rc": p.returncode}


def diff_canon(a, b, path=""):
    if type(a) != type(b):
        return f"{path}: {str(a)[:80]} vs {str(b)[:80]}"
    if isinstance(a, dict):
        for k in sorted(set(a) | set(b)):
            if k not in a or k not in b:
                return f"{path}.{k}: present on one side only"
            d = diff_canon(a[k], b[k], f"{path}.{k}")
            if d:
                return d
        return None
    if isinstance(a, list):
        if len(a) != len(b):
            return f"{path}: length {len(a)} vs {len(b)}"
        for i, (x, y) in enumerate(zip(a, b)):
            d = diff_canon(x, y, f"{path}[{i}]")
            if d:
                return d
        return None
    return None if a == b else f"{path}: {str(a)[:80]} vs {str(b)[:80]}"


def run(ck: vlib.Check):
    nscen, nseeds = (6, 6) if ck.tier == "quick" else (40, 24)
    ck.rule = ("authored scenarios (1..9 new locations, 0..4 new switches, 0..6 new unit-property sets shared among 1..6 "
               "new triggers, on the scx fixture and on synthetic bases), each saved in separate interpreters under "
               "different PYTHONHASHSEED values and allocation padding (index-less objects hash by address); the saved "
               "maps are compared in a canonical form in which only the slot numbers of newly placed objects are "
               "abstracted (references resolved to contents by an independent reader). Distinct = distinct "
               "(scenario, hash seed, padding); non-trivial = the raw bytes of at least two runs differ.")
    ck.regen(["consts"])
    with vlib.build_lock():
        built = ck.build(["proofs/C09_proofs.vo"])
        props_ok = built and ck.check_props("props/C14.v")
        sb = ck.build(["model/RunC05S.vo"])
        if sb:
            ok, out = vlib.build_driver("C05S")
            ck.oblige("extraction+driver:C05S (spec tables for the reader)", ok, out)
    base = ck.seed % 1000
    jobs = [(base + s, h, (h * 5 + s) % 23) for s in range(nscen) for h in range(nseeds)]
    with ThreadPoolExecutor(max_workers=vlib.NCPU) as ex:
        results = list(ex.map(lambda j: one(*j), jobs))
    by_scen = {}
    for j, r in zip(jobs, results):
        by_scen.setdefault(j[0], []).append((j, r))
        ck.note_case(json.dumps(j))
        ck.evaluations += 1
    raw_varies = 0
    for scen, runs in by_scen.items():
        kinds = {("raised", r.get("raised")) if "raised" in r else ("ok", r["canon_sha"]) for _, r in runs}
        if len({r.get("sha") for _, r in runs if "sha" in r}) > 1:
            raw_varies += 1
        if any(r.get("raised") == "worker-failed" for _, r in runs):
            ck.oblige(f"worker:{scen}", False, str(runs[0][1]))
            continue
        if len(kinds) > 1:
            (j1, r1) = runs[0]
            (j2, r2) = next((j, r) for j, r in runs if (("raised", r.get("raised")) if "raised" in r else ("ok", r["canon_sha"])) !=
                            (("raised", r1.get("raised")) if "raised" in r1 else ("ok", r1["canon_sha"])))
            f1, f2 = one(*j1, full=True), one(*j2, full=True)
            d = diff_canon(f1.get("canon"), f2.get("canon")) if "canon" in f1 and "canon" in f2 else f"{f1.get('raised')} vs {f2.get('raised')}"
            ck.violation(f"scenario {scen}: the saved map's meaning depends on hashing / memory layout: {d}",
                         {"kind": "order", "scenario": scen, "run_a": list(j1), "run_b": list(j2), "difference": d}, True)
    ck.extra["scenarios_whose_raw_bytes_vary"] = raw_varies
    ck.extra["scenarios"] = len(by_scen)
    ck.sample({"scenario": jobs[0][0], "hashseed": jobs[0][1], "result": {k: v for k, v in results[0].items() if k != "canon"}})
    ck.sample({"scenario": jobs[-1][0], "hashseed": jobs[-1][1], "result": {k: v for k, v in results[-1].items() if k != "canon"}})
    # known finding F18: replayed, never suppresses anything else
    findings, _ = vlib.load_known_findings(PROP)
    for f in findings:
        if f["key"] == "two-switches-one-index":
            outs = {json.dumps(one(0, h, h, script=F18), sort_keys=True) for h in range(8)}
            ck.extra["two_switches_one_index_witnesses"] = {"two authored names": sorted(outs)}
            if len(outs) > 1:
                ck.known(f"key={f['key']} {f['text']}")
    # (fixed in 8d40d98, checked whether or not anything is recorded) a bare-number reference to a switch the map names
    outs_bare = {json.dumps(one(1, h, h, script=F18), sort_keys=True) for h in range(12)}
    ck.evaluations += 12
    if len(outs_bare) > 1:
        ck.violation("a new trigger refers to an existing named switch by number only: the name the saved map gives that switch "
                     f"depends on PYTHONHASHSEED: {sorted(outs_bare)}",
                     {"kind": "bare-switch-reference", "outcomes": sorted(outs_bare)}, True)


def replay(path: str) -> int:
    rp = json.loads(Path(path).read_text())
    print("replaying:", rp.get("what"))
    if rp.get("kind") == "bare-switch-reference":
        outs_bare = {json.dumps(one(1, h, h, script=F18), sort_keys=True) for h in range(12)}
        print("still differs: " + str(sorted(outs_bare)) if len(outs_bare) > 1 else "no longer differs")
        return 1 if len(outs_bare) > 1 else 0
    if rp.get("kind") == "order":
        a, b = one(*rp["run_a"], full=True), one(*rp["run_b"], full=True)
        d = diff_canon(a.get("canon"), b.get("canon")) if "canon" in a and "canon" in b else (a.get("raised") != b.get("raised"))
        print("still differs: " + str(d) if d else "no longer differs")
        return 1 if d else 0
    print(json.dumps(rp, indent=1)[:3000])
    return 1
