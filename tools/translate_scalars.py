"""Translator: the two scalar codecs of C12 that are not tables of bits -
   UnitHitpointsTranscoder (Decimal fixed point) and AiScriptTranscoder (u32 <-> 4-character tag).

Both are small enough to be matched for their EXACT shape (tools/expected/unit_hitpoints.ast, ai_script.ast:
the ast dump of every method body, logging and docstrings removed); the numbers (conversion rate, divisor literal)
and the table of known tags are read from the source / the live enum.  -> coq/gen/GenScalars.v"""
from __future__ import annotations

import ast
import sys
from pathlib import Path

from vlib import GEN_HEADER, SRC, TranslatorError, coq_N, coq_list

HERE = Path(__file__).resolve().parent
OUTPUTS = ["gen/GenScalars.v"]
HELPERS = SRC / "richchk/transcoder/richchk/transcoders/helpers"
LOGGERS = {"_LOG", "log", "_log", "logger"}


def _strip(body):
    out = []
    for s in body:
        if isinstance(s, ast.Expr) and isinstance(s.value, ast.Constant):
            continue
        if isinstance(s, ast.Expr) and isinstance(s.value, ast.Call) and isinstance(s.value.func, ast.Attribute) \
                and isinstance(s.value.func.value, ast.Attribute) and s.value.func.value.attr in LOGGERS:
            continue       # cls._LOG.warning(...)
        if isinstance(s, ast.If):
            s = ast.If(test=s.test, body=_strip(s.body) or [ast.Pass()], orelse=_strip(s.orelse))
        out.append(s)
    return out


def class_dump(path: Path, cls: str) -> str:
    tree = ast.parse(path.read_text())
    c = next((n for n in tree.body if isinstance(n, ast.ClassDef) and n.name == cls), None)
    if c is None:
        raise TranslatorError(f"class {cls} not found in {path.name}")
    parts = []
    for n in c.body:
        if isinstance(n, ast.FunctionDef):
            parts.append(f"def {n.name}({', '.join(a.arg for a in n.args.args)}):\n" +
                         "\n".join(ast.dump(s) for s in _strip(n.body)))
        elif isinstance(n, (ast.Assign, ast.AnnAssign)):
            tgt = n.targets[0] if isinstance(n, ast.Assign) else n.target
            if isinstance(tgt, ast.Name) and tgt.id in LOGGERS:
                continue
            parts.append(ast.dump(n))
    return "\n#\n".join(parts)


def dumps():
    return {"unit_hitpoints.ast": class_dump(HELPERS / "unit_hitpoints_transcoder.py", "UnitHitpointsTranscoder"),
            "ai_script.ast": class_dump(HELPERS / "ai_script_transcoder.py", "AiScriptTranscoder")}


def generate():
    for name, got in dumps().items():
        exp = (HERE / "expected" / name).read_text()
        if got.strip() != exp.strip():
            raise TranslatorError(f"{name[:-4]} transcoder left the recognised shape (tools/expected/{name})")
    from richchk.model.richchk.trig.enums.ai_script import KnownAiScript
    from richchk.transcoder.chk.strings_common import _STRING_ENCODING
    from richchk.transcoder.richchk.transcoders.helpers.unit_hitpoints_transcoder import UnitHitpointsTranscoder as H
    if _STRING_ENCODING.lower().replace("-", "") != "utf8":
        raise TranslatorError(f"string encoding is {_STRING_ENCODING!r}, the model is UTF-8")
    rate = H._HITPOINTS_CONVERSION_RATE
    # the divisor literal of decode_hitpoints: Decimal(<int literal>) in the division
    tree = ast.parse((HELPERS / "unit_hitpoints_transcoder.py").read_text())
    divs = [n.right.args[0].value for n in ast.walk(tree)
            if isinstance(n, ast.BinOp) and isinstance(n.op, ast.Div) and isinstance(n.right, ast.Call)
            and n.right.args and isinstance(n.right.args[0], ast.Constant)]
    if len(divs) != 1 or not isinstance(rate, int) or not isinstance(divs[0], int):
        raise TranslatorError("hit point conversion constants not found")
    tags = []
    for m in KnownAiScript:
        b = m.value.name.encode("utf-8")
        if len(b) != 4:
            raise TranslatorError(f"known AI script tag {m.value.name!r} is not 4 bytes")
        tags.append(b)
    if len(set(tags)) != len(tags):
        raise TranslatorError("duplicate AI script tags")
    txt = GEN_HEADER.format(tool="translate_scalars.py") + "From Coq Require Import NArith List.\nImport ListNotations.\n\n"
    txt += f"Definition HP_RATE : N := {coq_N(rate)}.\nDefinition HP_DIVISOR : N := {coq_N(divs[0])}.\n"
    txt += "Definition gen_ai_tags : list (list N) :=\n  " + coq_list(coq_list(coq_N(x) for x in t) for t in tags) + ".\n"
    return {"gen/GenScalars.v": txt}


if __name__ == "__main__":
    if len(sys.argv) > 1 and sys.argv[1] == "--write-expected":
        for name, got in dumps().items():
            (HERE / "expected" / name).write_text(got + "\n")
        print("written")
    else:
        print(generate()["gen/GenScalars.v"])
