"""C08 — string table growth keeps every string ID valid."""
from __future__ import annotations

import json
import random
from pathlib import Path

import sections as S
import vlib
from vlib import T

PROP = "C08"


def classes(w):
    from richchk.editor.chk.decoded_str_section_editor import DecodedStrSectionEditor
    from richchk.editor.chk.decoded_strx_section_editor import DecodedStrxSectionEditor
    from richchk.model.chk.str.decoded_str_section import DecodedStrSection
    from richchk.model.chk.strx.decoded_strx_section import DecodedStrxSection
    from richchk.transcoder.chk.transcoders.chk_str_transcoder import ChkStrTranscoder
    from richchk.transcoder.chk.transcoders.chk_strx_transcoder import ChkStrxTranscoder
    if w == 2:
        return DecodedStrSection, ChkStrTranscoder(), lambda req, t: DecodedStrSectionEditor().add_strings_to_str_section(req, t)
    return DecodedStrxSection, ChkStrxTranscoder(), lambda req, t: DecodedStrxSectionEditor().add_strings_to_strx_section(req, t)


def mk(w, table):
    cls, _, _ = classes(w)
    n, offs, strs = table
    return cls(_number_of_strings=n, _string_offsets=list(offs), _strings=list(strs))


def tbl(sec):
    return (sec._number_of_strings, list(sec._string_offsets), list(sec._strings))


def tbl_tree(t):
    return [t[0], list(t[1]), [[ord(c) for c in s] for s in t[2]]]


def rand_text(rng, maxlen=12):
    ln = rng.choice([0, 1, 1, 2, 3, 5, maxlen])
    return "".join(chr(rng.randrange(1, 128)) for _ in range(ln))


def gen_table(rng: random.Random, w: int):
    """well-formed table: every offset in the data region (string start / interior / shared / on a NUL)"""
    shape = rng.random()
    if shape < 0.08:
        return (0, [], [])  # empty table
    n_phys = rng.choice([1, 1, 2, 3, 5, 9])
    strs = [rand_text(rng) for _ in range(n_phys)]
    if shape < 0.2:
        strs = [s for s in strs] + [strs[0]]  # duplicate physical text
    n_ids = rng.choice([0, 1, 2, 3, n_phys, n_phys + 3, 20]) if shape > 0.3 else n_phys
    base = w + w * n_ids
    starts, pos = [], 0
    for s in strs:
        starts.append(pos)
        pos += len(s) + 1
    total = pos
    offs = []
    referenced = rng.sample(range(len(strs)), k=max(1, len(strs) - rng.choice([0, 0, 1, 2]))) if strs else []
    for i in range(n_ids):
        m = rng.random()
        if shape <= 0.3 and i < len(strs):
            offs.append(base + starts[i])  # compact editor-like
        elif m < 0.55:
            offs.append(base + starts[rng.choice(referenced)])
        elif m < 0.85:
            offs.append(base + rng.randrange(total))  # interior or on a NUL
        else:
            offs.append(base + starts[0])  # shared
    if rng.random() < 0.3:
        rng.shuffle(offs)
    return (n_ids, offs, strs)


def gen_big_table(rng, w):
    """close to the u16 offset limit"""
    filler = "x" * 250
    k = rng.choice([258, 259, 260, 261])
    strs = [filler] * k
    n_ids = 3
    base = w + w * n_ids
    return (n_ids, [base, base + 251, base + 251 * (k - 1)], strs)


def patterned_table(w, target, n_ids=3):
    """a compact, sorted table whose SECOND string starts at offset `target`: offsets whose little-endian bytes look like
    text in some encoding (a UTF-8 lead byte followed by a continuation byte, two continuation bytes, a BOM, 0x0A0D ...)"""
    base = w + w * n_ids
    filler = "f" * (target - base - 1)
    return (n_ids, [base, target, target + 6], [filler, "hello", "tail"])


PATTERNED_OFFSETS = [0xA9C3, 0x80C2, 0xBFDF, 0x8081, 0xBBEF, 0x0A0D, 0x2020, 0xFEFF - 6, 0x80E2, 0x9FF0]


def gen_request(rng: random.Random, table):
    n, offs, strs = table
    req = []
    for _ in range(rng.choice([0, 1, 1, 2, 3, 6])):
        m = rng.random()
        if strs and m < 0.25:
            req.append(rng.choice(strs))  # present (maybe unreferenced)
        elif strs and m < 0.4:
            s = rng.choice(strs)
            req.append(s[rng.randrange(len(s) + 1):])  # suffix of present
        elif req and m < 0.55:
            req.append(rng.choice(req))  # duplicate in request
        elif m < 0.6:
            req.append("y" * rng.choice([300, 1000]))
        else:
            req.append(rand_text(rng))
    return req


def oracle(w, table, req):
    """the property on the implementation, judged on bytes by the independent resolver"""
    name = "STR " if w == 2 else "STRx"
    cls, tr, add = classes(w)
    t0 = mk(w, table)
    try:
        old_bin = tr.encode(t0, include_header=False)
    except Exception:
        return None  # not an encodable table: outside the quantifier
    old_view = [S.spec_resolve_string(name, old_bin, i + 1) for i in range(table[0])]
    if any(v is None for v in old_view):
        return None  # not well-formed
    try:
        t1 = add(req, t0)
    except Exception as ex:  # noqa
        return f"add raised {ex!r}"
    if tbl(t0) != table:
        return "the input table was mutated"
    try:
        new_bin = tr.encode(t1, include_header=False)
    except Exception as ex:  # noqa
        limit = 2 ** (8 * w)
        if any(o >= limit for o in t1._string_offsets) or t1._number_of_strings >= limit:
            return None  # beyond the format's offset limit: raising is the right answer
        return f"result does not encode: {ex!r}"
    n1 = t1._number_of_strings
    if n1 != len(t1._string_offsets):
        return "count differs from the number of offsets"
    for i, v in enumerate(old_view):
        if S.spec_resolve_string(name, new_bin, i + 1) != v:
            return f"id {i + 1} resolved to {v!r} before and {S.spec_resolve_string(name, new_bin, i + 1)!r} after"
    new_view = [S.spec_resolve_string(name, new_bin, i + 1) for i in range(n1)]
    if any(v is None for v in new_view):
        return "an id of the result does not resolve"
    texts = {v.decode("latin-1") for v in new_view}
    for s in req:
        if s not in texts:
            return f"requested string {s!r} has no id resolving to it"
    added = t1._strings[len(table[2]):]
    if t1._strings[:len(table[2])] != table[2]:
        return "existing string data changed"
    if len(set(added)) != len(added):
        return "a string was stored twice by one request"
    old_texts = {v.decode("latin-1") for v in old_view}
    for s in added:
        if s in old_texts:
            return f"{s!r} was already resolvable but was stored again"
        if s not in req:
            return f"{s!r} was stored but never requested"
    try:
        t2 = add(req, t1)
    except Exception as ex:  # noqa
        return f"second add raised {ex!r}"
    if tbl(t2) != tbl(t1):
        return "adding the same list twice changed the table the second time"
    try:
        back = tr.decode(new_bin)
    except Exception as ex:  # noqa
        return f"result does not decode: {ex!r}"
    if tbl(back) != tbl(t1):
        return "result is not what its bytes decode to"
    return None


def oracle_strx(table):
    from richchk.editor.chk.decoded_strx_section_generator import DecodedStrxSectionGenerator
    _, tr2, _ = classes(2)
    _, tr4, _ = classes(4)
    t0 = mk(2, table)
    try:
        b2 = tr2.encode(t0, include_header=False)
    except Exception:
        return None
    v2 = [S.spec_resolve_string("STR ", b2, i + 1) for i in range(table[0])]
    if any(v is None for v in v2):
        return None
    try:
        x = DecodedStrxSectionGenerator().generate_strx_from_str(t0)
        b4 = tr4.encode(x, include_header=False)
    except Exception as ex:  # noqa
        return f"STR->STRx raised {ex!r}"
    v4 = [S.spec_resolve_string("STRx", b4, i + 1) for i in range(x._number_of_strings)]
    if v4 != v2:
        return "STR->STRx changed the id-to-text mapping"
    return None


def shared_editor_stream(cases):
    from richchk.editor.chk.decoded_str_section_editor import DecodedStrSectionEditor
    from richchk.editor.chk.decoded_strx_section_editor import DecodedStrxSectionEditor
    shared = {2: DecodedStrSectionEditor(), 4: DecodedStrxSectionEditor()}
    call = {2: lambda e, req, t: e.add_strings_to_str_section(req, t), 4: lambda e, req, t: e.add_strings_to_strx_section(req, t)}
    hist = {2: [], 4: []}
    for w, table, req in cases:
        _, _, fresh_add = classes(w)
        fresh = vlib.impl_result(lambda: tbl(fresh_add(req, mk(w, table))))
        hist[w].append([table, req])
        sh = vlib.impl_result(lambda: tbl(call[w](shared[w], req, mk(w, table))))
        if fresh[0] == 1:
            # a table that grew, handed back to the same editor (offsets shift by the new ids)
            grown = mk(w, fresh[1])
            more = req[:1] + ["zz" + (req[0] if req else "q")]
            hist[w].append([list(fresh[1]), more])
            f2 = vlib.impl_result(lambda: tbl(fresh_add(more, grown)))
            s2 = vlib.impl_result(lambda: tbl(call[w](shared[w], more, mk(w, fresh[1]))))
            if f2 != s2:
                return (f"an editor object used for several calls answers differently from a fresh editor: {str(s2)[:120]} "
                        f"instead of {str(f2)[:120]}", w, hist[w][-30:])
        if fresh != sh:
            return (f"an editor object used for several calls answers differently from a fresh editor: {str(sh)[:120]} "
                    f"instead of {str(fresh)[:120]}", w, hist[w][-30:])
    return None


def gen_cases(rng, n):
    cases = []
    for i in range(n):
        w = rng.choice([2, 4])
        table = gen_big_table(rng, w) if (w == 2 and i % 40 == 7) else gen_table(rng, w)
        cases.append((w, table, gen_request(rng, table)))
    # corpus of minimal historical failures (run first in spirit; they are cheap)
    cases[:0] = [
        (2, (1, [4], ["a", "zzz"]), ["new"]),       # unreferenced tail
        (2, (0, [], []), ["x", "y", "x"]),          # empty table
        (2, (1, [4], ["a", "zzz"]), ["zzz"]),       # present but unreferenced
        (4, (2, [12, 13], ["abc"]), ["bc", "c"]),   # interior offsets / suffixes
        (2, (2, [6, 6], ["same"]), ["same", ""]),
    ]
    # offsets whose bytes look like text (the table is binary: nothing may read it as characters)
    for t in PATTERNED_OFFSETS:
        for w in (2, 4):
            for req in (["hello"], ["ello"], ["hello", "brand new", "tail"], ["f" * 5]):
                cases.append((w, patterned_table(w, t), req))
    return cases


def run(ck: vlib.Check):
    n = 1500 if ck.tier == "quick" else 60000
    ck.rule = ("well-formed STR/STRx tables from a grammar (compact, shared, unsorted, interior offsets, offsets on a "
               "NUL, unreferenced data, duplicate texts, empty table, near the u16 limit) x request lists (empty, "
               "duplicates, present, suffix of present, long, new); 7-bit NUL-free texts. The property is judged on the "
               "encoded bytes by an independent offset-to-NUL resolver; implementation vs extracted model on the same "
               "cases. Distinct = distinct (width, table, request); non-trivial = non-empty request.")
    ck.regen(["layouts"])
    with vlib.build_lock():
        built = ck.build(["model/RunC08.vo", "proofs/C08_proofs.vo"])
        props_ok = built and ck.check_props("props/C08.v")
        drv_ok = False
        if built:
            drv_ok, out = vlib.build_driver(PROP)
            ck.oblige("extraction+driver:C08", drv_ok, out)
    rng = ck.rng
    cases = gen_cases(rng, n)
    dist = {"empty_table": 0, "empty_request": 0, "request_has_present": 0, "request_has_dup": 0, "w2": 0, "w4": 0}
    for w, table, req in cases:
        dist["w2" if w == 2 else "w4"] += 1
        dist["empty_table"] += table[0] == 0 and not table[2]
        dist["empty_request"] += not req
        dist["request_has_present"] += any(s in table[2] for s in req)
        dist["request_has_dup"] += len(set(req)) != len(req)
        bad = oracle(w, table, req)
        ck.evaluations += 1
        if req:
            ck.note_case(json.dumps([w, table, req]))
        if bad:
            w, table, req = shrink(w, table, req)
            ck.violation(f"{bad}", {"kind": "add", "w": w, "table": table, "request": req,
                                    "detail": oracle(w, table, req)}, True)
            break
    # histories on ONE editor object: whatever an editor remembers from earlier calls (on other tables, or on the
    # table before it grew) must not change what it answers - the answer of a fresh editor is the reference
    bad_hist = shared_editor_stream(cases[: (400 if ck.tier == "quick" else 8000)])
    ck.evaluations += min(len(cases), 400 if ck.tier == "quick" else 8000)
    if bad_hist:
        ck.violation(bad_hist[0], {"kind": "history", "w": bad_hist[1], "history": bad_hist[2]}, True)
    for w, table, req in cases[: n // 3]:
        if w == 2:
            bad = oracle_strx(table)
            ck.evaluations += 1
            if bad:
                ck.violation(bad, {"kind": "strx", "table": table}, True)
                break
    ck.extra["case_distribution"] = dist
    if drv_ok:
        lines, exp = [], []
        for w, table, req in cases:
            cls, tr, add = classes(w)
            lines.append(f"(1 {w} {T([[ord(c) for c in s] for s in req])} {S.tree_text(tbl_tree(table))})")
            exp.append(S.tree_text(vlib.impl_result(lambda: tbl_tree(tbl(add(req, mk(w, table)))))))
        from richchk.editor.chk.decoded_strx_section_generator import DecodedStrxSectionGenerator
        from richchk.io.richchk.rich_str_lookup_builder import RichStrLookupBuilder
        for w, table, req in cases[: n // 3]:
            if w == 2:
                lines.append(f"(2 {S.tree_text(tbl_tree(table))})")
                exp.append(S.tree_text(tbl_tree(tbl(DecodedStrxSectionGenerator().generate_strx_from_str(mk(2, table))))))
                lines.append(f"(3 2 {S.tree_text(tbl_tree(table))})")
                exp.append(S.tree_text(vlib.impl_result(lambda: [
                    [ord(c) for c in v.value] for _, v in sorted(
                        RichStrLookupBuilder().build_lookup(mk(2, table))._string_by_id_lookup.items())])))
        got = vlib.run_model(PROP, lines)
        mism = [i for i, (g, e) in enumerate(zip(got, exp)) if g != e]
        ck.corr_count("editor / generator / lookup: impl vs extracted model", len(lines), len(mism))
        if mism:
            i = mism[0]
            ck.notes.append(f"first mismatch: {lines[i][:300]} impl {exp[i][:200]} model {got[i][:200]}")
        ck.sample({"case": lines[5][:200], "impl": exp[5][:200]})
        ck.sample({"case": lines[-1][:200], "impl": exp[-1][:200]})


def shrink(w, table, req):
    def fails(t, r):
        try:
            return oracle(w, t, r) is not None
        except Exception:
            return False
    changed = True
    while changed:
        changed = False
        for i in range(len(req)):
            r2 = req[:i] + req[i + 1:]
            if fails(table, r2):
                req, changed = r2, True
                break
    return w, table, req


def replay(path: str) -> int:
    rp = json.loads(Path(path).read_text())
    if rp.get("kind") == "history":
        w = rp["w"]
        cases = [(w, (t[0], t[1], t[2]), r) for t, r in rp["history"]]
        from richchk.editor.chk.decoded_str_section_editor import DecodedStrSectionEditor
        from richchk.editor.chk.decoded_strx_section_editor import DecodedStrxSectionEditor
        ed = DecodedStrSectionEditor() if w == 2 else DecodedStrxSectionEditor()
        bad = False
        for _, table, req in cases:
            _, _, fresh_add = classes(w)
            fresh = vlib.impl_result(lambda: tbl(fresh_add(req, mk(w, table))))
            sh = vlib.impl_result(lambda: tbl((ed.add_strings_to_str_section if w == 2 else ed.add_strings_to_strx_section)(req, mk(w, table))))
            bad = bad or fresh != sh
        print("still failing" if bad else "no longer failing")
        return 1 if bad else 0
    print("replaying:", rp.get("what"))
    if rp.get("kind") == "add":
        t = rp["table"]
        bad = oracle(rp["w"], (t[0], t[1], t[2]), rp["request"])
        print("still failing: " + bad if bad else "no longer failing")
        return 1 if bad else 0
    if rp.get("kind") == "strx":
        t = rp["table"]
        bad = oracle_strx((t[0], t[1], t[2]))
        print("still failing: " + bad if bad else "no longer failing")
        return 1 if bad else 0
    print(json.dumps(rp, indent=1)[:3000])
    return 1
